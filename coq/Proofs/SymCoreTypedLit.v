(* SymCoreTypedLit.v — the nodes built from an applied value conform (the heart of formalise-then-store). *)
From Coq Require Import ZArith NArith List Bool.
Import ListNotations.
From PG Require Import Common.Tactics Model.SymCoreDefs Model.SymCoreOps Model.SymCoreTyped.
From PG Require Import Proofs.SymCoreBase Proofs.SymCoreWF Proofs.SymCoreClone.
From PG Require Import Proofs.SymCoreTypedBase Proofs.SymCoreTypedConf Proofs.SymCoreTypedCopy.
From PG Require Import Model.Typing Proofs.TypingBasics Proofs.TypingApply Proofs.TypingDict Proofs.TypingApplyDict Proofs.TypingTheorems.
Local Open Scope Z_scope.

(* --- structural equality of specs is equality -------------------------------------------------------------------- *)
Lemma optZ_eqb_eq : forall a b, optZ_eqb a b = true -> a = b.
Proof. destruct a, b; simpl; intros; try discriminate; auto. apply Z.eqb_eq in H. congruence. Qed.
Lemma pvs_eqb_eq : forall a b, pvs_eqb a b = true -> a = b.
Proof.
  induction a; destruct b; simpl; intros; try discriminate; auto.
  apply andb_true_iff in H as [H1 H2]. apply pv_eqb_eq in H1. f_equal; auto.
Qed.
Lemma mods_eqb_eq : forall a b, mods_eqb a b = true -> a = b.
Proof.
  intros [n d f] [n' d' f'] H. unfold mods_eqb in H. simpl in H.
  apply andb_true_iff in H as [H H3]. apply andb_true_iff in H as [H1 H2].
  apply Bool.eqb_prop in H1. apply Bool.eqb_prop in H3. subst.
  destruct d, d'; try discriminate; auto. apply pv_eqb_eq in H2. subst. reflexivity.
Qed.

Lemma spec_eqb_eq : forall a b, spec_eqb a b = true -> a = b.
Proof.
  induction a using spec_ind'; intros b E; destruct b; simpl in E; try discriminate;
    repeat match goal with H : _ && _ = true |- _ => apply andb_true_iff in H; destruct H end;
    repeat match goal with
           | H : mods_eqb _ _ = true |- _ => apply mods_eqb_eq in H; subst
           | H : optZ_eqb _ _ = true |- _ => apply optZ_eqb_eq in H; subst
           | H : pvs_eqb _ _ = true |- _ => apply pvs_eqb_eq in H; subst
           | H : Z.eqb _ _ = true |- _ => apply Z.eqb_eq in H; subst
           | H : str_eqb _ _ = true |- _ => apply str_eqb_eq in H; subst
           end; auto.
  - f_equal. auto.
  - f_equal. revert es0 H0. induction H; intros [|y ys] E; try discriminate; auto.
    apply andb_true_iff in E as [E1 E2]. f_equal; auto.
  - destruct schema; [discriminate|]. apply mods_eqb_eq in E. subst. reflexivity.
  - destruct schema as [fs'|]; [|discriminate].
    apply andb_true_iff in E as [E E2]. apply mods_eqb_eq in E2. subst. f_equal. f_equal.
    revert fs' E. induction H as [|[k x] r Hx Hr IH]; intros [|[k' y] ys] E; try discriminate; auto.
    apply andb_true_iff in E as [E1 E3]. apply andb_true_iff in E1 as [E1 E2].
    apply fkey_eqb_eq in E1. subst. simpl in Hx. rewrite (Hx _ E2). f_equal. auto.
  - f_equal. revert cs0 H0. induction H; intros [|y ys] E; try discriminate; auto.
    apply andb_true_iff in E as [E1 E2]. f_equal; auto.
Qed.

Lemma find_spec_sound : forall s tb i r, find_spec s tb i = r -> r <> 0%N -> (1 <= i)%N ->
  (i <= r)%N /\ nth_error tb (N.to_nat (r - i)) = Some s.
Proof.
  induction tb as [|x tb IH]; simpl; intros i r H NZ I.
  - congruence.
  - destruct (spec_eqb x s) eqn:E.
    + apply spec_eqb_eq in E. subst. split; [lia|]. rewrite N.sub_diag. reflexivity.
    + destruct (IH (i + 1)%N r H NZ) as (A & B); [lia|]. split; [lia|].
      replace (N.to_nat (r - i)) with (S (N.to_nat (r - (i + 1)))) by lia. exact B.
Qed.
(* a reference found in the table denotes the spec it was looked up for *)
Lemma spec_at_ref_of : forall ev s sp, spec_at ev (ref_of ev s) = Some sp -> sp = s.
Proof.
  intros ev s sp H. unfold spec_at in H. destruct (ref_of ev s) eqn:R; [discriminate|].
  unfold ref_of in R. destruct (find_spec_sound s (e_tab ev) 1%N (N.pos p) R) as (A & B); [discriminate|lia|].
  rewrite B in H. congruence.
Qed.

(* --- the schemas the invariant theorem is about ------------------------------------------------------------------- *)
(* frozen values and enum candidates are atomic (no dict / list inside): a container held by a frozen field can be written
   to in depth (open finding), and an Enum of containers would constrain the content of a symbolic child *)
Fixpoint atoms (s : spec) : bool :=
  negb (frozen (mods_of s) && (has_container (dflt (mods_of s)) || Typing.is_missing (dflt (mods_of s)))) &&
  match s with
  | SEnum vs _ => forallb (fun v => negb (has_container v)) vs
  | SList e _ _ _ => atoms e
  | STuple es _ _ _ => forallb atoms es
  | SDict (Some fs) _ => forallb (fun kf => atoms (snd kf)) fs
  | SUnion cs _ => forallb atoms cs
  | _ => true
  end.
Definition good (s : spec) : bool := no_union s && keys_ok s && atoms s.

Lemma good_parts : forall s, good s = true -> no_union s = true /\ keys_ok s = true /\ atoms s = true.
Proof. unfold good. intros s H. apply andb_true_iff in H as [H H3]. apply andb_true_iff in H as [H1 H2]. auto. Qed.
Lemma good_list : forall e mn mx m, good (SList e mn mx m) = true -> good e = true.
Proof.
  intros e mn mx m H. apply good_parts in H. destruct H as (A & B & C). simpl in *.
  apply andb_true_iff in C as [_ C]. unfold good. rewrite A, B, C. reflexivity.
Qed.
Lemma good_field : forall fs m k f, good (SDict (Some fs) m) = true -> In (k, f) fs -> good f = true.
Proof.
  intros fs m k f H I. apply good_parts in H. destruct H as (A & B & C). simpl in *.
  apply andb_true_iff in C as [_ C]. apply andb_true_iff in B as [_ B].
  rewrite forallb_forall in A, B, C. unfold good.
  pose proof (A _ I) as A1. pose proof (B _ I) as B1. pose proof (C _ I) as C1. simpl in A1, B1, C1.
  rewrite A1, B1, C1. reflexivity.
Qed.
Lemma good_keys : forall fs m, good (SDict (Some fs) m) = true -> keys_distinct fs = true.
Proof. intros fs m H. apply good_parts in H. destruct H as (_ & B & _). simpl in B. apply andb_true_iff in B as [B _]. exact B. Qed.
Lemma good_not_frozen_container : forall s, good s = true -> frozen (mods_of s) = true -> has_container (dflt (mods_of s)) = false.
Proof.
  intros s H F. apply good_parts in H. destruct H as (_ & _ & C).
  destruct s; simpl in *; rewrite F in C; simpl in C;
    destruct (has_container (dflt m)); simpl in C; try discriminate; auto.
Qed.
Lemma good_frozen_has_value : forall s, good s = true -> frozen (mods_of s) = true -> Typing.is_missing (dflt (mods_of s)) = false.
Proof.
  intros s H F. apply good_parts in H. destruct H as (_ & _ & C).
  destruct s; simpl in *; rewrite F in C; simpl in C;
    destruct (Typing.is_missing (dflt m)); auto; rewrite orb_true_r in C; simpl in C; discriminate.
Qed.
(* only MISSING_VALUE is applied to MISSING_VALUE *)
Lemma good_missing_out : forall p s v, good s = true -> apply p s v = Ok PMissing -> v = PMissing.
Proof.
  intros p s v G H. pose proof (good_parts _ G) as (U & _ & _).
  destruct (apply_missing_out _ _ _ (no_union_top' _ U) H) as [(F & D)|(F & D)]; auto.
  pose proof (good_frozen_has_value _ G F) as M. rewrite D in M. discriminate.
Qed.

(* --- what a fixed point of apply tells about its members ---------------------------------------------------------- *)
Lemma mapM_fixed : forall (f : pv -> res pv) l, TypingApply.mapM f l = Ok l -> Forall (fun x => f x = Ok x) l.
Proof.
  induction l as [|x r IH]; simpl; intros H; auto.
  destruct (f x) eqn:E; simpl in H; [|discriminate].
  destruct (TypingApply.mapM f r) eqn:M; simpl in H; [|discriminate]. inv H. constructor; auto.
Qed.

Lemma fix_list : forall p e mn mx m l, good (SList e mn mx m) = true ->
  apply p (SList e mn mx m) (PList l) = Ok (PList l) ->
  frozen m = false /\ Forall (fun x => apply p e x = Ok x) l /\ size_ok mn mx (len l) = true.
Proof.
  intros p e mn mx m l G H. rewrite apply_eq in H. unfold pipeline in H. simpl mods_of in H.
  destruct (frozen m) eqn:F.
  - destruct (is_missing (PList l) || py_eq (dflt m) (PList l)); inv H.
    pose proof (good_not_frozen_container _ G F) as C. simpl in C. rewrite H1 in C. discriminate.
  - split; auto. simpl in H.
    destruct (TypingApply.mapM (apply p e) l) as [l'|] eqn:M; simpl in H; [|discriminate].
    destruct (size_ok mn mx (len l')) eqn:S; inv H. split; auto. apply mapM_fixed; auto.
Qed.

Lemma nodup_lookup : forall (kvs : list (str * pv)) k x,
  (fix go (l : list (str * pv)) : bool :=
     match l with [] => true | (k, x) :: r => negb (Typing.has_key k r) && dict_keys_nodup x && go r end) kvs = true ->
  In (k, x) kvs -> lookup k kvs = Some x.
Proof.
  induction kvs as [|[k0 x0] r IH]; simpl; intros k x N I; [contradiction|].
  apply andb_true_iff in N as [N N3]. apply andb_true_iff in N as [N1 N2].
  destruct I as [I|I].
  - inv I. rewrite str_eqb_refl. reflexivity.
  - destruct (str_eqb k k0) eqn:E.
    + apply str_eqb_eq in E. subst. apply In_has_key in I. rewrite I in N1. discriminate.
    + apply IH; auto.
Qed.

Lemma apply_missing_fix : forall p s, is_union' s = false ->
  apply p s (dflt (mods_of s)) = Ok PMissing -> apply p s PMissing = Ok PMissing.
Proof.
  intros p s U H. destruct (apply_missing_out _ _ _ U H) as [(F & D)|(F & D)].
  - rewrite apply_eq. unfold pipeline. rewrite F. simpl. rewrite D. reflexivity.
  - rewrite D in H. exact H.
Qed.

Lemma fix_dict : forall p fs m kvs, good (SDict (Some fs) m) = true -> dict_keys_nodup (PDict kvs) = true ->
  apply p (SDict (Some fs) m) (PDict kvs) = Ok (PDict kvs) ->
  frozen m = false /\
  (forall k x, In (k, x) kvs -> exists f, dict_field fs (KS k) = Some f /\ good f = true /\ apply p f x = Ok x) /\
  (forall k, has_const k fs = true -> Typing.has_key k kvs = true).
Proof.
  intros p fs m kvs G N H. rewrite apply_eq in H. unfold pipeline in H. simpl mods_of in H.
  destruct (frozen m) eqn:F.
  - destruct (is_missing (PDict kvs) || py_eq (dflt m) (PDict kvs)); inv H.
    pose proof (good_not_frozen_container _ G F) as C. simpl in C. rewrite H1 in C. discriminate.
  - split; auto. simpl in H.
    destruct (unknown_keys fs kvs) eqn:U; [discriminate|].
    destruct (fields_apply (apply p) fs kvs fs) as [ups|] eqn:FA; simpl in H; [|discriminate].
    injection H as H1. destruct (merge_fixed _ _ H1) as (M1 & M2).
    pose proof (good_keys _ _ G) as KD.
    assert (CS : forall k sp, In (KConst k, sp) fs -> has_const k fs = true) by (intros; eapply has_const_In; eauto).
    simpl in N. split.
    + intros k x I. pose proof (nodup_lookup _ _ _ N I) as L.
      destruct (has_const k fs) eqn:HC.
      * unfold has_const in HC. destruct (field_of (KConst k) fs) as [sp|] eqn:FO; [|discriminate].
        pose proof (field_of_In' _ _ _ FO) as IS.
        destruct (fields_const _ _ _ _ _ FA KD CS _ _ IS) as (x' & Lu & A).
        rewrite (M2 _ _ I _ Lu) in A. exists sp. unfold dict_field. rewrite FO.
        split; auto. split; [eapply good_field; eauto|].
        unfold field_input in A. rewrite L in A. destruct (is_missing x) eqn:MI; auto.
        destruct x; try discriminate. eapply apply_missing_fix; eauto.
        apply no_union_top'. eapply good_field in IS; eauto. apply good_parts in IS. tauto.
      * assert (HD : has_dyn fs = true).
        { unfold unknown_keys in U. destruct (has_dyn fs); auto. simpl in U.
          assert (existsb (fun kv => negb (has_const (fst kv) fs)) kvs = true).
          { apply existsb_exists. exists (k, x). split; auto. simpl. rewrite HC. reflexivity. }
          congruence. }
        unfold has_dyn in HD. destruct (field_of KDyn fs) as [spd|] eqn:FO; [|discriminate].
        pose proof (field_of_In' _ _ _ FO) as IS.
        destruct (fields_dyn _ _ _ _ _ FA KD CS _ IS _ _ HC L) as (y & Lu & A).
        rewrite (M2 _ _ I _ Lu) in A. exists spd. unfold dict_field.
        unfold has_const in HC. destruct (field_of (KConst k) fs); [discriminate|]. rewrite FO.
        split; auto. split; [eapply good_field; eauto|].
        destruct (is_missing x) eqn:MI; auto.
        destruct x; try discriminate. eapply apply_missing_fix; eauto.
        apply no_union_top'. eapply good_field in IS; eauto. apply good_parts in IS. tauto.
    + intros k HC. unfold has_const in HC. destruct (field_of (KConst k) fs) as [sp|] eqn:FO; [|discriminate].
      pose proof (field_of_In' _ _ _ FO) as IS.
      destruct (fields_const _ _ _ _ _ FA KD CS _ _ IS) as (x' & Lu & A).
      apply lookup_In in Lu. eapply M1; eauto.
Qed.

(* --- which fields can hold a list / a dict at all ------------------------------------------------------------------- *)
Lemma py_in_container : forall v vals, py_in v vals = true -> has_container v = true ->
  (match v with PList _ | PDict _ => True | _ => False end) ->
  existsb has_container vals = true.
Proof.
  intros v vals H C T. unfold py_in in H. apply existsb_exists in H. destruct H as (u & I & E).
  apply existsb_exists. exists u. split; auto.
  destruct v; try contradiction; destruct u; simpl in E; try discriminate; reflexivity.
Qed.
Lemma enum_atoms_no_container : forall vs m v, atoms (SEnum vs m) = true -> py_in v vs = true ->
  (match v with PList _ | PDict _ => True | _ => False end) -> False.
Proof.
  intros vs m v A H T. simpl in A. apply andb_true_iff in A as [_ A].
  assert (C : has_container v = true) by (destruct v; try contradiction; reflexivity).
  pose proof (py_in_container _ _ H C T) as E. apply existsb_exists in E. destruct E as (u & I & Cu).
  rewrite forallb_forall in A. specialize (A _ I). rewrite Cu in A. discriminate.
Qed.
Lemma coerce_container : forall vt v v1, coerce vt v = Ok v1 ->
  (match v with PList _ | PDict _ => True | _ => False end) -> v1 = v.
Proof.
  intros vt v v1 H T. unfold coerce in H. destruct vt as [ts|]; [|inv H; auto].
  destruct (isinstance v ts); [inv H; auto|].
  unfold convert in H. destruct (existsb is_float ts); destruct v; try contradiction; simpl in H; discriminate.
Qed.

Lemma fix_list_route : forall p f l, good f = true -> apply p f (PList l) = Ok (PList l) ->
  frozen (mods_of f) = false /\ ((exists e mn mx m, f = SList e mn mx m) \/ (exists m, f = SAny m)).
Proof.
  intros p f l G H. rewrite apply_eq in H. unfold pipeline in H.
  destruct (frozen (mods_of f)) eqn:F.
  - destruct (is_missing (PList l) || py_eq (dflt (mods_of f)) (PList l)); inv H.
    pose proof (good_not_frozen_container _ G F) as C. rewrite H1 in C. discriminate.
  - split; auto.
    destruct (coerce (vtype f) (PList l)) as [v1|] eqn:CO; simpl in H; [|discriminate].
    pose proof (coerce_container _ _ _ CO I) as E. subst v1.
    destruct f; simpl in H; try discriminate; eauto 8.
    destruct (py_in (PList l) vals) eqn:PI; [|discriminate].
    exfalso. apply good_parts in G. destruct G as (_ & _ & A). eapply enum_atoms_no_container; eauto. exact I.
Qed.

Lemma fix_dict_route : forall p f kvs, good f = true -> apply p f (PDict kvs) = Ok (PDict kvs) ->
  frozen (mods_of f) = false /\ ((exists sc m, f = SDict sc m) \/ (exists m, f = SAny m)).
Proof.
  intros p f kvs G H. rewrite apply_eq in H. unfold pipeline in H.
  destruct (frozen (mods_of f)) eqn:F.
  - destruct (is_missing (PDict kvs) || py_eq (dflt (mods_of f)) (PDict kvs)); inv H.
    pose proof (good_not_frozen_container _ G F) as C. rewrite H1 in C. discriminate.
  - split; auto.
    destruct (coerce (vtype f) (PDict kvs)) as [v1|] eqn:CO; simpl in H; [|discriminate].
    pose proof (coerce_container _ _ _ CO I) as E. subst v1.
    destruct f; simpl in H; try discriminate; eauto 8.
    destruct (py_in (PDict kvs) vals) eqn:PI; [|discriminate].
    exfalso. apply good_parts in G. destruct G as (_ & _ & A). eapply enum_atoms_no_container; eauto. exact I.
Qed.

(* --- named forms of the loops inside tlit / lit_pv ------------------------------------------------------------------- *)
Section Lit.
Variable ev : env.
Variable P : bool.
Notation cnode := (cnode ev P).
Notation child_ok := (child_ok ev).
Notation node_ok := (node_ok ev P).

Definition tlit_list (pc : bool) (e : option spec) :=
  fix go (l : list pv) (i : Z) : list (key * lit) :=
    match l with [] => [] | x :: r => (KI i, tlit ev pc e x) :: go r (i + 1) end.
Definition tlit_dict (pc : bool) (b : option spec) :=
  fix go (l : list (str * pv)) : list (key * lit) :=
    match l with [] => [] | (k, x) :: r => (KS k, tlit ev pc (field_opt b (KS k)) x) :: go r end.
Lemma tlit_plist : forall pc s l,
  tlit ev pc s (PList l) =
  LitNode KList (mkFlags false true pc (ref_opt ev (bound_opt false s))) false (tlit_list pc (elem_opt (bound_opt false s)) l 0).
Proof. reflexivity. Qed.
Lemma tlit_pdict : forall pc s kvs,
  tlit ev pc s (PDict kvs) =
  LitNode KDict (mkFlags false true pc (ref_opt ev (bound_opt true s))) false (tlit_dict pc (bound_opt true s) kvs).
Proof. reflexivity. Qed.

Lemma lit_pv_list : forall fl pl its, lit_pv (LitNode KList fl pl its) = PList (map (fun kc => lit_pv (snd kc)) its).
Proof. intros. simpl. f_equal. induction its as [|[k c] r IH]; simpl; auto. f_equal; auto. Qed.
Lemma lit_pv_dict : forall fl pl its,
  lit_pv (LitNode KDict fl pl its) = PDict (map (fun kc => (key_str_of (fst kc), lit_pv (snd kc))) its).
Proof. intros. simpl. f_equal. induction its as [|[k c] r IH]; simpl; auto. f_equal; auto. Qed.

Lemma tlit_list_pv : forall pc e l i, map (fun kc => lit_pv (snd kc)) (tlit_list pc e l i) = l ->
  Forall (fun x => lit_pv (tlit ev pc e x) = x) l.
Proof.
  induction l as [|x r IH]; simpl; intros i H; auto. injection H as H1 H2. constructor; [exact H1|eapply IH; exact H2].
Qed.
Lemma tlit_dict_pv : forall pc b kvs,
  map (fun kc => (key_str_of (fst kc), lit_pv (snd kc))) (tlit_dict pc b kvs) = kvs ->
  Forall (fun kv => lit_pv (tlit ev pc (field_opt b (KS (fst kv))) (snd kv)) = snd kv) kvs.
Proof.
  induction kvs as [|[k x] r IH]; simpl; intros H; auto. injection H as H1 H2. constructor; [exact H1|apply IH; exact H2].
Qed.

(* values that are stored as one leaf *)
Definition atomic (v : pv) : Prop := match v with PList _ | PDict _ => False | _ => True end.
Lemma tlit_atomic : forall pc s v, atomic v -> tlit ev pc s v = LitLeaf (leaf_of_pv v).
Proof. destruct v; simpl; intros; try contradiction; reflexivity. Qed.
Lemma build_leaf : forall ctx pa p lf nx, build ctx pa p (LitLeaf lf) nx = (Leaf lf, nx).
Proof. Transparent build. reflexivity. Opaque build. Qed.
Lemma leaf_of_pv_missing : forall v, leaf_of_pv v = LMissing -> v = PMissing.
Proof. destruct v; simpl; intros H; try discriminate; auto. destruct s as [|[|c] s']; discriminate. Qed.

(* literals built without any spec *)
Lemma tlit_none_free : forall pc v, lit_spec_free (tlit ev pc None v) = true.
Proof.
  intros pc. induction v using pv_ind'; try reflexivity.
  - rewrite tlit_plist. simpl bound_opt. simpl elem_opt. simpl. generalize 0.
    induction H; intros z; simpl; auto. rewrite H. simpl. apply IHForall.
  - rewrite tlit_pdict. simpl bound_opt. simpl.
    induction H as [|[k x] r Hx Hr IH]; simpl; auto. simpl in Hx. rewrite Hx. simpl. exact IH.
Qed.

(* --- what build makes of the items of a literal ---------------------------------------------------------------------- *)
Lemma build_items_rel : forall (Q : key * lit -> key * node -> Prop) rec k ctx me p l i nx,
  (forall kk c, In (kk, c) l -> forall k' cx pa q n, (k <> KList -> k' = kk) -> Q (kk, c) (k', fst (rec cx pa q c n))) ->
  Forall2 Q l (fst (build_items rec k ctx me p l i nx)).
Proof.
  induction l as [|[kk c] r IH]; simpl; intros i nx H; [constructor|].
  pose proof (H kk c (or_introl eq_refl) (match k with KList => KI i | _ => kk end) ctx (Some me)
                (p ++ [match k with KList => KI i | _ => kk end]) nx) as Hc.
  destruct (rec ctx (Some me) (p ++ [match k with KList => KI i | _ => kk end]) c nx) as [c' n1]. simpl in Hc.
  assert (IH' : Forall2 Q r (fst (build_items rec k ctx me p r (i + 1) n1))).
  { apply IH. intros. apply H; auto. }
  destruct (build_items rec k ctx me p r (i + 1) n1) as [r' n2]. simpl in *.
  constructor; auto. apply Hc. destruct k; congruence.
Qed.

Lemma build_node_unsealed : forall ctx pa p k fl its nx, f_sealed fl = false ->
  fst (build ctx pa p (LitNode k fl false its) nx) =
  Node nx k pa p fl (fst (build_items build k (f_partial fl) nx p its 0 (N.succ nx))).
Proof.
  intros. rewrite build_node. cbv zeta. destruct (build_items build k (f_partial fl) nx p its 0 (N.succ nx)) as [its' nx'].
  simpl. unfold ctor_seal. rewrite H. reflexivity.
Qed.

Lemma Forall2_forall_r : forall A B (Q : A -> B -> Prop) (R : B -> Prop) l l',
  Forall2 Q l l' -> (forall a b, In a l -> Q a b -> R b) -> Forall R l'.
Proof. induction 1; intros; constructor; eauto using in_eq, in_cons. Qed.

Definition conf_lit (pp pc : bool) (f : spec) (v : pv) : Prop :=
  forall ctx pa path nx,
    cnode (fst (build ctx pa path (tlit ev pc (Some f) v) nx)) /\
    child_ok pp f (fst (build ctx pa path (tlit ev pc (Some f) v) nx)) /\
    (SymCoreDefs.is_missing (fst (build ctx pa path (tlit ev pc (Some f) v) nx)) = true -> v = PMissing).

Lemma conf_atom : forall v f p pc pp, atomic v -> apply p f v = Ok v -> lit_pv (tlit ev pc (Some f) v) = v ->
  (p = true -> pp = true) -> conf_lit pp pc f v.
Proof.
  intros v f p pc pp A H L PP ctx pa path nx. rewrite tlit_atomic in * by auto. rewrite build_leaf. simpl fst.
  simpl in L. split; [exact I|]. split.
  - simpl. rewrite L. unfold acc. destruct p; [right; split; auto|left; auto].
  - simpl. intros M. destruct (leaf_of_pv v) eqn:E; try discriminate. apply leaf_of_pv_missing; auto.
Qed.

(* a value built without a binding spec: nothing to check below *)
Lemma conf_free : forall pc v ctx pa path nx, cnode (fst (build ctx pa path (tlit ev pc None v) nx)).
Proof. intros. apply cnode_build_free. apply tlit_none_free. Qed.
End Lit.

Section Main.
Variable ev : env.
Variable P : bool.
Notation cnode := (cnode ev P).
Notation child_ok := (child_ok ev).
Notation node_ok := (node_ok ev P).
Notation conf_lit := (conf_lit ev P).

Lemma nodup_list_forall : forall l, dict_keys_nodup (PList l) = true -> Forall (fun x => dict_keys_nodup x = true) l.
Proof. induction l; simpl; intros; auto. apply andb_true_iff in H as [H1 H2]. constructor; auto. Qed.
Lemma present_list_forall : forall l, lists_present (PList l) = true ->
  Forall (fun x => Typing.is_missing x = false /\ lists_present x = true) l.
Proof.
  induction l; simpl; intros; auto. apply andb_true_iff in H as [H H3]. apply andb_true_iff in H as [H1 H2].
  constructor; auto. split; auto. destruct (Typing.is_missing a); auto; discriminate.
Qed.
Lemma nodup_dict_forall : forall kvs, dict_keys_nodup (PDict kvs) = true -> Forall (fun kv => dict_keys_nodup (snd kv) = true) kvs.
Proof.
  induction kvs as [|[k x] r IH]; simpl; intros; auto.
  apply andb_true_iff in H as [H H3]. apply andb_true_iff in H as [H1 H2]. constructor; auto.
Qed.
Lemma present_dict_forall : forall kvs, lists_present (PDict kvs) = true -> Forall (fun kv => lists_present (snd kv) = true) kvs.
Proof. induction kvs as [|[k x] r IH]; simpl; intros; auto. apply andb_true_iff in H as [H1 H2]. constructor; auto. Qed.

Lemma count_present_all : forall its, Forall (fun kc => SymCoreDefs.is_missing (snd kc) = false) its -> count_present its = zlen its.
Proof.
  unfold count_present, zlen. intros its F. f_equal. induction F; simpl; auto. rewrite H. simpl. auto.
Qed.
Lemma Forall2_len' : forall A B (R : A -> B -> Prop) l l', Forall2 R l l' -> length l' = length l.
Proof. induction 1; simpl; auto. Qed.
Lemma tlit_list_length : forall pc e l i, length (tlit_list ev pc e l i) = length l.
Proof. induction l; simpl; intros; auto. Qed.
Lemma tlit_list_in : forall pc e l i kk c, In (kk, c) (tlit_list ev pc e l i) -> exists x, In x l /\ c = tlit ev pc e x.
Proof.
  induction l as [|x r IH]; simpl; intros i kk c H; [contradiction|].
  destruct H as [H|H]; [inv H; eauto|]. destruct (IH _ _ _ H) as (y & A & B). eauto.
Qed.
Lemma tlit_dict_in : forall pc b kvs kk c, In (kk, c) (tlit_dict ev pc b kvs) ->
  exists k x, In (k, x) kvs /\ kk = KS k /\ c = tlit ev pc (field_opt b (KS k)) x.
Proof.
  induction kvs as [|[k x] r IH]; simpl; intros kk c H; [contradiction|].
  destruct H as [H|H]; [inv H; eauto 6|]. destruct (IH _ _ H) as (k' & y & A & B & C). eauto 8.
Qed.
Lemma tlit_dict_keys : forall pc b kvs, map fst (tlit_dict ev pc b kvs) = map (fun kv => KS (fst kv)) kvs.
Proof. induction kvs as [|[k x] r IH]; simpl; auto. f_equal; auto. Qed.

Lemma str_eqb_list_eqb : forall a b, str_eqb a b = SymCoreDefs.list_eqb N.eqb a b.
Proof. induction a; destruct b; simpl; auto. rewrite IHa. reflexivity. Qed.
Lemma has_key_KS : forall (its : list (key * node)) (kvs : list (str * pv)) s,
  map fst its = map (fun kv => KS (fst kv)) kvs -> Typing.has_key s kvs = true -> SymCoreDefs.has_key (KS s) its = true.
Proof.
  unfold SymCoreDefs.has_key, Typing.has_key. intros its kvs s. revert its.
  induction kvs as [|[k x] r IH]; intros [|[k' c] its] E H; simpl in *; try discriminate.
  injection E as E1 E2. subst k'. simpl. rewrite <- str_eqb_list_eqb.
  destruct (str_eqb s k) eqn:SE; auto.
Qed.

Definition conf_stmt (v : pv) : Prop :=
  forall f p pc pp,
    good f = true -> apply p f v = Ok v -> lit_pv (tlit ev pc (Some f) v) = v ->
    dict_keys_nodup v = true -> lists_present v = true ->
    (p = true -> pp = true) -> (p = true -> pc || P = true) -> conf_lit pp pc f v.

Lemma conf_list_case : forall l, Forall conf_stmt l -> conf_stmt (PList l).
Proof.
  intros l IH f p pc pp G A LP ND PR PP PC ctx pa path nx.
  destruct (fix_list_route _ _ _ G A) as (NF & [(e & mn & mx & m & ->)|(m & ->)]).
  - (* a List field *)
    rewrite tlit_plist in *. simpl bound_opt in *. simpl elem_opt in *.
    set (fl := mkFlags false true pc (ref_opt ev (Some (SList e mn mx m)))) in *.
    rewrite build_node_unsealed by reflexivity.
    destruct (fix_list _ _ _ _ _ _ G A) as (_ & FX & SZ).
    rewrite lit_pv_list in LP. injection LP as LP. apply tlit_list_pv in LP.
    pose proof (nodup_list_forall _ ND) as NDs. pose proof (present_list_forall _ PR) as PRs.
    pose proof (good_list _ _ _ _ G) as Ge.
    set (its' := fst (build_items build KList (f_partial fl) nx path (tlit_list ev pc (Some e) l 0) 0 (N.succ nx))).
    assert (R : Forall2 (fun (lc : key * lit) (kn : key * node) =>
                           cnode (snd kn) /\ child_ok (pc || P) e (snd kn) /\ SymCoreDefs.is_missing (snd kn) = false)
                        (tlit_list ev pc (Some e) l 0) its').
    { apply build_items_rel. intros kk c I k' cx pa' q n _. simpl.
      destruct (tlit_list_in _ _ _ _ _ _ I) as (x & Ix & ->).
      rewrite Forall_forall in IH, FX, LP, NDs, PRs.
      destruct (PRs _ Ix) as (NM & PRx).
      destruct (IH _ Ix e p pc (pc || P) Ge (FX _ Ix) (LP _ Ix) (NDs _ Ix) PRx PC PC cx pa' q n) as (C1 & C2 & C3).
      split; auto. split; auto.
      destruct (SymCoreDefs.is_missing (fst (build cx pa' q (tlit ev pc (Some e) x) n))) eqn:M; auto.
      rewrite (C3 eq_refl) in NM. discriminate. }
    assert (LEN : zlen its' = len l).
    { unfold zlen, len. rewrite (Forall2_len' _ _ _ _ _ R). rewrite tlit_list_length. reflexivity. }
    split; [|split].
    + apply cnode_node. split.
      * unfold SymCoreTypedConf.node_ok. destruct (spec_at ev (f_spec fl)) as [sp|] eqn:SA; auto.
        unfold fl in SA. simpl in SA. apply spec_at_ref_of in SA. subst sp. split; [|split].
        -- eapply Forall2_forall_r; [exact R|]. intros a b _ (_ & C2 & _). unfold part. simpl. exact C2.
        -- rewrite count_present_all.
           ++ rewrite LEN. unfold size_ok in SZ. apply andb_true_iff in SZ as [S1 _]. lia.
           ++ eapply Forall2_forall_r; [exact R|]. intros a b _ (_ & _ & C3). exact C3.
        -- destruct mx as [mm|]; auto. rewrite LEN. unfold size_ok in SZ. apply andb_true_iff in SZ as [_ S2]. lia.
      * eapply Forall2_forall_r; [exact R|]. intros a b _ (C1 & _). exact C1.
    + simpl. simpl in NF. rewrite NF. split; reflexivity.
    + simpl. discriminate.
  - (* an Any field: an untyped list *)
    assert (E : tlit ev pc (Some (SAny m)) (PList l) = tlit ev pc None (PList l)) by reflexivity.
    rewrite E. split; [apply conf_free|]. rewrite tlit_plist. simpl bound_opt. rewrite build_node_unsealed by reflexivity.
    split; [|simpl; discriminate]. simpl. simpl in NF. rewrite NF. split; reflexivity.
Qed.

Lemma build_items_keys : forall rec k ctx me p l i nx, k <> KList ->
  map fst (fst (build_items rec k ctx me p l i nx)) = map fst l.
Proof. intros. apply build_items_keys_same; auto. Qed.

Lemma field_opt_dict : forall fs m k, field_opt (Some (SDict (Some fs) m)) k = dict_field fs k.
Proof. reflexivity. Qed.

(* the dict node of a value accepted by a Dict field (as a pg.Dict, or as the attribute dict of an object of class c) *)
Lemma conf_dict_node : forall kd kvs fs m p pc ctx pa path nx fl,
  (kd = KDict \/ exists c, kd = KObj c) ->
  Forall conf_stmt (map snd kvs) ->
  good (SDict (Some fs) m) = true -> apply p (SDict (Some fs) m) (PDict kvs) = Ok (PDict kvs) ->
  lit_pv (tlit ev pc (Some (SDict (Some fs) m)) (PDict kvs)) = PDict kvs ->
  dict_keys_nodup (PDict kvs) = true -> lists_present (PDict kvs) = true ->
  (p = true -> pc || P = true) ->
  f_sealed fl = false -> f_partial fl = pc -> spec_at ev (f_spec fl) = Some (SDict (Some fs) m) ->
  cnode (fst (build ctx pa path (LitNode kd fl false (tlit_dict ev pc (Some (SDict (Some fs) m)) kvs)) nx)).
Proof.
  intros kd kvs fs m p pc ctx pa path nx fl KD IH G A LP ND PR PC SE PA SA.
  assert (KL : kd <> KList) by (destruct KD as [->|(c & ->)]; congruence).
  rewrite build_node_unsealed by auto.
  destruct (fix_dict _ _ _ _ G ND A) as (_ & FX & CK).
  rewrite tlit_pdict in LP. simpl bound_opt in LP. rewrite lit_pv_dict in LP. injection LP as LP. apply tlit_dict_pv in LP.
  pose proof (nodup_dict_forall _ ND) as NDs. pose proof (present_dict_forall _ PR) as PRs.
  set (lits := tlit_dict ev pc (Some (SDict (Some fs) m)) kvs).
  set (its' := fst (build_items build kd (f_partial fl) nx path lits 0 (N.succ nx))).
  assert (R : Forall2 (fun (lc : key * lit) (kn : key * node) =>
                         fst kn = fst lc /\ cnode (snd kn) /\
                         exists f, dict_field fs (fst lc) = Some f /\ child_ok (pc || P) f (snd kn))
                      lits its').
  { apply build_items_rel. intros kk c I k' cx pa' q n K'. simpl. split; [apply K'; auto|].
    destruct (tlit_dict_in _ _ _ _ _ I) as (k & x & Ix & -> & ->).
    destruct (FX _ _ Ix) as (f & DF & Gf & Af).
    rewrite field_opt_dict, DF.
    rewrite Forall_forall in IH, LP, NDs, PRs.
    assert (Isnd : In x (map snd kvs)) by (apply in_map_iff; exists (k, x); auto).
    pose proof (LP _ Ix) as LPx. cbn [fst snd] in LPx. rewrite field_opt_dict, DF in LPx.
    destruct (IH _ Isnd f p pc (pc || P) Gf Af LPx (NDs _ Ix) (PRs _ Ix) PC PC cx pa' q n) as (C1 & C2 & _).
    split; auto. exists f. split; auto. }
  apply cnode_node. split.
  - unfold SymCoreTypedConf.node_ok. rewrite SA.
    assert (B : Forall (fun kc => exists f, dict_field fs (fst kc) = Some f /\ child_ok (part P fl) f (snd kc)) its' /\
                (forall s, has_const s fs = true -> SymCoreDefs.has_key (KS s) its' = true)).
    { split.
      - eapply Forall2_forall_r; [exact R|]. intros a b _ (E & _ & f & DF & CO). exists f. rewrite E. unfold part. rewrite PA. auto.
      - intros s HS. eapply has_key_KS; [|apply CK; exact HS].
        unfold its'. rewrite build_items_keys by auto. unfold lits. apply tlit_dict_keys. }
    destruct KD as [->|(c & ->)]; exact B.
  - eapply Forall2_forall_r; [exact R|]. intros a b _ (_ & C1 & _). exact C1.
Qed.

Lemma conf_dict_case : forall kvs, Forall conf_stmt (map snd kvs) -> conf_stmt (PDict kvs).
Proof.
  intros kvs IH f p pc pp G A LP ND PR PP PC ctx pa path nx.
  destruct (fix_dict_route _ _ _ G A) as (NF & [(sc & m & ->)|(m & ->)]).
  - rewrite tlit_pdict. simpl bound_opt.
    set (fl := mkFlags false true pc (ref_opt ev (Some (SDict sc m)))).
    split; [|split].
    + destruct (spec_at ev (f_spec fl)) as [sp|] eqn:SA.
      * unfold fl in SA. simpl in SA. pose proof (spec_at_ref_of _ _ _ SA) as E. subst sp.
        destruct sc as [fs|].
        -- eapply conf_dict_node; eauto.
        -- (* a schema-less Dict() spec: nothing is checked below *)
           rewrite build_node_unsealed by reflexivity. apply cnode_node. split.
           ++ unfold SymCoreTypedConf.node_ok, fl. simpl f_spec. simpl ref_opt. rewrite SA. exact I.
           ++ eapply Forall2_forall_r.
              ** apply (build_items_rel (fun _ kn => cnode (snd kn))). intros kk c I k' cx pa' q n _. simpl.
                 destruct (tlit_dict_in _ _ _ _ _ I) as (k & x & Ix & -> & ->). simpl field_opt. apply conf_free.
              ** intros a b _ C. exact C.
      * (* the spec is not in the table: the node carries no reference *)
        rewrite build_node_unsealed by reflexivity. apply cnode_node. split.
        -- apply node_ok_untyped. exact SA.
        -- destruct sc as [fs|].
           ++ destruct (fix_dict _ _ _ _ G ND A) as (_ & FX & _).
              rewrite tlit_pdict in LP. simpl bound_opt in LP. rewrite lit_pv_dict in LP. injection LP as LP. apply tlit_dict_pv in LP.
              pose proof (nodup_dict_forall _ ND) as NDs. pose proof (present_dict_forall _ PR) as PRs.
              eapply Forall2_forall_r.
              ** apply (build_items_rel (fun _ kn => cnode (snd kn))). intros kk c I k' cx pa' q n _. simpl.
                 destruct (tlit_dict_in _ _ _ _ _ I) as (k & x & Ix & -> & ->).
                 destruct (FX _ _ Ix) as (f0 & DF & Gf & Af). rewrite field_opt_dict, DF.
                 rewrite Forall_forall in IH, LP, NDs, PRs.
                 assert (Isnd : In x (map snd kvs)) by (apply in_map_iff; exists (k, x); auto).
                 pose proof (LP _ Ix) as LPx. cbn [fst snd] in LPx. rewrite field_opt_dict, DF in LPx.
                 destruct (IH _ Isnd f0 p pc (pc || P) Gf Af LPx (NDs _ Ix) (PRs _ Ix) PC PC cx pa' q n) as (C1 & _). exact C1.
              ** intros a b _ C. exact C.
           ++ eapply Forall2_forall_r.
              ** apply (build_items_rel (fun _ kn => cnode (snd kn))). intros kk c I k' cx pa' q n _. simpl.
                 destruct (tlit_dict_in _ _ _ _ _ I) as (k & x & Ix & -> & ->). simpl field_opt. apply conf_free.
              ** intros a b _ C. exact C.
    + rewrite build_node_unsealed by reflexivity. simpl. simpl in NF. rewrite NF. split; reflexivity.
    + rewrite build_node_unsealed by reflexivity. simpl. discriminate.
  - assert (E : tlit ev pc (Some (SAny m)) (PDict kvs) = tlit ev pc None (PDict kvs)) by reflexivity.
    rewrite E. split; [apply conf_free|]. rewrite tlit_pdict. simpl bound_opt. rewrite build_node_unsealed by reflexivity.
    split; [|simpl; discriminate]. simpl. simpl in NF. rewrite NF. split; reflexivity.
Qed.

(* formalise-then-store: the nodes built from a value that its field's spec maps to itself conform, and so does the
   new member in its container *)
Theorem tlit_conf : forall v, conf_stmt v.
Proof.
  induction v using pv_ind'; try (intros f p pc pp G A LP ND PR PP PC; eapply conf_atom; eauto; exact I).
  - apply conf_list_case; auto.
  - apply conf_dict_case. apply Forall_map. exact H.
Qed.

(* --- roots: a constructed typed value (any sealed / accessor flags, a dict or the attribute dict of an object) ------------ *)
Lemma cnode_build_node : forall ctx pa p k fl its nx,
  node_ok k fl (fst (build_items build k (f_partial fl) nx p its 0 (N.succ nx))) ->
  Forall (fun kc => cnode (snd kc)) (fst (build_items build k (f_partial fl) nx p its 0 (N.succ nx))) ->
  cnode (fst (build ctx pa p (LitNode k fl false its) nx)).
Proof.
  intros. rewrite build_node. cbv zeta. destruct (build_items build k (f_partial fl) nx p its 0 (N.succ nx)) as [its' nx'].
  cbn [fst] in *. apply cnode_ctor_seal. apply cnode_node. auto.
Qed.

(* the members of a dict value accepted by a Dict spec with a schema, built under a node with allow_partial = pc *)
Lemma dict_members_conf : forall kd kvs fs m pc ctx nx path,
  kd <> KList -> good (SDict (Some fs) m) = true -> apply pc (SDict (Some fs) m) (PDict kvs) = Ok (PDict kvs) ->
  lit_pv (tlit ev pc (Some (SDict (Some fs) m)) (PDict kvs)) = PDict kvs ->
  dict_keys_nodup (PDict kvs) = true -> lists_present (PDict kvs) = true ->
  let its' := fst (build_items build kd ctx nx path (tlit_dict ev pc (Some (SDict (Some fs) m)) kvs) 0 (N.succ nx)) in
  Forall (fun kc => cnode (snd kc)) its' /\
  Forall (fun kc => exists f, dict_field fs (fst kc) = Some f /\ child_ok (pc || P) f (snd kc)) its' /\
  (forall s, has_const s fs = true -> SymCoreDefs.has_key (KS s) its' = true).
Proof.
  intros kd kvs fs m pc ctx nx path KL G A LP ND PR its'.
  assert (PC : pc = true -> pc || P = true) by (intros ->; reflexivity).
  assert (IHs : Forall conf_stmt (map snd kvs)) by (apply Forall_forall; intros; apply tlit_conf).
  destruct (fix_dict _ _ _ _ G ND A) as (_ & FX & CK).
  rewrite tlit_pdict in LP. simpl bound_opt in LP. rewrite lit_pv_dict in LP. injection LP as LP. apply tlit_dict_pv in LP.
  pose proof (nodup_dict_forall _ ND) as NDs. pose proof (present_dict_forall _ PR) as PRs.
  set (lits := tlit_dict ev pc (Some (SDict (Some fs) m)) kvs) in *.
  assert (R : Forall2 (fun (lc : key * lit) (kn : key * node) =>
                         fst kn = fst lc /\ cnode (snd kn) /\
                         exists f, dict_field fs (fst lc) = Some f /\ child_ok (pc || P) f (snd kn))
                      lits its').
  { apply build_items_rel. intros kk c I k' cx pa' q n K'. simpl. split; [apply K'; auto|].
    destruct (tlit_dict_in _ _ _ _ _ I) as (k & x & Ix & -> & ->).
    destruct (FX _ _ Ix) as (f & DF & Gf & Af).
    rewrite field_opt_dict, DF.
    rewrite Forall_forall in IHs, LP, NDs, PRs.
    assert (Isnd : In x (map snd kvs)) by (apply in_map_iff; exists (k, x); auto).
    pose proof (LP _ Ix) as LPx. cbn [fst snd] in LPx. rewrite field_opt_dict, DF in LPx.
    destruct (IHs _ Isnd f pc pc (pc || P) Gf Af LPx (NDs _ Ix) (PRs _ Ix) PC PC cx pa' q n) as (C1 & C2 & _).
    split; auto. exists f. split; auto. }
  split; [|split].
  - eapply Forall2_forall_r; [exact R|]. intros a b _ (_ & C1 & _). exact C1.
  - eapply Forall2_forall_r; [exact R|]. intros a b _ (E & _ & f & DF & CO). exists f. rewrite E. auto.
  - intros s HS. eapply has_key_KS; [|apply CK; exact HS].
    unfold its'. rewrite build_items_keys by auto. unfold lits. apply tlit_dict_keys.
Qed.

(* members built without a binding schema *)
Lemma free_members_conf : forall kd kvs pc b ctx nx path, field_opt b = (fun _ => None) ->
  Forall (fun kc => cnode (snd kc)) (fst (build_items build kd ctx nx path (tlit_dict ev pc b kvs) 0 (N.succ nx))).
Proof.
  intros. eapply Forall2_forall_r.
  - apply (build_items_rel (fun _ kn => cnode (snd kn))). intros kk c I k' cx pa' q n _. simpl.
    destruct (tlit_dict_in _ _ _ _ _ I) as (k & x & Ix & -> & ->). rewrite H. apply conf_free.
  - intros a b0 _ C. exact C.
Qed.

Lemma conf_root_dict : forall kd kvs sp pc flR ctx pa path nx,
  (kd = KDict \/ exists c fs m, kd = KObj c /\ sp = SDict (Some fs) m) ->
  good sp = true -> apply pc sp (PDict kvs) = Ok (PDict kvs) ->
  lit_pv (tlit ev pc (Some sp) (PDict kvs)) = PDict kvs ->
  dict_keys_nodup (PDict kvs) = true -> lists_present (PDict kvs) = true ->
  f_partial flR = pc -> f_spec flR = ref_opt ev (bound_opt true (Some sp)) ->
  cnode (fst (build ctx pa path (LitNode kd flR false (tlit_dict ev pc (bound_opt true (Some sp)) kvs)) nx)).
Proof.
  intros kd kvs sp pc flR ctx pa path nx KD G A LP ND PR PA FS. subst pc.
  assert (KL : kd <> KList) by (destruct KD as [->|(c & fs & m & -> & _)]; congruence).
  destruct (fix_dict_route _ _ _ G A) as (NF & [(sc & m & ->)|(m & ->)]).
  - simpl bound_opt in *. destruct sc as [fs|].
    + destruct (dict_members_conf kd kvs fs m (f_partial flR) (f_partial flR) nx path KL G A LP ND PR) as (M1 & M2 & M3).
      apply cnode_build_node; auto.
      unfold SymCoreTypedConf.node_ok. destruct (spec_at ev (f_spec flR)) as [sp'|] eqn:SA; auto.
      rewrite FS in SA. simpl in SA. pose proof (spec_at_ref_of _ _ _ SA) as E. subst sp'.
      assert (B : Forall (fun kc => exists f, dict_field fs (fst kc) = Some f /\ child_ok (part P flR) f (snd kc))
                         (fst (build_items build kd (f_partial flR) nx path (tlit_dict ev (f_partial flR) (Some (SDict (Some fs) m)) kvs) 0 (N.succ nx))) /\
                  (forall s, has_const s fs = true ->
                     SymCoreDefs.has_key (KS s) (fst (build_items build kd (f_partial flR) nx path (tlit_dict ev (f_partial flR) (Some (SDict (Some fs) m)) kvs) 0 (N.succ nx))) = true)).
      { split; auto. }
      destruct KD as [->|(c & fs0 & m0 & -> & _)]; exact B.
    + destruct KD as [->|(c & fs0 & m0 & _ & E)]; [|discriminate].
      apply cnode_build_node; [|apply free_members_conf; reflexivity].
      unfold SymCoreTypedConf.node_ok. destruct (spec_at ev (f_spec flR)) as [sp'|] eqn:SA; auto.
      rewrite FS in SA. simpl in SA. pose proof (spec_at_ref_of _ _ _ SA) as E. subst sp'. exact I.
  - destruct KD as [->|(c & fs0 & m0 & _ & E)]; [|discriminate].
    simpl bound_opt in *. apply cnode_build_node; [|apply free_members_conf; reflexivity].
    apply node_ok_untyped. rewrite FS. reflexivity.
Qed.

Lemma list_members_conf : forall l e mn mx m pc ctx nx path,
  good (SList e mn mx m) = true -> apply pc (SList e mn mx m) (PList l) = Ok (PList l) ->
  lit_pv (tlit ev pc (Some (SList e mn mx m)) (PList l)) = PList l ->
  dict_keys_nodup (PList l) = true -> lists_present (PList l) = true ->
  let its' := fst (build_items build KList ctx nx path (tlit_list ev pc (Some e) l 0) 0 (N.succ nx)) in
  Forall (fun kc => cnode (snd kc)) its' /\
  Forall (fun kc => child_ok (pc || P) e (snd kc)) its' /\
  count_present its' = len l /\ zlen its' = len l /\ size_ok mn mx (len l) = true.
Proof.
  intros l e mn mx m pc ctx nx path G A LP ND PR its'.
  assert (PC : pc = true -> pc || P = true) by (intros ->; reflexivity).
  assert (IHs : Forall conf_stmt l) by (apply Forall_forall; intros; apply tlit_conf).
  destruct (fix_list _ _ _ _ _ _ G A) as (_ & FX & SZ).
  rewrite tlit_plist in LP. simpl bound_opt in LP. simpl elem_opt in LP. rewrite lit_pv_list in LP. injection LP as LP. apply tlit_list_pv in LP.
  pose proof (nodup_list_forall _ ND) as NDs. pose proof (present_list_forall _ PR) as PRs.
  pose proof (good_list _ _ _ _ G) as Ge.
  assert (R : Forall2 (fun (lc : key * lit) (kn : key * node) =>
                         cnode (snd kn) /\ child_ok (pc || P) e (snd kn) /\ SymCoreDefs.is_missing (snd kn) = false)
                      (tlit_list ev pc (Some e) l 0) its').
  { apply build_items_rel. intros kk c I k' cx pa' q n _. simpl.
    destruct (tlit_list_in _ _ _ _ _ _ I) as (x & Ix & ->).
    rewrite Forall_forall in IHs, FX, LP, NDs, PRs.
    destruct (PRs _ Ix) as (NM & PRx).
    destruct (IHs _ Ix e pc pc (pc || P) Ge (FX _ Ix) (LP _ Ix) (NDs _ Ix) PRx PC PC cx pa' q n) as (C1 & C2 & C3).
    split; auto. split; auto.
    destruct (SymCoreDefs.is_missing (fst (build cx pa' q (tlit ev pc (Some e) x) n))) eqn:M; auto.
    rewrite (C3 eq_refl) in NM. discriminate. }
  assert (LEN : zlen its' = len l).
  { unfold zlen, len. rewrite (Forall2_len' _ _ _ _ _ R). rewrite tlit_list_length. reflexivity. }
  split; [|split; [|split; [|split]]]; auto.
  - eapply Forall2_forall_r; [exact R|]. intros a b _ (C1 & _). exact C1.
  - eapply Forall2_forall_r; [exact R|]. intros a b _ (_ & C2 & _). exact C2.
  - rewrite count_present_all; auto. eapply Forall2_forall_r; [exact R|]. intros a b _ (_ & _ & C3). exact C3.
Qed.

Lemma conf_root_list : forall l sp pc flR ctx pa path nx,
  good sp = true -> apply pc sp (PList l) = Ok (PList l) ->
  lit_pv (tlit ev pc (Some sp) (PList l)) = PList l ->
  dict_keys_nodup (PList l) = true -> lists_present (PList l) = true ->
  f_partial flR = pc -> f_spec flR = ref_opt ev (bound_opt false (Some sp)) ->
  cnode (fst (build ctx pa path (LitNode KList flR false (tlit_list ev pc (elem_opt (bound_opt false (Some sp))) l 0)) nx)).
Proof.
  intros l sp pc flR ctx pa path nx G A LP ND PR PA FS. subst pc.
  destruct (fix_list_route _ _ _ G A) as (NF & [(e & mn & mx & m & ->)|(m & ->)]).
  - simpl bound_opt in *. simpl elem_opt in *.
    destruct (list_members_conf l e mn mx m (f_partial flR) (f_partial flR) nx path G A LP ND PR) as (M1 & M2 & M3 & M4 & M5).
    apply cnode_build_node; auto.
    unfold SymCoreTypedConf.node_ok. destruct (spec_at ev (f_spec flR)) as [sp'|] eqn:SA; auto.
    rewrite FS in SA. simpl in SA. pose proof (spec_at_ref_of _ _ _ SA) as E. subst sp'.
    unfold size_ok in M5. apply andb_true_iff in M5 as [S1 S2]. split; [|split].
    + exact M2.
    + rewrite M3. lia.
    + destruct mx; auto. rewrite M4. lia.
  - simpl bound_opt in *. simpl elem_opt in *. apply cnode_build_node.
    + apply node_ok_untyped. rewrite FS. reflexivity.
    + eapply Forall2_forall_r.
      * apply (build_items_rel (fun _ kn => cnode (snd kn))). intros kk c I k' cx pa' q n _. simpl.
        destruct (tlit_list_in _ _ _ _ _ _ I) as (x & Ix & ->). apply conf_free.
      * intros a b _ C. exact C.
Qed.
End Main.

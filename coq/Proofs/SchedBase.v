(* SchedBase.v — elementary facts about the interleaving semantics of Model/Sched.v used by all proofs. *)
From PG Require Import Common.Tactics Model.Sched.

Lemma nth_error_upd_nth_eq : forall A (l : list A) n f x, nth_error l n = Some x -> nth_error (upd_nth n f l) n = Some (f x).
Proof. induction l; destruct n; simpl; intros; try discriminate; [inv H; reflexivity | auto]. Qed.

Lemma nth_error_upd_nth_neq : forall A (l : list A) n m f, n <> m -> nth_error (upd_nth n f l) m = nth_error l m.
Proof. induction l; destruct n, m; simpl; intros; try reflexivity; try congruence. apply IHl. congruence. Qed.

Lemma nth_error_upd_nth_none : forall A (l : list A) n f, nth_error l n = None -> upd_nth n f l = l.
Proof. induction l; destruct n; simpl; intros; try reflexivity; try discriminate. f_equal. auto. Qed.

Lemma length_upd_nth : forall A (l : list A) n f, length (upd_nth n f l) = length l.
Proof. induction l; destruct n; simpl; auto. Qed.

Lemma nth_error_set_th_eq : forall ts t th th', nth_error ts t = Some th -> nth_error (set_th ts t th') t = Some th'.
Proof. intros. unfold set_th. erewrite nth_error_upd_nth_eq; eauto. Qed.

Lemma nth_error_set_th_neq : forall ts t t' th', t <> t' -> nth_error (set_th ts t th') t' = nth_error ts t'.
Proof. intros. unfold set_th. apply nth_error_upd_nth_neq; auto. Qed.

Lemma lockid_eqb_eq : forall a b, lockid_eqb a b = true <-> a = b.
Proof.
  destruct a, b; simpl; split; intros; try discriminate; try reflexivity; try congruence.
  - apply Nat.eqb_eq in H; congruence.
  - inv H. apply Nat.eqb_refl.
  - apply Nat.eqb_eq in H; congruence.
  - inv H. apply Nat.eqb_refl.
Qed.

Lemma lockid_eqb_refl : forall a, lockid_eqb a a = true.
Proof. intros. apply lockid_eqb_eq. reflexivity. Qed.

Lemma lockid_eqb_neq : forall a b, a <> b -> lockid_eqb a b = false.
Proof. intros. destruct (lockid_eqb a b) eqn:E; auto. apply lockid_eqb_eq in E. contradiction. Qed.

(* ---- what a step does not touch -------------------------------------------------------------------------- *)
Lemma apply_mut_locks : forall s g m, locks (apply_mut s g m) = locks g.
Proof. destruct m; reflexivity. Qed.

Lemma fold_mut_locks : forall s ms g, locks (fold_left (apply_mut s) ms g) = locks g.
Proof. induction ms; simpl; intros; auto. rewrite IHms. apply apply_mut_locks. Qed.

Lemma regs_held : forall c me e g th, held (regs c me e g th) = held th.
Proof. destruct e; simpl; intros; repeat destr_match; reflexivity. Qed.

Lemma regs_pc : forall c me e g th, pc (regs c me e g th) = pc th.
Proof. destruct e; simpl; intros; repeat destr_match; reflexivity. Qed.

Lemma regs_script : forall c me e g th, script (regs c me e g th) = script th.
Proof. destruct e; simpl; intros; repeat destr_match; reflexivity. Qed.

Lemma to_script_held : forall au ra th, held (to_script au ra th) = held th.
Proof. unfold to_script; intros. destruct (next_call _ _ _) as [[u r]|]; reflexivity. Qed.

Lemma note_branch_held : forall cn b th, held (note_branch cn b th) = held th.
Proof. destruct cn, b; reflexivity. Qed.

Lemma note_full_locks : forall cn b g th, locks (note_full cn b g th) = locks g.
Proof. destruct cn, b; reflexivity. Qed.

(* ---- decomposition of a step ------------------------------------------------------------------------------- *)
Lemma step1_inv : forall ps c g ts t g' ts',
  step1 ps c g ts t = Some (g', ts') ->
  exists th p i, nth_error ts t = Some th /\ pc th = Some (p, i) /\
    ((fetch ps p i = None /\ g' = g /\ ts' = set_th ts t (to_script (auto_reward c g p th) false th)) \/
     (exists gate a th', fetch ps p i = Some (gate, a) /\ step_act c t a p i g th = Some (g', th') /\ ts' = set_th ts t th')).
Proof.
  unfold step1; intros.
  destruct (nth_error ts t) as [th|] eqn:E; try discriminate.
  destruct (pc th) as [[p i]|] eqn:Epc; try discriminate.
  exists th, p, i. split; auto. split; auto.
  destruct (fetch ps p i) as [[gate a]|] eqn:Ef.
  - destruct (step_act c t a p i g th) as [[g1 th1]|] eqn:Es; try discriminate. inv H.
    right. exists gate, a, th1. auto.
  - inv H. left. auto.
Qed.

Lemma run_app : forall ps c st s1 s2, run ps c st (s1 ++ s2) = run ps c (run ps c st s1) s2.
Proof. intros. unfold run. apply fold_left_app. Qed.

(* an invariant of [step1] is an invariant of every schedule *)
Lemma run_invariant : forall ps c (P : gstate -> list tstate -> Prop),
  (forall g ts t g' ts', P g ts -> step1 ps c g ts t = Some (g', ts') -> P g' ts') ->
  forall sched g ts, P g ts -> P (fst (run ps c (g, ts) sched)) (snd (run ps c (g, ts) sched)).
Proof.
  intros ps c P Hstep. induction sched; simpl; intros; auto.
  change (run ps c (g, ts) (a :: sched)) with (run ps c (step ps c (g, ts) a) sched).
  unfold step. simpl. destruct (step1 ps c g ts a) as [[g' ts']|] eqn:E.
  - apply IHsched. eapply Hstep; eauto.
  - apply IHsched. auto.
Qed.

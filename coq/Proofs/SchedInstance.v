(* SchedInstance.v — the obligation that is re-checked on every run: the programs regenerated from the CURRENT source
   (Gen/SchedProg.v) pass the discipline check.  Everything else in Proofs/Sched*.v is generic in the program set. *)
From PG Require Import Common.Tactics Model.Sched Model.SchedDisc Gen.SchedProg.

Theorem instance_disciplined : disciplined progs = true.
Proof. vm_compute. reflexivity. Qed.

(* the discipline check is not vacuous: it refuses a program whose test-and-set is outside the lock ... *)
Example undisciplined_rejected :
  disciplined [[(true, Branch [VTStatus] CCurPending 1); (true, Stmt [] [VTStatus] ESetCompleted); (false, Done)]] = false.
Proof. vm_compute. reflexivity. Qed.

(* ... and one that appends with an id read in an earlier critical section *)
Example stale_id_rejected :
  disciplined [[(true, Acquire LStudy); (true, Stmt [VTrials] [] EReadId); (false, Release LStudy);
                (true, Acquire LStudy); (true, Branch [VTrials] CFull 2); (false, Release LStudy); (false, Throw XStop);
                (true, Stmt [VTrials] [VTrials] EAppend); (true, Stmt [VCntPend] [VCntPend] EIncPend); (true, Stmt [] [VLatest] ESetLatest);
                (false, Release LStudy); (false, Done)]] = false.
Proof. vm_compute. reflexivity. Qed.

(* ... the lock order: the study lock may not be taken inside the evolution lock (the other way round is what the code does) *)
Example lock_order_rejected :
  req false (Acquire LStudy) (with_locks [LAlgo] a0) = false /\ req false (Acquire LAlgo) (with_locks [LStudy] a0) = true.
Proof. vm_compute. split; reflexivity. Qed.

(* ... and the outcome of a trial may not be written once its report is no longer outstanding (unless the trial is infeasible) *)
Example final_after_report_rejected :
  let own := set_cur_facts true true (Some false) false a0 in
  req_eff ESetFinalLast (set_debts false false false false false false false true own) = false /\
  req_eff ESetFinalLast (set_debts false false false false false false true true own) = true.
Proof. vm_compute. split; reflexivity. Qed.

(* the quiescence hypothesis of the theorems is satisfiable on the generated programs: two co-workers of one group, two
   trials requested, an alternating schedule; both finish, two trials 1..2 exist, both completed and reported once *)
Definition ex_cfg : cfg := {| c_max := Some 2; c_evo := true; c_needs_fb := true; c_pop := 2; c_policy := false; c_stop := [] |}.
Definition ex_workers : list (nat * bool * list uop) :=
  [ (0, false, [UNext; UAdd 3%Z; UDone; UNext; UAdd 5%Z; UDone; UNext]);
    (0, false, [UNext; UAdd 4%Z; UDone; UNext; USkip; UNext]) ].
Fixpoint alternate (n : nat) : list nat := match n with O => [] | S k => 0 :: 1 :: alternate k end.

Example quiescence_reachable :
  let st := run progs ex_cfg (init_state ex_cfg ex_workers) (alternate 500) in
  finished (snd st) = true /\
  map t_id (s_trials (studies (fst st) 0)) = [1; 2] /\
  map t_done (s_trials (studies (fst st) 0)) = [true; true] /\
  map t_fed (s_trials (studies (fst st) 0)) = map (fun x => if t_inf x then 0 else 1) (s_trials (studies (fst st) 0)) /\
  a_fedv (alg (fst st)) = [(0, 1, 4%Z)] /\ map t_final (s_trials (studies (fst st) 0)) = [Some 4%Z; Some 0%Z].
Proof. vm_compute. repeat split; reflexivity. Qed.

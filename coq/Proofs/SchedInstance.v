(* SchedInstance.v — the obligation that is re-checked on every run: the programs regenerated from the CURRENT source
   (Gen/SchedProg.v) pass the discipline check.  Everything else in Proofs/Sched*.v is generic in the program set. *)
From PG Require Import Common.Tactics Model.Sched Model.SchedDisc Gen.SchedProg.

Theorem instance_disciplined : disciplined progs = true.
Proof. vm_compute. reflexivity. Qed.

(* the discipline check is not vacuous: it refuses a program whose test-and-set is outside the lock ... *)
Example undisciplined_rejected :
  disciplined [[(true, Branch [VTStatus] CCurPending 1); (true, Stmt [] [VTStatus] ESetCompleted); (false, Done)]] = false.
Proof. vm_compute. reflexivity. Qed.

(* ... and one that appends with an id read in an earlier critical section *)
Example stale_id_rejected :
  disciplined [[(true, Acquire LStudy); (true, Stmt [VTrials] [] EReadId); (false, Release LStudy);
                (true, Acquire LStudy); (true, Branch [VTrials] CFull 2); (false, Release LStudy); (false, Throw XStop);
                (true, Stmt [VTrials] [VTrials] EAppend); (true, Stmt [VCntPend] [VCntPend] EIncPend); (true, Stmt [] [VLatest] ESetLatest);
                (false, Release LStudy); (false, Done)]] = false.
Proof. vm_compute. reflexivity. Qed.

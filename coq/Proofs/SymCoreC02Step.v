(* SymCoreC02Step.v -- C02_refines_python at the level of [step] (resolution of the arguments, execution, end-of-step gc)
   and C02_history by induction over finite histories of operations on one root container. *)
From Coq Require Import ZArith NArith List Bool Lia.
Import ListNotations.
From PG Require Import Common.Tactics Model.SymCoreDefs Model.SymCoreOps Model.SymCoreSpec Model.SymCoreC02
     Proofs.SymCoreBase Proofs.SymCoreWF Proofs.SymCoreWFOps Proofs.SymCoreClone Proofs.SymCoreIds Proofs.SymCoreC08 Proofs.SymCoreC02Read
     Proofs.SymCoreC02Frame Proofs.SymCoreC02Prim Proofs.SymCoreC02List Proofs.SymCoreC02Items Proofs.SymCoreC02Dict.
From PG Require Model.PyList Model.PyDict.
Local Open Scope Z_scope.

(* --- plain arguments, before resolution ------------------------------------------------------------------------------------- *)
(* a plain Python value: None / bool / int / str, or a literal list / dict (plain or already symbolic) of such values *)
Definition vplain (v : value) : bool :=
  match v with
  | VLit (LitLeaf l) => plain_leaf l
  | VLit l => lit_valid l
  | _ => false
  end.
Definition pval (v : value) : pv := match v with VLit l => plit l | _ => PLeaf LJunk end.
Lemma resolve_plain : forall st v, vplain v = true -> exists rv, resolve st v = Some rv /\ plain_rv rv /\ prv rv = pval v.
Proof.
  intros. destruct v as [l| |]; simpl in H; try discriminate. destruct l as [lf|k fl pl its].
  - exists (RLeaf lf). simpl; auto.
  - exists (RLit (LitNode k fl pl its)). simpl in *. rewrite H. auto.
Qed.
Lemma resolve_all_plain : forall st vs, forallb vplain vs = true ->
  exists rvs, resolve_all st vs = Some rvs /\ Forall plain_rv rvs /\ map prv rvs = map pval vs.
Proof.
  induction vs as [|v vs IH]; simpl; intros. exists []; auto.
  apply andb_true_iff in H. destruct H as [A B].
  destruct (resolve_plain st v A) as (rv & R1 & P1 & E1). destruct (IH B) as (rvs & R2 & P2 & E2).
  exists (rv :: rvs). rewrite R1, R2. simpl. repeat split; auto. congruence.
Qed.
Lemma resolve_kvs_plain : forall st (kvs : list (key * value)), forallb (fun kv => vplain (snd kv)) kvs = true ->
  exists rvs, resolve_kvs st kvs = Some rvs /\ Forall (fun kv => plain_rv (snd kv)) rvs /\
              map (fun kv => (fst kv, prv (snd kv))) rvs = map (fun kv => (fst kv, pval (snd kv))) kvs.
Proof.
  induction kvs as [|[k v] kvs IH]; simpl; intros. exists []; auto.
  apply andb_true_iff in H. destruct H as [A B].
  destruct (resolve_plain st v A) as (rv & R1 & P1 & E1). destruct (IH B) as (rvs & R2 & P2 & E2).
  exists ((k, rv) :: rvs). rewrite R1, R2. simpl. repeat split; auto. congruence.
Qed.

(* the Python call an operation of the catalogue stands for *)
Definition vlop_of (o : op value) : option (PyList.lop pv) :=
  match o with
  | LSet i v => Some (PyList.PLSet i (pval v))
  | LDel i => Some (PyList.PLDel i)
  | LAppend v => Some (PyList.PLAppend (pval v))
  | LInsert i v => Some (PyList.PLInsert i (pval v))
  | LExtend vs => Some (PyList.PLExtend (map pval vs))
  | LPop oi => Some (PyList.PLPop oi)
  | LRemove l => Some (PyList.PLRemove (PLeaf (erase_leaf l)))
  | LClear => Some PyList.PLClear
  | LReverse => Some PyList.PLReverse
  | LSort ks rv => Some (PyList.PLSort ks rv)
  | LIAdd vs => Some (PyList.PLIAdd (map pval vs))
  | LIMul m => Some (PyList.PLIMul m)
  | LAdd vs => Some (PyList.PLAdd (map pval vs))
  | LMul m => Some (PyList.PLMul m)
  | LCopy => Some PyList.PLCopy
  | _ => None
  end.
(* a plain list operation: plain arguments *)
Definition vplain_lop (o : op value) : bool :=
  match o with
  | LSet _ v | LAppend v | LInsert _ v => vplain v
  | LExtend vs | LIAdd vs | LAdd vs => forallb vplain vs
  | LIMul _ | LMul _ | LDel _ | LPop _ | LRemove _ | LClear | LReverse | LSort _ _ | LCopy => true
  | _ => false
  end.
Definition vdop_of (o : op value) : option (PyDict.dop key pv) :=
  match o with
  | DSet _ k v => Some (PyDict.PDSet k (pval v))
  | DDel _ k => Some (PyDict.PDDel k)
  | DPop k d => Some (PyDict.PDPop k (option_map (fun l => PLeaf (erase_leaf l)) d))
  | DPopItem => Some PyDict.PDPopItem
  | DClear => Some PyDict.PDClear
  | DSetDefault k v => Some (PyDict.PDSetDefault k (pval v))
  | DUpdate kvs => Some (PyDict.PDUpdate (map (fun kv => (fst kv, pval (snd kv))) kvs))
  | DIOr kvs => Some (PyDict.PDIOr (map (fun kv => (fst kv, pval (snd kv))) kvs))
  | DCopy => Some PyDict.PDCopy
  | _ => None
  end.
Definition vplain_dop (o : op value) : bool :=
  match o with
  | DSet _ _ v | DSetDefault _ v => vplain v
  | DUpdate kvs | DIOr kvs => forallb (fun kv => vplain (snd kv)) kvs
  | DDel _ _ | DPop _ _ | DPopItem | DClear | DCopy => true
  | _ => false
  end.

Lemma resolve_lop : forall st o lo, vplain_lop o = true -> vlop_of o = Some lo ->
  exists ro, resolve_op st o = Some ro /\ plain_lop' ro /\ lop_of ro = Some lo /\ kind_ok KList ro = true.
Proof.
  intros st o lo P L. destruct o; simpl in P, L; try discriminate; inv L;
    try (eexists; split; [reflexivity|]; simpl; repeat split; auto; fail).
  - destruct (resolve_plain st v P) as (rv & R & PR & E). exists (LSet i rv). simpl. rewrite R. simpl. rewrite E. auto.
  - destruct (resolve_plain st v P) as (rv & R & PR & E). exists (LAppend rv). simpl. rewrite R. simpl. rewrite E. auto.
  - destruct (resolve_plain st v P) as (rv & R & PR & E). exists (LInsert i rv). simpl. rewrite R. simpl. rewrite E. auto.
  - destruct (resolve_all_plain st vs P) as (rvs & R & PR & E). exists (LExtend rvs). simpl. rewrite R. simpl. rewrite E. auto.
  - destruct (resolve_all_plain st vs P) as (rvs & R & PR & E). exists (LIAdd rvs). simpl. rewrite R. simpl. rewrite E. auto.
  - destruct (resolve_all_plain st vs P) as (rvs & R & PR & E). exists (LAdd rvs). simpl. rewrite R. simpl. rewrite E. auto.
Qed.
Lemma resolve_dop : forall st o d, vplain_dop o = true -> vdop_of o = Some d ->
  exists ro, resolve_op st o = Some ro /\ plain_dop ro /\ dop_of ro = Some d /\ kind_ok KDict ro = true.
Proof.
  intros st o d P L. destruct o; simpl in P, L; try discriminate; inv L;
    try (eexists; split; [reflexivity|]; simpl; repeat split; auto; fail).
  - destruct (resolve_plain st v P) as (rv & R & PR & E). exists (DSet attr k rv). simpl. rewrite R. simpl. rewrite E. auto.
  - destruct (resolve_plain st v P) as (rv & R & PR & E). exists (DSetDefault k rv). simpl. rewrite R. simpl. rewrite E. auto.
  - destruct (resolve_kvs_plain st kvs P) as (rvs & R & PR & E). exists (DUpdate rvs). simpl. rewrite R. simpl. rewrite E. auto.
  - destruct (resolve_kvs_plain st kvs P) as (rvs & R & PR & E). exists (DIOr rvs). simpl. rewrite R. simpl. rewrite E. auto.
Qed.

(* --- one step --------------------------------------------------------------------------------------------------------------------- *)
(* ok / error class *)
Definition out_class {S R} (out : outcome) (py : (S * R) + PyList.pyerr) : Prop :=
  match out, py with
  | Ok _, inl _ => True
  | Err e, inr pe => e = err_of pe
  | _, _ => False
  end.

Section Step.
Variables (q : quirks) (ps : pos) (tid : N) (pa : option N) (fl : flags).
Hypothesis NQ : no_quirks q.

Theorem step_list_refines : forall st its sc o lo,
  WFI st -> at_is st ps tid KList pa fl its -> clean its -> anc_clean st ps -> permits sc fl ->
  vplain_lop o = true -> vlop_of o = Some lo ->
  exists its',
    at_is (fst (step q st (mkSop sc ps o))) ps tid KList pa fl its' /\ clean its' /\ anc_clean (fst (step q st (mkSop sc ps o))) ps /\
    evals its' = PyList.lstate pv_pyeq (evals its) lo /\
    out_class (snd (step q st (mkSop sc ps o))) (py_lstep (evals its) lo) /\
    (* the value of the call, relative to the state the operation produced (before the end-of-step gc) *)
    exists ro st1, resolve_op st o = Some ro /\ exec q sc st ps tid KList (snd ps) fl its ro = (st1, snd (step q st (mkSop sc ps o))) /\
                   match py_lstep (evals its) lo with inl (_, ret) => ret_agrees st1 (snd (step q st (mkSop sc ps o))) ret | inr _ => True end.
Proof.
  intros st its sc o lo W R C A PM P L.
  destruct (resolve_lop st o lo P L) as (ro & RO & PL & LO & KO).
  assert (G : get_at st (o_pos (mkSop sc ps o)) = Some (Node tid KList pa (snd ps) fl its)) by exact R.
  assert (KO' : kind_ok KList (o_op (mkSop sc ps o)) = true).
  { simpl. destruct o; simpl in *; try discriminate; auto; destruct (resolve st v); simpl in RO; inv RO; auto. }
  rewrite (step_unfold q st _ tid KList pa (snd ps) fl its ro G KO' RO). simpl.
  destruct (exec q sc st ps tid KList (snd ps) fl its ro) as [st1 out] eqn:E. simpl.
  pose proof (exec_list_refines_wf q sc ps tid pa fl NQ st its ro lo st1 out W R C A PM PL LO E) as H.
  pose proof (get_at_lt _ _ _ R) as LT.
  unfold PyList.lstate. fold (py_lstep (evals its) lo).
  destruct (py_lstep (evals its) lo) as [[l' ret]|e].
  - destruct H as [(its' & R' & C' & E' & K' & A' & W') RA].
    exists its'. repeat split; auto.
    + apply get_at_gc; auto.
    + eapply anc_clean_gc; eauto.
    + destruct out; simpl; auto. destruct ret; simpl in RA; try contradiction; try discriminate;
        repeat match goal with H : exists _, _ |- _ => destruct H end; intuition discriminate.
    + exists ro, st1. auto.
  - destruct H as [ES EO]. subst. rewrite gc_same.
    exists its. repeat split; auto. exists ro, st. auto.
Qed.

Theorem step_dict_refines : forall st its sc o d,
  wfs st -> at_is st ps tid KDict pa fl its -> clean its -> anc_clean st ps -> permits sc fl ->
  vplain_dop o = true -> vdop_of o = Some d ->
  exists its',
    at_is (fst (step q st (mkSop sc ps o))) ps tid KDict pa fl its' /\ clean its' /\ anc_clean (fst (step q st (mkSop sc ps o))) ps /\
    eitems its' = PyDict.dstate key_eqb pv_pyeq (eitems its) d /\
    out_class (snd (step q st (mkSop sc ps o))) (py_dstep (eitems its) d) /\
    exists ro st1, resolve_op st o = Some ro /\ exec q sc st ps tid KDict (snd ps) fl its ro = (st1, snd (step q st (mkSop sc ps o))) /\
                   match py_dstep (eitems its) d with inl (_, ret) => dret_agrees st1 (snd (step q st (mkSop sc ps o))) ret | inr _ => True end.
Proof.
  intros st its sc o d W R C A PM P L.
  destruct (resolve_dop st o d P L) as (ro & RO & PL & LO & KO).
  assert (G : get_at st (o_pos (mkSop sc ps o)) = Some (Node tid KDict pa (snd ps) fl its)) by exact R.
  assert (KO' : kind_ok KDict (o_op (mkSop sc ps o)) = true).
  { simpl. destruct o; simpl in *; try discriminate; auto; destruct (resolve st v); simpl in RO; inv RO; auto. }
  rewrite (step_unfold q st _ tid KDict pa (snd ps) fl its ro G KO' RO). simpl.
  destruct (exec q sc st ps tid KDict (snd ps) fl its ro) as [st1 out] eqn:E. simpl.
  pose proof (exec_dict_refines q sc ps tid pa fl NQ st its ro d st1 out W R C A PM PL LO E) as H.
  pose proof (get_at_lt _ _ _ R) as LT.
  unfold PyDict.dstate. fold (py_dstep (eitems its) d).
  destruct (py_dstep (eitems its) d) as [[d' ret]|e].
  - destruct H as [(its' & R' & C' & E' & K' & A' & W') RA].
    exists its'. repeat split; auto.
    + apply get_at_gc; auto.
    + eapply anc_clean_gc; eauto.
    + destruct out; simpl; auto. destruct ret; simpl in RA; try contradiction; try discriminate;
        repeat match goal with H : exists _, _ |- _ => destruct H | H : _ \/ _ |- _ => destruct H end; intuition discriminate.
    + exists ro, st1. auto.
  - destruct H as [ES EO]. subst. rewrite gc_same.
    exists its. repeat split; auto. exists ro, st. auto.
Qed.
End Step.

(* --- histories ------------------------------------------------------------------------------------------------------------------------ *)
(* a history on one container: every operation is plain with respect to the contents it meets (followed on the Python
   side), and the target lets the write through *)
Fixpoint lhist_ok (fl : flags) (l : list pv) (h : list (scope * op value)) : Prop :=
  match h with
  | [] => True
  | (sc, o) :: h' =>
      permits sc fl /\ vplain_lop o = true /\
      exists lo, vlop_of o = Some lo /\ lhist_ok fl (PyList.lstate pv_pyeq l lo) h'
  end.
Fixpoint lhist_py (l : list pv) (h : list (scope * op value)) : list pv :=
  match h with
  | [] => l
  | (_, o) :: h' => match vlop_of o with Some lo => lhist_py (PyList.lstate pv_pyeq l lo) h' | None => l end
  end.
Fixpoint dhist_ok (fl : flags) (d : list (key * pv)) (h : list (scope * op value)) : Prop :=
  match h with
  | [] => True
  | (sc, o) :: h' =>
      permits sc fl /\ vplain_dop o = true /\
      exists po, vdop_of o = Some po /\ dhist_ok fl (PyDict.dstate key_eqb pv_pyeq d po) h'
  end.
Fixpoint dhist_py (d : list (key * pv)) (h : list (scope * op value)) : list (key * pv) :=
  match h with
  | [] => d
  | (_, o) :: h' => match vdop_of o with Some po => dhist_py (PyDict.dstate key_eqb pv_pyeq d po) h' | None => d end
  end.
Definition on_pos (ps : pos) (h : list (scope * op value)) : list sop := map (fun so => mkSop (fst so) ps (snd so)) h.

Section History.
Variables (q : quirks) (ps : pos) (tid : N) (pa : option N) (fl : flags).
Hypothesis NQ : no_quirks q.

Theorem history_list_refines : forall h st its,
  WFI st -> at_is st ps tid KList pa fl its -> clean its -> anc_clean st ps -> lhist_ok fl (evals its) h ->
  exists its', at_is (run_ops q st (on_pos ps h)) ps tid KList pa fl its' /\ clean its' /\ anc_clean (run_ops q st (on_pos ps h)) ps /\
               WFI (run_ops q st (on_pos ps h)) /\ evals its' = lhist_py (evals its) h.
Proof.
  induction h as [|[sc o] h IH]; intros st its W R C A OK; simpl in *.
  - exists its; auto.
  - destruct OK as (PM & P & lo & L & OK'). rewrite L.
    destruct (step_list_refines q ps tid pa fl NQ st its sc o lo W R C A PM P L) as (its1 & R1 & C1 & A1 & E1 & _).
    unfold stepS at 1. fold (run_ops q).
    assert (W1 : WFI (fst (step q st (mkSop sc ps o)))) by (apply step_WFI; auto).
    rewrite <- E1 in OK'. destruct (IH _ its1 W1 R1 C1 A1 OK') as (its' & R' & C' & A' & W' & E').
    exists its'. repeat split; auto; try apply W'. rewrite E', E1. reflexivity.
Qed.

Theorem history_dict_refines : forall h st its,
  wfs st -> at_is st ps tid KDict pa fl its -> clean its -> anc_clean st ps -> dhist_ok fl (eitems its) h ->
  exists its', at_is (run_ops q st (on_pos ps h)) ps tid KDict pa fl its' /\ clean its' /\ anc_clean (run_ops q st (on_pos ps h)) ps /\
               wfs (run_ops q st (on_pos ps h)) /\ eitems its' = dhist_py (eitems its) h.
Proof.
  induction h as [|[sc o] h IH]; intros st its W R C A OK; simpl in *.
  - exists its; auto.
  - destruct OK as (PM & P & po & L & OK'). rewrite L.
    destruct (step_dict_refines q ps tid pa fl NQ st its sc o po W R C A PM P L) as (its1 & R1 & C1 & A1 & E1 & _).
    unfold stepS at 1. fold (run_ops q).
    assert (W1 : wfs (fst (step q st (mkSop sc ps o)))) by (apply step_wfs; auto).
    rewrite <- E1 in OK'. destruct (IH _ its1 W1 R1 C1 A1 OK') as (its' & R' & C' & A' & W' & E').
    exists its'. repeat split; auto. rewrite E', E1. reflexivity.
Qed.

(* in terms of the erasure of the whole container *)
Corollary history_list_erase : forall h st its,
  WFI st -> at_is st ps tid KList pa fl its -> clean its -> anc_clean st ps -> lhist_ok fl (evals its) h ->
  option_map erase (get_at (run_ops q st (on_pos ps h)) ps) = Some (plist (lhist_py (evals its) h)).
Proof.
  intros. destruct (history_list_refines h st its H H0 H1 H2 H3) as (its' & R' & C' & A' & W' & E').
  rewrite R'. simpl. f_equal. rewrite <- E'. eapply erase_list_at; eauto. apply W'.
Qed.
Corollary history_dict_erase : forall h st its,
  wfs st -> at_is st ps tid KDict pa fl its -> clean its -> anc_clean st ps -> dhist_ok fl (eitems its) h ->
  option_map erase (get_at (run_ops q st (on_pos ps h)) ps) = Some (PNode KDict (dhist_py (eitems its) h)).
Proof.
  intros. destruct (history_dict_refines h st its H H0 H1 H2 H3) as (its' & R' & C' & A' & W' & E').
  rewrite R'. simpl. f_equal. rewrite <- E'. reflexivity.
Qed.
End History.

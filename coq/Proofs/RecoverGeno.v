(* RecoverGeno.v — the abstract search space of Model/Recover.v (DNAs as indices 0 .. m-1, Sweeping = count up)
   is the enumeration of a real DNASpec: for every finite well-formed spec of Model/Geno.v, decoding the index
   model's proposals through [all_valid] gives exactly what Sweeping._propose (next_dna of the last proposed
   DNA, first_dna at the start) yields.  Uses C11's next_exact / first_head. *)
From PG Require Import Common.Tactics Model.Geno Proofs.GenoBasics Proofs.GenoValid Proofs.GenoOrder Proofs.GenoNext Proofs.GenoIter.
From PG Require Import Model.Recover.

Lemma skipn_mid : forall {A} (pre : list A) x post, skipn (S (length pre)) (pre ++ x :: post) = post.
Proof. induction pre; intros; simpl; [reflexivity | apply IHpre]. Qed.
Lemma skipn_mid0 : forall {A} (pre : list A) x post, skipn (length pre) (pre ++ x :: post) = x :: post.
Proof. induction pre; intros; simpl; [reflexivity | apply IHpre]. Qed.

Lemma firstn_min_skip : forall {A} (l : list A) f, firstn (Nat.min f (length l)) l = firstn f l.
Proof.
  induction l; intros f; simpl.
  - rewrite Nat.min_0_r. destruct f; reflexivity.
  - destruct f; simpl; [reflexivity|]. f_equal. apply IHl.
Qed.

Section SweepSpace.
  Variable s : Geno.dspec.
  Hypothesis Hfin : Geno.finite s = true.
  Hypothesis Hwf : Geno.wf s = true.
  Notation L := (Geno.all_valid s).

  Lemma next_at : forall pre d post, L = pre ++ d :: post -> Geno.next s d = hd_error post.
  Proof.
    intros pre d post E.
    assert (Geno.valid s d = true) as Hv by (apply valid_iff; auto; rewrite E; apply in_or_app; simpl; auto).
    rewrite (next_exact s Hfin Hwf d Hv), E. apply succ_in_app.
    pose proof (sorted_NoDup _ (all_valid_sorted s)) as Hn. rewrite E in Hn.
    apply NoDup_remove_2 in Hn. intros H; apply Hn; apply in_or_app; auto.
  Qed.

  Lemma sweeping_after : forall f post pre d, L = pre ++ d :: post -> Geno.sweeping s f (Some d) = firstn f post.
  Proof.
    induction f; intros post pre d E; simpl; [reflexivity|].
    rewrite (next_at _ _ _ E). destruct post as [|y post']; simpl; [reflexivity|].
    f_equal. apply (IHf post' (pre ++ [d])). rewrite <- app_assoc. assumption.
  Qed.

  Lemma sweeping_start : forall f, Geno.sweeping s f None = firstn f L.
  Proof.
    intros [|f]; simpl; [reflexivity|].
    pose proof (first_head s Hfin Hwf) as Hh. destruct L as [|x r] eqn:E; [discriminate|]. simpl in Hh. inv Hh.
    simpl. f_equal. apply (sweeping_after f r []). assumption.
  Qed.

  (* the state of Sweeping after c proposals: in the index model, and over the spec *)
  Definition last_idx (c : nat) : option Z := match c with O => None | S c' => Some (Z.of_nat c') end.
  Definition last_dna (c : nat) : option Geno.sdna := match c with O => None | S c' => nth_error L c' end.

  Lemma sweeping_from : forall f c, c <= length L -> Geno.sweeping s f (last_dna c) = firstn f (skipn c L).
  Proof.
    intros f [|c'] Hc.
    - simpl. apply sweeping_start.
    - unfold last_dna. destruct (nth_error L c') as [d|] eqn:En; [|apply nth_error_None in En; lia].
      apply nth_error_split in En. destruct En as (pre & post & E & Hl).
      rewrite (sweeping_after f post pre d E). rewrite E. subst c'. rewrite skipn_mid. reflexivity.
  Qed.

  (* the proposals of the index model, with the terminating marker dropped *)
  Definition proposals (l : list Z) : list nat := map Z.to_nat (filter (fun z => (0 <=? z)%Z) l).

  Lemma continue_sweep_step : forall m f np nf last,
    continue_from (Sweeping m) (S f) (mkSw np nf last) =
    let nxt := match last with Some i => (i + 1)%Z | None => 0%Z end in
    if (nxt <? m)%Z then nxt :: continue_from (Sweeping m) f (mkSw (S np) nf (Some nxt)) else [(-1)%Z].
  Proof.
    intros. simpl. unfold sw_propose. simpl.
    destruct (match last with Some i => (i + 1)%Z | None => 0%Z end <? m)%Z; reflexivity.
  Qed.

  Lemma index_from : forall f c np nf, c <= length L ->
    proposals (continue_from (Sweeping (Z.of_nat (length L))) f (mkSw np nf (last_idx c))) = seq c (Nat.min f (length L - c)).
  Proof.
    induction f; intros c np nf Hc; [reflexivity|].
    rewrite continue_sweep_step.
    assert ((match last_idx c with Some i => (i + 1)%Z | None => 0%Z end) = Z.of_nat c) as En
      by (destruct c; simpl; lia).
    cbv zeta. rewrite En.
    destruct (Z.of_nat c <? Z.of_nat (length L))%Z eqn:Elt.
    - apply Z.ltb_lt in Elt.
      destruct (length L - c) as [|k] eqn:Ek; [lia|].
      change (Some (Z.of_nat c)) with (last_idx (S c)).
      unfold proposals. cbn [filter]. replace (0 <=? Z.of_nat c)%Z with true by (symmetry; apply Z.leb_le; lia).
      cbn [map]. rewrite Nat2Z.id.
      fold (proposals (continue_from (Sweeping (Z.of_nat (length L))) f (mkSw (S np) nf (last_idx (S c))))).
      rewrite IHf by lia. replace (length L - S c) with k by lia. reflexivity.
    - apply Z.ltb_ge in Elt. replace (length L - c) with 0 by lia. rewrite Nat.min_0_r. reflexivity.
  Qed.

  Lemma map_nth_error_seq : forall {A} (l : list A) c n, c + n <= length l ->
    map (nth_error l) (seq c n) = map Some (firstn n (skipn c l)).
  Proof.
    intros A l c n. revert c. induction n; intros c H; simpl; [reflexivity|].
    destruct (nth_error l c) as [x|] eqn:En; [|apply nth_error_None in En; lia].
    rewrite IHn by lia.
    apply nth_error_split in En. destruct En as (pre & post & E & Hl). subst l c.
    rewrite skipn_mid, skipn_mid0. reflexivity.
  Qed.

  (* the bridge: decode the index model's proposals through the enumeration *)
  Theorem sweeping_over_spec : forall f c np nf, c <= length L ->
    map (nth_error L) (proposals (continue_from (Sweeping (Z.of_nat (length L))) f (mkSw np nf (last_idx c))))
    = map Some (Geno.sweeping s f (last_dna c)).
  Proof.
    intros f c np nf Hc. rewrite index_from, sweeping_from by assumption.
    rewrite map_nth_error_seq by lia.
    f_equal. rewrite <- (skipn_length c L). apply firstn_min_skip.
  Qed.
End SweepSpace.

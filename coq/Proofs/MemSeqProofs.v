(* MemSeqProofs.v — the heap of shared record lists (MemorySequenceIO) refines generation-stamped handles. *)
From PG Require Import Common.Tactics Model.Json Model.MemFS Model.MemSeq Proofs.JsonProofs Proofs.MemFSTree.
From Coq Require Import NArith Arith.

Lemma plookup_pset_same : forall p i root, plookup p (pset p i root) = Some i.
Proof.
  induction root as [|[p' j] root IH]; simpl; [rewrite str_eqb_refl; reflexivity|].
  destruct (str_eqb p p') eqn:E; simpl; rewrite E; [reflexivity | exact IH].
Qed.
Lemma plookup_pset_other : forall q p i root, q <> p -> plookup q (pset p i root) = plookup q root.
Proof.
  intros q p i root Hne. apply str_eqb_neq in Hne.
  induction root as [|[p' j] root IH]; simpl; [rewrite Hne; reflexivity|].
  destruct (str_eqb p p') eqn:E; simpl.
  - apply str_eqb_eq in E. subst p'. rewrite Hne. reflexivity.
  - destruct (str_eqb q p'); [reflexivity | exact IH].
Qed.
Lemma flookup_fset_same : forall p x fs, flookup p (fset p x fs) = Some x.
Proof.
  induction fs as [|[p' y] fs IH]; simpl; [rewrite str_eqb_refl; reflexivity|].
  destruct (str_eqb p p') eqn:E; simpl; rewrite E; [reflexivity | exact IH].
Qed.
Lemma flookup_fset_other : forall q p x fs, q <> p -> flookup q (fset p x fs) = flookup q fs.
Proof.
  intros q p x fs Hne. apply str_eqb_neq in Hne.
  induction fs as [|[p' y] fs IH]; simpl; [rewrite Hne; reflexivity|].
  destruct (str_eqb p p') eqn:E; simpl.
  - apply str_eqb_eq in E. subst p'. rewrite Hne. reflexivity.
  - destruct (str_eqb q p'); [reflexivity | exact IH].
Qed.

Lemma nth_error_list_upd_same : forall {A} (l : list A) i f, nth_error (list_upd l i f) i = option_map f (nth_error l i).
Proof. induction l as [|x l IH]; intros [|i] f; simpl; try reflexivity. apply IH. Qed.
Lemma nth_error_list_upd_other : forall {A} (l : list A) i j f, j <> i -> nth_error (list_upd l i f) j = nth_error l j.
Proof.
  induction l as [|x l IH]; intros [|i] [|j] f H; simpl; try reflexivity; try contradiction.
  apply IH. intro. apply H. congruence.
Qed.
Lemma length_list_upd : forall {A} (l : list A) i f, length (list_upd l i f) = length l.
Proof. induction l as [|x l IH]; intros [|i] f; simpl; try reflexivity. rewrite IH. reflexivity. Qed.
Lemma nth_error_snoc_old : forall {A} (l : list A) x i y, nth_error l i = Some y -> nth_error (l ++ [x]) i = Some y.
Proof. intros. rewrite nth_error_app1; [assumption|]. apply nth_error_Some. congruence. Qed.
Lemma nth_error_snoc_new : forall {A} (l : list A) x, nth_error (l ++ [x]) (length l) = Some x.
Proof. intros. rewrite nth_error_app2 by lia. rewrite Nat.sub_diag. reflexivity. Qed.
Lemma nth_error_snoc_inv : forall {A} (l : list A) x k y, nth_error (l ++ [x]) k = Some y ->
  (k < length l /\ nth_error l k = Some y) \/ (k = length l /\ y = x).
Proof.
  intros A l x k y H. destruct (Nat.lt_ge_cases k (length l)) as [L|L].
  - left. split; [assumption|]. rewrite nth_error_app1 in H by assumption. exact H.
  - right. rewrite nth_error_app2 in H by assumption.
    destruct (k - length l) as [|d] eqn:E; simpl in H; [inv H; split; [lia | reflexivity]|].
    destruct d; discriminate.
Qed.

Definition handle_ok (s : sstate) (a : astate) (ch : handle) (ah : ahandle) : Prop :=
  h_mode ch = ah_mode ah /\ h_closed ch = ah_closed ah /\ h_list ch < length (s_heap s) /\
  exists i g rs, plookup (ah_path ah) (s_root s) = Some i /\ flookup (ah_path ah) (a_files a) = Some (g, rs) /\
    ah_gen ah <= g /\
    (ah_gen ah = g -> h_list ch = i) /\
    (ah_gen ah <> g -> forall q j, plookup q (s_root s) = Some j -> j <> h_list ch).

Record sim (s : sstate) (a : astate) : Prop := {
  sim_len : length (s_handles s) = length (a_handles a);
  sim_files : forall p, match plookup p (s_root s), flookup p (a_files a) with
                        | None, None => True
                        | Some i, Some (g, rs) => nth_error (s_heap s) i = Some rs
                        | _, _ => False
                        end;
  sim_inj : forall p q i, plookup p (s_root s) = Some i -> plookup q (s_root s) = Some i -> p = q;
  sim_handles : forall k ch, nth_error (s_handles s) k = Some ch ->
                  exists ah, nth_error (a_handles a) k = Some ah /\ handle_ok s a ch ah
}.

Lemma sim_empty : sim s_empty a_empty.
Proof. constructor; simpl; intros; try reflexivity; try exact I; try discriminate. destruct k; discriminate. Qed.

Lemma sim_root_bound : forall s a p i, sim s a -> plookup p (s_root s) = Some i -> i < length (s_heap s).
Proof.
  intros s a p i Hsim H. pose proof (sim_files s a Hsim p) as F. rewrite H in F.
  destruct (flookup p (a_files a)) as [[g rs]|]; [|contradiction]. apply nth_error_Some. congruence.
Qed.

Theorem sim_records : forall s a p, sim s a ->
  records_at s p = match flookup p (a_files a) with Some (_, rs) => rs | None => [] end.
Proof.
  intros s a p Hsim. unfold records_at. pose proof (sim_files s a Hsim p) as F.
  destruct (plookup p (s_root s)) as [i|]; destruct (flookup p (a_files a)) as [[g rs]|]; try contradiction; [|reflexivity].
  apply nth_error_nth. exact F.
Qed.

Lemma list_upd_out : forall {A} (l : list A) i f, nth_error l i = None -> list_upd l i f = l.
Proof. induction l as [|x l IH]; intros [|i] f H; simpl in *; try reflexivity; try discriminate. rewrite IH by assumption. reflexivity. Qed.

Lemma nth_error_none_len : forall {A B} (l : list A) (l' : list B) i, length l = length l' -> nth_error l i = None -> nth_error l' i = None.
Proof. intros A B l l' i L H. apply nth_error_None. apply nth_error_None in H. lia. Qed.

(* handle_ok only looks at the root, the heap length and the generations *)
Lemma handle_ok_transfer : forall s a s' a' ch ah,
  handle_ok s a ch ah ->
  s_root s' = s_root s -> length (s_heap s') = length (s_heap s) ->
  (forall p g rs, flookup p (a_files a) = Some (g, rs) -> exists rs', flookup p (a_files a') = Some (g, rs')) ->
  handle_ok s' a' ch ah.
Proof.
  intros s a s' a' ch ah [Hm [Hc [Hb [i [g [rs [P [F [Hle [Heq Hne]]]]]]]]]] Er El Hf.
  destruct (Hf _ _ _ F) as [rs' F'].
  split; [exact Hm|]. split; [exact Hc|]. split; [lia|].
  exists i, g, rs'. rewrite Er. repeat split; assumption.
Qed.

Lemma sim_open_new : forall s a p m g', sim s a ->
  match flookup p (a_files a) with Some (g, _) => g' = S g | None => g' = 0 end ->
  sim {| s_root := pset p (length (s_heap s)) (s_root s); s_heap := s_heap s ++ [[]];
         s_handles := s_handles s ++ [{| h_list := length (s_heap s); h_mode := m; h_closed := false |}] |}
      {| a_files := fset p (g', []) (a_files a);
         a_handles := a_handles a ++ [{| ah_path := p; ah_gen := g'; ah_mode := m; ah_closed := false |}] |}.
Proof.
  intros s a p m g' Hsim Hg.
  constructor; simpl.
  + rewrite !app_length. simpl. rewrite (sim_len s a Hsim). reflexivity.
  + intro q. destruct (str_eq_dec q p) as [E|E].
    * subst q. rewrite plookup_pset_same, flookup_fset_same. apply nth_error_snoc_new.
    * rewrite plookup_pset_other, flookup_fset_other by assumption.
      pose proof (sim_files s a Hsim q) as Fq.
      destruct (plookup q (s_root s)); destruct (flookup q (a_files a)) as [[g rs]|]; try exact Fq.
      apply nth_error_snoc_old. exact Fq.
  + intros q1 q2 i0 H1 H2.
    destruct (str_eq_dec q1 p) as [E1|E1]; destruct (str_eq_dec q2 p) as [E2|E2]; try congruence.
    * subst q1. rewrite plookup_pset_same in H1. inv H1. rewrite plookup_pset_other in H2 by assumption.
      apply (sim_root_bound s a _ _ Hsim) in H2. lia.
    * subst q2. rewrite plookup_pset_same in H2. inv H2. rewrite plookup_pset_other in H1 by assumption.
      apply (sim_root_bound s a _ _ Hsim) in H1. lia.
    * rewrite plookup_pset_other in H1, H2 by assumption. eapply (sim_inj s a Hsim); eassumption.
  + intros k ch Hk. apply nth_error_snoc_inv in Hk. destruct Hk as [[Lk Hk]|[Lk Hk]].
    * destruct (sim_handles s a Hsim k ch Hk) as [ah [Ha Hok]]. exists ah. split; [apply nth_error_snoc_old; exact Ha|].
      destruct Hok as [Hm [Hc [Hb [i [g [rs [P [F [Hle [Heq Hne]]]]]]]]]].
      split; [exact Hm|]. split; [exact Hc|]. split; [simpl; rewrite app_length; simpl; lia|]. simpl.
      destruct (str_eq_dec (ah_path ah) p) as [Epath|Epath].
      -- (* a handle on the re-created path: now stale *)
         rewrite Epath in *. rewrite F in Hg. subst g'.
         exists (length (s_heap s)), (S g), []. rewrite plookup_pset_same, flookup_fset_same.
         repeat split; try lia.
         intros _ q j Hq. destruct (str_eq_dec q p) as [E|E].
         ++ subst q. rewrite plookup_pset_same in Hq. inv Hq. lia.
         ++ rewrite plookup_pset_other in Hq by assumption.
            destruct (Nat.eq_dec (ah_gen ah) g) as [Eg|Eg].
            ** rewrite (Heq Eg). intro X. subst j. apply E. eapply (sim_inj s a Hsim); eassumption.
            ** eapply Hne; eassumption.
      -- exists i, g, rs. rewrite plookup_pset_other, flookup_fset_other by assumption.
         repeat split; try assumption.
         intros Hg2 q j Hq. destruct (str_eq_dec q p) as [E|E].
         ++ subst q. rewrite plookup_pset_same in Hq. inv Hq. lia.
         ++ rewrite plookup_pset_other in Hq by assumption. eapply Hne; eassumption.
    * subst ch. exists {| ah_path := p; ah_gen := g'; ah_mode := m; ah_closed := false |}.
      split; [rewrite Lk, (sim_len s a Hsim); apply nth_error_snoc_new|].
      split; [reflexivity|]. split; [reflexivity|]. split; [simpl; rewrite app_length; simpl; lia|].
      exists (length (s_heap s)), g', []. simpl. rewrite plookup_pset_same, flookup_fset_same.
      repeat split; try reflexivity; try lia; intro X; contradiction.
Qed.

Lemma sim_step : forall s a o, sim s a -> sim (fst (sstep s o)) (astep_seq a o).
Proof.
  intros s a o Hsim. destruct o as [p m|h r|h|h|h].
  - (* open *)
    simpl.
    pose proof (sim_files s a Hsim p) as Fp.
    destruct (m_w m) eqn:Ew; [|destruct (plookup p (s_root s)) as [i|] eqn:Ep].
    + (* 'w': a new list, a new generation *)
      destruct (flookup p (a_files a)) as [[g rs]|] eqn:Ef; simpl; apply sim_open_new; try assumption; rewrite Ef; reflexivity.
    + (* the path exists, no 'w': share its list *)
      destruct (flookup p (a_files a)) as [[g rs]|] eqn:Ef; [|contradiction]. simpl.
      constructor; simpl.
      * rewrite !app_length. simpl. rewrite (sim_len s a Hsim). reflexivity.
      * apply (sim_files s a Hsim).
      * apply (sim_inj s a Hsim).
      * intros k ch Hk. apply nth_error_snoc_inv in Hk. destruct Hk as [[Lk Hk]|[Lk Hk]].
        -- destruct (sim_handles s a Hsim k ch Hk) as [ah [Ha Hok]]. exists ah. split; [apply nth_error_snoc_old; exact Ha|].
           eapply handle_ok_transfer; [exact Hok | reflexivity | reflexivity |]. intros; eexists; eassumption.
        -- subst ch. exists {| ah_path := p; ah_gen := g; ah_mode := m; ah_closed := false |}.
           split; [rewrite Lk, (sim_len s a Hsim); apply nth_error_snoc_new|].
           split; [reflexivity|]. split; [reflexivity|]. split; [simpl; eapply sim_root_bound; eassumption|].
           exists i, g, rs. simpl. repeat split; try assumption; try lia; intro X; contradiction.
    + (* first use of the path without 'w' *)
      destruct (flookup p (a_files a)) as [[g rs]|] eqn:Ef; [contradiction|]. simpl.
      apply sim_open_new; [assumption | rewrite Ef; reflexivity].
  - (* add *)
    simpl. destruct (nth_error (s_handles s) h) as [ch|] eqn:Eh.
    2:{ rewrite (nth_error_none_len _ (a_handles a) h (sim_len s a Hsim) Eh). exact Hsim. }
    destruct (sim_handles s a Hsim h ch Eh) as [ah [Ha Hok]]. rewrite Ha.
    pose proof Hok as [Hm [Hc [Hb [i [g [rs [P [F [Hle [Heq Hne]]]]]]]]]].
    rewrite <- Hm, <- Hc.
    destruct (negb (m_w (h_mode ch) || m_a (h_mode ch))); [exact Hsim|].
    destruct (h_closed ch); [exact Hsim|]. simpl. rewrite F.
    pose proof (sim_files s a Hsim (ah_path ah)) as Fp. rewrite P, F in Fp.
    destruct (Nat.eqb g (ah_gen ah)) eqn:Eg.
    + apply Nat.eqb_eq in Eg. symmetry in Eg. pose proof (Heq Eg) as Ei.
      constructor; simpl.
      * apply (sim_len s a Hsim).
      * intro q. destruct (str_eq_dec q (ah_path ah)) as [E|E].
        -- subst q. rewrite P, flookup_fset_same. rewrite Ei. rewrite nth_error_list_upd_same. rewrite Fp. reflexivity.
        -- rewrite flookup_fset_other by assumption. pose proof (sim_files s a Hsim q) as Fq.
           destruct (plookup q (s_root s)) as [j|] eqn:Eq; destruct (flookup q (a_files a)) as [[g2 rs2]|]; try exact Fq.
           rewrite nth_error_list_upd_other; [exact Fq|]. rewrite Ei. intro X. subst j. apply E. eapply (sim_inj s a Hsim); eassumption.
      * apply (sim_inj s a Hsim).
      * intros k ch2 Hk. destruct (sim_handles s a Hsim k ch2 Hk) as [ah2 [Ha2 Hok2]]. exists ah2. split; [exact Ha2|].
        eapply handle_ok_transfer; [exact Hok2 | reflexivity | simpl; apply length_list_upd |].
        intros p0 g0 rs0 H0. simpl. destruct (str_eq_dec p0 (ah_path ah)) as [E|E].
        -- subst p0. rewrite flookup_fset_same. rewrite F in H0. inv H0. eexists. reflexivity.
        -- rewrite flookup_fset_other by assumption. eexists. exact H0.
    + apply Nat.eqb_neq in Eg. assert (Eg' : ah_gen ah <> g) by congruence.
      constructor; simpl.
      * apply (sim_len s a Hsim).
      * intro q. pose proof (sim_files s a Hsim q) as Fq.
        destruct (plookup q (s_root s)) as [j|] eqn:Eq; destruct (flookup q (a_files a)) as [[g2 rs2]|]; try exact Fq.
        rewrite nth_error_list_upd_other; [exact Fq|]. eapply Hne; eassumption.
      * apply (sim_inj s a Hsim).
      * intros k ch2 Hk. destruct (sim_handles s a Hsim k ch2 Hk) as [ah2 [Ha2 Hok2]]. exists ah2. split; [exact Ha2|].
        eapply handle_ok_transfer; [exact Hok2 | reflexivity | simpl; apply length_list_upd |].
        intros; eexists; eassumption.
  - (* iter *)
    simpl. destruct (nth_error (s_handles s) h) as [ch|]; [|exact Hsim].
    destruct (negb (m_r (h_mode ch))); [exact Hsim|]. destruct (h_closed ch); exact Hsim.
  - (* len *)
    simpl. destruct (nth_error (s_handles s) h) as [ch|]; exact Hsim.
  - (* close *)
    simpl. destruct (nth_error (s_handles s) h) as [ch|] eqn:Eh.
    2:{ simpl. rewrite list_upd_out by (eapply nth_error_none_len; [apply (sim_len s a Hsim) | exact Eh]).
        destruct a; exact Hsim. }
    constructor; simpl.
    + rewrite !length_list_upd. apply (sim_len s a Hsim).
    + apply (sim_files s a Hsim).
    + apply (sim_inj s a Hsim).
    + intros k ch2 Hk. destruct (Nat.eq_dec k h) as [E|E].
      * subst k. rewrite nth_error_list_upd_same in Hk. rewrite Eh in Hk. simpl in Hk. inv Hk.
        destruct (sim_handles s a Hsim h ch Eh) as [ah [Ha Hok]].
        exists {| ah_path := ah_path ah; ah_gen := ah_gen ah; ah_mode := ah_mode ah; ah_closed := true |}.
        split; [rewrite nth_error_list_upd_same, Ha; reflexivity|].
        destruct Hok as [Hm [Hc [Hb X]]]. split; [exact Hm|]. split; [reflexivity|]. split; [exact Hb | exact X].
      * rewrite nth_error_list_upd_other in Hk by assumption.
        destruct (sim_handles s a Hsim k ch2 Hk) as [ah2 [Ha2 Hok2]]. exists ah2.
        split; [rewrite nth_error_list_upd_other by assumption; exact Ha2|].
        eapply handle_ok_transfer; [exact Hok2 | reflexivity | reflexivity |]. intros; eexists; eassumption.
Qed.

Lemma sim_run : forall h s a, sim s a -> sim (fst (srun s h)) (arun_seq a h).
Proof.
  induction h as [|o h IH]; intros s a Hsim; [exact Hsim|].
  simpl. pose proof (sim_step s a o Hsim) as S1. destruct (sstep s o) as [s1 out]. simpl in S1.
  specialize (IH s1 (astep_seq a o) S1). destruct (srun s1 h) as [s2 outs]. exact IH.
Qed.

(* what a new reader of path p sees after any history is what the heap-free specification appended to p *)
Theorem seq_append_read : forall h p, records_at (fst (srun s_empty h)) p = appended h p.
Proof.
  intros h p. unfold appended. apply sim_records. apply sim_run. apply sim_empty.
Qed.

Example ex_seq :
  let p := [97%N] in let rw := {| m_r := false; m_w := true; m_a := false |} in
  let ra := {| m_r := false; m_w := false; m_a := true |} in
  appended [SOpen p rw; SAdd 0 [120%N]; SOpen p ra; SAdd 1 [121%N]; SOpen p rw; SAdd 0 [122%N]; SAdd 2 [119%N]] p = [[119%N]].
Proof. reflexivity. Qed.

(* Per-run instance obligations of C17 on the definitions regenerated from the current source. *)
From PG Require Import Common.Tactics Model.ScopesBase Gen.ScopeDefs Model.Scopes.

(* (namespace, name) of the thread-local keys: pairwise distinct, one per store slot *)
Fixpoint list_nat_eqb (a b : list nat) : bool :=
  match a, b with
  | [], [] => true
  | x :: a', y :: b' => Nat.eqb x y && list_nat_eqb a' b'
  | _, _ => false
  end.
Definition name_eqb (a b : nat * list nat) : bool := Nat.eqb (fst a) (fst b) && list_nat_eqb (snd a) (snd b).
Fixpoint distinct (l : list (nat * list nat)) : bool :=
  match l with [] => true | x :: r => negb (existsb (name_eqb x) r) && distinct r end.

Lemma generated_keys_distinct : distinct key_names = true /\ length key_names = nkeys.
Proof. vm_compute. split; reflexivity. Qed.

(* the seven flag managers the property names: a value scope and a getter on the same key, the key inside the store *)
Definition spec_flags : list nat :=
  [i_notify_on_change; i_enable_type_check; i_allow_partial; i_as_sealed; i_allow_writable_accessors; i_track_origin; i_auto_call_functors].
Definition flag_ok (i : nat) : bool :=
  match nth_error flag_scopes i, nth_error flag_getters i with
  | Some (k, _), Some (k', _) => Nat.eqb k k' && Nat.ltb k nkeys
  | _, _ => false
  end.
Lemma generated_flags_cover : forallb flag_ok spec_flags = true /\ distinct (map (fun i => (i, [])) spec_flags) = true.
Proof. vm_compute. split; reflexivity. Qed.

(* every key a manager uses lies inside the store, and the classes used by the observational equality are
   disjoint from the keys compared exactly *)
Definition manager_keys : list tlkey :=
  map fst flag_scopes ++ [k_permission; k_str_format; k_repr_format; k_view_options; k_context; k_contextual; k_detour; k_timing; k_dynamic_evaluate; k_dynstack].
Lemma generated_keys_in_range : forallb (fun k => Nat.ltb k nkeys) manager_keys = true.
Proof. vm_compute. reflexivity. Qed.
Fixpoint nodup_nat (l : list nat) : bool :=
  match l with [] => true | x :: r => negb (existsb (Nat.eqb x) r) && nodup_nat r end.
Lemma generated_manager_keys_distinct : nodup_nat manager_keys = true.
Proof. vm_compute. reflexivity. Qed.

(* --- non-vacuity of the hypotheses used in Properties/C17.v --------------------------------------------------- *)
(* a program of depth 4 with an exceptional exit, a caught exception and a failing enter, run from the initial state *)
Definition example_prog : sprog :=
  Scope (CFlag i_as_sealed) v_true
    (Seq (Scope CDynEvalGlobal (VA (AInt 1))
            (Catch (Scope CDynEval (VA (AInt 2)) (Obs GDynEval))))        (* the inner enter fails: AssertionError *)
         (Seq (Catch (Scope CContextual (VD [(0%Z, AOv 1 true false)])
                        (Scope CContextual (VD [(0%Z, AOv 2 false false); (1%Z, AOv 3 false false)])
                           (Seq (Obs GContextual) Raise))))
              (Obs (GFlag i_as_sealed)))).
Example example_prog_runs :
  observations (exec example_prog init_state) = [VD [(0%Z, AOv 1 true false); (1%Z, AOv 3 false false)]; v_true]
  /\ escapes (exec example_prog init_state) = false.
Proof. vm_compute. split; reflexivity. Qed.

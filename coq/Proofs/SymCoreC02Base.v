(* SymCoreC02Base.v -- first facts about the C02 extension. *)
From Coq Require Import ZArith NArith List Bool.
Import ListNotations.
From PG Require Import Common.Tactics Model.SymCoreDefs Model.SymCoreOps Model.SymCoreSpec Model.SymCoreC02.

(* the extension leaves the base catalogue as it is: the SymCore theorems (step_wfs, sealed_refuses, ...) apply to Base steps *)
Lemma step2_base : forall q st o, step2 q st (Base o) = step q st o.
Proof. reflexivity. Qed.

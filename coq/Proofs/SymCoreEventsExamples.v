(* SymCoreEventsExamples.v -- concrete instances: the hypotheses of the C09 theorems are satisfiable on non-trivial inputs, and the
   witness of the open finding. *)
From PG Require Import Common.Tactics Model.SymCoreDefs Model.SymCoreOps Model.SymCoreSpec Model.SymCoreEvents
     Proofs.SymCoreBase Proofs.SymCoreWF Proofs.SymCoreWFOps Proofs.SymCoreIds
     Proofs.SymCoreEventsBase Proofs.SymCoreEventsDeliver Proofs.SymCoreEventsStep Proofs.SymCoreEventsWF
     Proofs.SymCoreEventsOrder Proofs.SymCoreEventsTheorems.
From Coq Require Import NArith.
Local Open Scope Z_scope.

Definition q0 : quirks := mkQuirks false.
Definition ns : scope := mkScope [] [] [] [].
Definition fl0 : flags := mkFlags false true false 0.
Definition flcb : flags := mkFlags false true false 1.     (* with an onchange_callback *)
Definition ka : key := KS [97%N].
Definition kb : key := KS [98%N].

(* an object of class 0 (overrides _on_change) whose field x holds its default *)
Definition obj_lit : lit := LitNode (KObj 0) fl0 false [(kx, LitLeaf LNone); (ky, LitLeaf (LInt 1))].
Definition st_obj : state := init_forest [obj_lit] empty_state.
Definition reset_x : sop := mkSop ns (0%nat, []) (OSet kx (VLit (LitLeaf LMissing))).
(* the open finding: the reset changes nothing and yet an event (old value = new value) is delivered *)
Lemma spurious_refuted :
  fst (step q0 st_obj reset_x) = st_obj /\
  exists e u, events_of (step_trace q0 st_obj reset_x) = [e] /\ ev_payload e = [([kx], u)] /\ u_old u = u_new u.
Proof. split. vm_compute. reflexivity. eexists. eexists. split. vm_compute. reflexivity. simpl. auto. Qed.

(* a subscribing dict holding a subscribing list holding a subscribing dict; one rebind writes at two depths *)
Definition tree_lit : lit :=
  LitNode KDict flcb false
    [(ka, LitNode KList flcb false [(KI 0, LitLeaf (LInt 1)); (KI 1, LitNode KDict flcb false [(kb, LitLeaf (LInt 2))])]);
     (kb, LitLeaf (LInt 3))].
Definition st_tree : state := init_forest [tree_lit] empty_state.
Definition batch : sop :=
  mkSop ns (0%nat, []) (Rebind [([ka; KI 1; kb], VLit (LitLeaf (LInt 5))); ([kb], VLit (LitLeaf (LInt 6)))]).
Lemma st_tree_WFI : WFI st_tree.
Proof. unfold st_tree. apply init_forest_WFI. apply empty_WFI. reflexivity. Qed.
(* three receivers, deepest first, with the payloads relative to each *)
Lemma batch_events :
  map (fun e => (ev_path e, map fst (ev_payload e))) (events_of (step_trace q0 st_tree batch)) =
  [([ka; KI 1], [[kb]]); ([ka], [[KI 1; kb]]); ([], [[ka; KI 1; kb]; [kb]])].
Proof. vm_compute. reflexivity. Qed.
(* the hypothesis of the children-first theorem holds on it: every key is simple *)
Definition simple_keyb (k : key) : bool :=
  match k with KI _ => true | KS [] => true | KS (c :: _) => negb (N.eqb c 45) && (N.ltb c 48 || N.ltb 57 c) end.
Lemma simple_keyb_ok : forall k, simple_keyb k = true -> simple_key k.
Proof.
  destruct k as [[|c s]|z]; simpl; intros; auto. apply andb_prop in H. destruct H as [A B].
  apply negb_true_iff in A. apply N.eqb_neq in A. split; auto.
  apply orb_prop in B. destruct B as [B|B]; apply N.ltb_lt in B; auto.
Qed.
(* why string keys that look like numbers are excluded: two ints compare as ints, anything else as texts, and that is not an order *)
Lemma key_order_cycle : kw_ltb (KI 9) (KI 10) = true /\ kw_ltb (KI 10) (KS [53%N]) = true /\ kw_ltb (KS [53%N]) (KI 9) = true.
Proof. vm_compute. auto. Qed.
Lemma simple_b_ok : forall l : list node, forallb (fun n => forallb simple_keyb (npth n)) l = true ->
  Forall (fun n => simple_path (npth n)) l.
Proof.
  intros. rewrite forallb_forall in H. apply Forall_forall. intros n I. specialize (H _ I).
  rewrite forallb_forall in H. apply Forall_forall. intros k Ik. apply simple_keyb_ok. auto.
Qed.
Lemma batch_simple : forall st' ups stop, In (TN st' ups stop) (step_trace q0 st_tree batch) ->
  Forall (fun n => simple_path (npth n)) (affected st' ups).
Proof.
  intros st' ups stop I. vm_compute in I. destruct I as [I|[I|[I|[]]]]; try discriminate. inv I.
  apply simple_b_ok. vm_compute. reflexivity.
Qed.

(* --- the hypothesis of the freshness theorem on a concrete history: writes at depth, a silent update, queries, a reverse that moves
   things and a sort that moves nothing, a rebind with skip_notification, one with notify_parents=False ----------------------------------------------------------------------- *)
From PG Require Import Model.SymCoreEventsSpec Proofs.SymCoreEventsQuery Proofs.SymCoreEventsFrame Proofs.SymCoreEventsFresh.
Definition off : scope := mkScope [] [] [false] [].
Definition hist : list op2 :=
  [ Query (0%nat, []) 2;
    Base batch;
    Base (mkSop off (0%nat, [ka]) (LAppend (VLit (LitLeaf (LOpq 2 2)))));
    Query (0%nat, [ka]) 0;
    Base (mkSop ns (0%nat, [ka]) LReverse);
    Base (mkSop ns (0%nat, [ka]) (LSort [0; 0; 0] false));
    Base (mkSop ns (0%nat, [ka; KI 1]) (DUpdate [(kb, VLit (LitLeaf (LInt 7)))]));
    RebindX ns (0%nat, []) [([kb], VLit (LitLeaf (LInt 9)))] (Some true) true;
    RebindX ns (0%nat, [ka]) [([KI 0; kb], VLit (LitLeaf (LInt 4)))] None false;
    Query (0%nat, []) 1 ].
Ltac next_step :=
  match goal with
  | |- history_ok ?q ?xs (?o :: ?r) =>
      change (covered (x_st xs) o /\ history_ok q (fst (fst (step2 q xs o))) r); split;
      [ unfold covered, step_exact; vm_compute; try exact I; try reflexivity; intros H; try discriminate H; try reflexivity
      | let x := fresh "xs" in let E := fresh "E" in
        remember (fst (fst (step2 q xs o))) as x eqn:E; vm_compute in E; subst x ]
  end.
Lemma hist_ok : history_ok q0 (mkX st_tree no_caches) hist.
Proof.
  unfold hist, st_tree. vm_compute init_forest.
  do 10 next_step. exact I.
Qed.

(* --- the second open finding: a batch that writes below z[0] and then replaces z[-1] (the same node) -------------------------------------------- *)
Definition kz9 : key := KS [122%N].
Definition ov_lit : lit :=
  LitNode KDict flcb false [(kz9, LitNode KList fl0 false [(KI 0, LitNode KDict flcb false [(ka, LitLeaf (LInt 1))])]); (kx, LitLeaf (LInt 1))].
Definition st_ov : state := init_forest [ov_lit] empty_state.
Definition batch_ov : sop :=
  mkSop ns (0%nat, []) (Rebind [([kz9; KI 0; ka], VLit (LitLeaf (LInt (-1)))); ([kz9; KI (-1)], VLit (LitLeaf (LInt 5)))]).
(* the replaced node is a root of its own after the call (slot 1) and is told about the location z[0].a, which does not exist below it *)
Lemma overlap_refuted :
  exists e, In e (events_of (step_trace q0 st_ov batch_ov)) /\
            locate (fst (step q0 st_ov batch_ov)) (ev_id e) = Some (1%nat, []) /\ ev_path e = [] /\
            map fst (ev_payload e) = [[kz9; KI 0; ka]] /\
            get_at (fst (step q0 st_ov batch_ov)) (1%nat, [kz9; KI 0; ka]) = None.
Proof. eexists. split. vm_compute. left. reflexivity. vm_compute. auto. Qed.

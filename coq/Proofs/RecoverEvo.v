(* RecoverEvo.v — Evolution.recover rebuilds counters and population (property C15).
   Any population initialiser, any reproduction, any population_update with any global state, provided the
   update reads only a part of the global state that reproduction leaves alone (vis). *)
From PG Require Import Common.Tactics Model.Recover Proofs.RecoverBase.

Section EvoProofs.
  Variable gi : gen.
  Variable size : option nat.
  Variable G : Type.
  Variable g0 : G.
  Variable repro : list dna -> G -> Z -> nat -> list Z * G.
  Variable updf : list dna -> G -> nat -> list dna * G.
  Variable gobs : G -> list Z.
  Variable V : Type.
  Variable vis : G -> V.
  Hypothesis Hupd : forall pop g1 g2 step, vis g1 = vis g2 ->
    fst (updf pop g1 step) = fst (updf pop g2 step) /\ vis (snd (updf pop g1 step)) = vis (snd (updf pop g2 step)).
  Hypothesis Hrep : forall pop g ngen np, vis (snd (repro pop g ngen np)) = vis g.

  Notation E := (Evolution gi size G g0 repro updf gobs).
  Notation est := (ev_st gi G).

  (* what recovery must get right, up to the invisible part of the global state *)
  Definition erel (s t : est) : Prop :=
    ev_np _ _ s = ev_np _ _ t /\ ev_nf _ _ s = ev_nf _ _ t /\ ev_pop _ _ s = ev_pop _ _ t /\
    vis (ev_g _ _ s) = vis (ev_g _ _ t).

  Lemma erel_refl : forall s, erel s s.
  Proof. intros; repeat split. Qed.
  Lemma erel_trans : forall a b c, erel a b -> erel b c -> erel a c.
  Proof. unfold erel; intros a b c (A1 & A2 & A3 & A4) (B1 & B2 & B3 & B4); repeat split; congruence. Qed.
  Lemma erel_sym : forall a b, erel a b -> erel b a.
  Proof. unfold erel; intros a b (A1 & A2 & A3 & A4); repeat split; congruence. Qed.

  (* --- a successful propose: one more proposal, nothing else that recovery looks at ------------- *)
  Lemma pop_front_ok : forall s d s', ev_pop_front gi G s = (Ok d, s') ->
    ev_np _ _ s' = S (ev_np _ _ s) /\ ev_nf _ _ s' = ev_nf _ _ s /\ ev_pop _ _ s' = ev_pop _ _ s /\ ev_g _ _ s' = ev_g _ _ s.
  Proof.
    intros s d s' H. unfold ev_pop_front in H. destruct (ev_pending _ _ s); inv H. simpl. auto.
  Qed.

  Lemma do_evolve_ok : forall s d s', ev_do_evolve gi G repro s = (Ok d, s') ->
    ev_np _ _ s' = S (ev_np _ _ s) /\ ev_nf _ _ s' = ev_nf _ _ s /\ ev_pop _ _ s' = ev_pop _ _ s /\
    vis (ev_g _ _ s') = vis (ev_g _ _ s).
  Proof.
    intros s d s' H. unfold ev_do_evolve in H.
    pose proof (Hrep (ev_pop _ _ s) (ev_g _ _ s) (ev_ngen _ _ s) (ev_np _ _ s)) as Hv.
    destruct (repro (ev_pop _ _ s) (ev_g _ _ s) (ev_ngen _ _ s) (ev_np _ _ s)) as [vals g'] eqn:E. simpl in Hv.
    destruct (number_children vals (Z.of_nat (ev_np _ _ s) + 1) (ev_ngen _ _ s + 1)); [inv H|].
    apply pop_front_ok in H. simpl in H. destruct H as (A & B & C & D). rewrite D. auto.
  Qed.

  Lemma propose_ok : forall s d s', ev_propose gi G repro s = (Ok d, s') ->
    ev_np _ _ s' = S (ev_np _ _ s) /\ ev_nf _ _ s' = ev_nf _ _ s /\ ev_pop _ _ s' = ev_pop _ _ s /\
    vis (ev_g _ _ s') = vis (ev_g _ _ s).
  Proof.
    intros s d s' H. unfold ev_propose in H.
    destruct (ev_pending _ _ s) eqn:Ep.
    - destruct (ev_initialized _ _ s).
      + apply do_evolve_ok in H. assumption.
      + destruct (propose gi (ev_in _ _ s)) as [o i'] eqn:Ei. destruct o.
        * apply pop_front_ok in H. simpl in H. destruct H as (A & B & C & D). rewrite D. auto.
        * apply do_evolve_ok in H. simpl in H. assumption.
        * inv H.
    - apply pop_front_ok in H. destruct H as (A & B & C & D). rewrite D. auto.
  Qed.

  (* --- one step of Evolution.recover ---------------------------------------------------------- *)
  Notation replay := (ev_replay gi size G updf).

  (* an in-flight entry only counts as a proposal *)
  Lemma replay_unrewarded : forall acc d,
    erel (fst (replay acc (d, None))) (ev_bump_np gi G (fst acc)) /\ snd (replay acc (d, None)) = snd acc.
  Proof. intros [s ip] d. unfold ev_replay. simpl. split; [unfold erel; simpl; repeat split | reflexivity]. Qed.

  Lemma bump_erel : forall s t, erel s t -> erel (ev_bump_np gi G s) (ev_bump_np gi G t).
  Proof. unfold erel; intros s t (A & B & C & D); simpl; repeat split; congruence. Qed.

  (* a rewarded entry that carries its feedback sequence number is re-added to the population *)
  Lemma replay_fed : forall acc d r, dfsn d <> None ->
    fst (replay acc (d, Some r)) = ev_raise_ngen gi G (ev_readd gi G updf (ev_bump_np gi G (fst acc)) d) (gen_id d).
  Proof.
    intros [s ip] d r H. unfold ev_replay. simpl. destruct (dfsn d); [|congruence]. reflexivity.
  Qed.

  Lemma readd_erel : forall s t d, erel s t -> erel (ev_readd gi G updf s d) (ev_readd gi G updf t d).
  Proof.
    unfold erel, ev_readd. intros s t d (A & B & C & D).
    destruct (Hupd (ev_pop _ _ s ++ [d]) (ev_g _ _ s) (ev_g _ _ t) (ev_nf _ _ s) D) as [P Q].
    rewrite <- C, <- B.
    destruct (updf (ev_pop _ _ s ++ [d]) (ev_g _ _ s) (ev_nf _ _ s)) as [p1 g1].
    destruct (updf (ev_pop _ _ s ++ [d]) (ev_g _ _ t) (ev_nf _ _ s)) as [p2 g2].
    simpl in *. repeat split; congruence.
  Qed.

  Lemma raise_erel : forall s t g1 g2, erel s t -> erel (ev_raise_ngen gi G s g1) (ev_raise_ngen gi G t g2).
  Proof. unfold erel; intros s t g1 g2 (A & B & C & D); simpl; repeat split; assumption. Qed.

  Lemma raise_erel_l : forall s g, erel (ev_raise_ngen gi G s g) s.
  Proof. unfold erel; intros; simpl; repeat split. Qed.

  (* the not-yet-fed-back branch (reward known, no sequence number) behaves like a live feedback *)
  Lemma feedback_erel : forall s t d r, erel s t ->
    fst (ev_feedback gi size G updf s d r) = fst (ev_feedback gi size G updf t d r) /\
    erel (snd (ev_feedback gi size G updf s d r)) (snd (ev_feedback gi size G updf t d r)).
  Proof.
    unfold erel, ev_feedback. intros s t d r (A & B & C & D).
    rewrite <- B, <- C.
    set (d' := set_fed d (Z.of_nat (ev_nf _ _ s) + 1) r).
    destruct (Hupd (ev_pop _ _ s ++ [d']) (ev_g _ _ s) (ev_g _ _ t) (ev_nf _ _ s) D) as [P Q].
    destruct (updf (ev_pop _ _ s ++ [d']) (ev_g _ _ s) (ev_nf _ _ s)) as [p1 g1].
    destruct (updf (ev_pop _ _ s ++ [d']) (ev_g _ _ t) (ev_nf _ _ s)) as [p2 g2].
    simpl in *. repeat split; congruence.
  Qed.

  (* feedback sequence numbers of a history are 1, 2, 3, … in the order of its rewarded entries *)
  Fixpoint fsn_ok (k : nat) (h : list hentry) : Prop :=
    match h with
    | [] => True
    | (d, None) :: t => fsn_ok k t
    | (d, Some _) :: t => dfsn d = Some (Z.of_nat k + 1)%Z /\ fsn_ok (S k) t
    end.

  Lemma fsn_ok_app : forall a b k, fsn_ok k (a ++ b) <-> fsn_ok k a /\ fsn_ok (k + nrew a) b.
  Proof.
    induction a as [|[d [r|]] a IH]; intros b k; simpl.
    - rewrite Nat.add_0_r. tauto.
    - rewrite IH. replace (S k + nrew a) with (k + S (nrew a)) by lia. tauto.
    - apply IH.
  Qed.

  Lemma fsn_ok_unrewarded : forall h k, unrewarded h -> fsn_ok k h.
  Proof. induction 1; simpl; auto. destruct x as [d ro]. simpl in H. subst. assumption. Qed.

  Lemma replay_nf : forall acc e, ev_nf _ _ (fst (replay acc e)) = ev_nf _ _ (fst acc) + rewarded (snd e).
  Proof.
    intros [s ip] [d ro]. unfold ev_replay. simpl. destruct ro as [r|]; simpl; [|lia].
    destruct (dfsn d).
    - unfold ev_readd. destruct (updf _ _ _). simpl. lia.
    - unfold ev_feedback. destruct (updf _ _ _). simpl. lia.
  Qed.

  (* re-adding the fed-back DNA = feeding back the DNA as it was before *)
  Lemma readd_feedback_erel : forall s t d r, erel s t ->
    erel (ev_readd gi G updf s (set_fed d (Z.of_nat (ev_nf _ _ s) + 1) r)) (snd (ev_feedback gi size G updf t d r)).
  Proof.
    unfold erel, ev_feedback, ev_readd. intros s t d r (A & B & C & D).
    rewrite <- B, <- C.
    set (d' := set_fed d (Z.of_nat (ev_nf _ _ s) + 1) r).
    destruct (Hupd (ev_pop _ _ s ++ [d']) (ev_g _ _ s) (ev_g _ _ t) (ev_nf _ _ s) D) as [P Q].
    destruct (updf (ev_pop _ _ s ++ [d']) (ev_g _ _ s) (ev_nf _ _ s)) as [p1 g1].
    destruct (updf (ev_pop _ _ s ++ [d']) (ev_g _ _ t) (ev_nf _ _ s)) as [p2 g2].
    simpl in *. repeat split; congruence.
  Qed.

  (* replaying related entries from related accumulators keeps them related *)
  Lemma replay_erel : forall acc acc' e e' k, erel (fst acc) (fst acc') -> hs_weak e e' ->
    ev_nf _ _ (fst acc) = k -> fsn_ok k [e] ->
    erel (fst (replay acc e)) (fst (replay acc' e')).
  Proof.
    intros [s ip] [t jp] [d ro] [d' ro'] k H [Hs Hf] Hk Hw. simpl in *. subst ro'.
    unfold ev_replay. simpl.
    destruct ro as [r|].
    - destruct (Hf r eq_refl) as [He | (Hn & q & Hq)].
      + subst d'.
        destruct (dfsn d).
        * simpl. apply raise_erel, readd_erel, bump_erel, H.
        * destruct (feedback_erel (ev_bump_np gi G s) (ev_bump_np gi G t) d r (bump_erel _ _ H)) as [P Q].
          destruct (ev_feedback gi size G updf (ev_bump_np gi G s) d r) as [d1 s1].
          destruct (ev_feedback gi size G updf (ev_bump_np gi G t) d r) as [d2 s2].
          simpl in *. apply raise_erel. assumption.
      + (* d is d' with the feedback metadata on it; its sequence number is the one recover would assign *)
        destruct Hw as [Hw _]. subst d. simpl in Hw. injection Hw as Hq. subst q.
        rewrite Hn. simpl dfsn. cbv iota.
        pose proof (readd_feedback_erel (ev_bump_np gi G s) (ev_bump_np gi G t) d' r (bump_erel _ _ H)) as Q.
        simpl ev_nf in Q. rewrite Hk in Q.
        destruct (ev_feedback gi size G updf (ev_bump_np gi G t) d' r) as [d2 s2]. simpl in *.
        apply raise_erel. assumption.
    - simpl. apply raise_erel, bump_erel, H.
  Qed.

  Lemma fold_erel : forall h h', HRw h h' -> forall k acc acc', erel (fst acc) (fst acc') ->
    ev_nf _ _ (fst acc) = k -> fsn_ok k h ->
    erel (fst (fold_left replay h acc)) (fst (fold_left replay h' acc')).
  Proof.
    induction 1; intros k acc acc' He Hk Hw; simpl; [assumption|].
    change (x :: l) with ([x] ++ l) in Hw. apply fsn_ok_app in Hw. destruct Hw as [Hw1 Hw2].
    apply IHForall2 with (k := k + nrew [x]).
    - eapply replay_erel; eauto.
    - rewrite replay_nf. simpl. lia.
    - assumption.
  Qed.

  Fixpoint bump_n (n : nat) (s : est) : est :=
    match n with O => s | S k => bump_n k (ev_bump_np gi G s) end.

  Lemma bump_n_erel : forall n s t, erel s t -> erel (bump_n n s) (bump_n n t).
  Proof. induction n; intros; simpl; auto using bump_erel. Qed.

  Lemma bump_n_fields : forall n s,
    ev_np _ _ (bump_n n s) = n + ev_np _ _ s /\ ev_nf _ _ (bump_n n s) = ev_nf _ _ s /\
    ev_pop _ _ (bump_n n s) = ev_pop _ _ s /\ ev_g _ _ (bump_n n s) = ev_g _ _ s.
  Proof.
    induction n; intros; simpl; auto.
    destruct (IHn (ev_bump_np gi G s)) as (A & B & C & D). simpl in *. repeat split; try assumption. lia.
  Qed.

  (* in-flight entries after the last fed-back one only raise the proposal count *)
  Lemma fold_unrewarded : forall h, unrewarded h -> forall acc,
    erel (fst (fold_left replay h acc)) (bump_n (length h) (fst acc)).
  Proof.
    induction 1; intros; simpl; [apply erel_refl|].
    destruct x as [d ro]. simpl in H. subst ro.
    eapply erel_trans; [apply IHForall|].
    apply bump_n_erel. apply (proj1 (replay_unrewarded acc d)).
  Qed.

  Definition efold (h : list hentry) : est := fst (fold_left replay h (init E, [])).

  Lemma efold_snoc_unrewarded : forall h d, erel (efold (h ++ [(d, None)])) (ev_bump_np gi G (efold h)).
  Proof.
    intros. unfold efold. rewrite fold_left_app. simpl. apply (proj1 (replay_unrewarded _ d)).
  Qed.

  Lemma efold_mid : forall h1 e h2, unrewarded h2 ->
    erel (efold (h1 ++ e :: h2)) (bump_n (length h2) (fst (replay (fold_left replay h1 (init E, [])) e))).
  Proof.
    intros. unfold efold. rewrite fold_left_app. simpl. apply fold_unrewarded. assumption.
  Qed.

  Lemma bump_n_readd : forall n s d,
    erel (bump_n n (ev_readd gi G updf s d)) (ev_readd gi G updf (bump_n n s) d).
  Proof.
    intros. destruct (bump_n_fields n (ev_readd gi G updf s d)) as (A & B & C & D).
    destruct (bump_n_fields n s) as (A' & B' & C' & D').
    unfold erel. rewrite A, B, C, D. unfold ev_readd. rewrite B', C', D'.
    destruct (updf (ev_pop _ _ s ++ [d]) (ev_g _ _ s) (ev_nf _ _ s)); simpl. repeat split; lia.
  Qed.

  (* --- the live state agrees with the fold over its own history -------------------------------- *)
  Lemma evo_reach_spec : forall P s h, Reach E P s h -> erel s (efold h).
  Proof.
    induction 1.
    - apply erel_refl.
    - eapply erel_trans; [|apply erel_sym, efold_snoc_unrewarded].
      simpl in H0. apply propose_ok in H0. destruct H0 as (A & B & C & D).
      destruct IHReach as (A' & B' & C' & D'). unfold erel. simpl. repeat split; congruence.
    - (* feedback of entry (dx, None) *)
      simpl in H2.
      assert (erel s (bump_n (length h2) (ev_bump_np gi G (efold h1)))) as Hs.
      { eapply erel_trans; [apply IHReach|]. eapply erel_trans; [apply efold_mid; assumption|].
        apply bump_n_erel. apply (proj1 (replay_unrewarded _ dx)). }
      assert (d' = set_fed d (Z.of_nat (ev_nf _ _ s) + 1) r) as Hd.
      { unfold ev_feedback in H2. destruct (updf _ _ _). inv H2. reflexivity. }
      assert (dfsn d' <> None) as Hf by (subst d'; simpl; congruence).
      assert (erel s' (ev_readd gi G updf s d')) as L1.
      { unfold ev_feedback in H2. unfold erel, ev_readd. rewrite <- Hd in H2.
        destruct (updf (ev_pop _ _ s ++ [d']) (ev_g _ _ s) (ev_nf _ _ s)) as [p g'] eqn:Eu. inv H2. simpl.
        repeat split. }
      set (t := ev_bump_np gi G (efold h1)) in *.
      set (n := length h2) in *.
      assert (erel (ev_readd gi G updf s d') (ev_readd gi G updf (bump_n n t) d')) as L2 by (apply readd_erel, Hs).
      assert (erel (ev_readd gi G updf (bump_n n t) d') (bump_n n (ev_readd gi G updf t d'))) as L3
        by (apply erel_sym, bump_n_readd).
      assert (erel (bump_n n (ev_readd gi G updf t d')) (bump_n n (ev_raise_ngen gi G (ev_readd gi G updf t d') (gen_id d')))) as L4
        by (apply bump_n_erel, erel_sym, raise_erel_l).
      assert (erel (bump_n n (ev_raise_ngen gi G (ev_readd gi G updf t d') (gen_id d'))) (efold (h1 ++ (d', Some r) :: h2))) as L5.
      { apply erel_sym. eapply erel_trans; [apply efold_mid; assumption|].
        rewrite (replay_fed _ d' r Hf). apply erel_refl. }
      exact (erel_trans _ _ _ L1 (erel_trans _ _ _ L2 (erel_trans _ _ _ L3 (erel_trans _ _ _ L4 L5)))).
  Qed.

  Lemma efold_nf : forall h, ev_nf _ _ (efold h) = nrew h.
  Proof.
    intros. unfold efold.
    assert (forall acc, ev_nf _ _ (fst (fold_left replay h acc)) = ev_nf _ _ (fst acc) + nrew h) as H.
    { induction h; intros; simpl; [lia|]. rewrite IHh, replay_nf. lia. }
    rewrite H. simpl. reflexivity.
  Qed.

  Lemma evo_reach_fsn : forall P s h, Reach E P s h -> fsn_ok 0 h.
  Proof.
    induction 1.
    - exact I.
    - apply fsn_ok_app. split; [assumption|]. simpl. exact I.
    - pose proof (evo_reach_spec _ _ _ H) as (_ & Hnf & _ & _).
      rewrite efold_nf, nrew_app in Hnf. simpl in Hnf. rewrite (nrew_unrewarded _ H0) in Hnf.
      apply fsn_ok_app in IHReach. destruct IHReach as [I1 I2].
      apply fsn_ok_app. split; [assumption|]. simpl. split; [|apply fsn_ok_unrewarded; assumption].
      simpl in H2. unfold ev_feedback in H2. destruct (updf _ _ _). inv H2. simpl.
      do 2 f_equal. lia.
  Qed.

  Lemma evo_recover_fields : forall h,
    erel (recover E (init E) h) (efold h).
  Proof.
    intros. simpl. unfold ev_recover, efold.
    destruct (fold_left replay h _) as [s1 ip]. simpl. unfold erel. simpl. repeat split.
  Qed.

  Theorem evolution_obs_rec : obs_rec E anyfed HRw.
  Proof.
    intros s h HR h' Hh.
    pose proof (evo_reach_spec _ _ _ HR) as A.
    pose proof (evo_recover_fields h') as B.
    assert (erel (efold h) (efold h')) as C.
    { unfold efold. eapply fold_erel with (k := 0); eauto using erel_refl. eapply evo_reach_fsn; eauto. }
    destruct (erel_trans _ _ _ B (erel_sym _ _ (erel_trans _ _ _ A C))) as (X1 & X2 & X3 & _).
    simpl in *. rewrite X1, X2, X3. reflexivity.
  Qed.

  (* the part of the global state the update works on (NSGA2: the elites) is recovered as well *)
  Theorem evolution_vis_rec : forall s h, Reach E anyfed s h -> forall h', HRw h h' ->
    vis (ev_g _ _ (recover E (init E) h')) = vis (ev_g _ _ s).
  Proof.
    intros s h HR h' Hh.
    pose proof (evo_reach_spec _ _ _ HR) as A.
    pose proof (evo_recover_fields h') as B.
    assert (erel (efold h) (efold h')) as C.
    { unfold efold. eapply fold_erel with (k := 0); eauto using erel_refl. eapply evo_reach_fsn; eauto. }
    destruct (erel_trans _ _ _ B (erel_sym _ _ (erel_trans _ _ _ A C))) as (_ & _ & _ & X). exact X.
  Qed.

  Lemma evolution_meta_pres : meta_pres E.
  Proof.
    intros s d r. simpl. unfold ev_feedback. destruct (updf _ _ _). simpl. auto.
  Qed.
End EvoProofs.

(* CompareHash.v — symbolically equal values have the same hash pre-image. *)
From PG Require Import Common.Tactics Common.Tr Gen.TypeOrder Model.Compare
  Proofs.CompareOrder Proofs.CompareDict Proofs.CompareLink.
From Coq Require Import QArith Sorting.Sorted.
Close Scope Q_scope.

(* the bit the runner prints for "same hash pre-image" is Leibniz equality of the pre-images *)
Lemma hterm_ind' (P : hterm -> Prop) :
  (forall q, P (HNum q)) -> (forall s, P (HStr s)) ->
  (forall c l, Forall P l -> P (HNode c l)) -> (forall k h, P h -> P (HEnt k h)) -> forall x, P x.
Proof.
  intros Hn Hs Hl He. fix IH 1. intros [q|s|c l|k h].
  - apply Hn. - apply Hs.
  - apply Hl. induction l; constructor; auto.
  - apply He. apply IH.
Qed.
Lemma cls_eqb_eq c d : cls_eqb c d = true <-> c = d.
Proof.
  destruct c, d; simpl; split; try discriminate; try reflexivity; intros H.
  - apply andb_prop in H. destruct H as [H1 H2]. apply str_eqb_eq in H1. apply N.eqb_eq in H2. congruence.
  - inv H. rewrite str_eqb_refl, N.eqb_refl. reflexivity.
Qed.
Lemma hterm_eqb_eq x : forall y, hterm_eqb x y = true <-> x = y.
Proof.
  induction x using hterm_ind'; intros y; destruct y; simpl; split; try discriminate; intros E.
  - destruct q, q0; simpl in *. apply andb_prop in E. destruct E as [E1 E2].
    apply Z.eqb_eq in E1. apply Pos.eqb_eq in E2. congruence.
  - inv E. rewrite Z.eqb_refl, Pos.eqb_refl. reflexivity.
  - apply str_eqb_eq in E. congruence.
  - inv E. apply str_eqb_refl.
  - apply andb_prop in E. destruct E as [E1 E2]. apply cls_eqb_eq in E1. subst. f_equal.
    revert l0 E2. induction H as [|h l Hh Hl IH]; intros [|h' l'] E2; try discriminate; auto.
    apply andb_prop in E2. destruct E2 as [E2 E3]. apply Hh in E2. subst. f_equal. apply IH; auto.
  - inv E. apply andb_true_intro. split. apply cls_eqb_eq; auto.
    induction H as [|h l Hh Hl IH]; auto. apply andb_true_intro. split; auto. apply Hh; auto.
  - apply andb_prop in E. destruct E as [E1 E2]. apply key_eqb_eq in E1. apply IHx in E2. congruence.
  - inv E. apply andb_true_intro. split. apply key_eqb_eq; auto. apply IHx; auto.
Qed.

Section WithTable.
Variable t : ranks.
Variable f : fam.
Notation ok := (fun v => cmp_ok t f v = true).

Lemma all_ok_cons {A} (x : result A) l r :
  all_ok (x :: l) = Ok r -> exists a r', x = Ok a /\ all_ok l = Ok r' /\ r = a :: r'.
Proof.
  simpl. destruct x; try discriminate. destruct (all_ok l); try discriminate.
  intros H; inv H. eauto.
Qed.

Lemma hpre_num v p : num_of v = Some p -> hpre t v = Ok (HNum (Qred p)).
Proof. destruct v; simpl; try discriminate; intros H; inv H; reflexivity. Qed.

Lemma eq_f_missing_r n v : eq_f n v PMissing = true -> v = PMissing.
Proof. destruct n, v; simpl; try discriminate; auto. Qed.
Lemma eq_f_missing_l n w : eq_f n PMissing w = true -> w = PMissing.
Proof. destruct n, w; simpl; try discriminate; auto. Qed.
Lemma eq_f_missing n v w : eq_f n v w = true -> is_missing v = is_missing w.
Proof.
  intros H. destruct (is_missing v) eqn:A, (is_missing w) eqn:B; auto.
  - destruct v; try discriminate. apply eq_f_missing_l in H. subst; discriminate.
  - destruct w; try discriminate. apply eq_f_missing_r in H. subst; discriminate.
Qed.

(* the hashed, filtered items of a dict *)
Definition G (kv : key * pv) : key * (bool * result hterm) := (fst kv, (is_missing (snd kv), hpre t (snd kv))).
Definition hl (e : list (key * pv)) : result (list (key * hterm)) :=
  all_ok (map (fun kh : key * (bool * result hterm) => match snd (snd kh) with Ok h => Ok (fst kh, h) | Err e => Err e end)
              (filter (fun kh : key * (bool * result hterm) => negb (fst (snd kh))) (map G e))).

Lemma hash_ents_hl e : hash_ents t (map G e) =
  match hl e with Ok l => Ok (map (fun kh => HEnt (fst kh) (snd kh)) (sort_ents t l)) | Err x => Err x end.
Proof. reflexivity. Qed.

Lemma hl_cons k v r :
  hl ((k, v) :: r) =
  if is_missing v then hl r
  else match hpre t v with
       | Ok h => match hl r with Ok l => Ok ((k, h) :: l) | Err x => Err x end
       | Err x => Err x
       end.
Proof. unfold hl. simpl. destruct (is_missing v); simpl; auto. destruct (hpre t v); auto. Qed.

Lemma hl_spec e : forall la, hl e = Ok la ->
  (forall k v, In (k, v) e -> is_missing v = false -> exists h, hpre t v = Ok h /\ In (k, h) la) /\
  (forall k h, In (k, h) la -> exists v, In (k, v) e /\ is_missing v = false /\ hpre t v = Ok h).
Proof.
  induction e as [|[k v] r IH]; intros la H.
  - inv H. split; simpl; intros; tauto.
  - rewrite hl_cons in H. destruct (is_missing v) eqn:M.
    + destruct (IH _ H) as [A B]. split.
      * intros k' v' [I|I] M'; [inv I; congruence|eauto].
      * intros k' h I. destruct (B _ _ I) as (v' & ? & ? & ?). exists v'; simpl; auto.
    + destruct (hpre t v) as [h|] eqn:Hv; try discriminate.
      destruct (hl r) as [l|] eqn:Hr; try discriminate. inv H.
      destruct (IH _ Logic.eq_refl) as [A B]. split.
      * intros k' v' [I|I] M'; [inv I; exists h; simpl; auto|].
        destruct (A _ _ I M') as (h' & ? & ?). exists h'; simpl; auto.
      * intros k' h' [I|I]; [inv I; exists v; simpl; auto|].
        destruct (B _ _ I) as (v' & ? & ? & ?). exists v'; simpl; auto.
Qed.

Lemma hl_nodup e : forall la, hl e = Ok la -> nodup_keys e = true -> nodup_keys la = true.
Proof.
  induction e as [|[k v] r IH]; intros la H N.
  - inv H. reflexivity.
  - simpl in N. apply andb_prop in N. destruct N as [N1 N2]. rewrite hl_cons in H.
    destruct (is_missing v); [eauto|].
    destruct (hpre t v) as [h|]; try discriminate. destruct (hl r) as [l|] eqn:Hr; try discriminate. inv H.
    simpl. rewrite (IH _ Logic.eq_refl N2), andb_true_r. apply negb_true_iff. apply negb_true_iff in N1.
    destruct (has_key k l) eqn:HK; auto. apply has_key_In in HK. destruct HK as [h' I].
    destruct (proj2 (hl_spec r l Hr) _ _ I) as (v' & I' & _).
    assert (has_key k r = true) by (apply has_key_In; eauto). congruence.
Qed.

(* equal key-sorted lists from lists that cover each other with Leibniz-equal values *)
Lemma sort_unique {A} (la lb : list (key * A)) :
  nodup_keys la = true -> nodup_keys lb = true ->
  (forall k h, In (k, h) la -> In (k, h) lb) -> (forall k h, In (k, h) lb -> exists h', In (k, h') la) ->
  sort_ents t la = sort_ents t lb.
Proof.
  intros Na Nb C1 C2.
  assert (F : Forall2 (fun p q : key * A => fst p = fst q /\ snd p = snd q) (sort_ents t la) (sort_ents t lb)).
  { apply (sorted_match t); auto using sort_sorted. split.
    - intros k v I. apply In_sort in I. exists v. split; auto. apply In_sort. auto.
    - intros k w I. apply In_sort in I. destruct (C2 _ _ I) as [v I']. exists v. apply In_sort. auto. }
  induction F as [|[k v] [k' w] ? ? [H1 H2]]; auto. simpl in H1, H2. subst. f_equal; auto.
Qed.

Section Kids.
  Variable E : pv -> pv -> bool.
  (* the induction hypothesis on children *)
  Definition kid_ok (x : pv) : Prop :=
    forall y hx hy, ok y -> E x y = true -> hpre t x = Ok hx -> hpre t y = Ok hy -> hx = hy.

  Lemma list_hash la : forall lb ha hb,
    Forall kid_ok la -> Forall (fun y => ok y) lb -> list_eqb E la lb = true ->
    all_ok (map (hpre t) la) = Ok ha -> all_ok (map (hpre t) lb) = Ok hb -> ha = hb.
  Proof.
    induction la as [|x la IH]; intros [|y lb] ha hb Fa Fb L A B; simpl in L; try discriminate.
    - simpl in A, B. congruence.
    - apply andb_prop in L. destruct L as [L1 L2]. inv Fa. inv Fb.
      apply all_ok_cons in A. destruct A as (a & ra & A1 & A2 & ->).
      apply all_ok_cons in B. destruct B as (b & rb & B1 & B2 & ->).
      f_equal; eauto.
  Qed.

  Lemma dict_hash ea eb la lb :
    nodup_keys ea = true -> nodup_keys eb = true ->
    Forall (fun p => kid_ok (snd p)) ea -> Forall (fun q => ok (snd q)) eb ->
    (forall x y, E x y = true -> is_missing x = is_missing y) ->
    dict_eqb E ea eb = true -> hl ea = Ok la -> hl eb = Ok lb ->
    sort_ents t la = sort_ents t lb.
  Proof.
    intros Na Nb Fa Fb EM D Ha Hb.
    unfold dict_eqb in D. rewrite !andb_true_iff, !forallb_forall in D. destruct D as [[[_ D1] D2] D3].
    destruct (hl_spec _ _ Ha) as [A1 A2]. destruct (hl_spec _ _ Hb) as [B1 B2].
    rewrite Forall_forall in Fa, Fb.
    assert (PAIR : forall k v, In (k, v) ea -> exists w, In (k, w) eb /\ E v w = true).
    { intros k v I. specialize (D3 _ I). simpl in D3. destruct (lookup k eb) as [w|] eqn:L; try discriminate.
      exists w. split; auto. apply lookup_In; auto. }
    apply sort_unique; eauto using hl_nodup.
    - intros k h I. destruct (A2 _ _ I) as (v & Iv & Mv & Hv).
      destruct (PAIR _ _ Iv) as (w & Iw & Evw).
      assert (Mw : is_missing w = false) by (rewrite <- (EM _ _ Evw); auto).
      destruct (B1 _ _ Iw Mw) as (h' & Hw & Ih').
      assert (h = h') by (eapply (Fa (k, v) Iv); eauto; apply (Fb (k, w) Iw)). subst. auto.
    - intros k h' I. destruct (B2 _ _ I) as (w & Iw & Mw & Hw).
      specialize (D2 _ Iw). simpl in D2. apply has_key_In in D2. destruct D2 as [v Iv].
      destruct (PAIR _ _ Iv) as (w' & Iw' & Evw).
      assert (w' = w). { pose proof (In_lookup _ _ _ _ Nb Iw). pose proof (In_lookup _ _ _ _ Nb Iw'). congruence. }
      subst w'. assert (Mv : is_missing v = false) by (rewrite (EM _ _ Evw); auto).
      destruct (A1 _ _ Iv Mv) as (h & _ & Ih). eauto.
  Qed.
End Kids.

Lemma eq_hash_f n : forall a b ha hb, depth a < n -> ok a -> ok b ->
  eq_f n a b = true -> hpre t a = Ok ha -> hpre t b = Ok hb -> ha = hb.
Proof.
  induction n as [|n IH]; intros a b ha hb D Oa Ob EQ Ha Hb; [lia|].
  assert (KID : forall x, depth x < n -> ok x -> kid_ok (eq_f n) x).
  { intros x Dx Ox y hx hy Oy. apply IH; auto. }
  clear IH.
  destruct a, b; cbn [eq_f] in EQ; try discriminate EQ;
    try (unfold native_eq in EQ; cbn [num_of] in EQ; try discriminate EQ).
  (* MISSING, None *)
  1-2: simpl in Ha, Hb; congruence.
  (* numbers *)
  1-9: apply is_eq_true in EQ; apply Qeq_alt in EQ; apply Qred_complete in EQ;
       cbn [hpre] in Ha, Hb; inv Ha; inv Hb; f_equal; exact EQ.
  - (* str *) apply str_eqb_eq in EQ. simpl in Ha, Hb. congruence.
  - (* list *)
    cbn [hpre] in Ha, Hb. destruct sym; try discriminate. destruct sym0; try discriminate.
    destruct (all_ok (map (hpre t) l)) eqn:A; try discriminate.
    destruct (all_ok (map (hpre t) l0)) eqn:B; try discriminate. inv Ha. inv Hb. f_equal.
    cbn [cmp_ok depth] in *. rewrite forallb_forall in Oa, Ob.
    apply (list_hash (eq_f n) l l0 a a0); auto.
    + apply Forall_forall. intros x I. apply KID; auto. pose proof (depth_In x l I). lia.
    + apply Forall_forall. auto.
  - (* tuple *)
    cbn [hpre] in Ha, Hb.
    destruct (all_ok (map (hpre t) l)) eqn:A; try discriminate.
    destruct (all_ok (map (hpre t) l0)) eqn:B; try discriminate. inv Ha. inv Hb. f_equal.
    cbn [cmp_ok depth] in *. rewrite forallb_forall in Oa, Ob.
    apply (list_hash (eq_f n) l l0 a a0); auto.
    + apply Forall_forall. intros x I. destruct (leaf_cmp_ok t f x (Oa x I)). apply KID; auto. lia.
    + apply Forall_forall. intros y I. destruct (leaf_cmp_ok t f y (Ob y I)). auto.
  - (* dict *)
    cbn [hpre] in Ha, Hb. destruct sym; try discriminate. destruct sym0; try discriminate.
    change (map (fun kv : key * pv => (fst kv, (is_missing (snd kv), hpre t (snd kv)))) ents) with (map G ents) in Ha.
    change (map (fun kv : key * pv => (fst kv, (is_missing (snd kv), hpre t (snd kv)))) ents0) with (map G ents0) in Hb.
    rewrite hash_ents_hl in Ha, Hb.
    destruct (hl ents) eqn:A; try discriminate. destruct (hl ents0) eqn:B; try discriminate. inv Ha. inv Hb.
    cbn [cmp_ok depth] in *. apply andb_prop in Oa. apply andb_prop in Ob. destruct Oa as [Na Oa], Ob as [Nb Ob].
    rewrite forallb_forall in Oa, Ob.
    assert (SE : sort_ents t a = sort_ents t a0).
    { apply (dict_hash (eq_f n) ents ents0 a a0); auto.
      + apply Forall_forall. intros p I. apply KID; auto. pose proof (depth_ent_In p ents I). lia.
      + apply Forall_forall. auto.
      + intros x y. apply eq_f_missing. }
    rewrite SE. reflexivity.
  - (* object *)
    apply andb_prop in EQ. destruct EQ as [EN EQ]. apply andb_prop in EN. destruct EN as [EN EU].
    apply str_eqb_eq in EN. apply N.eqb_eq in EU. subst name0 uid0.
    cbn [hpre] in Ha, Hb.
    change (map (fun kv : key * pv => (fst kv, (is_missing (snd kv), hpre t (snd kv)))) ents) with (map G ents) in Ha.
    change (map (fun kv : key * pv => (fst kv, (is_missing (snd kv), hpre t (snd kv)))) ents0) with (map G ents0) in Hb.
    rewrite hash_ents_hl in Ha, Hb.
    destruct (hl ents) eqn:A; try discriminate. destruct (hl ents0) eqn:B; try discriminate. inv Ha. inv Hb.
    cbn [cmp_ok depth] in *.
    repeat (apply andb_prop in Oa; destruct Oa as [Oa ?]). repeat (apply andb_prop in Ob; destruct Ob as [Ob ?]).
    rewrite forallb_forall in *.
    assert (SE : sort_ents t a = sort_ents t a0).
    { apply (dict_hash (eq_f n) ents ents0 a a0); auto.
      + apply Forall_forall. intros p I. apply KID; auto. pose proof (depth_ent_In p ents I). lia.
      + apply Forall_forall. auto.
      + intros x y. apply eq_f_missing. }
    rewrite SE. reflexivity.
Qed.

Lemma eq_hash_law a b ha hb : ok a -> ok b ->
  eq a b = true -> hpre t a = Ok ha -> hpre t b = Ok hb -> ha = hb.
Proof. intros Oa Ob. unfold eq. apply eq_hash_f; auto. Qed.

(* pg.hash is defined on every value that is symbolic all the way down *)
Lemma all_ok_total {A} (l : list (result A)) : Forall (fun x => exists a, x = Ok a) l -> exists r, all_ok l = Ok r.
Proof. induction 1 as [|x l [a ->] _ [r IH]]; simpl; eauto. rewrite IH. eauto. Qed.

Lemma hl_total e : (forall p, In p e -> exists h, hpre t (snd p) = Ok h) -> exists l, hl e = Ok l.
Proof.
  induction e as [|[k v] r IH]; intros H.
  - exists []. reflexivity.
  - rewrite hl_cons. destruct IH as [l Hl]; [intros; apply H; simpl; auto|].
    destruct (is_missing v); [eauto|].
    destruct (H (k, v)) as [h Hh]; simpl; auto. simpl in Hh. rewrite Hh, Hl. eauto.
Qed.

Lemma hash_total n : forall v, depth v < n -> hashable v = true -> exists h, hpre t v = Ok h.
Proof.
  induction n as [|n IH]; intros v D H; [lia|].
  destruct v; cbn [hpre]; eauto; cbn [hashable depth] in *.
  - apply andb_prop in H. destruct H as [-> H]. rewrite forallb_forall in H.
    destruct (all_ok_total (map (hpre t) l)) as [r ->]; eauto.
    apply Forall_forall. intros x I. apply in_map_iff in I. destruct I as (y & <- & I).
    apply IH; auto. pose proof (depth_In y l I). lia.
  - rewrite forallb_forall in H.
    destruct (all_ok_total (map (hpre t) l)) as [r ->]; eauto.
    apply Forall_forall. intros x I. apply in_map_iff in I. destruct I as (y & <- & I).
    apply IH; auto. pose proof (depth_In y l I). lia.
  - apply andb_prop in H. destruct H as [-> H]. rewrite forallb_forall in H.
    change (map (fun kv : key * pv => (fst kv, (is_missing (snd kv), hpre t (snd kv)))) ents) with (map G ents).
    rewrite hash_ents_hl. destruct (hl_total ents) as [l ->]; eauto.
    intros p I. apply IH; auto. pose proof (depth_ent_In p ents I). lia.
  - rewrite forallb_forall in H.
    change (map (fun kv : key * pv => (fst kv, (is_missing (snd kv), hpre t (snd kv)))) ents) with (map G ents).
    rewrite hash_ents_hl. destruct (hl_total ents) as [l ->]; eauto.
    intros p I. apply IH; auto. pose proof (depth_ent_In p ents I). lia.
Qed.
Lemma hash_total_law v : hashable v = true -> exists h, hpre t v = Ok h.
Proof. intros H. apply (hash_total (S (depth v))); auto. Qed.
End WithTable.

(* TypingExtendFrozen.v — the extension theorem with frozen children: a child spec (or any of its
   parts) may be frozen; the base is not frozen. *)
From PG Require Import Common.Tactics Model.Typing Proofs.TypingBasics Proofs.TypingApply Proofs.TypingDict
                       Proofs.TypingApplyDict Proofs.TypingCompat Proofs.TypingExtend Proofs.TypingTheorems.
Local Open Scope Z_scope.
Local Arguments Z.mul : simpl never.

(* ------------------------------------------------------------------------------------------ *)
(** * wf = the spec's own frozen value is a value of it + the parts are wf *)

Definition kids (s : spec) : Prop :=
  match s with
  | SAny m => noneable m = true
  | SList e _ _ _ => wf e
  | STuple es _ _ _ => Forall wf es
  | SDict (Some fs) _ => Forall (fun kf => wf (snd kf)) fs
  | SUnion cs _ => Forall wf cs
  | _ => True
  end.

Lemma all_wf_iff : forall l,
  (fix all (l : list spec) : Prop := match l with [] => True | x :: r => wf x /\ all r end) l <-> Forall wf l.
Proof. induction l; simpl; split; intros H; auto; [destruct H; constructor; tauto | inv H; tauto]. Qed.

Lemma all_wf_fields_iff : forall l,
  (fix all (l : list (fkey * spec)) : Prop := match l with [] => True | kf :: r => wf (snd kf) /\ all r end) l
  <-> Forall (fun kf => wf (snd kf)) l.
Proof. induction l; simpl; split; intros H; auto; [destruct H; constructor; tauto | inv H; tauto]. Qed.

Lemma wf_split : forall s, wf s <-> frozen_value_ok s /\ kids s.
Proof.
  destruct s; simpl; try tauto; try (rewrite all_wf_iff; tauto);
    try (destruct schema; [rewrite all_wf_fields_iff|]; tauto).
Qed.

Lemma kids_set_default : forall s d, kids (set_default s d) <-> kids s.
Proof. destruct s; simpl; try tauto; try (destruct schema; tauto). Qed.

(* ------------------------------------------------------------------------------------------ *)
(** * allow_partial is irrelevant on values without MISSING_VALUE (no Dict schema, no Union) *)

Lemma mapM_ext_in : forall {A B} (f g : A -> res B) l, (forall x, In x l -> f x = g x) -> mapM f l = mapM g l.
Proof.
  induction l; simpl; intros H; auto. rewrite (H a (or_introl eq_refl)), IHl; auto.
Qed.

Lemma zipM_ext_in : forall (f g : spec -> pv -> res pv) es l,
  (forall e x, In e es -> In x l -> f e x = g e x) -> zipM f es l = zipM g es l.
Proof.
  induction es; destruct l; simpl; intros H; auto.
  rewrite (H a p (or_introl eq_refl) (or_introl eq_refl)), (IHes l); auto.
Qed.

Lemma partial_total : forall s, no_union s = true -> no_schema s = true ->
  forall v, total v = true -> apply true s v = apply false s v.
Proof.
  induction s using spec_ind'; intros NU NS v T; rewrite !apply_eq; unfold pipeline;
    destruct (frozen (mods_of _)); try reflexivity;
    destruct v; try reflexivity; try discriminate;
    (destruct (coerce _ _) as [v1|] eqn:C; simpl; [|reflexivity]);
    try reflexivity.
  all: try (simpl in NS; discriminate).
  all: try (simpl in NU; discriminate).
  - (* List *)
    simpl in C. inv C.
    simpl in T, NU, NS. rewrite forallb_forall in T.
    erewrite mapM_ext_in; [reflexivity|]. intros x Ix. apply IHs; auto.
  - (* Tuple *)
    simpl in C. inv C.
    simpl in T, NU, NS. rewrite forallb_forall in T, NU, NS. rewrite Forall_forall in H.
    destruct (fixed_length mn mx).
    + destruct (negb (len l =? len es)); [reflexivity|].
      erewrite zipM_ext_in; [reflexivity|]. intros e x Ie Ix. apply H; auto.
    + destruct (negb (size_ok mn mx (len l))); [reflexivity|]. destruct es as [|e es']; [reflexivity|].
      erewrite mapM_ext_in; [reflexivity|]. intros x Ix.
      apply H; auto; try (left; reflexivity); [apply NU | apply NS]; left; reflexivity.
Qed.

(* ------------------------------------------------------------------------------------------ *)
(** * Support *)

Lemma dflt_set_default : forall s d, dflt (mods_of (set_default s (Some d))) = d.
Proof. destruct s; reflexivity. Qed.

(* the re-validated default is a value of the (unfrozen) spec *)
Lemma fvo_revalidated : forall s d d', no_union s = true -> no_schema s = true ->
  apply true (unfreeze s) d = Ok d' -> frozen_value_ok (set_default s (Some d')).
Proof.
  unfold frozen_value_ok, conforms. intros s d d' NU NS A F T. rewrite dflt_set_default in *.
  replace (unfreeze (set_default s (Some d'))) with (with_mods s (Mods (noneable (mods_of s)) (Some d') false))
    by (destruct s; reflexivity).
  rewrite (apply_default_irrelevant false s _ (Some d') (default (mods_of s))).
  change (with_mods s (Mods (noneable (mods_of s)) (default (mods_of s)) false)) with (unfreeze s).
  assert (NU' : no_union (unfreeze s) = true) by (unfold unfreeze; rewrite no_union_with_mods; auto).
  assert (NS' : no_schema (unfreeze s) = true) by (unfold unfreeze; rewrite no_schema_with_mods; auto).
  rewrite <- partial_total by auto. eapply apply_idempotent_seq; eauto.
Qed.

Lemma fvo_no_default : forall s, default (mods_of s) = None -> frozen_value_ok s.
Proof. unfold frozen_value_ok, dflt. intros s D F T. rewrite D in T. discriminate. Qed.

Lemma compat_set_default_r2 : forall q b s d,
  (frozen (mods_of s) = false \/ is_enum b = false) -> is_union b = false -> frozen (mods_of b) = false ->
  compat q b (set_default s d) = compat q b s.
Proof.
  intros q b s d FE U Fb. rewrite !compat_eq. unfold compat1, frozen_ok.
  destruct b; try discriminate; cbn [mods_of] in Fb;
    destruct s; destruct m0 as [n d0 fz]; cbn; rewrite ?Fb; cbn [negb]; rewrite ?orb_true_r; cbn [orb andb];
    try reflexivity;
    destruct FE as [F|F]; try discriminate; simpl in F; subst; reflexivity.
Qed.

Lemma py_eq_missing_r : forall u, py_eq u PMissing = true -> u = PMissing.
Proof. destruct u; simpl; intros; try discriminate; auto. Qed.

(* an unfrozen Enum treats a present value the same whatever allow_partial and the default are *)
Lemma enum_apply_indep : forall vals m1 m2 p1 p2 v,
  frozen m1 = false -> frozen m2 = false -> noneable m1 = noneable m2 -> v <> PMissing ->
  apply p1 (SEnum vals m1) v = apply p2 (SEnum vals m2) v.
Proof.
  intros vals m1 m2 p1 p2 v F1 F2 N NM. rewrite !apply_eq. unfold pipeline. cbn [mods_of].
  rewrite F1, F2, N. destruct v; try reflexivity. congruence.
Qed.

Definition goodf (s : spec) : Prop :=
  no_union s = true /\ no_schema s = true /\ enums_ok s = true /\ sizes_ok s = true /\ wf s.
Definition goodc (s : spec) : Prop :=
  no_union s = true /\ no_schema s = true /\ enums_ok s = true /\ sizes_ok s = true /\ kids s.
Definition basef (b : spec) : Prop :=
  no_union b = true /\ no_schema b = true /\ sizes_ok b = true /\ enums_ok b = true /\ no_frozen b = true.
Definition ext_okf (q : quirks) (c : spec) : Prop :=
  forall b c', basef b -> extend_in q c b = Ok c' -> compat q b c' = true /\ goodf c'.

Lemma goodf_goodc : forall s, goodf s -> goodc s.
Proof. intros s (A & B & C & D & W). apply wf_split in W as [_ K]. unfold goodc. auto. Qed.

Lemma finishf : forall q b s c', is_union b = false -> frozen (mods_of b) = false ->
  (frozen (mods_of s) = false \/ is_enum b = false) -> goodc s ->
  revalidate (Ok s) = Ok c' -> compat q b s = true -> compat q b c' = true /\ goodf c'.
Proof.
  intros q b s c' U Fb FE (A & B & C & D & K) R CP.
  unfold revalidate in R. cbn [bind] in R.
  destruct (default (mods_of s)) as [d|] eqn:DF.
  - destruct (apply true (unfreeze s) d) as [d'|] eqn:AP; inv R.
    split. { rewrite compat_set_default_r2; auto. }
    destruct (flags_set_default s (Some d')) as (A' & B' & _ & C' & D' & _).
    unfold goodf. rewrite A', B', C', D'. repeat split; auto.
    apply wf_split. split. eapply fvo_revalidated; eauto. apply kids_set_default. auto.
  - inv R. split; auto. unfold goodf. repeat split; auto.
    apply wf_split. split; auto using fvo_no_default.
Qed.

(* ------------------------------------------------------------------------------------------ *)
(** * Children *)

Lemma zip_extend_okf : forall q es bes es',
  Forall (ext_okf q) es -> Forall basef bes -> length es = length bes ->
  zip_extend (extend_in q) es bes = Ok es' ->
  forall2b (compat q) bes es' = true /\ Forall goodf es' /\ length es' = length es.
Proof.
  induction es as [|e es IH]; destruct bes as [|be bes]; simpl; intros es' HE HB L Z; try discriminate.
  - inv Z. auto.
  - inv HE. inv HB.
    destruct (extend_in q e be) as [e'|] eqn:Ee; simpl in Z; [|discriminate].
    destruct (zip_extend (extend_in q) es bes) as [r'|] eqn:Er; simpl in Z; inv Z.
    destruct (H1 _ _ H3 Ee) as [C G]. destruct (IH _ _ H2 H4 ltac:(lia) Er) as (C' & G' & L').
    simpl. rewrite C, C'. repeat split; auto.
Qed.

Lemma map_extend_okf : forall q be es es',
  Forall (ext_okf q) es -> basef be ->
  mapM (fun x => extend_in q x be) es = Ok es' ->
  forallb (compat q be) es' = true /\ Forall goodf es' /\ length es' = length es.
Proof.
  induction es as [|e es IH]; simpl; intros es' HE HB Z.
  - inv Z. auto.
  - inv HE.
    destruct (extend_in q e be) as [e'|] eqn:Ee; simpl in Z; [|discriminate].
    destruct (mapM (fun x => extend_in q x be) es) as [r'|] eqn:Er; simpl in Z; inv Z.
    destruct (H1 _ _ HB Ee) as [C G]. destruct (IH _ H2 HB eq_refl) as (C' & G' & L').
    simpl. rewrite C, C'. repeat split; auto.
Qed.

Lemma goodf_all : forall (P : spec -> bool) l, Forall goodf l ->
  (forall s, goodf s -> P s = true) -> forallb P l = true.
Proof. intros P l G H. apply forallb_forall. rewrite Forall_forall in G. auto. Qed.

Lemma goodc_tuple : forall es mn mx m, 0 <= mn ->
  (fixed_length mn mx = false -> es <> []) -> Forall goodf es -> goodc (STuple es mn mx m).
Proof.
  intros es mn mx m MN SH G. unfold goodc. simpl.
  replace (0 <=? mn) with true by lia.
  replace (fixed_length mn mx || match es with [] => false | _ => true end) with true
    by (destruct (fixed_length mn mx); simpl; auto; destruct es; auto; exfalso; apply SH; auto).
  simpl.
  repeat split; try (eapply goodf_all; eauto; unfold goodf; tauto).
  eapply Forall_impl; [|exact G]. unfold goodf. tauto.
Qed.

Lemma goodc_list : forall e mn mx m, 0 <= mn -> goodf e -> goodc (SList e mn mx m).
Proof.
  intros e mn mx m MN (A & B & C & D & W). unfold goodc. simpl.
  replace (0 <=? mn) with true by lia. simpl. repeat split; auto.
Qed.

Lemma goodf_tuple_inv : forall es mn mx m, goodf (STuple es mn mx m) ->
  0 <= mn /\ Forall goodf es /\ (fixed_length mn mx = false -> es <> []).
Proof.
  intros es mn mx m (A & B & C & E & F). simpl in *.
  apply andb_true_iff in E as [E1 E2]. apply andb_true_iff in E1 as [E1 E3].
  split. lia.
  pose proof (wf_tuple _ _ _ _ F) as W.
  split; [|intros FX; rewrite FX in E3; destruct es; [discriminate|congruence]].
  apply Forall_forall. intros e He. unfold goodf.
  rewrite forallb_forall in A, B, C, E2. rewrite Forall_forall in W. repeat split; auto.
Qed.

Lemma goodf_list_inv : forall e mn mx m, goodf (SList e mn mx m) -> 0 <= mn /\ goodf e.
Proof.
  intros e mn mx m (A & B & C & E & F). simpl in *. apply andb_true_iff in E as [E1 E2].
  split. lia. unfold goodf. repeat split; auto. eapply wf_list; eauto.
Qed.

Lemma basef_tuple_inv : forall es mn mx m, basef (STuple es mn mx m) ->
  0 <= mn /\ Forall basef es /\ (fixed_length mn mx = false -> es <> []).
Proof.
  intros es mn mx m (A & B & E & N & NF). simpl in *. apply andb_true_iff in E as [E1 E2].
  apply andb_true_iff in E1 as [E1 E3]. apply andb_true_iff in NF as [_ NF]. split. lia.
  split; [|intros F; rewrite F in E3; destruct es; [discriminate|congruence]].
  apply Forall_forall. intros e He. unfold basef. rewrite forallb_forall in A, B, E2, N, NF. auto 6.
Qed.

Lemma basef_list_inv : forall e mn mx m, basef (SList e mn mx m) -> basef e.
Proof.
  intros e mn mx m (A & B & E & N & NF). simpl in *. apply andb_true_iff in E as [_ E].
  apply andb_true_iff in NF as [_ NF]. unfold basef. auto 6.
Qed.

Lemma goodc_leaf : forall s,
  match s with SBool _ | SInt _ _ _ | SFloat _ _ _ | SStr _ | SObj _ _ | SDict None _ => True | _ => False end ->
  goodc s.
Proof.
  intros s K. destruct s; try contradiction; try (destruct schema; try contradiction);
    unfold goodc; simpl; auto 6.
Qed.

(* ------------------------------------------------------------------------------------------ *)
(** * The theorem *)

Lemma enum_special : forall q c vals mb c',
  q_enum_shortcut q = false ->
  frozen (mods_of c) = true -> frozen mb = false -> enums_ok (SEnum vals mb) = true ->
  (if py_in (dflt (mods_of c)) vals
   then let? _ := new_frozen_enum vals (dflt (mods_of c)) in Ok c
   else Err TypeErr) = Ok c' ->
  c' = c /\ compat q (SEnum vals mb) c = true.
Proof.
  intros q c vals mb c' Q3 Fc Fb EN H.
  destruct (py_in (dflt (mods_of c)) vals) eqn:PI; [|discriminate].
  unfold new_frozen_enum in H.
  destruct (apply true (SEnum vals (Mods (has_none vals) None false)) (dflt (mods_of c))) as [d'|] eqn:A;
    simpl in H; inv H.
  split; auto.
  simpl in EN. apply andb_true_iff in EN as [EN1 EN2]. apply Bool.eqb_prop in EN1.
  assert (NM : dflt (mods_of c') <> PMissing).
  { intros X. rewrite X in PI. unfold py_in in PI. apply existsb_exists in PI as [u [Iu Eu]].
    apply py_eq_missing_r in Eu. subst u.
    assert (Y : existsb is_missing vals = true) by (apply existsb_exists; exists PMissing; auto).
    rewrite Y in EN2. discriminate. }
  rewrite (enum_apply_indep vals _ mb true false) in A; auto.
  rewrite compat_eq. unfold compat1, frozen_ok. cbn [mods_of]. rewrite Fb. cbn [negb].
  rewrite orb_true_r. cbn [orb andb]. rewrite Fc, PI, Q3, A. reflexivity.
Qed.

Theorem extend_compat_frozen : forall q, no_quirks q -> forall c, goodf c -> ext_okf q c.
Proof.
  intros q (Q1 & Q2 & Q3 & Q4 & Q5).
  induction c using spec_ind'; intros G b c' B HX;
    pose proof G as G0; destruct G as (NU & NS & EN & SZ & W);
    pose proof B as B0; destruct B as (NUb & NSb & SZb & ENb & NFb);
    pose proof (no_frozen_top _ NFb) as Fb;
    rewrite extend_in_eq in HX; unfold extend_in1, frozen_base_bad in HX; cbn [mods_of] in HX;
    rewrite Fb in HX; cbn [andb] in HX;
    (* a frozen child on an Enum base *)
    (destruct (frozen m && is_enum b) eqn:SP;
     [ apply andb_true_iff in SP as [Fc IE]; destruct b; try discriminate;
       cbn [enum_vals] in HX;
       match goal with G1 : goodf ?cc |- _ =>
         destruct (enum_special q cc vals m0 c' Q3 Fc Fb ENb HX) as [E CP]; subst c'; split; auto end |]);
    assert (FE : frozen m = false \/ is_enum b = false)
      by (destruct (frozen m); destruct (is_enum b); simpl in SP; auto; discriminate);
    (destruct (is_any b) eqn:IA;
     [ inv HX; split; auto; destruct b; try discriminate;
       rewrite compat_eq; unfold compat1; cbn [mods_of] in *; rewrite compat1_frozen_ok by auto; reflexivity |]);
    rewrite (no_union_top _ NUb), andb_false_r in HX; cbn [bind] in HX;
    rewrite Q5 in HX; cbn [andb] in HX; rewrite orb_false_r in HX;
    (destruct (same_class _ b) eqn:SC; [|discriminate]); cbn [negb] in HX;
    match type of HX with (if ?x then _ else _) = _ => destruct x eqn:NO; [discriminate|] end;
    apply none_ok_from_check in NO.
  - (* Bool *)
    destruct b; try discriminate. cbn [extend_class] in HX.
    eapply finishf; [reflexivity | exact Fb | | | exact HX | ]; [exact FE | apply goodc_leaf; exact I | ].
    rewrite compat_eq. unfold compat1. cbn [mods_of] in *.
    rewrite compat1_frozen_ok by auto. exact NO.
  - (* Int *)
    destruct b; try discriminate. cbn [extend_class] in HX.
    destruct (number_extend lo hi lo0 hi0) as [r|] eqn:NX; cbn [bind] in HX; [|discriminate].
    eapply finishf; [reflexivity | exact Fb | | | exact HX | ]; [exact FE | apply goodc_leaf; exact I | ].
    rewrite compat_eq. unfold compat1. cbn [mods_of] in *.
    rewrite compat1_frozen_ok by auto. rewrite NO. simpl. eapply number_extend_compat; eauto.
  - (* Float *)
    destruct b; try discriminate. cbn [extend_class] in HX.
    destruct (number_extend lo hi lo0 hi0) as [r|] eqn:NX; cbn [bind] in HX; [|discriminate].
    eapply finishf; [reflexivity | exact Fb | | | exact HX | ]; [exact FE | apply goodc_leaf; exact I | ].
    rewrite compat_eq. unfold compat1. cbn [mods_of] in *.
    rewrite compat1_frozen_ok by auto. rewrite NO. simpl. eapply number_extend_compat; eauto.
  - (* Str *)
    destruct b; try discriminate. cbn [extend_class] in HX.
    eapply finishf; [reflexivity | exact Fb | | | exact HX | ]; [exact FE | apply goodc_leaf; exact I | ].
    rewrite compat_eq. unfold compat1. cbn [mods_of] in *.
    rewrite compat1_frozen_ok by auto. exact NO.
  - (* Enum child of an Enum base (the child is not frozen here) *)
    destruct b; try discriminate. cbn [extend_class] in HX.
    assert (Fc : frozen m = false) by (destruct FE as [F|F]; [exact F|discriminate]).
    destruct (enum_extend_go (SEnum vals m0) (SEnum vs m) vs) as [s|] eqn:EG; [|discriminate].
    destruct (enum_go_inv _ _ _ _ EG) as [E ACC]. subst s.
    eapply finishf; [reflexivity | exact Fb | | | exact HX | ]; [exact FE | apply goodf_goodc; exact G0 | ].
    rewrite compat_eq. unfold compat1. cbn [mods_of] in *.
    rewrite compat1_frozen_ok by auto. rewrite Fc. cbn [andb orb].
    rewrite NO. cbn [andb]. apply andb_true_iff. split.
    + apply forallb_forall. intros w Iw. destruct (ACC _ Iw) as [r Hr].
      simpl in ENb. apply andb_true_iff in ENb as [ENb _]. eapply enum_accept_in; [exact Fb | exact ENb | exact Hr].
    + unfold enum_types_ok. rewrite Q4. cbn [orb enum_vals].
      destruct (enum_vtype vals) as [[|t [|t2 r2]]|] eqn:VT; auto.
      * destruct t; auto; (eapply enum_accept_typed; [exact Fb | exact VT | reflexivity | exact ACC]).
      * destruct t; reflexivity.
  - (* List *)
    destruct b; try discriminate. cbn [extend_class] in HX.
    destruct (listkey_extend mn mx mn0 mx0) as [mx'|] eqn:LK; cbn [bind] in HX; [|discriminate].
    destruct (extend_in q c b) as [e'|] eqn:EE; cbn [bind] in HX; [|discriminate].
    destruct (goodf_list_inv _ _ _ _ G0) as [MN0 Ge].
    destruct (IHc Ge b e' (basef_list_inv _ _ _ _ B0) EE) as [Ce Ge'].
    destruct (listkey_extend_ok _ _ _ _ _ LK) as [MN MX].
    eapply finishf; [reflexivity | exact Fb | | | exact HX | ]; [exact FE | apply goodc_list; auto | ].
    rewrite compat_eq. unfold compat1. cbn [mods_of] in *.
    rewrite compat1_frozen_ok by auto. rewrite NO, Q1, MN, MX, Ce. reflexivity.
  - (* Tuple *)
    destruct b; try discriminate. cbn [extend_class] in HX.
    destruct (goodf_tuple_inv _ _ _ _ G0) as (MN0 & Ges & GNE).
    destruct (basef_tuple_inv _ _ _ _ B0) as (BMN0 & Bes & BNE).
    assert (IHes : Forall (ext_okf q) es).
    { rewrite Forall_forall in *. intros e He. apply H; auto. }
    destruct (fixed_length mn mx) eqn:FA.
    + destruct (fixed_length mn0 mx0) eqn:FB.
      * destruct (len es =? len es0) eqn:LL; cbn [negb] in HX; [|discriminate].
        destruct (zip_extend (extend_in q) es es0) as [es'|] eqn:Z; cbn [bind] in HX; [|discriminate].
        destruct (zip_extend_okf _ _ _ _ IHes Bes ltac:(unfold len in LL; lia) Z) as (C & Gs & L).
        eapply finishf; [reflexivity | exact Fb | | | exact HX | ];
          [exact FE | apply goodc_tuple; auto; intros X; congruence | ].
        rewrite compat_eq. unfold compat1. cbn [mods_of] in *.
        rewrite compat1_frozen_ok by auto. rewrite NO, FB, FA, C. simpl.
        unfold len in *. rewrite andb_true_r. lia.
      * destruct (mn0 >? len es) eqn:E1; [discriminate|].
        destruct (match mx0 with Some bh => bh <? len es | None => false end) eqn:E2; [discriminate|].
        destruct es0 as [|be bes].
        -- exfalso. apply BNE; reflexivity.
        -- pose proof (Forall_inv Bes) as Hbe.
           destruct (mapM (fun x => extend_in q x be) es) as [es'|] eqn:Z; cbn [bind] in HX; [|discriminate].
           destruct (map_extend_okf _ _ _ _ IHes Hbe Z) as (C & Gs & L).
           eapply finishf; [reflexivity | exact Fb | | | exact HX | ];
             [exact FE | apply goodc_tuple; auto; intros X; congruence | ].
           rewrite compat_eq. unfold compat1. cbn [mods_of] in *.
           rewrite compat1_frozen_ok by auto. rewrite NO, FB, FA, C. simpl.
           unfold len in *. rewrite L. rewrite andb_true_r. apply andb_true_iff. split; [lia|].
           destruct mx0; simpl in *; lia.
    + destruct (fixed_length mn0 mx0) eqn:FB; [discriminate|].
      destruct (negb (mn =? 0) && (mn <? mn0)) eqn:E1; [discriminate|].
      destruct (match mx, mx0 with Some h, Some bh => h >? bh | _, _ => false end) eqn:E2; [discriminate|].
      destruct es as [|e es1]; [discriminate|]. destruct es0 as [|be bes]; [discriminate|].
      destruct (extend_in q e be) as [e'|] eqn:EE; cbn [bind] in HX; [|discriminate].
      pose proof (Forall_inv IHes) as IHe. pose proof (Forall_inv Bes) as Hbe.
      destruct (IHe _ _ Hbe EE) as [Ce Ge].
      set (mn' := if mn =? 0 then mn0 else mn) in *.
      set (mx' := match mx with Some _ => mx | None => mx0 end) in *.
      assert (MN' : mn0 <= mn' /\ 0 <= mn') by (unfold mn'; destruct (mn =? 0) eqn:Z0; simpl in E1; lia).
      assert (MX' : match mx0 with Some bh => match mx' with Some h => h <= bh | None => False end | None => True end).
      { unfold mx'. destruct mx, mx0; simpl in *; auto; lia. }
      destruct (fixed_length mn' mx') eqn:FN.
      * eapply finishf; [reflexivity | exact Fb | | | exact HX | ];
          [exact FE | apply goodc_tuple; auto; [lia | intros X; congruence | apply repeat_Forall; auto] | ].
        rewrite compat_eq. unfold compat1. cbn [mods_of] in *.
        rewrite compat1_frozen_ok by auto. rewrite NO, FB, FN. simpl.
        rewrite repeat_forallb by auto. rewrite andb_true_r.
        unfold len. rewrite repeat_length, Z2Nat.id by lia.
        unfold fixed_length in FN. destruct mx' as [h|]; [|discriminate]. apply Z.eqb_eq in FN. subst h.
        apply andb_true_iff. split; [lia|]. destruct mx0; simpl in *; lia.
      * eapply finishf; [reflexivity | exact Fb | | | exact HX | ];
          [exact FE | apply goodc_tuple; auto; [lia | intros _; discriminate] | ].
        rewrite compat_eq. unfold compat1. cbn [mods_of] in *.
        rewrite compat1_frozen_ok by auto. rewrite NO, FB, FN, Ce. simpl. rewrite andb_true_r.
        apply andb_true_iff. split; [lia|]. destruct mx0, mx'; simpl in *; auto; try lia; contradiction.
  - (* schema-less Dict *)
    destruct b; try discriminate. simpl in NSb. destruct schema; [discriminate|].
    cbn [extend_class] in HX.
    eapply finishf; [reflexivity | exact Fb | | | exact HX | ]; [exact FE | apply goodc_leaf; exact I | ].
    rewrite compat_eq. unfold compat1. cbn [mods_of] in *.
    rewrite compat1_frozen_ok by auto. rewrite NO. reflexivity.
  - simpl in NS. discriminate.
  - (* Object *)
    destruct b; try discriminate. cbn [extend_class] in HX.
    destruct (compat q (SObj c0 m0) (SObj c m)) eqn:CP; [|discriminate].
    eapply finishf; [reflexivity | exact Fb | | | exact HX | ]; [exact FE | apply goodc_leaf; exact I | exact CP].
  - simpl in NU. discriminate.
  - (* Any child: only an Any base has the same class, and that returned earlier *)
    destruct b; try discriminate.
Qed.

(* ------------------------------------------------------------------------------------------ *)
(** * What c.extend(b) returns *)

Lemma apply_not_missing : forall vals m v v', frozen m = false -> v <> PMissing ->
  apply false (SEnum vals m) v = Ok v' -> v' <> PMissing.
Proof.
  intros vals m v v' F NM H X. subst v'.
  destruct (apply_missing_out false (SEnum vals m) v eq_refl H) as [[A _]|[_ B]]; cbn [mods_of] in *; congruence.
Qed.

Lemma new_enum_ok : forall q vals mb d e,
  q_enum_shortcut q = false -> frozen mb = false -> enums_ok (SEnum vals mb) = true ->
  py_in d vals = true -> new_frozen_enum vals d = Ok e ->
  compat q (SEnum vals mb) e = true /\ goodf e.
Proof.
  intros q vals mb d e Q3 Fb EN PI H. unfold new_frozen_enum in H.
  set (e0 := SEnum vals (Mods (has_none vals) None false)) in *.
  destruct (apply true e0 d) as [d'|] eqn:A; simpl in H; inv H.
  pose proof EN as EN0. simpl in EN. apply andb_true_iff in EN as [EN1 EN2]. apply Bool.eqb_prop in EN1.
  assert (NM : d <> PMissing).
  { intros X. subst d. unfold py_in in PI. apply existsb_exists in PI as [u [Iu Eu]].
    apply py_eq_missing_r in Eu. subst u.
    assert (Y : existsb is_missing vals = true) by (apply existsb_exists; exists PMissing; auto).
    rewrite Y in EN2. discriminate. }
  (* the stored value is a value of the base *)
  assert (A1 : apply false (SEnum vals mb) d = Ok d').
  { rewrite <- A. symmetry. apply enum_apply_indep; auto. }
  pose proof (apply_not_missing _ _ _ _ Fb NM A1) as NM'.
  assert (A2 : apply false (SEnum vals mb) d' = Ok d').
  { eapply apply_idempotent_seq; eauto. }
  assert (PI' : py_in d' vals = true) by (eapply enum_accept_in; eauto; rewrite EN1; apply Bool.eqb_reflx).
  split.
  - rewrite compat_eq. unfold compat1, frozen_ok. cbn [mods_of frozen dflt default]. rewrite Fb. cbn [negb].
    rewrite orb_true_r. cbn [orb andb]. rewrite PI', Q3. cbn [orb]. rewrite A2. reflexivity.
  - unfold goodf. repeat split; try reflexivity.
    + simpl. rewrite EN2. rewrite Bool.eqb_reflx. reflexivity.
    + unfold frozen_value_ok, conforms. intros _ T.
      change (dflt (mods_of (SEnum vals (Mods (has_none vals) (Some d') true)))) with d'.
      change (unfreeze (SEnum vals (Mods (has_none vals) (Some d') true)))
        with (SEnum vals (Mods (has_none vals) (Some d') false)).
      rewrite <- A2. apply enum_apply_indep; auto.
Qed.

Theorem extend_narrows_frozen : forall q c b c',
  no_quirks q -> goodf c -> basef b -> wf b ->
  extend q c b = Ok c' ->
  (forall v, total v = true -> conforms c' v -> accepts b v) /\ compat q b c' = true.
Proof.
  intros q c b c' NQ G B Wb H.
  assert (R : compat q b c' = true /\ goodf c').
  { pose proof B as (NUb & NSb & SZb & ENb & NFb). pose proof (no_frozen_top _ NFb) as Fb.
    pose proof NQ as (Q1 & Q2 & Q3 & Q4 & Q5).
    unfold extend in H. rewrite Fb in H. cbn [andb] in H.
    destruct (frozen (mods_of c) && is_enum b) eqn:SP.
    - apply andb_true_iff in SP as [Fc IE]. destruct b; try discriminate. cbn [enum_vals] in H.
      destruct (py_in (dflt (mods_of c)) vals) eqn:PI; [|discriminate].
      eapply new_enum_ok; eauto.
    - eapply extend_compat_frozen; eauto. }
  destruct R as [C (_ & _ & _ & _ & Wc')]. split; auto.
  destruct B as (NUb & NSb & _). intros v T Cv. eapply compat_sound_seq; eauto.
Qed.

(* the hypotheses are satisfiable: a frozen Int child of a wider Int base, and a frozen Str child of
   an Enum base *)
Example ex_frozen_child :
  goodf (SInt (Some 1) None (Mods false (Some (PInt 3)) true)) /\
  basef (SInt None (Some 5) m0) /\ wf (SInt None (Some 5) m0) /\
  extend noq (SInt (Some 1) None (Mods false (Some (PInt 3)) true)) (SInt None (Some 5) m0) =
  Ok (SInt (Some 1) (Some 5) (Mods false (Some (PInt 3)) true)).
Proof.
  repeat split; try reflexivity; unfold frozen_value_ok; simpl; intros; try discriminate; reflexivity.
Qed.
Example ex_frozen_on_enum :
  extend noq (SStr (Mods false (Some (PStr (S_ 97))) true)) (SEnum [PStr (S_ 97); PStr (S_ 98)] m0) =
  Ok (SEnum [PStr (S_ 97); PStr (S_ 98)] (Mods false (Some (PStr (S_ 97))) true)).
Proof. vm_compute. reflexivity. Qed.

(* TypingUnionExtend.v — extending a Union base with a safe dispatch. *)
From PG Require Import Common.Tactics Model.Typing Proofs.TypingBasics Proofs.TypingApply Proofs.TypingDict
                       Proofs.TypingApplyDict Proofs.TypingCompat Proofs.TypingCompatDict Proofs.TypingUnion
                       Proofs.TypingUnionCompat Proofs.TypingExtend Proofs.TypingTheorems Proofs.TypingExtendFrozen.
Local Open Scope Z_scope.
Local Arguments Z.mul : simpl never.

(* ------------------------------------------------------------------------------------------ *)
(** * Extending a Union base: the child extends the candidate Union.get_candidate selects *)


(* with every flag off nothing has to be avoided *)
Lemma avoids_noq : forall q s, no_quirks q -> avoids q s = true.
Proof.
  intros q s (Q1 & Q2 & Q3 & Q4 & Q5).
  induction s using spec_ind'; simpl; rewrite ?Q1, ?Q2, ?Q3, ?Q4; simpl; auto;
    try (apply forallb_forall; rewrite Forall_forall in H; auto).
Qed.

Lemma no_schema_keys_ok : forall s, no_schema s = true -> keys_ok s = true.
Proof.
  induction s using spec_ind'; simpl; intros NS; auto; try discriminate;
    rewrite forallb_forall in *; rewrite Forall_forall in H; auto.
Qed.

Lemma get_candidate_in : forall q c cs mb x,
  forallb cand_simple cs = true -> get_candidate q c (SUnion cs mb) = Some x -> In x cs.
Proof.
  intros q c cs mb x CS H. simpl in H.
  destruct (find (fun c0 => same_class c c0 && compat q c c0) cs) eqn:F.
  - inv H. apply find_some in F. tauto.
  - clear F. induction cs as [|c0 r IH]; [discriminate|].
    simpl in CS. apply andb_true_iff in CS as [C0 Cr].
    destruct (cand_simple_vtype _ C0) as [_ [_ U0]].
    destruct c0; try discriminate; (destruct (compat q c _); [inv H; left; reflexivity | right; auto]).
Qed.

(* the tail of extend after the counterpart has been selected is extend against the counterpart *)
Lemma extend_in_union_base : forall q c cs mb x c',
  is_union c = false -> frozen mb = false ->
  forallb cand_simple cs = true ->
  get_candidate q c (SUnion cs mb) = Some x ->
  extend_in q c (SUnion cs mb) = Ok c' -> extend_in q c x = Ok c'.
Proof.
  intros q c cs mb x c' Uc Fb CS G H.
  pose proof (get_candidate_in _ _ _ _ _ CS G) as Ix. rewrite forallb_forall in CS.
  destruct (cand_simple_vtype _ (CS _ Ix)) as [_ [Fx Ux]].
  assert (NE : is_enum x = false /\ is_any x = false).
  { pose proof (CS _ Ix) as K. unfold cand_simple in K. apply andb_true_iff in K as [_ K].
    destruct x; try discriminate; auto. }
  destruct NE as [NE NA].
  rewrite extend_in_eq in *. unfold extend_in1, frozen_base_bad in *. cbn [mods_of is_enum is_any is_union] in H.
  rewrite Fb, Uc, G in H. cbn [andb negb] in H. rewrite andb_false_r in H. cbn [andb] in H.
  rewrite Fx, NE, NA, Ux. cbn [andb]. rewrite !andb_false_r. cbn [andb bind].
  destruct (frozen (mods_of x) && _) eqn:Z; [rewrite Fx in Z; discriminate|].
  cbn [bind] in H. exact H.
Qed.

Theorem extend_union_base : forall q c cs mb c',
  no_quirks q -> goodf c ->
  union_safe (SUnion cs mb) = true -> frozen mb = false ->
  Forall basef cs -> wf (SUnion cs mb) -> keys_ok (SUnion cs mb) = true -> sizes_ok (SUnion cs mb) = true ->
  (forall x, In x cs -> noneable (mods_of x) = true -> noneable mb = true) ->
  extend q c (SUnion cs mb) = Ok c' ->
  compat q (SUnion cs mb) c' = true /\
  (forall v, total v = true -> conforms c' v -> accepts (SUnion cs mb) v).
Proof.
  intros q c cs mb c' NQ G US Fb BS Wb KB SB NN H.
  pose proof NQ as (Q1 & Q2 & Q3 & Q4 & Q5).
  pose proof G as (NUc & NSc & ENc & SZc & Wc).
  assert (Uc : is_union c = false) by (apply no_union_top; auto).
  pose proof US as US0. simpl in US. apply andb_true_iff in US as [US USc]. apply andb_true_iff in US as [CS PU].
  (* the call is extend_in (the base is not an Enum, not frozen) *)
  unfold extend in H. cbn [mods_of is_enum] in H. rewrite Fb in H. cbn [andb] in H. rewrite andb_false_r in H.
  (* the counterpart *)
  pose proof H as H0. rewrite extend_in_eq in H0. unfold extend_in1, frozen_base_bad in H0.
  cbn [mods_of is_enum is_any is_union] in H0. rewrite Fb, Uc in H0. cbn [andb negb] in H0. rewrite andb_false_r in H0.
  cbn [andb] in H0.
  destruct (get_candidate q c (SUnion cs mb)) as [x|] eqn:GC; [|discriminate]. clear H0.
  pose proof (get_candidate_in _ _ _ _ _ CS GC) as Ix.
  pose proof (extend_in_union_base _ _ _ _ _ _ Uc Fb CS GC H) as HX.
  rewrite Forall_forall in BS.
  destruct (extend_compat_frozen q NQ c G x c' (BS _ Ix) HX) as [CX GX].
  assert (CU : compat q (SUnion cs mb) c' = true).
  { rewrite compat_eq. unfold compat1. cbn [mods_of]. rewrite compat1_frozen_ok by auto. cbn [andb].
    destruct GX as (NU' & _).
    assert (UC' : is_union c' = false) by (apply no_union_top; auto).
    apply andb_true_iff. split.
    - (* noneable: the candidate allowed it, and a Union is noneable when a candidate is *)
      rewrite compat_eq in CX. unfold compat1 in CX. apply andb_true_iff in CX as [_ CX].
      assert (NX : none_ok (mods_of x) (mods_of c') = true).
      { rewrite forallb_forall in CS. pose proof (CS _ Ix) as K. unfold cand_simple in K.
        apply andb_true_iff in K as [_ K].
        destruct x; try discriminate; destruct c'; try discriminate; cbn [mods_of] in *; bsplit; auto. }
      unfold none_ok in *. destruct (noneable (mods_of c')) eqn:N; simpl in *; [|apply orb_true_r].
      rewrite orb_false_r in *. eapply NN; eauto.
    - destruct c'; try discriminate; apply existsb_exists; exists x; auto. }
  split; auto.
  intros v T Cv.
  destruct GX as (NU' & NS' & EN' & SZ' & W').
  eapply (compat_sound_union q (SUnion cs mb) US0); eauto;
    first [apply avoids_noq; assumption | apply no_schema_keys_ok; assumption | apply no_union_plain; assumption].
Qed.

(* the hypotheses are satisfiable: Int() extends Union([Str(), Int(..5)]) (get_candidate selects a
   candidate the child is compatible with, so the child is the wider one) *)
Example ex_extend_union_base :
  let b := SUnion [SStr m0; SInt None (Some 5) m0] m0 in
  goodf (SInt None None m0) /\ union_safe b = true /\ Forall basef [SStr m0; SInt None (Some 5) m0] /\ wf b /\
  extend noq (SInt None None m0) b = Ok (SInt None (Some 5) m0).
Proof.
  assert (F : forall s, frozen (mods_of s) = false -> frozen_value_ok s)
    by (unfold frozen_value_ok; intros s E X; congruence).
  split; [|split; [|split; [|split]]].
  - unfold goodf. simpl. repeat split; auto.
  - reflexivity.
  - repeat constructor.
  - simpl. repeat split; auto.
  - vm_compute. reflexivity.
Qed.

(* SymCoreFrame.v — the frame property of a step (independence, property C07): an operation addressed inside one root,
   handed values from some other roots, leaves every other tree the user holds exactly as it was. *)
From PG Require Import Common.Tactics Model.SymCoreDefs Model.SymCoreOps Model.SymCoreSpec
     Proofs.SymCoreBase Proofs.SymCoreWF Proofs.SymCoreClone Proofs.SymCoreWFOps Proofs.SymCoreIds.
From Coq Require Import NArith Permutation.
Local Open Scope Z_scope.

(* st: the state the step starts in; R: the roots the step may touch; s: a state reached during the step *)
Definition keeps (st : state) (R : list nat) (s : state) : Prop :=
  (length (roots st) <= length (roots s))%nat /\
  forall r t, ~ In r R -> nth_error (roots st) r = Some (Live t) -> nth_error (roots s) r = Some (Live t).
Definition protected (st : state) (R : list nat) (r : nat) : Prop :=
  ~ In r R /\ exists t, nth_error (roots st) r = Some (Live t).
(* the node id does not occur in a protected tree *)
Definition foreign (st : state) (R : list nat) (i : N) : Prop :=
  forall r t, ~ In r R -> nth_error (roots st) r = Some (Live t) -> ~ In i (ids t).

Lemma keeps_refl : forall st R, keeps st R st.
Proof. split; auto. Qed.

Lemma nth_error_set_nth_other : forall A (l : list A) n m x, n <> m -> nth_error (set_nth n x l) m = nth_error l m.
Proof. induction l; intros; destruct n, m; simpl; auto; congruence. Qed.
Lemma length_set_nth : forall A (l : list A) n x, length (set_nth n x l) = length l.
Proof. induction l; intros; destruct n; simpl; auto. Qed.

Lemma keeps_set_root : forall st R s r x, keeps st R s -> ~ protected st R r -> keeps st R (set_root s r x).
Proof.
  intros st R s r x (L & K) NP. split.
  - simpl. rewrite length_set_nth. auto.
  - intros r' t NI E. simpl. rewrite nth_error_set_nth_other; auto.
    intro; subst. apply NP. split; eauto.
Qed.
Lemma keeps_update_at : forall st R s ps f, keeps st R s -> ~ protected st R (fst ps) -> keeps st R (update_at s ps f).
Proof.
  intros. unfold update_at. destruct (get_root s (fst ps)); auto. apply keeps_set_root; auto.
Qed.
Lemma keeps_with_next : forall st R s nx, keeps st R s -> keeps st R (with_next s nx).
Proof. auto. Qed.
Lemma keeps_add_root : forall st R s t, keeps st R s -> keeps st R (add_root s t).
Proof.
  intros st R s t (L & K). split.
  - simpl. rewrite app_length. lia.
  - intros r t0 NI E. simpl. rewrite nth_error_app1; auto.
    apply K in E; auto. apply nth_error_Some. congruence.
Qed.
Lemma restore_slot_keeps : forall i t rs rs', restore_slot i t rs = Some rs' ->
  length rs' = length rs /\ forall r x, nth_error rs r = Some (Live x) -> nth_error rs' r = Some (Live x).
Proof.
  induction rs; simpl; intros; try discriminate. destruct a.
  - destruct (restore_slot i t rs) eqn:E; [|discriminate]. inv H. destruct (IHrs _ eq_refl) as (L & K).
    split; simpl; auto. intros [|r] x; simpl; auto.
  - destruct (N.eqb i i0).
    + inv H. split; auto. intros [|r] x; simpl; auto. discriminate.
    + destruct (restore_slot i t rs) eqn:E; [|discriminate]. inv H. destruct (IHrs _ eq_refl) as (L & K).
      split; simpl; auto. intros [|r] x; simpl; auto.
Qed.
Lemma keeps_add_detached : forall st R s n, keeps st R s -> keeps st R (add_detached s n).
Proof.
  intros. destruct n as [l|i k pa pt fl its]; auto. unfold add_detached.
  destruct (restore_slot i (detach (Node i k pa pt fl its)) (roots s)) eqn:E.
  - destruct (restore_slot_keeps _ _ _ _ E) as (L & K). destruct H as (L0 & K0). split; simpl.
    + lia.
    + intros. apply K. eauto.
  - apply keeps_add_root; auto.
Qed.
Lemma keeps_detach_all : forall st R its s, keeps st R s -> keeps st R (detach_all s its).
Proof. unfold detach_all. intros st R its. induction its; simpl; intros; auto. apply IHits. apply keeps_add_detached; auto. Qed.
Lemma keeps_fix_chain : forall st R s ps, keeps st R s -> ~ protected st R (fst ps) -> keeps st R (fix_chain s ps).
Proof.
  intros. unfold fix_chain. generalize (prefixes_desc (snd ps)). intros l. revert s H.
  induction l; simpl; intros; auto. apply IHl. apply keeps_update_at; auto.
Qed.

(* a node found in a root the step may touch is foreign to every protected tree *)
Lemma foreign_at : forall st R s r p i k pa pt fl its,
  keeps st R s -> NoDup (all_ids s) -> ~ protected st R r ->
  get_at s (r, p) = Some (Node i k pa pt fl its) -> foreign st R i.
Proof.
  intros st R s r p i k pa pt fl its (L & K) ND NP G r' t NI E I.
  pose proof (K _ _ NI E) as E'.
  unfold get_at, get_root in G. simpl in G.
  destruct (nth_error (roots s) r) as [[t2|]|] eqn:E2; try discriminate.
  assert (r' = r).
  { eapply slots_disjoint; eauto. eapply get_in_ids; eauto. }
  subst. apply NP. split; eauto.
Qed.
Lemma locate_not_protected : forall st R s i ps,
  keeps st R s -> wfs s -> foreign st R i -> locate s i = Some ps -> ~ protected st R (fst ps).
Proof.
  intros st R s i ps (L & K) W F LO (NI & t & E).
  destruct (locate_spec _ _ _ W LO) as (k & pa & pt & fl & its & G).
  pose proof (K _ _ NI E) as E'.
  unfold get_at, get_root in G. rewrite E' in G.
  eapply F; eauto. eapply get_in_ids; eauto.
Qed.

Fixpoint rv_foreign (st : state) (R : list nat) (rv : rvalue) : Prop :=
  match rv with RNodeId i => foreign st R i | RIns v => rv_foreign st R v | _ => True end.

Lemma formalize_keeps : forall q sc st R s r ck cid cfl tpath ins rv nw s1,
  keeps st R s -> wfs s -> rv_foreign st R rv ->
  formalize q sc s r ck cid cfl tpath ins rv = (nw, s1) -> keeps st R s1.
Proof.
  intros q sc st R s r ck cid cfl tpath ins rv nw s1 K W F FO.
  destruct rv; simpl in FO.
  - inv FO; auto.
  - destruct (build _ _ _ _ _). inv FO. auto.
  - destruct (locate s i) as [vpos|] eqn:LO; [|inv FO; auto].
    destruct (get_at s vpos) as [v|]; [|inv FO; auto].
    destruct (needs_clone r ck cid tpath ins vpos v).
    + destruct (clone_at _ _ _ _ _ _). inv FO. auto.
    + inv FO. destruct (snd vpos) eqn:SV; auto.
      apply keeps_set_root; auto. eapply locate_not_protected; eauto.
  - inv FO; auto.
Qed.

Ltac same E := solve [inv E; auto].
Lemma lprim_keeps : forall q sc st R s cp k rv s' p,
  keeps st R s -> wfs s -> ~ protected st R (fst cp) -> rv_foreign st R rv ->
  lprim q sc s cp k rv = (s', p) -> keeps st R s'.
Proof.
  intros q sc st R s cp k rv s' p K W NP F L. unfold lprim in L.
  destruct (get_at s cp) as [[|cid ck pa pt cfl its]|]; try (same L).
  destruct ck; try (same L). destruct k as [x|z]; [same L|].
  destruct ((z >=? zlen its) && is_missing_rv rv); [same L|].
  set (n := zlen its) in *. set (idx0 := if z >=? n then n else z) in *.
  destruct (match rv with RIns v' => (true, v') | _ => (false, rv) end) as [ins v] eqn:IV.
  assert (Fv : rv_foreign st R v). { destruct rv; inv IV; simpl in *; auto. }
  set (idx := if idx0 <? 0 then if idx0 >=? - n then idx0 + n else if ins then 0 else idx0 else idx0) in *.
  destruct ((idx <? n) && negb ins).
  - destruct (idx <? 0); [same L|].
    destruct (nth_error its (Z.to_nat idx)) as [[k0 old]|]; [|same L].
    destruct (same_obj old v); [same L|].
    destruct (formalize q sc s (fst cp) KList cid cfl (pt ++ [KI idx]) false v) as [nw s1] eqn:FO.
    pose proof (formalize_keeps _ _ _ _ _ _ _ _ _ _ _ _ _ _ K W Fv FO).
    inv L. apply keeps_add_detached. apply keeps_update_at; auto.
  - destruct (formalize q sc s (fst cp) KList cid cfl (pt ++ [KI idx]) ins v) as [nw s1] eqn:FO.
    pose proof (formalize_keeps _ _ _ _ _ _ _ _ _ _ _ _ _ _ K W Fv FO).
    destruct (idx <? n); inv L; apply keeps_update_at; auto.
Qed.
Lemma dprim_keeps : forall q sc st R s cp k rv s' p,
  keeps st R s -> wfs s -> ~ protected st R (fst cp) -> rv_foreign st R rv ->
  dprim q sc s cp k rv = (s', p) -> keeps st R s'.
Proof.
  intros q sc st R s cp k rv s' p K W NP F L. unfold dprim in L.
  destruct (get_at s cp) as [[|cid ck pa pt cfl its]|]; try (same L).
  destruct ck; try (same L).
  destruct (same_obj _ rv); [same L|].
  destruct (is_missing_rv rv).
  - inv L. apply keeps_add_detached. apply keeps_update_at; auto.
  - destruct (formalize q sc s (fst cp) KDict cid cfl (pt ++ [k]) false rv) as [nw s1] eqn:FO.
    pose proof (formalize_keeps _ _ _ _ _ _ _ _ _ _ _ _ _ _ K W F FO).
    inv L. apply keeps_add_detached. apply keeps_update_at; auto.
Qed.
Lemma oprim_keeps : forall q sc st R s cp k rv s' p,
  keeps st R s -> wfs s -> ~ protected st R (fst cp) -> rv_foreign st R rv ->
  oprim q sc s cp k rv = (s', p) -> keeps st R s'.
Proof.
  intros q sc st R s cp k rv s' p K W NP F L. unfold oprim in L.
  destruct (get_at s cp) as [[|cid ck pa pt cfl its]|]; try (same L).
  destruct ck; try (same L).
  destruct (assoc k its) as [old|]; [|destruct (is_missing_rv rv); same L].
  destruct (same_obj old rv); [same L|].
  destruct (is_missing_rv rv).
  - inv L. apply keeps_add_detached. apply keeps_update_at; auto.
  - destruct (formalize q sc s (fst cp) (KObj cls) cid cfl (pt ++ [k]) false rv) as [nw s1] eqn:FO.
    pose proof (formalize_keeps _ _ _ _ _ _ _ _ _ _ _ _ _ _ K W F FO).
    inv L. apply keeps_add_detached. apply keeps_update_at; auto.
Qed.
Lemma prim_keeps : forall q sc st R s cp k rv s' p,
  keeps st R s -> wfs s -> ~ protected st R (fst cp) -> rv_foreign st R rv ->
  prim q sc s cp k rv = (s', p) -> keeps st R s'.
Proof.
  intros. unfold prim in H3.
  destruct (get_at s cp) as [[|cid ck pa pt cfl its]|]; try (same H3).
  destruct ck; eauto using lprim_keeps, dprim_keeps, oprim_keeps.
Qed.

(* --- composites ---------------------------------------------------------------------------------------------------------------- *)
Lemma ldel_core_keeps : forall sc st R s ps idx s' r, keeps st R s -> ~ protected st R (fst ps) ->
  ldel_core sc s ps idx = (s', r) -> keeps st R s'.
Proof.
  intros. unfold ldel_core in H1. destruct (nth_error (cur_items s ps) idx) as [[k0 old]|]; [|same H1].
  inv H1. assert (keeps st R (add_detached (update_at s ps (set_items (renum (cur_path s ps) (remove_nth idx (cur_items s ps))))) old)).
  { apply keeps_add_detached. apply keeps_update_at; auto. }
  destruct (notify_on sc); auto. apply keeps_fix_chain; auto.
Qed.
Lemma extend_loop_keeps : forall q sc st R rvs s ps upd s' u e,
  keeps st R s -> wfs s -> ~ protected st R (fst ps) -> Forall rv_ok rvs -> Forall (rv_foreign st R) rvs ->
  extend_loop q sc s ps rvs upd = (s', u, e) -> keeps st R s'.
Proof.
  induction rvs; simpl; intros. same H4. inv H2. inv H3.
  destruct (lprim q sc s ps (KI (cur_len s ps)) a) as [s1 p] eqn:L.
  pose proof (lprim_keeps _ _ _ _ _ _ _ _ _ _ H H0 H1 H6 L).
  pose proof (lprim_wfs _ _ _ _ _ _ _ _ H0 H7 L).
  destruct p; eauto. same H4.
Qed.
Lemma extend_core_keeps : forall q sc st R rvs s ps s' o,
  keeps st R s -> wfs s -> ~ protected st R (fst ps) -> Forall rv_ok rvs -> Forall (rv_foreign st R) rvs ->
  extend_core q sc s ps rvs = (s', o) -> keeps st R s'.
Proof.
  intros. unfold extend_core in H4.
  destruct (extend_loop q sc s ps rvs false) as [[s1 u] e] eqn:E.
  pose proof (extend_loop_keeps _ _ _ _ _ _ _ _ _ _ _ H H0 H1 H2 H3 E).
  destruct e; inv H4; auto. destruct (u && notify_on sc); auto. apply keeps_fix_chain; auto.
Qed.
Lemma clear_core_keeps : forall sc st R s ps its, keeps st R s -> ~ protected st R (fst ps) -> keeps st R (clear_core sc s ps its).
Proof.
  intros. unfold clear_core.
  assert (keeps st R (detach_all (update_at s ps (set_items [])) its)).
  { apply keeps_detach_all. apply keeps_update_at; auto. }
  destruct its; auto. destruct (notify_on sc); auto. apply keeps_fix_chain; auto.
Qed.
Lemma reorder_core_keeps : forall sc st R s ps tp its its', keeps st R s -> ~ protected st R (fst ps) ->
  keeps st R (reorder_core sc s ps tp its its').
Proof.
  intros. unfold reorder_core.
  assert (keeps st R (update_at s ps (set_items (renum tp its')))) by (apply keeps_update_at; auto).
  destruct (_ && _); auto. apply keeps_fix_chain; auto.
Qed.

Lemma fix_chains_keeps : forall st R l s, keeps st R s -> wfs s -> Forall (foreign st R) l -> keeps st R (fix_chains s l).
Proof.
  unfold fix_chains. induction l; simpl; intros; auto. inv H1.
  destruct (locate s a) as [ps|] eqn:LO; auto.
  apply IHl; auto using fix_chain_wfs.
  apply keeps_fix_chain; auto. eapply locate_not_protected; eauto.
Qed.
Lemma rebind_one_keeps : forall q sc st R s tp path rv s' p c,
  keeps st R s -> WFI s -> ~ protected st R (fst tp) -> rv_foreign st R rv ->
  rebind_one q sc s tp path rv = (s', p, c) ->
  keeps st R s' /\ (forall cid, c = Some cid -> foreign st R cid).
Proof.
  intros q sc st R s tp path rv s' p c K (W & ND & _) NP F RB. unfold rebind_one in RB.
  destruct path; [inv RB; split; auto; discriminate|].
  destruct (get_at s tp); [|inv RB; split; auto; discriminate].
  destruct (query_path n (removelast (k :: path))); [|inv RB; split; auto; discriminate].
  destruct (get_at s (fst tp, snd tp ++ l)) as [[|cid ck pa pt cfl its]|] eqn:G; try (inv RB; split; auto; discriminate).
  destruct (treats_as_sealed sc cfl); [inv RB; split; auto; discriminate|].
  destruct (prim q sc s (fst tp, snd tp ++ l) (last (k :: path) (KI 0)) rv) as [s1 p1] eqn:P.
  inv RB. split.
  - eapply prim_keeps; [exact K | exact W | | exact F | exact P]. simpl; auto.
  - intros c E. inv E. eapply foreign_at; [exact K | exact ND | | exact G]. simpl; auto.
Qed.
Lemma rebind_loop_keeps : forall q sc st R pvs s tp upd s' u e,
  keeps st R s -> WFI s -> ~ protected st R (fst tp) ->
  Forall (fun kv => rv_ok (snd kv)) pvs -> Forall (fun kv => rv_foreign st R (snd kv)) pvs -> Forall (foreign st R) upd ->
  rebind_loop q sc s tp pvs upd = (s', u, e) ->
  keeps st R s' /\ wfs s' /\ Forall (foreign st R) u.
Proof.
  induction pvs as [|[p rv] r]; simpl; intros.
  - inv H5. destruct H0. auto.
  - inv H2. inv H3.
    destruct (rebind_one q sc s tp p rv) as [[s1 p1] c] eqn:RB.
    destruct (rebind_one_keeps _ _ _ _ _ _ _ _ _ _ _ H H0 H1 H7 RB) as (K1 & FC).
    pose proof (rebind_one_rel _ _ _ _ _ _ _ _ _ H0 H8 RB) as R1.
    assert (W1 : WFI s1). { eapply WFI_step; eauto. destruct H0. eapply rebind_one_wfs; eauto. }
    destruct p1.
    + destruct c; (eapply IHr; [ | | | | | | exact H5]; eauto).
    + destruct c; [|eapply IHr; [ | | | | | | exact H5]; eauto].
      eapply IHr; [ | | | | | | exact H5]; eauto. apply Forall_app; split; auto.
    + inv H5. destruct W1. auto.
Qed.
Lemma rebind_core_keeps : forall q sc st R s tp tk pvs nt s' o,
  keeps st R s -> WFI s -> ~ protected st R (fst tp) ->
  Forall (fun kv => rv_ok (snd kv)) pvs -> Forall (fun kv => rv_foreign st R (snd kv)) pvs ->
  rebind_core q sc s tp tk pvs nt = (s', o) -> keeps st R s'.
Proof.
  intros. unfold rebind_core in H4.
  assert (F1 : Forall (fun kv => rv_ok (snd kv)) (match tk with KList => sort_desc pvs | _ => pvs end)).
  { destruct tk; auto. apply sort_desc_forall; auto. }
  assert (F2 : Forall (fun kv => rv_foreign st R (snd kv)) (match tk with KList => sort_desc pvs | _ => pvs end)).
  { destruct tk; auto. apply sort_desc_forall; auto. }
  destruct (rebind_loop q sc s tp _ []) as [[s1 u] e] eqn:E.
  destruct (rebind_loop_keeps _ _ _ _ _ _ _ _ _ _ _ H H0 H1 F1 F2 (Forall_nil _) E) as (K1 & W1 & FU).
  destruct e; inv H4; auto. destruct nt; auto. apply fix_chains_keeps; auto.
Qed.

(* --- the values of an operation ------------------------------------------------------------------------------------------------ *)
Fixpoint value_roots (v : value) : list nat :=
  match v with VRef p => [fst p] | VIns v' => value_roots v' | VLit _ => [] end.
Definition op_roots (o : op value) : list nat :=
  match o with
  | LSet _ v | LAppend v | LInsert _ v | DSet _ _ v | DSetDefault _ v | OSet _ v => value_roots v
  | LExtend vs | LIAdd vs | LAdd vs => flat_map value_roots vs
  | DUpdate kvs | DIOr kvs => flat_map (fun kv => value_roots (snd kv)) kvs
  | Rebind pvs => flat_map (fun kv => value_roots (snd kv)) pvs
  | _ => []
  end.
Definition op_foreign (st : state) (R : list nat) (o : op rvalue) : Prop :=
  match o with
  | LSet _ v | LAppend v | LInsert _ v | DSet _ _ v | DSetDefault _ v | OSet _ v => rv_foreign st R v
  | LExtend vs | LIAdd vs | LAdd vs => Forall (rv_foreign st R) vs
  | DUpdate kvs | DIOr kvs => Forall (fun kv => rv_foreign st R (snd kv)) kvs
  | Rebind pvs => Forall (fun kv => rv_foreign st R (snd kv)) pvs
  | _ => True
  end.
Lemma resolve_foreign : forall st R v rv,
  NoDup (all_ids st) -> (forall r, In r (value_roots v) -> In r R) -> resolve st v = Some rv -> rv_foreign st R rv.
Proof.
  induction v; simpl; intros.
  - destruct l. inv H1; simpl; auto. destruct (lit_valid _); inv H1. simpl; auto.
  - destruct (get_at st p) as [[|i k pa pt fl its]|] eqn:G; inv H1; simpl; auto.
    destruct p as [r pp]. eapply foreign_at with (s := st); eauto using keeps_refl.
    intros (NI & _). apply NI. apply H0. simpl; auto.
  - destruct (resolve st v) eqn:E; inv H1. simpl. eauto.
Qed.
Lemma resolve_all_foreign : forall st R vs rvs,
  NoDup (all_ids st) -> (forall r, In r (flat_map value_roots vs) -> In r R) -> resolve_all st vs = Some rvs ->
  Forall (rv_foreign st R) rvs.
Proof.
  induction vs; simpl; intros. inv H1; auto.
  destruct (resolve st a) eqn:E; [|discriminate]. destruct (resolve_all st vs) eqn:E2; [|discriminate]. inv H1.
  constructor.
  - eapply resolve_foreign; eauto. intros; apply H0. apply in_app_iff; auto.
  - eapply IHvs; eauto. intros; apply H0. apply in_app_iff; auto.
Qed.
Lemma resolve_kvs_foreign : forall K st R (kvs : list (K * value)) rvs,
  NoDup (all_ids st) -> (forall r, In r (flat_map (fun kv => value_roots (snd kv)) kvs) -> In r R) ->
  resolve_kvs st kvs = Some rvs -> Forall (fun kv => rv_foreign st R (snd kv)) rvs.
Proof.
  induction kvs as [|[k v] r0]; simpl; intros. inv H1; auto.
  destruct (resolve st v) eqn:E; [|discriminate]. destruct (resolve_kvs st r0) eqn:E2; [|discriminate]. inv H1.
  constructor; simpl.
  - eapply resolve_foreign; eauto. intros; apply H0. apply in_app_iff; auto.
  - eapply IHr0; eauto. intros; apply H0. apply in_app_iff; auto.
Qed.
Lemma resolve_op_foreign : forall st R o ro,
  NoDup (all_ids st) -> (forall r, In r (op_roots o) -> In r R) -> resolve_op st o = Some ro -> op_foreign st R ro.
Proof.
  intros. destruct o; simpl in H1;
    repeat match goal with
           | H : option_map _ ?x = Some _ |- _ => destruct x eqn:?; simpl in H; [|discriminate]
           end; inv H1; simpl; eauto using resolve_foreign, resolve_all_foreign, resolve_kvs_foreign.
Qed.

(* --- every operation ----------------------------------------------------------------------------------------------------------------- *)
Lemma rv_of_item_foreign : forall st R ps tid tk pa pt fl its,
  WFI st -> ~ protected st R (fst ps) -> get_at st ps = Some (Node tid tk pa pt fl its) ->
  Forall (rv_foreign st R) (map (fun kv : key * node => rv_of_item (snd kv)) its).
Proof.
  intros st R ps tid tk pa pt fl its (W & ND & _) NP G.
  apply Forall_forall. intros rv I. apply in_map_iff in I. destruct I as ([k c] & E & I). subst. simpl.
  destruct c as [l|i kc pc ptc flc itsc]; simpl; auto.
  (* the child is at position ps ++ [k'] for the first key equal to k; in any case its id occurs in the target's root *)
  intros r t NI E IN.
  destruct ps as [r0 p0]. unfold get_at, get_root in G. simpl in *.
  destruct (nth_error (roots st) r0) as [[t0|]|] eqn:E0; try discriminate.
  assert (In i (ids t0)).
  { clear - G I. revert t0 G. induction p0; simpl; intros.
    - inv G. simpl. right. apply in_flat_map. exists (k, Node i kc pc ptc flc itsc). split; auto. simpl; auto.
    - destruct t0 as [l|j kd pa0 pt0 fl0 its0]; simpl in *; [discriminate|].
      destruct (assoc a its0) as [c0|] eqn:A; [|discriminate].
      destruct (assoc_in _ _ _ _ A) as (k' & _ & I').
      right. apply in_flat_map. exists (k', c0). split; auto. }
  assert (r = r0) by (eapply slots_disjoint; eauto). subst.
  apply NP. split; eauto.
Qed.
Lemma repeat_list_forall' : forall A (P : A -> Prop) n l, Forall P l -> Forall P (repeat_list n l).
Proof. induction n; simpl; intros; auto. apply Forall_app; auto. Qed.

Lemma new_root_not_protected : forall st R s, keeps st R s -> ~ protected st R (length (roots s)).
Proof.
  intros st R s (L & _) (_ & t & E). assert (length (roots s) < length (roots st))%nat by (apply nth_error_Some; congruence). lia.
Qed.

Lemma exec_keeps : forall q sc st R ps tid tk pa tpth tfl its ro st' out,
  WFI st -> get_at st ps = Some (Node tid tk pa tpth tfl its) -> In (fst ps) R ->
  kind_ok tk ro = true -> op_ok ro -> op_foreign st R ro ->
  exec q sc st ps tid tk tpth tfl its ro = (st', out) -> keeps st R st'.
Proof.
  intros q sc st R ps tid tk pa tpth tfl its ro st' out WI G INR K OK FO E.
  pose proof WI as (W & I).
  pose proof (keeps_refl st R) as K0.
  assert (NP : ~ protected st R (fst ps)) by (intros (NI & _); auto).
  destruct ro; simpl in K, OK, FO, E;
    try (destruct tk; try discriminate; []);
    try (destruct (treats_as_sealed sc tfl); [same E|]).
  - (* LSet *)
    destruct (negb (writable_via_accessors sc tfl)); [same E|].
    destruct ((i <? - zlen its) || (i >=? zlen its)); [same E|].
    destruct (lprim q sc st ps (KI i) v) as [st1 p] eqn:L. pose proof (lprim_keeps _ _ _ _ _ _ _ _ _ _ K0 W NP FO L).
    destruct p; inv E; auto; unfold notified; destruct (notify_on sc); auto using keeps_fix_chain.
  - (* LDel *)
    destruct (negb (writable_via_accessors sc tfl)); [same E|].
    destruct ((i <? - zlen its) || (i >=? zlen its)); [same E|].
    destruct (ldel_core sc st ps _) as [st1 r] eqn:L. inv E. eapply ldel_core_keeps; eauto.
  - (* LAppend *)
    destruct (lprim q sc st ps (KI (zlen its)) v) as [st1 p] eqn:L. pose proof (lprim_keeps _ _ _ _ _ _ _ _ _ _ K0 W NP FO L).
    destruct p; inv E; auto; unfold notified; destruct (notify_on sc); auto using keeps_fix_chain.
  - (* LInsert *)
    destruct (lprim q sc st ps (KI i) (RIns v)) as [st1 p] eqn:L.
    assert (rv_foreign st R (RIns v)) by (simpl; auto).
    pose proof (lprim_keeps _ _ _ _ _ _ _ _ _ _ K0 W NP H L).
    destruct p; inv E; auto; unfold notified; destruct (notify_on sc); auto using keeps_fix_chain.
  - (* LExtend *) eapply extend_core_keeps; eauto.
  - (* LPop *)
    destruct ((_ <? - zlen its) || (_ >=? zlen its)); [same E|].
    destruct (treats_as_sealed sc tfl); [same E|].
    destruct (ldel_core sc st ps _) as [st1 r] eqn:L. inv E. eapply ldel_core_keeps; eauto.
  - (* LRemove *)
    destruct (find_index _ its); [|same E].
    destruct (treats_as_sealed sc tfl); [same E|].
    destruct (negb (writable_via_accessors sc tfl)); [same E|].
    destruct (ldel_core sc st ps n) as [st1 r] eqn:L. inv E. eapply ldel_core_keeps; eauto.
  - (* LClear *) inv E. apply clear_core_keeps; auto.
  - (* LReverse *) inv E. apply reorder_core_keeps; auto.
  - (* LSort *) inv E. apply reorder_core_keeps; auto.
  - (* LIAdd *) eapply extend_core_keeps; eauto.
  - (* LIMul *)
    destruct (n <=? 0).
    + inv E. apply clear_core_keeps; auto.
    + eapply extend_core_keeps; [exact K0 | exact W | exact NP | | | exact E].
      * apply repeat_list_forall, rv_of_item_ok.
      * apply repeat_list_forall'. eapply rv_of_item_foreign; eauto.
  - (* LAdd *)
    destruct (treats_as_sealed sc default_flags); [same E|].
    destruct (container_facts _ _ _ _ _ _ _ _ W G) as (Ept & KO & F).
    destruct (new_list_from q st its) as [c st1] eqn:NL.
    destruct (new_list_from_wfs _ _ _ _ _ _ _ W F NL) as (W1 & N1 & Wc).
    assert (K1 : keeps st R (add_root st1 c)).
    { apply keeps_add_root. unfold new_list_from in NL. destruct (clone_at _ _ _ _ _ _). inv NL. auto. }
    assert (NP1 : ~ protected st R (length (roots st1))).
    { unfold new_list_from in NL. destruct (clone_at _ _ _ _ _ _). inv NL. simpl. apply new_root_not_protected; auto. }
    destruct (extend_core q sc (add_root st1 c) (length (roots st1), []) vs) as [st2 o2] eqn:X.
    assert (keeps st R st2).
    { eapply extend_core_keeps; [exact K1 | | | exact OK | exact FO | exact X]; simpl; auto using wfs_add_root. }
    destruct o2; inv E; auto.
  - (* LMul *)
    destruct ((n >=? 1) && treats_as_sealed sc default_flags); [same E|].
    destruct (new_list_from q st []) as [c st1] eqn:NL.
    destruct (new_list_from_wfs q st [] c st1 tid (snd ps) W (Forall_nil _) NL) as (W1 & N1 & Wc).
    assert (K1 : keeps st R (add_root st1 c)).
    { apply keeps_add_root. unfold new_list_from in NL. destruct (clone_at _ _ _ _ _ _). inv NL. auto. }
    assert (NP1 : ~ protected st R (length (roots st1))).
    { unfold new_list_from in NL. destruct (clone_at _ _ _ _ _ _). inv NL. simpl. apply new_root_not_protected; auto. }
    destruct (extend_loop q sc (add_root st1 c) (length (roots st1), []) _ false) as [[st2 u] e] eqn:X.
    assert (keeps st R st2).
    { eapply extend_loop_keeps; [exact K1 | | | | | exact X]; simpl; auto using wfs_add_root.
      - apply repeat_list_forall, rv_of_item_ok.
      - apply repeat_list_forall'. eapply rv_of_item_foreign; eauto. }
    destruct e; inv E; auto.
  - (* LCopy *)
    destruct (new_list_from q st its) as [c st1] eqn:NL. inv E.
    apply keeps_add_root. unfold new_list_from in NL. destruct (clone_at _ _ _ _ _ _). inv NL. auto.
  - (* DSet *)
    destruct (negb (writable_via_accessors sc tfl)); [same E|].
    destruct (dprim q sc st ps k v) as [st1 p] eqn:L. pose proof (dprim_keeps _ _ _ _ _ _ _ _ _ _ K0 W NP FO L).
    destruct p; inv E; auto; unfold notified; destruct (notify_on sc); auto using keeps_fix_chain.
  - (* DDel *)
    destruct (negb (writable_via_accessors sc tfl)); [same E|].
    destruct (negb (has_key k its)); [same E|].
    destruct (dprim q sc st ps k (RLeaf LMissing)) as [st1 p] eqn:L.
    assert (rv_foreign st R (RLeaf LMissing)) by (simpl; auto).
    pose proof (dprim_keeps _ _ _ _ _ _ _ _ _ _ K0 W NP H L).
    destruct p; inv E; auto; unfold notified; destruct (notify_on sc); auto using keeps_fix_chain.
  - (* DPop *)
    destruct (assoc k its); [|destruct d; same E].
    destruct (treats_as_sealed sc tfl); [same E|].
    destruct (dprim q sc st ps k (RLeaf LMissing)) as [st1 p] eqn:L.
    assert (rv_foreign st R (RLeaf LMissing)) by (simpl; auto).
    pose proof (dprim_keeps _ _ _ _ _ _ _ _ _ _ K0 W NP H L).
    destruct p; inv E; auto; unfold notified; destruct (notify_on sc); auto using keeps_fix_chain.
  - (* DPopItem *)
    destruct (rev its) as [|[k old] r]; [same E|]. inv E.
    assert (keeps st R (add_detached (update_at st ps (set_items (removelast its))) old)).
    { apply keeps_add_detached. apply keeps_update_at; auto. }
    destruct (notify_on sc); auto using keeps_fix_chain.
  - (* DClear *) inv E. apply clear_core_keeps; auto.
  - (* DSetDefault *)
    assert (X : forall st1 p, dprim q sc st ps k v = (st1, p) -> keeps st R st1) by (intros; eapply dprim_keeps; eauto).
    destruct (assoc k its) as [old|].
    + destruct (is_missing old); [|same E].
      destruct (treats_as_sealed sc tfl); [same E|].
      destruct (negb (writable_via_accessors sc tfl)); [same E|].
      destruct (dprim q sc st ps k v) as [st1 p] eqn:L. specialize (X _ _ eq_refl).
      destruct p; inv E; auto; unfold notified; destruct (notify_on sc); auto using keeps_fix_chain.
    + destruct (treats_as_sealed sc tfl); [same E|].
      destruct (negb (writable_via_accessors sc tfl)); [same E|].
      destruct (dprim q sc st ps k v) as [st1 p] eqn:L. specialize (X _ _ eq_refl).
      destruct p; inv E; auto; unfold notified; destruct (notify_on sc); auto using keeps_fix_chain.
  - (* DUpdate *)
    eapply rebind_core_keeps; [exact K0 | exact WI | exact NP | | | exact E]; apply Forall_map; simpl; auto.
  - (* DIOr *)
    eapply rebind_core_keeps; [exact K0 | exact WI | exact NP | | | exact E]; apply Forall_map; simpl; auto.
  - (* DCopy *)
    destruct (clone_at _ false None [] _ _) as [c cs] eqn:C. inv E. apply keeps_add_root. auto.
  - (* OSet *)
    destruct (negb (existsb (key_eqb k) (class_fields cls))); [same E|].
    destruct (treats_as_sealed sc tfl); [same E|].
    destruct (negb (writable_via_accessors sc tfl)); [same E|].
    destruct (oprim q sc st ps k v) as [st1 p] eqn:L. pose proof (oprim_keeps _ _ _ _ _ _ _ _ _ _ K0 W NP FO L).
    destruct p; inv E; auto; unfold notified; destruct (notify_on sc); auto using keeps_fix_chain.
  - (* Rebind *)
    destruct pvs; [same E|].
    destruct (match tk with KObj _ => treats_as_sealed sc tfl | _ => false end); [same E|].
    eapply rebind_core_keeps; eauto.
  - (* Clone *)
    destruct (clone_at _ _ None [] _ _) as [c cs] eqn:C. inv E. apply keeps_add_root. auto.
  - (* Seal *) inv E. apply keeps_update_at; auto.
  - (* SetAW *) inv E. apply keeps_update_at; auto.
Qed.

(* The frame property of a step: every tree the user holds, other than the one the operation is addressed in and the
   ones it is handed values from, is exactly as it was. *)
Lemma nth_error_firstn_lt : forall A (l : list A) n r, (r < n)%nat -> nth_error (firstn n l) r = nth_error l r.
Proof. induction l; intros; destruct n, r; simpl; auto; try lia. apply IHl; lia. Qed.
Definition touched (o : sop) : list nat := fst (o_pos o) :: op_roots (o_op o).
Theorem frame : forall q st o r t,
  WFI st -> ~ In r (touched o) -> nth_error (roots st) r = Some (Live t) ->
  nth_error (roots (fst (step q st o))) r = Some (Live t).
Proof.
  intros q st o r t WI NI E. unfold step.
  destruct (get_at st (o_pos o)) as [[|tid tk pa pt fl its]|] eqn:G; auto.
  destruct (kind_ok tk (o_op o)) eqn:K; auto.
  destruct (resolve_op st (o_op o)) as [ro|] eqn:R; auto.
  destruct (exec q (o_scope o) st (o_pos o) tid tk pt fl its ro) as [st' out] eqn:X. simpl.
  assert (KE : keeps st (touched o) st').
  { eapply exec_keeps; eauto.
    - simpl; auto.
    - destruct (o_op o); simpl in *;
        repeat match goal with
               | H : option_map _ ?x = Some _ |- _ => destruct x eqn:?; simpl in H; [|discriminate]
               end; inv R; auto.
    - eapply resolve_op_ok; eauto.
    - destruct WI as (_ & ND & _). eapply resolve_op_foreign; eauto. intros; simpl; auto. }
  destruct KE as (L & KK). specialize (KK _ _ NI E).
  assert (r < length (roots st))%nat by (apply nth_error_Some; congruence).
  rewrite nth_error_app1.
  - rewrite nth_error_firstn_lt; auto.
  - rewrite firstn_length. lia.
Qed.

Theorem frame_history : forall q ops st r t,
  WFI st -> Forall (fun o => ~ In r (touched o)) ops -> nth_error (roots st) r = Some (Live t) ->
  nth_error (roots (run_ops q st ops)) r = Some (Live t).
Proof.
  unfold run_ops. induction ops; simpl; intros; auto. inv H0.
  apply IHops; auto. apply step_WFI; auto. unfold stepS. apply frame; auto.
Qed.
Theorem frame_WF : forall q st o r t,
  WF st -> ~ In r (touched o) -> nth_error (roots st) r = Some (Live t) ->
  nth_error (roots (fst (step q st o))) r = Some (Live t).
Proof. intros. apply frame; [apply WF_WFI; exact H | exact H0 | exact H1]. Qed.
Theorem frame_history_WF : forall q ops st r t,
  WF st -> Forall (fun o => ~ In r (touched o)) ops -> nth_error (roots st) r = Some (Live t) ->
  nth_error (roots (run_ops q st ops)) r = Some (Live t).
Proof. intros. apply frame_history; [apply WF_WFI; exact H | exact H0 | exact H1]. Qed.

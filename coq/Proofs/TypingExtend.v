(* TypingExtend.v — an equational presentation of [extend_in] and the extension theorem:
   a successful extension yields a spec the base is compatible with, hence (by the soundness of
   compat) every value of the extended spec is accepted by the base. *)
From PG Require Import Common.Tactics Model.Typing Proofs.TypingBasics Proofs.TypingApply Proofs.TypingDict Proofs.TypingCompat.
Local Open Scope Z_scope.
Local Arguments Z.mul : simpl never.

Definition frozen_base_bad (mc mb : mods) : bool :=
  frozen mb && (negb (frozen mc) || negb (py_eq (dflt mc) (dflt mb))).

Fixpoint enum_extend_go (b c : spec) (l : list pv) : res spec :=
  match l with
  | [] => Ok c
  | v :: r => match apply false b v with
              | Ok _ => enum_extend_go b c r
              | Err KeyErr => Err KeyErr
              | Err _ => Err TypeErr
              end
  end.

Fixpoint zip_extend (f : spec -> spec -> res spec) (xs ys : list spec) : res (list spec) :=
  match xs, ys with
  | x :: xs', y :: ys' => let? x' := f x y in let? r' := zip_extend f xs' ys' in Ok (x' :: r')
  | _, _ => Ok []
  end.

Fixpoint fields_extend (f : spec -> spec -> res spec) (bfs : list (fkey * spec)) (l : list (fkey * spec))
  : res (list (fkey * spec)) :=
  match l with
  | [] => Ok []
  | (k, sc) :: r =>
      match field_of k bfs with
      | Some sb => let? sc' := f sc sb in let? r' := fields_extend f bfs r in Ok ((k, sc') :: r')
      | None => let? r' := fields_extend f bfs r in Ok ((k, sc) :: r')
      end
  end.

Definition merged_schema (bfs fs' : list (fkey * spec)) : list (fkey * spec) :=
  map (fun kf => match field_of (fst kf) fs' with Some s' => (fst kf, s') | None => kf end) bfs ++
  filter (fun kf => match field_of (fst kf) bfs with Some _ => false | None => true end) fs'.

Fixpoint union_extend (f : spec -> spec -> res spec) (b : spec) (l : list spec) : res (list spec) :=
  match l with
  | [] => Ok []
  | sc :: r => match base_candidate sc b with
               | None => Err TypeErr
               | Some bc => let? sc' := f sc bc in let? r' := union_extend f b r in Ok (sc' :: r')
               end
  end.

(* the class-specific _extend *)
Definition extend_class (q : quirks) (c b : spec) : res spec :=
  match c with
  | SBool _ | SStr _ | SAny _ => Ok c
  | SInt lo hi m =>
      match b with
      | SInt blo bhi _ => let? r := number_extend lo hi blo bhi in Ok (SInt (fst r) (snd r) m)
      | _ => Err TypeErr
      end
  | SFloat lo hi m =>
      match b with
      | SFloat blo bhi _ => let? r := number_extend lo hi blo bhi in Ok (SFloat (fst r) (snd r) m)
      | _ => Err TypeErr
      end
  | SEnum vals _ => enum_extend_go b c vals
  | SList e mn mx m =>
      match b with
      | SList be bmn bmx _ =>
          let? mx' := listkey_extend mn mx bmn bmx in
          let? e' := extend_in q e be in
          Ok (SList e' mn mx' m)
      | _ => Err TypeErr
      end
  | STuple es mn mx m =>
      match b with
      | STuple bes bmn bmx _ =>
          if fixed_length mn mx then
            if fixed_length bmn bmx then
              if negb (len es =? len bes) then Err TypeErr else
              let? es' := zip_extend (extend_in q) es bes in Ok (STuple es' mn mx m)
            else
              if bmn >? len es then Err TypeErr else
              if match bmx with Some bh => bh <? len es | None => false end then Err TypeErr else
              match bes with
              | be :: _ => let? es' := mapM (fun x => extend_in q x be) es in Ok (STuple es' mn mx m)
              | [] => match es with [] => Ok c | _ => Err TypeErr end
              end
          else
            if fixed_length bmn bmx then Err TypeErr else
            if negb (mn =? 0) && (mn <? bmn) then Err TypeErr else
            if match mx, bmx with Some h, Some bh => h >? bh | _, _ => false end then Err TypeErr else
            let mn' := if mn =? 0 then bmn else mn in
            let mx' := match mx with None => bmx | Some _ => mx end in
            match es, bes with
            | e :: _, be :: _ =>
                let? e' := extend_in q e be in
                if fixed_length mn' mx' then Ok (STuple (repeat e' (Z.to_nat mn')) mn' mx' m)
                else Ok (STuple [e'] mn' mx' m)
            | _, _ => Err TypeErr
            end
      | _ => Err TypeErr
      end
  | SDict sc m =>
      match b with
      | SDict bsc bm =>
          match bsc with
          | None => Ok c
          | Some bfs =>
              match sc with
              | None => Ok (SDict (Some bfs) (Mods (noneable m) (default bm) (frozen m)))
              | Some fs => let? fs' := fields_extend (extend_in q) bfs fs in
                           Ok (SDict (Some (merged_schema bfs fs')) m)
              end
          end
      | _ => Err TypeErr
      end
  | SObj cc _ => if compat q b c then Ok c else Err TypeErr
  | SUnion cs m => let? cs' := union_extend (extend_in q) b cs in Ok (SUnion cs' m)
  end.

Definition extend_in1 (q : quirks) (c b0 : spec) : res spec :=
  let mc := mods_of c in
  if frozen_base_bad mc (mods_of b0) then Err TypeErr else
  if frozen mc && is_enum b0 then
    (if py_in (dflt mc) (enum_vals b0)
     then let? _ := new_frozen_enum (enum_vals b0) (dflt mc) in Ok c
     else Err TypeErr) else
  if is_any b0 then Ok c else
  let? b := (if negb (is_union c) && is_union b0
             then match get_candidate q c b0 with
                  | Some x => if frozen_base_bad mc (mods_of x) then Err TypeErr else Ok x
                  | None => Err TypeErr
                  end
             else Ok b0) in
  if negb (same_class c b || (q_enum_base q && is_enum c)) then Err TypeErr else
  if negb (noneable (mods_of b)) && noneable mc then Err TypeErr else
  revalidate (extend_class q c b).

Lemma enum_go_fix : forall (b c : spec) l,
  (fix go (l : list pv) : res spec :=
     match l with
     | [] => Ok c
     | v :: r => match apply false b v with
                 | Ok _ => go r
                 | Err KeyErr => Err KeyErr
                 | Err _ => Err TypeErr
                 end
     end) l = enum_extend_go b c l.
Proof. induction l; simpl; auto. rewrite IHl. reflexivity. Qed.

Lemma zip_extend_fix : forall (f : spec -> spec -> res spec) xs ys,
  (fix go (xs ys : list spec) {struct xs} : res (list spec) :=
     match xs, ys with
     | x :: xs', y :: ys' => let? x' := f x y in let? r' := go xs' ys' in Ok (x' :: r')
     | _, _ => Ok []
     end) xs ys = zip_extend f xs ys.
Proof. induction xs; destruct ys; simpl; auto. rewrite IHxs. reflexivity. Qed.

Lemma map_extend_fix : forall (f : spec -> spec -> res spec) be xs,
  (fix go (xs : list spec) : res (list spec) :=
     match xs with
     | [] => Ok []
     | x :: xs' => let? x' := f x be in let? r' := go xs' in Ok (x' :: r')
     end) xs = mapM (fun x => f x be) xs.
Proof. induction xs; simpl; auto. rewrite IHxs. reflexivity. Qed.

Lemma fields_extend_fix : forall (f : spec -> spec -> res spec) bfs l,
  (fix go (l : list (fkey * spec)) : res (list (fkey * spec)) :=
     match l with
     | [] => Ok []
     | (k, sc) :: r =>
         match field_of k bfs with
         | Some sb => let? sc' := f sc sb in let? r' := go r in Ok ((k, sc') :: r')
         | None => let? r' := go r in Ok ((k, sc) :: r')
         end
     end) l = fields_extend f bfs l.
Proof. induction l as [|[k sc] r IH]; simpl; auto. rewrite IH. reflexivity. Qed.

Lemma union_extend_fix : forall (f : spec -> spec -> res spec) b l,
  (fix go (l : list spec) : res (list spec) :=
     match l with
     | [] => Ok []
     | sc :: r =>
         match base_candidate sc b with
         | None => Err TypeErr
         | Some bc => let? sc' := f sc bc in let? r' := go r in Ok (sc' :: r')
         end
     end) l = union_extend f b l.
Proof. induction l; simpl; auto. rewrite IHl. reflexivity. Qed.

Lemma extend_in_eq : forall q c b0, extend_in q c b0 = extend_in1 q c b0.
Proof.
  intros q c b0. unfold extend_in1, frozen_base_bad.
  destruct c; cbn [extend_in mods_of extend_class]; try reflexivity;
    (match goal with |- (if ?x then _ else _) = _ => destruct x; [reflexivity|] end);
    (match goal with |- (if ?x then _ else _) = _ => destruct x; [reflexivity|] end);
    (match goal with |- (if ?x then _ else _) = _ => destruct x; [reflexivity|] end);
    apply bind_ext; intros b;
    (match goal with |- (if ?x then _ else _) = _ => destruct x; [reflexivity|] end);
    (match goal with |- (if ?x then _ else _) = _ => destruct x; [reflexivity|] end);
    f_equal.
  - apply enum_go_fix.
  - destruct b; try reflexivity. rewrite zip_extend_fix. destruct es0; try reflexivity.
    rewrite map_extend_fix. reflexivity.
  - destruct b; try reflexivity. destruct schema0; try reflexivity. destruct schema; try reflexivity.
    rewrite fields_extend_fix. reflexivity.
  - rewrite union_extend_fix. reflexivity.
Qed.

(* ------------------------------------------------------------------------------------------ *)
(** * Facts about the helpers *)

Lemma number_extend_compat : forall lo hi blo bhi r, number_extend lo hi blo bhi = Ok r ->
  range_compat blo bhi (fst r) (snd r) = true.
Proof.
  unfold number_extend, range_compat. intros lo hi blo bhi r H.
  destruct blo as [bl|], lo as [l|]; simpl in H;
    try (destruct (l <? bl) eqn:E1; simpl in H; [discriminate|]);
    destruct bhi as [bh|], hi as [h|]; simpl in H;
    try (destruct (h >? bh) eqn:E2; simpl in H; [discriminate|]);
    repeat match type of H with
    | (if ?x then _ else _) = _ => destruct x eqn:?; try discriminate
    end; inv H; simpl; lia.
Qed.

Lemma listkey_extend_ok : forall mn mx bmn bmx mx', listkey_extend mn mx bmn bmx = Ok mx' ->
  negb (bmn >? mn) = true /\ size_max_ok bmx mx' = true.
Proof.
  unfold listkey_extend, size_max_ok. intros mn mx bmn bmx mx' H.
  destruct (mn <? bmn) eqn:E; [discriminate|]. split; [lia|].
  destruct bmx as [bh|]; [|inv H; reflexivity].
  destruct mx as [h|]; [destruct (h >? bh) eqn:E2; [discriminate|]|]; inv H; lia.
Qed.

Lemma revalidate_inv : forall s c', revalidate (Ok s) = Ok c' ->
  c' = s \/ exists d, c' = set_default s (Some d).
Proof.
  unfold revalidate. simpl. intros s c' H. destruct (default (mods_of s)); [|inv H; auto].
  destruct (apply true (unfreeze s) p); inv H. eauto.
Qed.

(* a change of the default of an unfrozen spec is invisible to compat, wf, ... *)
Lemma compat_set_default_r : forall q b s d, frozen (mods_of s) = false -> is_union b = false ->
  compat q b (set_default s d) = compat q b s.
Proof.
  intros q b s d F U. rewrite !compat_eq. unfold compat1, frozen_ok.
  destruct s; destruct m as [n d0 fz]; simpl in F; subst fz;
    destruct b; try discriminate; cbn; rewrite ?andb_false_l, ?orb_false_r; reflexivity.
Qed.

Lemma wf_set_default : forall s d, frozen (mods_of s) = false -> wf s -> wf (set_default s d).
Proof.
  intros s d F W. destruct s; destruct m as [n d0 fz]; simpl in F; subst fz; simpl in *;
    (split; [unfold frozen_value_ok; simpl; discriminate | tauto]).
Qed.

Lemma flags_set_default : forall s d,
  no_union (set_default s d) = no_union s /\ no_schema (set_default s d) = no_schema s /\
  no_frozen (set_default s d) = no_frozen s /\ enums_ok (set_default s d) = enums_ok s /\
  sizes_ok (set_default s d) = sizes_ok s /\ frozen (mods_of (set_default s d)) = frozen (mods_of s).
Proof. destruct s; repeat split; reflexivity. Qed.

(* ------------------------------------------------------------------------------------------ *)
(** * Extension yields a spec the base is compatible with (child without frozen / Enum / Union /
      Dict-schema parts; base without Union / Dict schema) *)

Definition good (s : spec) : Prop :=
  no_union s = true /\ no_schema s = true /\ no_frozen s = true /\ enums_ok s = true /\
  sizes_ok s = true /\ wf s.

Definition base_ok (b : spec) : Prop :=
  no_union b = true /\ no_schema b = true /\ sizes_ok b = true /\ enums_ok b = true.

Definition ext_ok (q : quirks) (c : spec) : Prop :=
  forall b c', base_ok b -> extend_in q c b = Ok c' -> compat q b c' = true /\ good c'.

Lemma no_frozen_top : forall s, no_frozen s = true -> frozen (mods_of s) = false.
Proof. destruct s; simpl; intros H; apply andb_true_iff in H as [H _]; destruct (frozen m); auto; discriminate. Qed.

Lemma good_set_default : forall s d, good s -> good (set_default s d).
Proof.
  intros s d (A & B & C & D & E & F).
  destruct (flags_set_default s d) as (A' & B' & C' & D' & E' & F').
  unfold good. rewrite A', B', C', D', E'. repeat split; auto.
  apply wf_set_default; auto using no_frozen_top.
Qed.

Lemma finish : forall q b s c', is_union b = false -> good s ->
  revalidate (Ok s) = Ok c' -> compat q b s = true -> compat q b c' = true /\ good c'.
Proof.
  intros q b s c' U G R C. destruct (revalidate_inv _ _ R) as [E|[d E]]; subst c'; auto.
  split. rewrite compat_set_default_r; auto. destruct G as (_ & _ & NF & _). auto using no_frozen_top.
  apply good_set_default; auto.
Qed.

Lemma none_ok_from_check : forall mb mc, negb (noneable mb) && noneable mc = false -> none_ok mb mc = true.
Proof. unfold none_ok. intros mb mc. destruct (noneable mb), (noneable mc); simpl; auto. Qed.

Lemma no_union_top : forall b, no_union b = true -> is_union b = false.
Proof. destruct b; simpl; auto. Qed.

Lemma wf_unfrozen_leaf : forall s, frozen (mods_of s) = false ->
  match s with SBool _ | SInt _ _ _ | SFloat _ _ _ | SStr _ | SObj _ _ | SDict None _ => True | _ => False end ->
  wf s.
Proof.
  intros s F K. destruct s; try contradiction; simpl in *;
    try (destruct schema; try contradiction);
    (split; [unfold frozen_value_ok; simpl; rewrite F; discriminate | exact I]).
Qed.

Lemma zip_extend_ok : forall q es bes es',
  Forall (ext_ok q) es -> Forall base_ok bes -> length es = length bes ->
  zip_extend (extend_in q) es bes = Ok es' ->
  forall2b (compat q) bes es' = true /\ Forall good es' /\ length es' = length es.
Proof.
  induction es as [|e es IH]; destruct bes as [|be bes]; simpl; intros es' HE HB L Z; try discriminate.
  - inv Z. auto.
  - inv HE. inv HB.
    destruct (extend_in q e be) as [e'|] eqn:Ee; simpl in Z; [|discriminate].
    destruct (zip_extend (extend_in q) es bes) as [r'|] eqn:Er; simpl in Z; inv Z.
    destruct (H1 _ _ H3 Ee) as [C G]. destruct (IH _ _ H2 H4 ltac:(lia) Er) as (C' & G' & L').
    simpl. rewrite C, C'. repeat split; auto.
Qed.

Lemma map_extend_ok : forall q be es es',
  Forall (ext_ok q) es -> base_ok be ->
  mapM (fun x => extend_in q x be) es = Ok es' ->
  forallb (compat q be) es' = true /\ Forall good es' /\ length es' = length es.
Proof.
  induction es as [|e es IH]; simpl; intros es' HE HB Z.
  - inv Z. auto.
  - inv HE.
    destruct (extend_in q e be) as [e'|] eqn:Ee; simpl in Z; [|discriminate].
    destruct (mapM (fun x => extend_in q x be) es) as [r'|] eqn:Er; simpl in Z; inv Z.
    destruct (H1 _ _ HB Ee) as [C G]. destruct (IH _ H2 HB eq_refl) as (C' & G' & L').
    simpl. rewrite C, C'. repeat split; auto.
Qed.

Lemma good_forall : forall (P : spec -> bool) l, Forall (fun s => P s = true) l -> forallb P l = true.
Proof. intros. apply forallb_forall. rewrite Forall_forall in H. auto. Qed.

Lemma good_tuple : forall es mn mx m, frozen m = false -> 0 <= mn ->
  (fixed_length mn mx = false -> es <> []) -> Forall good es -> good (STuple es mn mx m).
Proof.
  intros es mn mx m F MN SH G. unfold good. simpl. rewrite F. simpl.
  replace (0 <=? mn) with true by lia. simpl.
  replace (fixed_length mn mx || match es with [] => false | _ => true end) with true
    by (destruct (fixed_length mn mx); simpl; auto; destruct es; auto; exfalso; apply SH; auto).
  simpl.
  repeat split; try (apply good_forall; eapply Forall_impl; [|exact G]; unfold good; tauto).
  - unfold frozen_value_ok. simpl. rewrite F. discriminate.
  - clear - G. induction G; simpl; auto. split; auto. unfold good in H. tauto.
Qed.

Lemma forallb_Forall : forall (P : spec -> bool) l, forallb P l = true -> Forall (fun s => P s = true) l.
Proof. intros. apply Forall_forall. rewrite forallb_forall in H. auto. Qed.

Lemma good_tuple_inv : forall es mn mx m, good (STuple es mn mx m) ->
  frozen m = false /\ 0 <= mn /\ Forall good es /\ (fixed_length mn mx = false -> es <> []).
Proof.
  intros es mn mx m (A & B & C & D & E & F). simpl in *.
  apply andb_true_iff in C as [C1 C2]. apply andb_true_iff in E as [E1 E2].
  apply andb_true_iff in E1 as [E1 E3].
  split. destruct (frozen m); auto; discriminate. split. lia.
  pose proof (wf_tuple _ _ _ _ F) as W.
  split; [|intros FX; rewrite FX in E3; destruct es; [discriminate|congruence]].
  apply Forall_forall. intros e He. unfold good.
  rewrite forallb_forall in A, B, C2, D, E2. rewrite Forall_forall in W. repeat split; auto.
Qed.

Lemma base_tuple_inv : forall es mn mx m, base_ok (STuple es mn mx m) ->
  0 <= mn /\ Forall base_ok es /\ (fixed_length mn mx = false -> es <> []).
Proof.
  intros es mn mx m (A & B & E & N). simpl in *. apply andb_true_iff in E as [E1 E2].
  apply andb_true_iff in E1 as [E1 E3]. split. lia.
  split; [|intros F; rewrite F in E3; destruct es; [discriminate|congruence]].
  apply Forall_forall. intros e He. unfold base_ok. rewrite forallb_forall in A, B, E2, N. auto.
Qed.

Lemma compat1_frozen_ok : forall q ma mb, frozen ma = false -> frozen_ok q ma mb = true.
Proof. unfold frozen_ok. intros. rewrite H. simpl. rewrite orb_true_r. reflexivity. Qed.

Lemma repeat_forallb : forall (P : spec -> bool) e n, P e = true -> forallb P (repeat e n) = true.
Proof. induction n; simpl; intros; auto. rewrite H. auto. Qed.

Lemma repeat_Forall : forall (P : spec -> Prop) e n, P e -> Forall P (repeat e n).
Proof. induction n; simpl; constructor; auto. Qed.

Lemma good_list : forall e mn mx m, frozen m = false -> 0 <= mn -> good e -> good (SList e mn mx m).
Proof.
  intros e mn mx m F MN (A & B & C & D & E & W). unfold good. simpl. rewrite F. simpl.
  replace (0 <=? mn) with true by lia. simpl.
  split; [|split; [|split; [|split; [|split]]]]; auto.
  split; auto. unfold frozen_value_ok. simpl. rewrite F. discriminate.
Qed.

Lemma enum_go_inv : forall b c l s, enum_extend_go b c l = Ok s ->
  s = c /\ forall w, In w l -> exists r, apply false b w = Ok r.
Proof.
  induction l as [|v r IH]; simpl; intros s H.
  - inv H. split; auto. intros w [].
  - destruct (apply false b v) eqn:A.
    + destruct (IH _ H) as [E ACC]. split; auto. intros w [X|I]; subst; eauto.
    + destruct e; discriminate.
Qed.

(* a value an unfrozen Enum accepts is (==) one of its candidates *)
Lemma enum_accept_in : forall vals mb w r, frozen mb = false ->
  Bool.eqb (noneable mb) (has_none vals) = true ->
  apply false (SEnum vals mb) w = Ok r -> py_in w vals = true.
Proof.
  intros vals mb w r F EN H. rewrite apply_eq in H.
  destruct (type_of w) eqn:T.
  - rewrite pipeline_typed in H by (simpl; congruence).
    destruct (coerce (vtype (SEnum vals mb)) w) as [w1|] eqn:C; simpl in H; [|discriminate].
    destruct (py_in w1 vals) eqn:I; inv H.
    simpl in C. destruct (enum_vtype vals) as [ts|]; simpl in C; [|inv C; auto].
    destruct (isinstance w ts); [inv C; auto|].
    unfold convert in C. destruct (existsb is_float ts); [|discriminate].
    destruct (conv_float w) eqn:CF; inv C.
    unfold py_in in *. apply existsb_exists in I as [u [Iu E]]. apply existsb_exists. exists u. split; auto.
    rewrite <- E. destruct w; simpl in CF; inv CF; eapply py_eq_num_congr; simpl; eauto.
  - unfold pipeline in H. cbn [mods_of] in H. rewrite F in H.
    destruct w; simpl in T; try discriminate.
    destruct (noneable mb) eqn:N; [|discriminate].
    apply Bool.eqb_prop in EN. unfold has_none in EN. unfold py_in.
    symmetry in EN. apply existsb_exists in EN as [u [Iu Eu]]. apply existsb_exists. exists u. split; auto.
    destruct u; try discriminate. reflexivity.
Qed.

(* candidates accepted by an int- (bool-) typed Enum are instances of int (bool) *)
Lemma enum_accept_typed : forall vals mb t0 vs, frozen mb = false ->
  enum_vtype vals = Some [t0] -> is_float t0 = false ->
  (forall w, In w vs -> exists r, apply false (SEnum vals mb) w = Ok r) ->
  all_typed_within vs t0 = true.
Proof.
  intros vals mb t0 vs F VT NF ACC. unfold all_typed_within. apply forallb_forall. intros w Iw.
  destruct (ACC _ Iw) as [r H]. rewrite apply_eq in H.
  destruct (type_of w) as [tw|] eqn:T.
  - rewrite pipeline_typed in H by (simpl; congruence).
    destruct (coerce (vtype (SEnum vals mb)) w) as [w1|] eqn:C; simpl in H; [|discriminate].
    simpl in C. rewrite VT in C. apply coerce_nofloat in C as [_ I]; [|simpl; rewrite NF; reflexivity].
    unfold isinstance in I. rewrite T in I. simpl in I. rewrite orb_false_r in I.
    destruct w; simpl in *; try discriminate; inv T; exact I.
  - destruct w; simpl in T; try discriminate; auto.
    unfold pipeline in H. cbn [mods_of] in H. rewrite F in H. discriminate.
Qed.

Ltac leaf_good Fc :=
  unfold good; split; [|split; [|split; [|split; [|split]]]];
  try reflexivity; try (simpl; rewrite Fc; reflexivity); try (apply wf_unfrozen_leaf; simpl; auto).

Theorem extend_compat_seq : forall q, no_quirks q -> forall c, good c -> ext_ok q c.
Proof.
  intros q (Q1 & Q2 & Q3 & Q4 & Q5).
  induction c using spec_ind'; intros G b c' B HX;
    pose proof G as G0; destruct G as (NU & NS & NF & NE & SZ & W);
    destruct B as (NUb & NSb & SZb & ENb);
    pose proof (no_frozen_top _ NF) as Fc; cbn [mods_of] in Fc;
    rewrite extend_in_eq in HX; unfold extend_in1, frozen_base_bad in HX; cbn [mods_of] in HX;
    rewrite Fc in HX; cbn [negb orb andb] in HX; rewrite andb_true_r in HX;
    (destruct (frozen (mods_of b)) eqn:Fb; [discriminate|]);
    (destruct (is_any b) eqn:IA;
     [ inv HX; split; auto; destruct b; try discriminate;
       rewrite compat_eq; unfold compat1; cbn [mods_of] in *; rewrite compat1_frozen_ok by auto; reflexivity |]);
    rewrite (no_union_top _ NUb), andb_false_r in HX; cbn [bind] in HX;
    rewrite Q5 in HX; cbn [andb] in HX; rewrite orb_false_r in HX;
    (destruct (same_class _ b) eqn:SC; [|discriminate]); cbn [negb] in HX;
    match type of HX with (if ?x then _ else _) = _ => destruct x eqn:NO; [discriminate|] end;
    apply none_ok_from_check in NO.
  - (* Bool *)
    destruct b; try discriminate. cbn [extend_class] in HX.
    eapply finish; [reflexivity | exact G0 | exact HX | ].
    rewrite compat_eq. unfold compat1. cbn [mods_of] in *.
    rewrite compat1_frozen_ok by auto. exact NO.
  - (* Int *)
    destruct b; try discriminate. cbn [extend_class] in HX.
    destruct (number_extend lo hi lo0 hi0) as [r|] eqn:NX; cbn [bind] in HX; [|discriminate].
    eapply finish; [reflexivity | | exact HX | ].
    + leaf_good Fc.
    + rewrite compat_eq. unfold compat1. cbn [mods_of] in *.
      rewrite compat1_frozen_ok by auto. rewrite NO. simpl. eapply number_extend_compat; eauto.
  - (* Float *)
    destruct b; try discriminate. cbn [extend_class] in HX.
    destruct (number_extend lo hi lo0 hi0) as [r|] eqn:NX; cbn [bind] in HX; [|discriminate].
    eapply finish; [reflexivity | | exact HX | ].
    + leaf_good Fc.
    + rewrite compat_eq. unfold compat1. cbn [mods_of] in *.
      rewrite compat1_frozen_ok by auto. rewrite NO. simpl. eapply number_extend_compat; eauto.
  - (* Str *)
    destruct b; try discriminate. cbn [extend_class] in HX.
    eapply finish; [reflexivity | exact G0 | exact HX | ].
    rewrite compat_eq. unfold compat1. cbn [mods_of] in *.
    rewrite compat1_frozen_ok by auto. exact NO.
  - (* Enum child of an Enum base: every candidate is acceptable to the base *)
    destruct b; try discriminate. cbn [extend_class] in HX.
    destruct (enum_extend_go (SEnum vals m0) (SEnum vs m) vs) as [s|] eqn:EG; [|discriminate].
    destruct (enum_go_inv _ _ _ _ EG) as [E ACC]. subst s.
    eapply finish; [reflexivity | exact G0 | exact HX | ].
    rewrite compat_eq. unfold compat1. cbn [mods_of] in *.
    rewrite compat1_frozen_ok by auto. rewrite Fc. cbn [andb orb].
    rewrite NO. cbn [andb]. apply andb_true_iff. split.
    + apply forallb_forall. intros w Iw. destruct (ACC _ Iw) as [r Hr].
      simpl in ENb. apply andb_true_iff in ENb as [ENb _]. eapply enum_accept_in; [exact Fb | exact ENb | exact Hr].
    + unfold enum_types_ok. rewrite Q4. cbn [orb enum_vals].
      destruct (enum_vtype vals) as [[|t [|t2 r2]]|] eqn:VT; auto.
      * destruct t; auto; (eapply enum_accept_typed; [exact Fb | exact VT | reflexivity | exact ACC]).
      * destruct t; reflexivity.
  - (* List *)
    destruct b; try discriminate. cbn [extend_class] in HX.
    destruct (listkey_extend mn mx mn0 mx0) as [mx'|] eqn:LK; cbn [bind] in HX; [|discriminate].
    destruct (extend_in q c b) as [e'|] eqn:EE; cbn [bind] in HX; [|discriminate].
    simpl in NU, NS, NF, NE, SZ, NUb, NSb, SZb, ENb.
    apply andb_true_iff in NF as [_ NF]. apply andb_true_iff in SZ as [SZ1 SZ].
    apply andb_true_iff in SZb as [SZb1 SZb].
    destruct (IHc (conj NU (conj NS (conj NF (conj NE (conj SZ (wf_list _ _ _ _ W)))))) b e') as [Ce Ge];
      [unfold base_ok; auto | auto |].
    destruct (listkey_extend_ok _ _ _ _ _ LK) as [MN MX].
    eapply finish; [reflexivity | | exact HX | ].
    + apply good_list; auto. lia.
    + rewrite compat_eq. unfold compat1. cbn [mods_of] in *.
      rewrite compat1_frozen_ok by auto. rewrite NO, Q1, MN, MX, Ce. reflexivity.
  - (* Tuple *)
    destruct b; try discriminate. cbn [extend_class] in HX.
    destruct (good_tuple_inv _ _ _ _ G0) as (_ & MN0 & Ges & GNE).
    destruct (base_tuple_inv _ _ _ _ (conj NUb (conj NSb (conj SZb ENb)))) as (BMN0 & Bes & BNE).
    assert (IHes : Forall (ext_ok q) es).
    { rewrite Forall_forall in *. intros e He. apply H; auto. }
    destruct (fixed_length mn mx) eqn:FA.
    + destruct (fixed_length mn0 mx0) eqn:FB.
      * (* fixed / fixed *)
        destruct (len es =? len es0) eqn:LL; cbn [negb] in HX; [|discriminate].
        destruct (zip_extend (extend_in q) es es0) as [es'|] eqn:Z; cbn [bind] in HX; [|discriminate].
        destruct (zip_extend_ok _ _ _ _ IHes Bes ltac:(unfold len in LL; lia) Z) as (C & Gs & L).
        eapply finish; [reflexivity | | exact HX | ]; [apply good_tuple; auto; intros X; congruence | ].
        rewrite compat_eq. unfold compat1. cbn [mods_of] in *.
        rewrite compat1_frozen_ok by auto. rewrite NO, FB, FA, C. simpl.
        unfold len in *. rewrite andb_true_r. lia.
      * (* fixed child, variable base *)
        destruct (mn0 >? len es) eqn:E1; [discriminate|].
        destruct (match mx0 with Some bh => bh <? len es | None => false end) eqn:E2; [discriminate|].
        destruct es0 as [|be bes].
        -- (* a variable-length base always has its element field *)
           exfalso. apply BNE; reflexivity.
        -- pose proof (Forall_inv Bes) as Hbe.
           destruct (mapM (fun x => extend_in q x be) es) as [es'|] eqn:Z; cbn [bind] in HX; [|discriminate].
           destruct (map_extend_ok _ _ _ _ IHes Hbe Z) as (C & Gs & L).
           eapply finish; [reflexivity | | exact HX | ]; [apply good_tuple; auto; intros X; congruence | ].
           rewrite compat_eq. unfold compat1. cbn [mods_of] in *.
           rewrite compat1_frozen_ok by auto. rewrite NO, FB, FA, C. simpl.
           unfold len in *. rewrite L. rewrite andb_true_r. apply andb_true_iff. split; [lia|].
           destruct mx0; simpl in *; lia.
    + destruct (fixed_length mn0 mx0) eqn:FB; [discriminate|].
      destruct (negb (mn =? 0) && (mn <? mn0)) eqn:E1; [discriminate|].
      destruct (match mx, mx0 with Some h, Some bh => h >? bh | _, _ => false end) eqn:E2; [discriminate|].
      destruct es as [|e es1]; [discriminate|]. destruct es0 as [|be bes]; [discriminate|].
      destruct (extend_in q e be) as [e'|] eqn:EE; cbn [bind] in HX; [|discriminate].
      pose proof (Forall_inv IHes) as IHe. pose proof (Forall_inv Bes) as Hbe.
      destruct (IHe _ _ Hbe EE) as [Ce Ge].
      set (mn' := if mn =? 0 then mn0 else mn) in *.
      set (mx' := match mx with Some _ => mx | None => mx0 end) in *.
      assert (MN' : mn0 <= mn' /\ 0 <= mn') by (unfold mn'; destruct (mn =? 0) eqn:Z0; simpl in E1; lia).
      assert (MX' : match mx0 with Some bh => match mx' with Some h => h <= bh | None => False end | None => True end).
      { unfold mx'. destruct mx, mx0; simpl in *; auto; lia. }
      destruct (fixed_length mn' mx') eqn:FN.
      * (* the sizes met: fixed-length result *)
        eapply finish; [reflexivity | | exact HX | ]; [apply good_tuple; auto; [lia | intros X; congruence | apply repeat_Forall; auto] | ].
        rewrite compat_eq. unfold compat1. cbn [mods_of] in *.
        rewrite compat1_frozen_ok by auto. rewrite NO, FB, FN. simpl.
        rewrite repeat_forallb by auto. rewrite andb_true_r.
        unfold len. rewrite repeat_length, Z2Nat.id by lia.
        unfold fixed_length in FN. destruct mx' as [h|]; [|discriminate]. apply Z.eqb_eq in FN. subst h.
        apply andb_true_iff. split; [lia|]. destruct mx0; simpl in *; lia.
      * eapply finish; [reflexivity | | exact HX | ]; [apply good_tuple; auto; [lia | intros _; discriminate] | ].
        rewrite compat_eq. unfold compat1. cbn [mods_of] in *.
        rewrite compat1_frozen_ok by auto. rewrite NO, FB, FN, Ce. simpl. rewrite andb_true_r.
        apply andb_true_iff. split; [lia|]. destruct mx0, mx'; simpl in *; auto; try lia; contradiction.
  - (* schema-less Dict *)
    destruct b; try discriminate. simpl in NSb. destruct schema; [discriminate|].
    cbn [extend_class] in HX.
    eapply finish; [reflexivity | exact G0 | exact HX | ].
    rewrite compat_eq. unfold compat1. cbn [mods_of] in *.
    rewrite compat1_frozen_ok by auto. rewrite NO. reflexivity.
  - simpl in NS. discriminate.
  - (* Object *)
    destruct b; try discriminate. cbn [extend_class] in HX.
    destruct (compat q (SObj c0 m0) (SObj c m)) eqn:CP; [|discriminate].
    eapply finish; [reflexivity | exact G0 | exact HX | exact CP].
  - simpl in NU. discriminate.
  - (* Any child: only an Any base has the same class, and that returned earlier *)
    destruct b; try discriminate.
Qed.

Lemma extend_unfrozen : forall q c b c', frozen (mods_of c) = false -> extend q c b = Ok c' -> extend_in q c b = Ok c'.
Proof.
  unfold extend. intros q c b c' F H. rewrite F in H. cbn [negb orb andb] in H.
  destruct (frozen (mods_of b) && true); [discriminate|exact H].
Qed.

(* A successful extension narrows: the base is compatible with the extended spec, and every value
   of the extended spec is accepted by the base. *)
Theorem extend_narrows_seq : forall q c b c',
  no_quirks q -> good c -> base_ok b -> wf b ->
  extend q c b = Ok c' ->
  (forall v, total v = true -> conforms c' v -> accepts b v) /\ compat q b c' = true.
Proof.
  intros q c b c' NQ G B Wb H.
  pose proof G as (_ & _ & NF & _).
  apply extend_unfrozen in H; auto using no_frozen_top.
  destruct (extend_compat_seq q NQ c G b c' B H) as [C (_ & _ & _ & _ & _ & Wc')].
  split; auto. destruct B as (NUb & NSb & _).
  intros v T Cv. eapply compat_sound_seq; eauto.
Qed.

(* ------------------------------------------------------------------------------------------ *)
(** * Schema.extend: the fields two schemas share *)

Lemma fields_extend_shared : forall f (bfs : list (fkey * spec)) fs fs',
  fields_extend f bfs fs = Ok fs' ->
  forall k sc sb, In (k, sc) fs -> field_of k bfs = Some sb ->
  exists sc', f sc sb = Ok sc' /\ In (k, sc') fs'.
Proof.
  induction fs as [|[k0 s0] r IH]; simpl; intros fs' H k sc sb I Fb; [contradiction|].
  destruct (field_of k0 bfs) as [sb0|] eqn:F0.
  - destruct (f s0 sb0) as [s0'|] eqn:E0; simpl in H; [|discriminate].
    destruct (fields_extend f bfs r) as [r'|] eqn:Er; simpl in H; inv H.
    destruct I as [X|I].
    + inv X. rewrite Fb in F0. inv F0. exists s0'. split; auto. left; reflexivity.
    + destruct (IH _ eq_refl _ _ _ I Fb) as [sc' [A B]]. exists sc'. split; auto. right; auto.
  - destruct (fields_extend f bfs r) as [r'|] eqn:Er; simpl in H; inv H.
    destruct I as [X|I].
    + inv X. congruence.
    + destruct (IH _ eq_refl _ _ _ I Fb) as [sc' [A B]]. exists sc'. split; auto. right; auto.
Qed.

Lemma fields_extend_keys : forall f (bfs : list (fkey * spec)) fs fs',
  fields_extend f bfs fs = Ok fs' -> map fst fs' = map fst fs.
Proof.
  induction fs as [|[k0 s0] r IH]; simpl; intros fs' H. { inv H; reflexivity. }
  destruct (field_of k0 bfs).
  - destruct (f s0 s); simpl in H; [|discriminate].
    destruct (fields_extend f bfs r); simpl in H; inv H. simpl. f_equal. auto.
  - destruct (fields_extend f bfs r); simpl in H; inv H. simpl. f_equal. auto.
Qed.

Lemma keys_distinct_map : forall {A B} (l : list (fkey * A)) (l' : list (fkey * B)),
  map fst l' = map fst l -> keys_distinct l = true -> keys_distinct l' = true.
Proof.
  intros A B l. induction l as [|[k a] r IH]; destruct l' as [|[k' b] r']; simpl; intros E D; try discriminate; auto.
  inv E. apply andb_true_iff in D as [D1 D2]. rewrite (IH _ H1 D2), andb_true_r.
  assert (X : forall key, (field_of key r' = None) <-> (field_of key r = None)).
  { clear - H1. revert r' H1. induction r as [|[k0 a0] r IH]; destruct r' as [|[k1 b1] r']; simpl; intros E key; try discriminate.
    - tauto.
    - inv E. destruct (fkey_eqb key k0). split; discriminate. apply IH; auto. }
  destruct (field_of k r) eqn:F; [discriminate|]. destruct (field_of k r') eqn:F'; auto.
  apply X in F. congruence.
Qed.

(* the merged schema keeps, under a shared key, the child's extended field *)
Lemma merged_shared : forall (bfs fs' : list (fkey * spec)) k sb sc',
  field_of k bfs = Some sb -> field_of k fs' = Some sc' -> field_of k (merged_schema bfs fs') = Some sc'.
Proof.
  unfold merged_schema. intros bfs fs' k sb sc' Fb Fc.
  assert (G : forall l, field_of k l = Some sb ->
            field_of k (map (fun kf => match field_of (fst kf) fs' with Some s' => (fst kf, s') | None => kf end) l ++
                        filter (fun kf => match field_of (fst kf) bfs with Some _ => false | None => true end) fs') = Some sc').
  { induction l as [|[k0 s0] r IH]; simpl; intros F; [discriminate|].
    destruct (fkey_eqb k k0) eqn:E.
    - apply fkey_eqb_eq in E. subst k0. rewrite Fc. simpl. rewrite fkey_eqb_refl. reflexivity.
    - destruct (field_of k0 fs'); simpl; rewrite E; auto. }
  auto.
Qed.

Theorem schema_extend_shared_fields : forall q bfs fs fs',
  no_quirks q -> keys_distinct fs = true ->
  fields_extend (extend_in q) bfs fs = Ok fs' ->
  forall k sc sb, In (k, sc) fs -> field_of k bfs = Some sb ->
  good sc -> base_ok sb -> wf sb ->
  exists sc', field_of k (merged_schema bfs fs') = Some sc' /\
              extend_in q sc sb = Ok sc' /\ compat q sb sc' = true /\
              (forall v, total v = true -> conforms sc' v -> accepts sb v).
Proof.
  intros q bfs fs fs' NQ KD FE k sc sb I Fb G B Wb.
  destruct (fields_extend_shared _ _ _ _ FE _ _ _ I Fb) as [sc' [E I']].
  pose proof (keys_distinct_map fs fs' (fields_extend_keys _ _ _ _ FE) KD) as KD'.
  exists sc'. split; [|split; auto].
  - eapply merged_shared; eauto. apply In_field_of; auto.
  - destruct (extend_compat_seq q NQ sc G sb sc' B E) as [C (_ & _ & _ & _ & _ & Wc')].
    split; auto. destruct B as (NUb & NSb & _). intros v T Cv. eapply compat_sound_seq; eauto.
Qed.

(* BindingGen.v — the program regenerated from Functor._parse_call_time_overrides computes, on every
   input of a finite grid and with run-time type checking on and off, exactly the arguments of the hand
   model [functor_call_args], for which C18_call_equiv is proved.  Re-checked (vm_compute) whenever the
   source, and hence Gen/BindingCallTime.v, changes. *)
From PG Require Import Common.Tactics Model.Binding Model.BindingLang Gen.BindingCallTime Model.BindingRun.
From Coq Require Import NArith.
Local Open Scope N_scope.

Definition g_pos : list (list (name * option val)) :=
  [ []; [(1, None)]; [(1, None); (2, Some (VInt 11))]; [(1, Some (VInt 10)); (2, Some (VInt 11))] ].
Definition g_kwonly : list (list (name * option val)) := [ []; [(4, None)]; [(4, Some (VInt 20))] ].
Definition g_sigs : list sig :=
  flat_map (fun p => flat_map (fun va => flat_map (fun ko => map (fun kw =>
    {| pos := p; posonly := 0; varargs := va; kwonly := ko; varkw := kw |}) [None; Some 11]) g_kwonly) [None; Some 10]) g_pos.
Definition g_ctor_supplies : list call :=
  [ {| cpos := []; ckw := [] |}; {| cpos := [VInt 1]; ckw := [] |}; {| cpos := [VInt 1; VInt 2; VInt 3]; ckw := [] |};
    {| cpos := []; ckw := [(2, VInt 11)] |}; {| cpos := [VInt 1]; ckw := [(20, VInt 50)] |}; {| cpos := []; ckw := [(10, VList [5%Z])] |};
    {| cpos := [VInt 1]; ckw := [(4, VInt 20); (10, VList [])] |}; {| cpos := [VInt 1; VInt 2]; ckw := [(4, VInt 7)] |} ].
Definition g_supplies : list call :=
  [ {| cpos := []; ckw := [] |}; {| cpos := [VInt 1]; ckw := [] |}; {| cpos := [VInt 1; VInt 2; VInt 3]; ckw := [] |};
    {| cpos := []; ckw := [(1, VInt 31)] |}; {| cpos := [VInt 1]; ckw := [(1, VInt 31)] |}; {| cpos := []; ckw := [(4, VInt 34)] |};
    {| cpos := []; ckw := [(20, VInt 50)] |}; {| cpos := [VInt 1; VInt 2]; ckw := [(2, VInt 32)] |} ].
Definition g_flags : list (bool * bool) := [ (false, false); (true, true) ].
Definition g_lates : list (list (name * val)) := [ []; [(2, VInt 11)] ].
Definition g_call_flags : list (option bool * option bool) := [ (None, None); (Some true, Some true) ].

Definition agrees_on (s : sig) (ctor : call) (fl : bool * bool) (lates : list (name * val)) : bool :=
  match functor_ctor s ctor (fst fl) (snd fl) with
  | Err _ => true
  | Ok st =>
      match late_all {| q_noop_rebind := false |} s st lates with
      | Err _ => true
      | Ok st1 =>
          forallb (fun c => forallb (fun cf => gen_agrees s st1 c (fst cf) (snd cf) &&
                                               gen_agrees s (json_state s st1) c (fst cf) (snd cf)) g_call_flags) g_supplies
      end
  end.
Definition grid_agrees : bool :=
  forallb (fun s => forallb (fun ctor => forallb (fun fl => forallb (fun l => agrees_on s ctor fl l) g_lates) g_flags) g_ctor_supplies) g_sigs.

Lemma generated_code_agrees_on_grid : grid_agrees = true.
Proof. vm_compute. reflexivity. Qed.

(* EvoBase.v — what is assumed of the PRNG ([rng_ok]) and list lemmas shared by the C14 proofs. *)
From PG Require Import Common.Tactics Model.Geno Model.Evo Proofs.GenoBasics.
From Coq Require Import Permutation.

(* The contract of random.Random as the evolution package uses it. *)
Record rng_ok {R : Type} (G : rng R) : Prop := {
  pick_ok : forall n r, 0 < n -> fst (pick G n r) < n;
  picks_ok : forall ws k r, (0 < sumZ ws)%Z -> Forall (fun w => (0 <= w)%Z) ws ->
      length (fst (picks G ws k r)) = k /\ Forall (fun i => i < length ws /\ (nth i ws 0 <> 0)%Z) (fst (picks G ws k r));
  sample_ok : forall n k r, k <= n ->
      length (fst (sample G n k r)) = k /\ NoDup (fst (sample G n k r)) /\ Forall (fun i => i < n) (fst (sample G n k r));
  uniform_ok : forall lo hi r, (lo <= hi)%Z -> (lo <= fst (uniform G lo hi r) <= hi)%Z;
  shuffle_ok : forall n r, Permutation (fst (shuffle G n r)) (seq 0 n)
}.

(* a generator satisfying the contract: always the first admissible answer *)
Fixpoint first_nz (ws : list Z) : nat :=
  match ws with [] => 0 | w :: r => if (w =? 0)%Z then S (first_nz r) else 0 end.
Definition first_rng : rng unit := {|
  pick := fun _ r => (0, r);
  picks := fun ws k r => (repeat (first_nz ws) k, r);
  sample := fun _ k r => (seq 0 k, r);
  uniform := fun lo _ r => (lo, r);
  shuffle := fun n r => (seq 0 n, r);
  real := fun r => (0%Z, r);
  order := fun n r => (seq 0 n, r)
|}.
Lemma first_nz_ok : forall ws, (0 < sumZ ws)%Z -> Forall (fun w => (0 <= w)%Z) ws ->
  first_nz ws < length ws /\ (nth (first_nz ws) ws 0 <> 0)%Z.
Proof.
  induction ws as [|w ws IH]; simpl; intros Hs Hp. lia.
  inv Hp. destruct (Z.eqb_spec w 0).
  - subst. destruct IH; auto. split; [lia|auto].
  - split; [lia|auto].
Qed.
Lemma first_rng_ok : rng_ok first_rng.
Proof.
  constructor; simpl; intros.
  - auto.
  - rewrite repeat_length. split; auto. apply Forall_forall. intros i Hi. apply repeat_spec in Hi. subst.
    apply first_nz_ok; auto.
  - rewrite seq_length. split; auto. split. apply seq_NoDup. apply Forall_forall. intros i Hi. apply in_seq in Hi. lia.
  - lia.
  - apply Permutation_refl.
Qed.

(* ---- sort_by is a permutation ------------------------------------------------------------------------ *)
Lemma ins_by_perm : forall A (le : A -> A -> bool) x l, Permutation (ins_by le x l) (x :: l).
Proof.
  induction l as [|y l IH]; simpl; auto. destruct (le x y); auto.
  eapply perm_trans. apply perm_skip, IH. apply perm_swap.
Qed.
Lemma sort_by_perm : forall A (le : A -> A -> bool) l, Permutation (sort_by le l) l.
Proof.
  induction l as [|x l IH]; simpl; auto. unfold sort_by in *. simpl.
  eapply perm_trans. apply ins_by_perm. auto.
Qed.
Lemma sort_by_length : forall A (le : A -> A -> bool) l, length (sort_by le l) = length l.
Proof. intros. apply Permutation_length, sort_by_perm. Qed.
Lemma sort_by_In : forall A (le : A -> A -> bool) l x, In x (sort_by le l) <-> In x l.
Proof. intros. split; apply Permutation_in; [|apply Permutation_sym]; apply sort_by_perm. Qed.

(* ---- small list facts ---------------------------------------------------------------------------------- *)
Lemma opt_list_Some : forall A (l : list (option A)) r, opt_list l = Some r -> l = map Some r.
Proof.
  induction l as [|[a|] l IH]; simpl; intros r H; try discriminate. inv H; auto.
  destruct (opt_list l); inv H. simpl. f_equal; auto.
Qed.
Lemma opt_list_length : forall A (l : list (option A)) r, opt_list l = Some r -> length r = length l.
Proof. intros. apply opt_list_Some in H. subst. rewrite map_length; auto. Qed.
Lemma set_nth_length : forall A (l : list A) n x, length (set_nth l n x) = length l.
Proof. induction l; destruct n; simpl; auto. Qed.
Lemma set_nth_In : forall A (l : list A) n x y, In y (set_nth l n x) -> y = x \/ In y l.
Proof.
  induction l; destruct n; simpl; intros; auto. destruct H; auto. destruct H; auto.
  apply IHl in H. tauto.
Qed.
Lemma map_st_length : forall A X R (f : A -> R -> X * R) l r, length (fst (map_st f l r)) = length l.
Proof.
  induction l; simpl; intros; auto. destruct (f a r). specialize (IHl r0). destruct (map_st f l r0). simpl in *. auto.
Qed.

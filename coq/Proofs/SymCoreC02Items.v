(* SymCoreC02Items.v -- re-inserting stored items (l * n, l *= n, d | m): an item that is a container is found by its id and
   copied; this needs the uniqueness of node ids (the full C01 invariant WF / WFI of Proofs/SymCoreIds.v). *)
From Coq Require Import ZArith NArith List Bool Lia.
Import ListNotations.
From PG Require Import Common.Tactics Model.SymCoreDefs Model.SymCoreOps Model.SymCoreSpec Model.SymCoreC02
     Proofs.SymCoreBase Proofs.SymCoreWF Proofs.SymCoreWFOps Proofs.SymCoreClone Proofs.SymCoreIds Proofs.SymCoreC02Read
     Proofs.SymCoreC02Frame Proofs.SymCoreC02Prim Proofs.SymCoreC02List.
From PG Require Model.PyList Model.PyDict.
Local Open Scope Z_scope.

(* --- locate finds the node where it is -------------------------------------------------------------------------------------- *)
Lemma find_id_complete' : forall t i, In i (ids t) -> exists p, find_id i t = Some p.
Proof.
  induction t using node_ind'; intros j I; simpl in I; try contradiction. simpl.
  destruct (N.eqb j i) eqn:E. eauto. destruct I as [I|I]. subst. rewrite N.eqb_refl in E. discriminate.
  induction its as [|[k0 c] r IHr]; simpl in *; try contradiction. inv H.
  apply in_app_or in I. destruct I as [I|I].
  - destruct (H2 _ I) as [p F]. simpl in F. rewrite F. eauto.
  - destruct (find_id j c); eauto.
Qed.
Lemma locate_from_complete' : forall i rs idx, In i (flat_map ids_slot rs) -> exists ps, locate_from i rs idx = Some ps.
Proof.
  induction rs as [|[t|j] r IH]; simpl; intros; try contradiction.
  - apply in_app_or in H. destruct H as [H|H].
    + destruct (find_id_complete' _ _ H) as [p F]. rewrite F. eauto.
    + destruct (find_id i t); eauto.
  - auto.
Qed.
Lemma get_at_in_all_ids : forall st ps i k pa pt fl its, get_at st ps = Some (Node i k pa pt fl its) -> In i (all_ids st).
Proof.
  unfold get_at, get_root, all_ids; intros. destruct (nth_error (roots st) (fst ps)) as [[t|]|] eqn:N; try discriminate.
  apply in_flat_map. exists (Live t). split. eapply nth_error_In; eauto. simpl. eapply get_in_ids; eauto.
Qed.
Theorem locate_complete' : forall st ps i k pa pt fl its, WFI st -> get_at st ps = Some (Node i k pa pt fl its) -> locate st i = Some ps.
Proof.
  intros st ps i k pa pt fl its W G.
  destruct (locate_from_complete' i (roots st) 0 (get_at_in_all_ids _ _ _ _ _ _ _ _ G)) as [ps' L]. unfold locate. rewrite L. f_equal.
  destruct (locate_spec _ _ _ (proj1 W) L) as (k' & pa' & pt' & fl' & its' & G').
  destruct ps as [r p], ps' as [r' p']. destruct (no_node_twice _ _ _ _ _ _ _ _ _ _ _ _ _ _ _ _ W G' G). subst. auto.
Qed.

(* --- an item of the container X at xps, written somewhere else: it is copied ---------------------------------------------------- *)
Lemma get_at_child : forall st r p k c, get_at st (r, p ++ [k]) = Some c ->
  exists n, get_at st (r, p) = Some n /\ assoc k (nitems n) = Some c.
Proof.
  unfold get_at; simpl; intros. destruct (get_root st r) as [t|]; try discriminate.
  rewrite get_in_app in H. destruct (get_in p t) as [n|] eqn:G; try discriminate. simpl in H.
  destruct (assoc k (nitems n)) eqn:A; try discriminate. inv H. eauto.
Qed.
Lemma get_at_child_of : forall st r p n k, get_at st (r, p) = Some n -> get_at st (r, p ++ [k]) = assoc k (nitems n).
Proof.
  unfold get_at; simpl; intros. destruct (get_root st r) as [t|]; try discriminate.
  rewrite get_in_app. destruct (get_in p t); inv H. simpl. destruct (assoc k (nitems n)); auto.
Qed.

Lemma formalize_item : forall q sc st xps xid xk xpa xfl xits k c r ck cid cfl tp nw st1,
  no_quirks q -> WFI st ->
  get_at st xps = Some (Node xid xk xpa (snd xps) xfl xits) -> assoc k xits = Some c -> is_missing c = false ->
  (match ck with KObj _ => False | _ => True end) ->
  (* the value is not written back to the place it is stored at *)
  (xid <> cid \/ tp <> snd xps ++ [k]) ->
  formalize q sc st r ck cid cfl tp false (rv_of_item c) = (nw, st1) ->
  erase nw = erase c /\ is_missing nw = false /\ roots st1 = roots st.
Proof.
  intros q sc st [xr xp] xid xk xpa xfl xits k c r ck cid cfl tp nw st1 NQ W GX AS M CK NP F. simpl in *.
  assert (G : get_at st (xr, xp ++ [k]) = Some c) by (rewrite (get_at_child_of _ _ _ _ k GX); exact AS).
  destruct c as [l|i kd pa pt fl its]; simpl in F.
  - inv F. auto.
  - rewrite (locate_complete' _ _ _ _ _ _ _ _ W G) in F. rewrite G in F.
    destruct W as [WS WI].
    destruct (child_reports_container _ _ _ _ _ _ _ _ _ _ _ _ _ _ _ _ WS GX G) as (E1 & E2). subst pa pt.
    assert (NC : needs_clone r ck cid tp false (xr, xp ++ [k]) (Node i kd (Some xid) (xp ++ [k]) fl its) = true).
    { unfold needs_clone. simpl.
      destruct ck; try contradiction; rewrite orb_false_r; apply negb_true_iff; apply andb_false_iff;
        (destruct NP as [NP|NP]; [left; apply N.eqb_neq; auto | right; destruct (path_eqb (xp ++ [k]) tp) eqn:PE; auto; apply path_eqb_eq in PE; congruence]). }
    rewrite NC in F.
    destruct (clone_at (q_copy_drops_missing q) false (Some cid) tp (Node i kd (Some xid) (xp ++ [k]) fl its) (next_id st, [])) as [cl cs] eqn:CL.
    inv F. destruct (wfs_get_at _ _ _ WS G) as (ep & WN).
    repeat split; auto.
    + replace nw with (fst (clone_at (q_copy_drops_missing q) false (Some cid) tp (Node i kd (Some xid) (xp ++ [k]) fl its) (next_id st, []))) by (rewrite CL; auto).
      eapply clone_erase; eauto. left; exact NQ.
    + pose proof (clone_at_is_node (q_copy_drops_missing q) false (Some cid) tp (Node i kd (Some xid) (xp ++ [k]) fl its) (next_id st, [])) as IN.
      rewrite CL in IN. simpl in IN. destruct nw; simpl in *; auto; discriminate.
Qed.

Lemma rv_of_item_ok : forall c, is_missing c = false -> rv_ok (rv_of_item c) /\ is_missing_rv (rv_of_item c) = false /\ (forall v', rv_of_item c <> RIns v').
Proof. destruct c; simpl; intros; repeat split; auto; try discriminate. Qed.
Lemma lprim_WFI : forall q sc st cp k rv st' p, WFI st -> rv_ok rv -> lprim q sc st cp k rv = (st', p) -> WFI st'.
Proof. intros. eapply WFI_step; eauto. destruct H; eapply lprim_wfs; eauto. eapply lprim_ids; eauto. Qed.
Lemma assoc_app_some : forall A k (l m : list (key * A)) v, assoc k l = Some v -> assoc k (l ++ m) = Some v.
Proof. induction l as [|[k' v'] l IH]; simpl; intros; try discriminate. destruct (key_eqb k k'); auto. Qed.
Lemma assoc_positions : forall (its : list (key * node)) (i : Z) k c, positions i (map fst its) -> assoc k its = Some c -> exists j, k = KI j /\ i <= j < i + zlen its.
Proof.
  induction its as [|[k' c'] its IH]; simpl; intros; try discriminate. destruct H as [E P]. simpl in E. subst k'.
  destruct (key_eqb k (KI i)) eqn:KE.
  - apply key_eqb_eq in KE. subst. exists i. split; auto. unfold zlen; simpl length. lia.
  - destruct (IH _ _ _ P H0) as (j & EJ & B). exists j. split; auto. unfold zlen in *. simpl length. lia.
Qed.

Section ItemLoops.
Variables (q : quirks) (sc : scope).
Hypothesis NQ : no_quirks q.

(* l *= n: the list is extended with (copies of) its own items *)
Lemma extend_loop_self : forall cs ps tid pa fl st its upd st' u e,
  WFI st -> at_is st ps tid KList pa fl its -> clean its -> anc_clean st ps ->
  Forall (fun c => exists k, assoc k its = Some c /\ is_missing c = false) cs ->
  extend_loop q sc st ps (map rv_of_item cs) upd = (st', u, e) ->
  e = None /\ WFI st' /\ wrote st ps tid pa fl st' (evals its ++ map erase cs).
Proof.
  induction cs as [|c cs IH]; intros ps tid pa fl st its upd st' u e W R C A F E; simpl in E.
  - inv E. split; auto. split; auto. rewrite app_nil_r. apply wrote_refl; auto. apply W.
  - inv F. destruct H1 as (k & AS & M).
    destruct (at_cur ps tid pa fl _ _ R) as (_ & _ & CL). rewrite CL in E. clear CL.
    destruct (lprim q sc st ps (KI (zlen its)) (rv_of_item c)) as [st1 p] eqn:L.
    destruct (rv_of_item_ok c M) as (OK & NM & NI).
    pose proof (lprim_WFI _ _ _ _ _ _ _ _ W OK L) as W1.
    destruct (at_children ps tid pa fl _ _ (proj1 W) R) as (CF & KP).
    destruct (assoc_positions _ _ _ _ KP AS) as (j & EJ & BJ). subst k.
    destruct (lprim_append_gen q sc st ps tid pa fl its R A (proj1 W) (zlen its) (rv_of_item c) st1 p (erase c) OK NM NI (Z.le_refl _)) as (PP & nw & R1 & EN & MN & K1 & A1 & WS1); auto.
    { intros nw st2 FZ. eapply (formalize_item q sc st ps tid KList pa fl its (KI j) c); eauto. simpl; auto.
      right. intro EQ. apply app_inj_tail in EQ. destruct EQ as [_ EQ]. inv EQ. lia. }
    subst p.
    assert (C1 : clean (its ++ [(KI (zlen its), nw)])) by (apply clean_app; auto; constructor; auto).
    assert (F1 : Forall (fun c0 => exists k, assoc k (its ++ [(KI (zlen its), nw)]) = Some c0 /\ is_missing c0 = false) cs).
    { eapply Forall_impl; [|exact H2]. intros c0 (k0 & AS0 & M0). exists k0. split; auto. apply assoc_app_some; auto. }
    destruct (IH ps tid pa fl st1 _ true st' u e W1 R1 C1 A1 F1 E) as (EE & W' & (its2 & R2 & C2 & E2 & K2 & A2 & WS2)).
    split; auto. split; auto. exists its2. repeat split; auto.
    + rewrite E2. rewrite evals_app. simpl. rewrite EN. rewrite <- app_assoc. reflexivity.
    + eapply keeps_other_trans; eauto.
Qed.

(* l * n: a new list (another root) is extended with (copies of) the items of the container X at xps *)
Lemma extend_loop_other : forall cs xps xid xk xpa xfl xits ps tid pa fl st its upd st' u e,
  WFI st -> at_is st ps tid KList pa fl its -> clean its -> anc_clean st ps ->
  fst xps <> fst ps -> xid <> tid -> get_at st xps = Some (Node xid xk xpa (snd xps) xfl xits) ->
  Forall (fun c => exists k, assoc k xits = Some c /\ is_missing c = false) cs ->
  extend_loop q sc st ps (map rv_of_item cs) upd = (st', u, e) ->
  e = None /\ WFI st' /\ wrote st ps tid pa fl st' (evals its ++ map erase cs).
Proof.
  induction cs as [|c cs IH]; intros xps xid xk xpa xfl xits ps tid pa fl st its upd st' u e W R C A NR NI0 GX F E; simpl in E.
  - inv E. split; auto. split; auto. rewrite app_nil_r. apply wrote_refl; auto. apply W.
  - inv F. destruct H1 as (k & AS & M).
    destruct (at_cur ps tid pa fl _ _ R) as (_ & _ & CL). rewrite CL in E. clear CL.
    destruct (lprim q sc st ps (KI (zlen its)) (rv_of_item c)) as [st1 p] eqn:L.
    destruct (rv_of_item_ok c M) as (OK & NM & NI).
    pose proof (lprim_WFI _ _ _ _ _ _ _ _ W OK L) as W1.
    destruct (lprim_append_gen q sc st ps tid pa fl its R A (proj1 W) (zlen its) (rv_of_item c) st1 p (erase c) OK NM NI (Z.le_refl _)) as (PP & nw & R1 & EN & MN & K1 & A1 & WS1); auto.
    { intros nw st2 FZ. eapply (formalize_item q sc st xps xid xk xpa xfl xits k c); eauto. simpl; auto. }
    subst p.
    assert (C1 : clean (its ++ [(KI (zlen its), nw)])) by (apply clean_app; auto; constructor; auto).
    assert (GX1 : get_at st1 xps = Some (Node xid xk xpa (snd xps) xfl xits)) by (eapply keeps_other_get_at; eauto).
    destruct (IH xps xid xk xpa xfl xits ps tid pa fl st1 _ true st' u e W1 R1 C1 A1 NR NI0 GX1 H2 E) as (EE & W' & (its2 & R2 & C2 & E2 & K2 & A2 & WS2)).
    split; auto. split; auto. exists its2. repeat split; auto.
    + rewrite E2. rewrite evals_app. simpl. rewrite EN. rewrite <- app_assoc. reflexivity.
    + eapply keeps_other_trans; eauto.
Qed.
End ItemLoops.

(* --- l *= n and l * n on any list (items may be containers) ------------------------------------------------------------------------ *)
Definition plain_lop' (ro : op rvalue) : Prop :=
  match ro with
  | LSet _ v | LAppend v | LInsert _ v => plain_rv v
  | LExtend vs | LIAdd vs | LAdd vs => Forall plain_rv vs
  | _ => True
  end.
Lemma positions_assoc_in : forall (its : list (key * node)) i k c, positions i (map fst its) -> In (k, c) its -> assoc k its = Some c.
Proof.
  induction its as [|[k' c'] its IH]; simpl; intros; try contradiction. destruct H as [E P]. simpl in E. subst k'.
  destruct H0 as [H0|H0].
  - inv H0. rewrite key_eqb_refl. auto.
  - destruct (key_eqb k (KI i)) eqn:KE.
    + apply key_eqb_eq in KE. subst k. exfalso.
      assert (A := IH (i + 1) (KI i) c P H0). destruct (assoc_positions _ _ _ _ P A) as (j & EJ & B). inv EJ. lia.
    + eapply IH; eauto.
Qed.
Lemma items_as_values : forall (its : list (key * node)), positions 0 (map fst its) -> clean its ->
  Forall (fun c => exists k, assoc k its = Some c /\ is_missing c = false) (map snd its).
Proof.
  intros. apply Forall_forall. intros c I. apply in_map_iff in I. destruct I as ([k c'] & E & I). simpl in E. subst c'.
  exists k. split. eapply positions_assoc_in; eauto. unfold clean in H0. rewrite Forall_forall in H0. apply (H0 _ I).
Qed.
Lemma map_rv_of_item : forall (its : list (key * node)), map (fun kv => rv_of_item (snd kv)) its = map rv_of_item (map snd its).
Proof. intros; rewrite map_map; reflexivity. Qed.
Lemma map_erase_snd : forall (its : list (key * node)), map erase (map snd its) = evals its.
Proof. intros; rewrite map_map; reflexivity. Qed.

Section MulRefine.
Variables (q : quirks) (sc : scope) (ps : pos) (tid : N) (pa : option N) (fl : flags).
Hypothesis NQ : no_quirks q.

Theorem exec_list_refines_wf : forall st its ro lo st' out,
  WFI st -> at_is st ps tid KList pa fl its -> clean its -> anc_clean st ps -> permits sc fl -> plain_lop' ro -> lop_of ro = Some lo ->
  exec q sc st ps tid KList (snd ps) fl its ro = (st', out) ->
  match py_lstep (evals its) lo with
  | inr e => st' = st /\ out = Err (err_of e)
  | inl (l', ret) => wrote st ps tid pa fl st' l' /\ ret_agrees st' out ret
  end.
Proof.
  intros st its ro lo st' out W R C A PM PL LO E.
  assert (GEN : forall (P : plain_lop its ro), match py_lstep (evals its) lo with
                  | inr e => st' = st /\ out = Err (err_of e)
                  | inl (l', ret) => wrote st ps tid pa fl st' l' /\ ret_agrees st' out ret end).
  { intros. eapply exec_list_refines; eauto. apply W. }
  destruct ro; try (apply GEN; exact PL); simpl in LO; inv LO; destruct PM as [SL AW];
    pose proof (permits_default _ _ SL) as SLD;
    destruct (at_children ps tid pa fl st its (proj1 W) R) as [CF KP];
    unfold py_lstep, PyList.lstep; unfold exec in E; rewrite ?SL, ?AW, ?SLD in E; cbn [negb andb] in E.
  - (* *= *)
    destruct (n <=? 0) eqn:B.
    + inv E. replace (Z.to_nat n) with O by lia. simpl. split; [apply clear_core_at; auto; apply W|reflexivity].
    + unfold extend_core in E. rewrite map_rv_of_item, repeat_list_app, <- map_repeat_app in E.
      match type of E with context [extend_loop ?a ?b ?c ?d ?e ?f] => destruct (extend_loop a b c d e f) as [[st1 u] e1] eqn:X end.
      destruct (extend_loop_self q sc NQ _ ps tid pa fl st its false st1 u e1 W R C A
                  (Forall_repeat_app _ _ _ _ (items_as_values its KP C)) X) as (EE & W1 & WR).
      subst e1. inv E. split; [|reflexivity]. apply wrote_fix_chain.
      rewrite map_repeat_app, map_erase_snd in WR.
      replace (Z.to_nat n) with (S (Z.to_nat (n - 1))) by lia. exact WR.
  - (* * *)
    rewrite andb_false_r in E.
    destruct (new_list_from q st []) as [c st1] eqn:NL.
    destruct (new_list_from_root q st tid (snd ps) [] c st1 NQ ltac:(constructor) I ltac:(constructor) NL) as (RS & tid' & its0 & EC & EV & CC).
    destruct (new_list_from_wfs q st [] c st1 tid (snd ps) (proj1 W) ltac:(constructor) NL) as (W1 & NC & WC).
    destruct its0; [|discriminate].
    assert (WA : WFI (add_root st1 c)).
    { eapply WFI_step; [exact W| |eapply new_list_from_rel; eauto]. apply wfs_add_root; auto. }
    rewrite map_rv_of_item, repeat_list_app, <- map_repeat_app in E.
    match type of E with context [extend_loop ?a ?b ?c ?d ?e ?f] => destruct (extend_loop a b c d e f) as [[st2 u2] e2] eqn:X end.
    assert (R0 : at_is (add_root st1 c) (length (roots st1), []) tid' KList None default_flags []).
    { unfold at_is. rewrite get_at_root. subst c. apply get_root_add_root_new. }
    pose proof (get_at_lt _ _ _ R) as LT.
    assert (GX : get_at (add_root st1 c) ps = Some (Node tid KList pa (snd ps) fl its)).
    { eapply keeps_roots_get_at; [|rewrite (same_roots_get_at _ _ _ RS); exact R]. red; intros. apply get_root_add_root. auto. }
    assert (NT : tid <> tid').
    { intro EQ. subst tid'. unfold at_is in R0. rewrite (surjective_pairing ps) in GX.
      destruct (no_node_twice _ _ _ _ _ _ _ _ _ _ _ _ _ _ _ _ WA GX R0) as [E1 _]. rewrite RS in E1. lia. }
    destruct (extend_loop_other q sc NQ _ ps tid KList pa fl its (length (roots st1), []) tid' None default_flags (add_root st1 c) [] false st2 u2 e2
                WA R0 ltac:(constructor) (anc_clean_root _ _) ltac:(simpl; rewrite RS; lia) NT GX
                (Forall_repeat_app _ _ _ _ (items_as_values its KP C)) X) as (EE & W2 & WR2).
    subst e2. inv E.
    destruct (beside ps tid pa fl st st1 _ st' its [] tid' _ R C A RS WR2 eq_refl) as (WT & its2 & R2 & C2 & E2).
    split; auto. exists (length (roots st1)), tid', default_flags, its2. repeat split; auto.
    rewrite E2. simpl. rewrite map_repeat_app, map_erase_snd. reflexivity.
Qed.
End MulRefine.

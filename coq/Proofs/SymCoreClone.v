(* SymCoreClone.v — facts about clone_at and build (copies and constructed literals are well-formed trees of their own). *)
From PG Require Import Common.Tactics Model.SymCoreDefs Model.SymCoreOps Model.SymCoreSpec Proofs.SymCoreBase Proofs.SymCoreWF.
From Coq Require Import NArith.
Local Open Scope Z_scope.

(* the loop over the items inside clone_at, with the recursive call as a parameter *)
Definition clone_items (rec : option N -> list key -> node -> cstate -> node * cstate)
           (k : kind) (dm : bool) (me : N) (p : list key) :=
  fix go (l : list (key * node)) (i : Z) (cs : cstate) : list (key * node) * cstate :=
    match l with
    | [] => ([], cs)
    | (kk, c) :: r =>
        if dm && (match k with KList => is_missing c | _ => false end) then go r i cs
        else
          let kk' := match k with KList => KI i | _ => kk end in
          let '(c', cs1) := rec (Some me) (p ++ [kk']) c cs in
          let '(r', cs2) := go r (i + 1) cs1 in
          ((kk', c') :: r', cs2)
    end.
Lemma clone_at_node : forall dm deep pa p j k pa0 pt fl its cs,
  clone_at dm deep pa p (Node j k pa0 pt fl its) cs =
  let me := fst cs in
  let '(its', cs') := clone_items (clone_at dm deep) k dm me p its 0 (N.succ me, snd cs) in
  (Node me k pa p fl its', cs').
Proof. reflexivity. Qed.
Global Opaque clone_at.

(* keys of the copy *)
Lemma clone_items_keys_list : forall rec dm me p l i cs,
  positions i (map fst (fst (clone_items rec KList dm me p l i cs))).
Proof.
  induction l as [|[kk c] r]; simpl; intros; auto.
  destruct (dm && is_missing c); [apply IHr|].
  destruct (rec (Some me) (p ++ [KI i]) c cs) as [c' cs1].
  specialize (IHr (i + 1) cs1). destruct (clone_items rec KList dm me p r (i + 1) cs1). simpl in *. auto.
Qed.
Lemma clone_items_keys_same : forall rec k dm me p l i cs, k <> KList ->
  map fst (fst (clone_items rec k dm me p l i cs)) = map fst l.
Proof.
  induction l as [|[kk c] r]; simpl; intros; auto.
  replace (dm && match k with KList => is_missing c | _ => false end) with false
    by (destruct k; try congruence; rewrite andb_false_r; auto).
  replace (match k with KList => KI i | _ => kk end) with kk by (destruct k; congruence).
  destruct (rec (Some me) (p ++ [kk]) c cs) as [c' cs1].
  specialize (IHr (i + 1) cs1 H). destruct (clone_items rec k dm me p r (i + 1) cs1). simpl in *. congruence.
Qed.
Lemma clone_items_wf : forall rec k dm me p l i cs,
  Forall (fun kv => forall pa q cs, wf_node pa q (fst (rec pa q (snd kv) cs))) l ->
  Forall (child_wf me p) (fst (clone_items rec k dm me p l i cs)).
Proof.
  induction l as [|[kk c] r]; simpl; intros; auto.
  inv H. destruct (dm && match k with KList => is_missing c | _ => false end); [apply IHr; auto|].
  pose proof (H2 (Some me) (p ++ [match k with KList => KI i | _ => kk end]) cs) as W.
  destruct (rec (Some me) (p ++ [match k with KList => KI i | _ => kk end]) c cs) as [c' cs1] eqn:R.
  specialize (IHr (i + 1) cs1 H3). destruct (clone_items rec k dm me p r (i + 1) cs1). simpl in *.
  constructor; auto. unfold child_wf; simpl. rewrite R in W; auto.
Qed.

Lemma clone_at_wf : forall dm deep n pa p cs ep0 epth0,
  wf_node ep0 epth0 n -> wf_node pa p (fst (clone_at dm deep pa p n cs)).
Proof.
  intros dm deep n. induction n using node_ind'; intros.
  - Transparent clone_at. simpl. destruct (clone_leaf deep l cs); simpl; auto. Opaque clone_at.
  - rewrite clone_at_node. simpl.
    apply wf_node_unfold in H0. destruct H0 as (_ & _ & K & F).
    assert (W : Forall (child_wf (fst cs) p) (fst (clone_items (clone_at dm deep) k dm (fst cs) p its 0 (N.succ (fst cs), snd cs)))).
    { apply clone_items_wf. rewrite Forall_forall in *. intros kv I pa' q cs'. eapply H; eauto. }
    assert (KK : keys_ok k (map fst (fst (clone_items (clone_at dm deep) k dm (fst cs) p its 0 (N.succ (fst cs), snd cs))))).
    { destruct k; simpl in *.
      - rewrite clone_items_keys_same; auto; congruence.
      - apply clone_items_keys_list.
      - rewrite clone_items_keys_same; auto; congruence. }
    destruct (clone_items (clone_at dm deep) k dm (fst cs) p its 0 (N.succ (fst cs), snd cs)) as [its' cs'].
    simpl in *. apply wf_node_unfold. auto.
Qed.
Lemma clone_at_is_node : forall dm deep pa p n cs, is_node (fst (clone_at dm deep pa p n cs)) = is_node n.
Proof.
  intros. destruct n.
  - Transparent clone_at. simpl. destruct (clone_leaf deep l cs); auto. Opaque clone_at.
  - rewrite clone_at_node. simpl. destruct (clone_items _ _ _ _ _ _ _ _); auto.
Qed.

(* --- constructed literals ------------------------------------------------------------------------------------------ *)
Definition build_items (rec : bool -> option N -> list key -> lit -> N -> node * N)
           (k : kind) (ctx : bool) (me : N) (p : list key) :=
  fix go (l : list (key * lit)) (i : Z) (nx : N) : list (key * node) * N :=
    match l with
    | [] => ([], nx)
    | (kk, c) :: r =>
        let kk' := match k with KList => KI i | _ => kk end in
        let '(c', n1) := rec ctx (Some me) (p ++ [kk']) c nx in
        let '(r', n2) := go r (i + 1) n1 in
        ((kk', c') :: r', n2)
    end.
Lemma build_node : forall ctx pa p k fl plain its nx,
  build ctx pa p (LitNode k fl plain its) nx =
  let fl' := if plain then mkFlags false true ctx else fl in
  let '(its', nx') := build_items build k (f_partial fl') nx p its 0 (N.succ nx) in
  (ctor_seal (Node nx k pa p fl' its'), nx').
Proof. reflexivity. Qed.
Global Opaque build.

Section LitInd.
  Variable P : lit -> Prop.
  Hypothesis Hleaf : forall l, P (LitLeaf l).
  Hypothesis Hnode : forall k fl plain its, Forall (fun kv => P (snd kv)) its -> P (LitNode k fl plain its).
  Fixpoint lit_ind' (l : lit) : P l :=
    match l with
    | LitLeaf lf => Hleaf lf
    | LitNode k fl plain its =>
        Hnode k fl plain its
          ((fix go (l : list (key * lit)) : Forall (fun kv => P (snd kv)) l :=
              match l with [] => Forall_nil _ | kv :: r => Forall_cons kv (lit_ind' (snd kv)) (go r) end) its)
    end.
End LitInd.

Lemma build_items_keys_list : forall rec ctx me p l i nx,
  positions i (map fst (fst (build_items rec KList ctx me p l i nx))).
Proof.
  induction l as [|[kk c] r]; simpl; intros; auto.
  destruct (rec ctx (Some me) (p ++ [KI i]) c nx) as [c' n1].
  specialize (IHr (i + 1) n1). destruct (build_items rec KList ctx me p r (i + 1) n1). simpl in *. auto.
Qed.
Lemma build_items_keys_same : forall rec k ctx me p l i nx, k <> KList ->
  map fst (fst (build_items rec k ctx me p l i nx)) = map fst l.
Proof.
  induction l as [|[kk c] r]; simpl; intros; auto.
  replace (match k with KList => KI i | _ => kk end) with kk by (destruct k; congruence).
  destruct (rec ctx (Some me) (p ++ [kk]) c nx) as [c' n1].
  specialize (IHr (i + 1) n1 H). destruct (build_items rec k ctx me p r (i + 1) n1). simpl in *. congruence.
Qed.
Lemma build_items_wf : forall rec k ctx me p l i nx,
  Forall (fun kv => forall c pa q nx, wf_node pa q (fst (rec c pa q (snd kv) nx))) l ->
  Forall (child_wf me p) (fst (build_items rec k ctx me p l i nx)).
Proof.
  induction l as [|[kk c] r]; simpl; intros; auto.
  inv H.
  pose proof (H2 ctx (Some me) (p ++ [match k with KList => KI i | _ => kk end]) nx) as W.
  destruct (rec ctx (Some me) (p ++ [match k with KList => KI i | _ => kk end]) c nx) as [c' n1] eqn:R.
  specialize (IHr (i + 1) n1 H3). destruct (build_items rec k ctx me p r (i + 1) n1). simpl in *.
  constructor; auto. unfold child_wf; simpl. rewrite R in W; auto.
Qed.
Lemma ctor_seal_wf : forall n pa pt, wf_node pa pt n -> wf_node pa pt (ctor_seal n).
Proof.
  destruct n; simpl; intros; auto. destruct (f_sealed fl); auto.
  change (wf_node pa pt (seal_rec true (Node id k par pth fl items))). apply seal_rec_wf; auto.
Qed.
Lemma keys_nodup_spec : forall l, keys_nodup l = true -> NoDup l.
Proof.
  induction l; simpl; intros. constructor.
  apply andb_true_iff in H. destruct H. constructor; auto.
  intro I. apply negb_true_iff in H. assert (existsb (key_eqb a) l = true).
  { apply existsb_exists. exists a; split; auto. apply key_eqb_refl. }
  congruence.
Qed.
Lemma build_wf : forall l ctx pa p nx, lit_valid l = true -> wf_node pa p (fst (build ctx pa p l nx)).
Proof.
  induction l using lit_ind'; intros.
  - Transparent build. simpl. auto. Opaque build.
  - rewrite build_node. cbv zeta.
    simpl in H0. apply andb_true_iff in H0. destruct H0 as [KV FV].
    set (fl' := if plain then mkFlags false true ctx else fl).
    assert (W : Forall (child_wf nx p) (fst (build_items build k (f_partial fl') nx p its 0 (N.succ nx)))).
    { apply build_items_wf. rewrite Forall_forall in *. intros kv I c pa' q nx'. apply H; auto.
      rewrite forallb_forall in FV. auto. }
    assert (KK : keys_ok k (map fst (fst (build_items build k (f_partial fl') nx p its 0 (N.succ nx))))).
    { destruct k; simpl in *.
      - rewrite build_items_keys_same; try congruence. apply keys_nodup_spec; auto.
      - apply build_items_keys_list.
      - rewrite build_items_keys_same; try congruence.
        apply andb_true_iff in KV. destruct KV. apply path_eqb_eq; auto. }
    destruct (build_items build k (f_partial fl') nx p its 0 (N.succ nx)) as [its' nx'].
    cbn [fst snd] in *. apply ctor_seal_wf. apply wf_node_unfold. auto.
Qed.
Lemma ctor_seal_is_node : forall n, is_node (ctor_seal n) = is_node n.
Proof. destruct n; simpl; auto. destruct (f_sealed fl); auto. Qed.
Lemma build_is_node : forall ctx pa p k fl plain its nx, is_node (fst (build ctx pa p (LitNode k fl plain its) nx)) = true.
Proof.
  intros. rewrite build_node. cbv zeta. destruct (build_items _ _ _ _ _ _ _ _). cbn [fst].
  rewrite ctor_seal_is_node. reflexivity.
Qed.

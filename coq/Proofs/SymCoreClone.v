(* SymCoreClone.v — facts about clone_at and build (copies and constructed literals are well-formed trees of their own). *)
From PG Require Import Common.Tactics Model.SymCoreDefs Model.SymCoreOps Model.SymCoreSpec Proofs.SymCoreBase Proofs.SymCoreWF.
From Coq Require Import NArith.
Local Open Scope Z_scope.

(* the loop over the items inside clone_at, with the recursive call as a parameter *)
Definition clone_items (rec : option N -> list key -> node -> cstate -> node * cstate)
           (k : kind) (dm : bool) (me : N) (p : list key) :=
  fix go (l : list (key * node)) (i : Z) (cs : cstate) : list (key * node) * cstate :=
    match l with
    | [] => ([], cs)
    | (kk, c) :: r =>
        if dm && (match k with KList => is_missing c | _ => false end) then go r i cs
        else
          let kk' := match k with KList => KI i | _ => kk end in
          let '(c', cs1) := rec (Some me) (p ++ [kk']) c cs in
          let '(r', cs2) := go r (i + 1) cs1 in
          ((kk', c') :: r', cs2)
    end.
Lemma clone_at_node : forall dm deep pa p j k pa0 pt fl its cs,
  clone_at dm deep pa p (Node j k pa0 pt fl its) cs =
  let me := fst cs in
  let '(its', cs') := clone_items (clone_at dm deep) k dm me p its 0 (N.succ me, snd cs) in
  (Node me k pa p fl its', cs').
Proof. reflexivity. Qed.
Global Opaque clone_at.

(* keys of the copy *)
Lemma clone_items_keys_list : forall rec dm me p l i cs,
  positions i (map fst (fst (clone_items rec KList dm me p l i cs))).
Proof.
  induction l as [|[kk c] r]; simpl; intros; auto.
  destruct (dm && is_missing c); [apply IHr|].
  destruct (rec (Some me) (p ++ [KI i]) c cs) as [c' cs1].
  specialize (IHr (i + 1) cs1). destruct (clone_items rec KList dm me p r (i + 1) cs1). simpl in *. auto.
Qed.
Lemma clone_items_keys_same : forall rec k dm me p l i cs, k <> KList ->
  map fst (fst (clone_items rec k dm me p l i cs)) = map fst l.
Proof.
  induction l as [|[kk c] r]; simpl; intros; auto.
  replace (dm && match k with KList => is_missing c | _ => false end) with false
    by (destruct k; try congruence; rewrite andb_false_r; auto).
  replace (match k with KList => KI i | _ => kk end) with kk by (destruct k; congruence).
  destruct (rec (Some me) (p ++ [kk]) c cs) as [c' cs1].
  specialize (IHr (i + 1) cs1 H). destruct (clone_items rec k dm me p r (i + 1) cs1). simpl in *. congruence.
Qed.
Lemma clone_items_wf : forall rec k dm me p l i cs,
  Forall (fun kv => forall pa q cs, wf_node pa q (fst (rec pa q (snd kv) cs))) l ->
  Forall (child_wf me p) (fst (clone_items rec k dm me p l i cs)).
Proof.
  induction l as [|[kk c] r]; simpl; intros; auto.
  inv H. destruct (dm && match k with KList => is_missing c | _ => false end); [apply IHr; auto|].
  pose proof (H2 (Some me) (p ++ [match k with KList => KI i | _ => kk end]) cs) as W.
  destruct (rec (Some me) (p ++ [match k with KList => KI i | _ => kk end]) c cs) as [c' cs1] eqn:R.
  specialize (IHr (i + 1) cs1 H3). destruct (clone_items rec k dm me p r (i + 1) cs1). simpl in *.
  constructor; auto. unfold child_wf; simpl. rewrite R in W; auto.
Qed.

Lemma clone_at_wf : forall dm deep n pa p cs ep0 epth0,
  wf_node ep0 epth0 n -> wf_node pa p (fst (clone_at dm deep pa p n cs)).
Proof.
  intros dm deep n. induction n using node_ind'; intros.
  - Transparent clone_at. simpl. destruct (clone_leaf deep l cs); simpl; auto. Opaque clone_at.
  - rewrite clone_at_node. simpl.
    apply wf_node_unfold in H0. destruct H0 as (_ & _ & K & F).
    assert (W : Forall (child_wf (fst cs) p) (fst (clone_items (clone_at dm deep) k dm (fst cs) p its 0 (N.succ (fst cs), snd cs)))).
    { apply clone_items_wf. rewrite Forall_forall in *. intros kv I pa' q cs'. eapply H; eauto. }
    assert (KK : keys_ok k (map fst (fst (clone_items (clone_at dm deep) k dm (fst cs) p its 0 (N.succ (fst cs), snd cs))))).
    { destruct k; simpl in *.
      - rewrite clone_items_keys_same; auto; congruence.
      - apply clone_items_keys_list.
      - rewrite clone_items_keys_same; auto; congruence. }
    destruct (clone_items (clone_at dm deep) k dm (fst cs) p its 0 (N.succ (fst cs), snd cs)) as [its' cs'].
    simpl in *. apply wf_node_unfold. auto.
Qed.
Lemma clone_at_is_node : forall dm deep pa p n cs, is_node (fst (clone_at dm deep pa p n cs)) = is_node n.
Proof.
  intros. destruct n.
  - Transparent clone_at. simpl. destruct (clone_leaf deep l cs); auto. Opaque clone_at.
  - rewrite clone_at_node. simpl. destruct (clone_items _ _ _ _ _ _ _ _); auto.
Qed.

(* --- constructed literals ------------------------------------------------------------------------------------------ *)
Definition build_items (rec : bool -> option N -> list key -> lit -> N -> node * N)
           (k : kind) (ctx : bool) (me : N) (p : list key) :=
  fix go (l : list (key * lit)) (i : Z) (nx : N) : list (key * node) * N :=
    match l with
    | [] => ([], nx)
    | (kk, c) :: r =>
        let kk' := match k with KList => KI i | _ => kk end in
        let '(c', n1) := rec ctx (Some me) (p ++ [kk']) c nx in
        let '(r', n2) := go r (i + 1) n1 in
        ((kk', c') :: r', n2)
    end.
Lemma build_node : forall ctx pa p k fl plain its nx,
  build ctx pa p (LitNode k fl plain its) nx =
  let fl' := if plain then mkFlags false true ctx 0 else fl in
  let '(its', nx') := build_items build k (f_partial fl') nx p its 0 (N.succ nx) in
  (ctor_seal (Node nx k pa p fl' its'), nx').
Proof. reflexivity. Qed.
Global Opaque build.

Section LitInd.
  Variable P : lit -> Prop.
  Hypothesis Hleaf : forall l, P (LitLeaf l).
  Hypothesis Hnode : forall k fl plain its, Forall (fun kv => P (snd kv)) its -> P (LitNode k fl plain its).
  Fixpoint lit_ind' (l : lit) : P l :=
    match l with
    | LitLeaf lf => Hleaf lf
    | LitNode k fl plain its =>
        Hnode k fl plain its
          ((fix go (l : list (key * lit)) : Forall (fun kv => P (snd kv)) l :=
              match l with [] => Forall_nil _ | kv :: r => Forall_cons kv (lit_ind' (snd kv)) (go r) end) its)
    end.
End LitInd.

Lemma build_items_keys_list : forall rec ctx me p l i nx,
  positions i (map fst (fst (build_items rec KList ctx me p l i nx))).
Proof.
  induction l as [|[kk c] r]; simpl; intros; auto.
  destruct (rec ctx (Some me) (p ++ [KI i]) c nx) as [c' n1].
  specialize (IHr (i + 1) n1). destruct (build_items rec KList ctx me p r (i + 1) n1). simpl in *. auto.
Qed.
Lemma build_items_keys_same : forall rec k ctx me p l i nx, k <> KList ->
  map fst (fst (build_items rec k ctx me p l i nx)) = map fst l.
Proof.
  induction l as [|[kk c] r]; simpl; intros; auto.
  replace (match k with KList => KI i | _ => kk end) with kk by (destruct k; congruence).
  destruct (rec ctx (Some me) (p ++ [kk]) c nx) as [c' n1].
  specialize (IHr (i + 1) n1 H). destruct (build_items rec k ctx me p r (i + 1) n1). simpl in *. congruence.
Qed.
Lemma build_items_wf : forall rec k ctx me p l i nx,
  Forall (fun kv => forall c pa q nx, wf_node pa q (fst (rec c pa q (snd kv) nx))) l ->
  Forall (child_wf me p) (fst (build_items rec k ctx me p l i nx)).
Proof.
  induction l as [|[kk c] r]; simpl; intros; auto.
  inv H.
  pose proof (H2 ctx (Some me) (p ++ [match k with KList => KI i | _ => kk end]) nx) as W.
  destruct (rec ctx (Some me) (p ++ [match k with KList => KI i | _ => kk end]) c nx) as [c' n1] eqn:R.
  specialize (IHr (i + 1) n1 H3). destruct (build_items rec k ctx me p r (i + 1) n1). simpl in *.
  constructor; auto. unfold child_wf; simpl. rewrite R in W; auto.
Qed.
Lemma ctor_seal_wf : forall n pa pt, wf_node pa pt n -> wf_node pa pt (ctor_seal n).
Proof.
  destruct n; simpl; intros; auto. destruct (f_sealed fl); auto.
  change (wf_node pa pt (seal_rec true (Node id k par pth fl items))). apply seal_rec_wf; auto.
Qed.
Lemma keys_nodup_spec : forall l, keys_nodup l = true -> NoDup l.
Proof.
  induction l; simpl; intros. constructor.
  apply andb_true_iff in H. destruct H. constructor; auto.
  intro I. apply negb_true_iff in H. assert (existsb (key_eqb a) l = true).
  { apply existsb_exists. exists a; split; auto. apply key_eqb_refl. }
  congruence.
Qed.
Lemma build_wf : forall l ctx pa p nx, lit_valid l = true -> wf_node pa p (fst (build ctx pa p l nx)).
Proof.
  induction l using lit_ind'; intros.
  - Transparent build. simpl. auto. Opaque build.
  - rewrite build_node. cbv zeta.
    simpl in H0. apply andb_true_iff in H0. destruct H0 as [KV FV].
    set (fl' := if plain then mkFlags false true ctx 0 else fl).
    assert (W : Forall (child_wf nx p) (fst (build_items build k (f_partial fl') nx p its 0 (N.succ nx)))).
    { apply build_items_wf. rewrite Forall_forall in *. intros kv I c pa' q nx'. apply H; auto.
      rewrite forallb_forall in FV. auto. }
    assert (KK : keys_ok k (map fst (fst (build_items build k (f_partial fl') nx p its 0 (N.succ nx))))).
    { destruct k; simpl in *.
      - rewrite build_items_keys_same; try congruence. apply keys_nodup_spec; auto.
      - apply build_items_keys_list.
      - rewrite build_items_keys_same; try congruence.
        apply andb_true_iff in KV. destruct KV. apply path_eqb_eq; auto. }
    destruct (build_items build k (f_partial fl') nx p its 0 (N.succ nx)) as [its' nx'].
    cbn [fst snd] in *. apply ctor_seal_wf. apply wf_node_unfold. auto.
Qed.
Lemma ctor_seal_is_node : forall n, is_node (ctor_seal n) = is_node n.
Proof. destruct n; simpl; auto. destruct (f_sealed fl); auto. Qed.
Lemma build_is_node : forall ctx pa p k fl plain its nx, is_node (fst (build ctx pa p (LitNode k fl plain its) nx)) = true.
Proof.
  intros. rewrite build_node. cbv zeta. destruct (build_items _ _ _ _ _ _ _ _). cbn [fst].
  rewrite ctor_seal_is_node. reflexivity.
Qed.

(* --- the copy is the same value: same keys, same leaves (identities aside), same classes, same flags ---------------- *)
Definition holds_no_missing (n : node) : Prop :=
  match n with
  | Node _ KList _ _ _ its => Forall (fun kv => is_missing (snd kv) = false) its
  | _ => True
  end.
(* either the implementation does not drop MISSING_VALUE when it copies a list (quirk flag off), or no list below holds one *)
Definition copy_exact (dm : bool) (n : node) : Prop := dm = false \/ every holds_no_missing n.

Section CloneItems.
  Variables (rec : option N -> list key -> node -> cstate -> node * cstate) (k : kind) (dm : bool) (me : N) (p : list key).
  (* a generic "the copy looks the same" lemma over any projection of the items that the recursive call preserves *)
  Lemma clone_items_same : forall (B : Type) (proj : node -> B) (its : list (key * node)) i cs,
    (k = KList -> positions i (map fst its)) ->
    (dm = false \/ k <> KList \/ Forall (fun kv => is_missing (snd kv) = false) its) ->
    Forall (fun kv => forall pa q cs, proj (fst (rec pa q (snd kv) cs)) = proj (snd kv)) its ->
    map (fun kv => (fst kv, proj (snd kv))) (fst (clone_items rec k dm me p its i cs)) =
    map (fun kv => (fst kv, proj (snd kv))) its.
  Proof.
    induction its as [|[kk c] r IH]; simpl; intros; auto.
    inversion H1 as [|? ? Hh Ht]; subst; clear H1. simpl in Hh.
    assert (D : dm && (match k with KList => is_missing c | _ => false end) = false).
    { destruct H0 as [E|[E|E]]; [subst; auto| |].
      - destruct k; try congruence; apply andb_false_r.
      - inversion E as [|? ? Hm Hr]; subst. simpl in Hm. destruct k; try apply andb_false_r. rewrite Hm; apply andb_false_r. }
    rewrite D.
    assert (KK : match k with KList => KI i | _ => kk end = kk).
    { destruct k; auto. destruct (H eq_refl); auto. }
    rewrite KK.
    destruct (rec (Some me) (p ++ [kk]) c cs) as [c' cs1] eqn:R.
    assert (E1 : proj c' = proj c).
    { specialize (Hh (Some me) (p ++ [kk]) cs). rewrite R in Hh. exact Hh. }
    assert (IH' := IH (i + 1) cs1).
    destruct (clone_items rec k dm me p r (i + 1) cs1) as [r' cs2]. simpl in *.
    f_equal; [congruence|]. apply IH'; auto.
    - intros E; destruct (H E); auto.
    - destruct H0 as [E|[E|E]]; auto. inv E; auto.
  Qed.
End CloneItems.

Lemma every_child : forall P i k pa pt fl its kv, every P (Node i k pa pt fl its) -> In kv its -> every P (snd kv).
Proof. intros. apply every_node in H. destruct H as [_ F]. rewrite Forall_forall in F. auto. Qed.

Lemma clone_at_same : forall (B : Type) (projl : leaf -> B) (mk : kind -> flags -> list (key * B) -> B) dm deep
    (proj : node -> B),
  (forall l, proj (Leaf l) = projl l) ->
  (forall i k pa pt fl its, proj (Node i k pa pt fl its) = mk k fl (map (fun kv => (fst kv, proj (snd kv))) its)) ->
  (forall l cs, projl (fst (clone_leaf deep l cs)) = projl l) ->
  forall n pa p cs ep0 epth0, wf_node ep0 epth0 n -> copy_exact dm n ->
  proj (fst (clone_at dm deep pa p n cs)) = proj n.
Proof.
  intros B projl mk dm deep proj PL PN CL n. induction n using node_ind'; intros.
  - Transparent clone_at. simpl. Opaque clone_at.
    pose proof (CL l cs). destruct (clone_leaf deep l cs). simpl in *. rewrite !PL. auto.
  - rewrite clone_at_node. cbv zeta.
    apply wf_node_unfold in H0. destruct H0 as (_ & _ & K & F).
    assert (S : map (fun kv => (fst kv, proj (snd kv))) (fst (clone_items (clone_at dm deep) k dm (fst cs) p its 0 (N.succ (fst cs), snd cs)))
                = map (fun kv => (fst kv, proj (snd kv))) its).
    { apply clone_items_same.
      - intros; subst; auto.
      - destruct H1 as [E|E]; auto. right. destruct k; try (left; congruence). right.
        apply every_node in E. destruct E as [E _]. exact E.
      - rewrite Forall_forall in *. intros kv I pa' q cs'. eapply H; eauto.
        destruct H1 as [E|E]; [left; auto|right]. eapply every_child; eauto. }
    destruct (clone_items (clone_at dm deep) k dm (fst cs) p its 0 (N.succ (fst cs), snd cs)) as [its' cs'].
    simpl in *. rewrite !PN. rewrite S. auto.
Qed.

Lemma clone_leaf_erase : forall deep l cs, erase_leaf (fst (clone_leaf deep l cs)) = erase_leaf l.
Proof.
  intros. destruct l; simpl; auto. destruct deep; simpl; auto. destruct (memo_get (snd cs) oid); simpl; auto.
Qed.
Theorem clone_erase : forall dm deep n pa p cs ep0 epth0,
  wf_node ep0 epth0 n -> copy_exact dm n -> erase (fst (clone_at dm deep pa p n cs)) = erase n.
Proof.
  intros. eapply (clone_at_same pv (fun l => PLeaf (erase_leaf l)) (fun k _ its => PNode k its)); eauto.
  intros. f_equal. apply clone_leaf_erase.
Qed.
(* the flags of every node, keyed like the tree *)
Inductive ktree : Type := KLeaf | KNode (fl : flags) (items : list (key * ktree)).
Fixpoint kflags (n : node) : ktree :=
  match n with Leaf _ => KLeaf | Node _ _ _ _ fl its => KNode fl (map (fun kv => (fst kv, kflags (snd kv))) its) end.
Theorem clone_flags : forall dm deep n pa p cs ep0 epth0,
  wf_node ep0 epth0 n -> copy_exact dm n -> kflags (fst (clone_at dm deep pa p n cs)) = kflags n.
Proof.
  intros. eapply (clone_at_same ktree (fun _ => KLeaf) (fun _ fl its => KNode fl its)); eauto.
Qed.
(* a shallow copy shares every non-symbolic leaf object with the original: same identities at the same places *)
Inductive otree : Type := OLeaf (l : leaf) | ONode (items : list (key * otree)).
Fixpoint oview (n : node) : otree :=
  match n with Leaf l => OLeaf l | Node _ _ _ _ _ its => ONode (map (fun kv => (fst kv, oview (snd kv))) its) end.
Theorem shallow_shares_leaves : forall dm n pa p cs ep0 epth0,
  wf_node ep0 epth0 n -> copy_exact dm n -> oview (fst (clone_at dm false pa p n cs)) = oview n.
Proof.
  intros. eapply (clone_at_same otree OLeaf (fun _ _ its => ONode its)); eauto.
  intros l cs'. destruct l; reflexivity.
Qed.

(* --- the ids of a copy / of a constructed literal are fresh and distinct ------------------------------------------------ *)
Definition ids_items (its : list (key * node)) : list N := flat_map (fun kv => ids (snd kv)) its.
Definition in_range (lo hi : N) (l : list N) : Prop := Forall (fun i => (lo <= i < hi)%N) l.
Lemma in_range_weaken : forall lo hi lo' hi' l, in_range lo hi l -> (lo' <= lo)%N -> (hi <= hi')%N -> in_range lo' hi' l.
Proof. unfold in_range; intros. eapply Forall_impl; [|exact H]. simpl; intros; lia. Qed.
Lemma in_range_app : forall lo hi a b, in_range lo hi a -> in_range lo hi b -> in_range lo hi (a ++ b).
Proof. unfold in_range; intros; apply Forall_app; auto. Qed.
Lemma ranges_disjoint : forall a b c l1 l2 x, in_range a b l1 -> in_range b c l2 -> In x l1 -> In x l2 -> False.
Proof.
  unfold in_range; intros. rewrite Forall_forall in *. specialize (H _ H1). specialize (H0 _ H2). simpl in *. lia.
Qed.

Definition fresh_spec (lo : N) (r : node * cstate) : Prop :=
  (lo <= fst (snd r))%N /\ in_range lo (fst (snd r)) (ids (fst r)) /\ NoDup (ids (fst r)).
Lemma clone_items_ids : forall rec k dm me p l i cs,
  Forall (fun kv => forall pa q cs, fresh_spec (fst cs) (rec pa q (snd kv) cs)) l ->
  (fst cs <= fst (snd (clone_items rec k dm me p l i cs)))%N /\
  in_range (fst cs) (fst (snd (clone_items rec k dm me p l i cs))) (ids_items (fst (clone_items rec k dm me p l i cs))) /\
  NoDup (ids_items (fst (clone_items rec k dm me p l i cs))).
Proof.
  induction l as [|[kk c] r IH]; simpl; intros.
  - repeat split. lia. constructor. constructor.
  - inversion H as [|? ? Hh Ht]; subst; clear H. simpl in Hh.
    destruct (dm && match k with KList => is_missing c | _ => false end); [apply IH; auto|].
    specialize (Hh (Some me) (p ++ [match k with KList => KI i | _ => kk end]) cs).
    destruct (rec (Some me) (p ++ [match k with KList => KI i | _ => kk end]) c cs) as [c' cs1] eqn:R.
    destruct Hh as (L1 & R1 & N1). simpl in *.
    specialize (IH (i + 1) cs1 Ht).
    destruct (clone_items rec k dm me p r (i + 1) cs1) as [r' cs2]. simpl in *.
    destruct IH as (L2 & R2 & N2).
    split; [lia|]. split.
    + apply in_range_app; eapply in_range_weaken; eauto; lia.
    + apply nodup_app; auto. intros x I J. eapply ranges_disjoint; eauto.
Qed.
Lemma clone_leaf_mono : forall deep l cs, (fst cs <= fst (snd (clone_leaf deep l cs)))%N.
Proof.
  intros. destruct l; simpl; try lia. destruct deep; simpl; try lia. destruct (memo_get (snd cs) oid); simpl; lia.
Qed.
Lemma clone_at_ids : forall dm deep n pa p cs, fresh_spec (fst cs) (clone_at dm deep pa p n cs).
Proof.
  intros dm deep n. induction n using node_ind'; intros.
  - Transparent clone_at. simpl. Opaque clone_at. pose proof (clone_leaf_mono deep l cs).
    destruct (clone_leaf deep l cs). unfold fresh_spec; simpl in *. repeat split; auto; constructor.
  - rewrite clone_at_node. cbv zeta.
    pose proof (clone_items_ids (clone_at dm deep) k dm (fst cs) p its 0 (N.succ (fst cs), snd cs)) as X.
    assert (F : Forall (fun kv => forall pa q cs, fresh_spec (fst cs) (clone_at dm deep pa q (snd kv) cs)) its).
    { rewrite Forall_forall in *. intros; apply H; auto. }
    specialize (X F). clear F.
    destruct (clone_items (clone_at dm deep) k dm (fst cs) p its 0 (N.succ (fst cs), snd cs)) as [its' cs'].
    unfold fresh_spec. simpl in *. destruct X as (L & R & ND). fold (ids_items its').
    split; [lia|]. split.
    + constructor. lia. eapply in_range_weaken; eauto; lia.
    + constructor; auto. intro I. unfold in_range in R. rewrite Forall_forall in R. specialize (R _ I). simpl in R. lia.
Qed.

Lemma ids_seal_rec : forall b n, ids (seal_rec b n) = ids n.
Proof.
  intros b n; induction n using node_ind'; simpl; auto. f_equal.
  rewrite flat_map_concat_map, map_map, <- flat_map_concat_map. simpl.
  induction its; simpl; auto. inv H. f_equal; auto.
Qed.
Lemma ids_ctor_seal : forall n, ids (ctor_seal n) = ids n.
Proof.
  destruct n; simpl; auto. destruct (f_sealed fl); auto.
  change (ids (seal_rec true (Node id k par pth fl items)) = ids (Node id k par pth fl items)). apply ids_seal_rec.
Qed.
Definition fresh_spec_b (lo : N) (r : node * N) : Prop :=
  (lo <= snd r)%N /\ in_range lo (snd r) (ids (fst r)) /\ NoDup (ids (fst r)).
Lemma build_items_ids : forall rec k ctx me p l i nx,
  Forall (fun kv => forall c pa q nx, fresh_spec_b nx (rec c pa q (snd kv) nx)) l ->
  (nx <= snd (build_items rec k ctx me p l i nx))%N /\
  in_range nx (snd (build_items rec k ctx me p l i nx)) (ids_items (fst (build_items rec k ctx me p l i nx))) /\
  NoDup (ids_items (fst (build_items rec k ctx me p l i nx))).
Proof.
  induction l as [|[kk c] r IH]; simpl; intros.
  - repeat split. lia. constructor. constructor.
  - inversion H as [|? ? Hh Ht]; subst; clear H. simpl in Hh.
    specialize (Hh ctx (Some me) (p ++ [match k with KList => KI i | _ => kk end]) nx).
    destruct (rec ctx (Some me) (p ++ [match k with KList => KI i | _ => kk end]) c nx) as [c' n1] eqn:R.
    destruct Hh as (L1 & R1 & N1). simpl in *.
    specialize (IH (i + 1) n1 Ht).
    destruct (build_items rec k ctx me p r (i + 1) n1) as [r' n2]. simpl in *.
    destruct IH as (L2 & R2 & N2).
    split; [lia|]. split.
    + apply in_range_app; eapply in_range_weaken; eauto; lia.
    + apply nodup_app; auto. intros x I J. eapply ranges_disjoint; eauto.
Qed.
Lemma build_ids : forall l ctx pa p nx, fresh_spec_b nx (build ctx pa p l nx).
Proof.
  induction l using lit_ind'; intros.
  - Transparent build. simpl. Opaque build. unfold fresh_spec_b; simpl. repeat split; try lia; constructor.
  - rewrite build_node. cbv zeta.
    set (fl' := if plain then mkFlags false true ctx 0 else fl).
    pose proof (build_items_ids build k (f_partial fl') nx p its 0 (N.succ nx)) as X.
    assert (F : Forall (fun kv => forall c pa q nx, fresh_spec_b nx (build c pa q (snd kv) nx)) its).
    { rewrite Forall_forall in *. intros; apply H; auto. }
    specialize (X F). clear F.
    destruct (build_items build k (f_partial fl') nx p its 0 (N.succ nx)) as [its' nx'].
    unfold fresh_spec_b. cbn [fst snd] in *. rewrite ids_ctor_seal. simpl. destruct X as (L & R & ND). fold (ids_items its').
    split; [lia|]. split.
    + constructor. lia. eapply in_range_weaken; eauto; lia.
    + constructor; auto. intro I. unfold in_range in R. rewrite Forall_forall in R. specialize (R _ I). simpl in R. lia.
Qed.

(* HyperDecode.v — decoding a DNA that is valid for the template's specification: it succeeds (unless user code of a
   custom hyper fails), consumes exactly the decisions of the template, gives a value of the template's shape and
   leaves no accepted placeholder. *)
From PG Require Import Common.Tactics Model.Geno Proofs.GenoBasics Model.Hyper Model.HyperSpec Proofs.HyperBasics.

(* ---- unfolding equations (by computation) ------------------------------------------------------------ *)
Lemma trav_list_cons : forall X S (f : X -> S -> result (X * S)) x r s,
  trav_list f (x :: r) s =
  match f x s with
  | Ok (v, s1) => match trav_list f r s1 with Ok (vs, s2) => Ok (v :: vs, s2) | Err e => Err e end
  | Err e => Err e end.
Proof. reflexivity. Qed.
Lemma trav_kvs_cons : forall K X S (f : X -> S -> result (X * S)) k x r s,
  trav_kvs f ((k, x) :: r) s =
  match f x s with
  | Ok (v, s1) => match trav_kvs (K:=K) f r s1 with Ok (vs, s2) => Ok ((k, v) :: vs, s2) | Err e => Err e end
  | Err e => Err e end.
Proof. reflexivity. Qed.
Lemma map_res_cons : forall A B (f : A -> result B) x r,
  map_res f (x :: r) = match f x with
                       | Ok y => match map_res f r with Ok ys => Ok (y :: ys) | Err e => Err e end
                       | Err e => Err e end.
Proof. reflexivity. Qed.
Lemma flat_mapi_cons : forall A B (f : nat -> A -> list B) i x r, flat_mapi f i (x :: r) = f i x ++ flat_mapi f (S i) r.
Proof. reflexivity. Qed.

Section Dec.
  Variable cdec : nat -> str -> result tmpl.
  Variable w : tmpl -> bool.

  Definition choice_of (cands : list tmpl) (cs : nat * sdna) : result tmpl :=
    match snd cs with SSpace sub =>
      with_nth (fun cand => finish (sdec cdec w cand sub)) (Err E_VALUE) cands (fst cs) end.

  Lemma sdec_dict : forall kvs ds, sdec cdec w (TDict kvs) ds =
    match trav_kvs (sdec cdec w) kvs ds with Ok (kvs', r) => Ok (TDict kvs', r) | Err e => Err e end.
  Proof. reflexivity. Qed.
  Lemma sdec_obj : forall c kvs ds, sdec cdec w (TObj c kvs) ds =
    match trav_kvs (sdec cdec w) kvs ds with Ok (kvs', r) => Ok (TObj c kvs', r) | Err e => Err e end.
  Proof. reflexivity. Qed.
  Lemma sdec_list : forall ts ds, sdec cdec w (TList ts) ds =
    match trav_list (sdec cdec w) ts ds with Ok (ts', r) => Ok (TList ts', r) | Err e => Err e end.
  Proof. reflexivity. Qed.
  Lemma sdec_oneof : forall cands a ds, sdec cdec w (TOneOf cands a) ds =
    if w (TOneOf cands a) then
      match ds with
      | PChoices [cs] :: r => match choice_of cands cs with Ok v => Ok (v, r) | Err e => Err e end
      | _ => Err E_VALUE end
    else match trav_list (sdec cdec w) cands ds with Ok (cands', r) => Ok (TOneOf cands' a, r) | Err e => Err e end.
  Proof. reflexivity. Qed.
  Lemma sdec_manyof : forall k cands dist srt a ds, sdec cdec w (TManyOf k cands dist srt a) ds =
    if w (TManyOf k cands dist srt a) then
      match ds with
      | PChoices cs :: r =>
          if (length cs =? k) && constraint_ok dist srt (map fst cs)
          then match map_res (choice_of cands) cs with Ok vs => Ok (TList vs, r) | Err e => Err e end
          else Err E_VALUE
      | _ => Err E_VALUE end
    else match trav_list (sdec cdec w) cands ds with Ok (cands', r) => Ok (TManyOf k cands' dist srt a, r) | Err e => Err e end.
  Proof. reflexivity. Qed.


  Definition cdec_fails (e : nat) : Prop := exists ck s, cdec ck s = Err e.
  (* what is left is rejected by the filter — this conjunct alone needs the filter to be shallow and custom decoders
     to return concrete values, so it carries the two premises itself *)
  Definition rejected (v : tmpl) : Prop :=
    shallow w -> (forall ck s v', cdec ck s = Ok v' -> hypers_of v' = []) -> Forall (fun h => w h = false) (hypers_of v).
  Ltac rej_kids Hr A B := apply Forall_flat_map; eapply Forall_impl; [|exact Hr]; let Ha := fresh in intros ? Ha; exact (Ha A B).

  Definition good (t : tmpl) : Prop := forall p ds1 rest,
    forallb2 valid_p (pts w p t) ds1 = true ->
    match sdec cdec w t (ds1 ++ rest) with
    | Ok (v, r) => r = rest /\ shape cdec w t v /\ rejected v
    | Err e => cdec_fails e /\ forallb finite_p (pts w p t) = false
    end.

  Lemma forallb_false_in : forall A (f : A -> bool) l x, In x l -> f x = false -> forallb f l = false.
  Proof. induction l; simpl; intros x Hin Hf; [contradiction|]. destruct Hin as [->|Hin]; [rewrite Hf; auto | rewrite (IHl _ Hin Hf); apply andb_false_r]. Qed.

  Lemma Forall_flat_map : forall A B (P : B -> Prop) (f : A -> list B) l,
    Forall (fun x => Forall P (f x)) l -> Forall P (flat_map f l).
  Proof. induction 1; simpl; auto. apply Forall_app; auto. Qed.

  Lemma good_list : forall ts, Forall good ts -> forall (pf : nat -> list ikey) n ds1 rest,
    forallb2 valid_p (flat_mapi (fun i x => pts w (pf i) x) n ts) ds1 = true ->
    match trav_list (sdec cdec w) ts (ds1 ++ rest) with
    | Ok (vs, r) => r = rest /\ Forall2 (shape cdec w) ts vs /\ Forall rejected vs
    | Err e => cdec_fails e /\ forallb finite_p (flat_mapi (fun i x => pts w (pf i) x) n ts) = false end.
  Proof.
    induction 1 as [|x ts Hx _ IH]; intros pf n ds1 rest Hv.
    - apply forallb2_nil_l in Hv; subst; simpl; auto.
    - rewrite flat_mapi_cons in Hv. apply forallb2_app_l in Hv as (d1 & d2 & -> & H1 & H2).
      rewrite <- app_assoc, trav_list_cons, flat_mapi_cons, forallb_app.
      specialize (Hx (pf n) d1 (d2 ++ rest) H1).
      destruct (sdec cdec w x (d1 ++ d2 ++ rest)) as [[v r]|e]; [|destruct Hx as [Hx1 Hx2]; rewrite Hx2; auto].
      destruct Hx as (-> & Hs & Hr).
      specialize (IH pf (S n) d2 rest H2).
      destruct (trav_list (sdec cdec w) ts (d2 ++ rest)) as [[vs r]|e]; [|destruct IH as [I1 I2]; rewrite I2, andb_false_r; auto].
      destruct IH as (-> & Hss & Hrs). auto.
  Qed.

  Lemma good_kvs : forall kvs, Forall (fun kv => good (snd kv)) kvs -> forall (pf : str -> list ikey) ds1 rest,
    forallb2 valid_p (flat_map (fun kv => pts w (pf (fst kv)) (snd kv)) kvs) ds1 = true ->
    match trav_kvs (sdec cdec w) kvs (ds1 ++ rest) with
    | Ok (kvs', r) => r = rest /\ Forall2 (fun a b => fst a = fst b /\ shape cdec w (snd a) (snd b)) kvs kvs' /\
                      Forall (fun kv => rejected (snd kv)) kvs'
    | Err e => cdec_fails e /\ forallb finite_p (flat_map (fun kv => pts w (pf (fst kv)) (snd kv)) kvs) = false end.
  Proof.
    induction 1 as [|[k x] kvs Hx _ IH]; intros pf ds1 rest Hv.
    - apply forallb2_nil_l in Hv; subst; simpl; auto.
    - simpl in Hv. apply forallb2_app_l in Hv as (d1 & d2 & -> & H1 & H2).
      rewrite <- app_assoc, trav_kvs_cons. simpl flat_map. rewrite forallb_app. simpl in Hx.
      specialize (Hx (pf k) d1 (d2 ++ rest) H1).
      destruct (sdec cdec w x (d1 ++ d2 ++ rest)) as [[v r]|e]; [|destruct Hx as [Hx1 Hx2]; simpl; rewrite Hx2; auto].
      destruct Hx as (-> & Hs & Hr).
      specialize (IH pf d2 rest H2).
      destruct (trav_kvs (sdec cdec w) kvs (d2 ++ rest)) as [[vs r]|e]; [|destruct IH as [I1 I2]; rewrite I2, andb_false_r; auto].
      destruct IH as (-> & Hss & Hrs). repeat split; auto.
  Qed.

  Lemma good_choice : forall cands, Forall good cands -> forall cs,
    with_nth (fun s => valid s (snd cs)) false (map (fun c => Space (pts w [] c)) cands) (fst cs) = true ->
    match choice_of cands cs with
    | Ok v => (exists cand, In cand cands /\ shape cdec w cand v) /\ rejected v
    | Err e => cdec_fails e /\ forallb finite (map (fun c => Space (pts w [] c)) cands) = false end.
  Proof.
    intros cands HF [c sub] Hv; simpl in Hv. unfold choice_of; simpl.
    destruct sub as [sds].
    rewrite with_nth_map, with_nth_nth_error in Hv. rewrite with_nth_nth_error.
    destruct (nth_error cands c) as [cand|] eqn:E; try discriminate.
    simpl in Hv.
    pose proof (nth_error_Forall _ _ _ _ _ HF E) as G.
    specialize (G [] sds [] Hv). rewrite app_nil_r in G.
    destruct (sdec cdec w cand sds) as [[v r]|e]; simpl.
    - destruct G as (-> & Hs & Hr). simpl. split; auto. exists cand; split; auto. eapply nth_error_In; eauto.
    - destruct G as [G1 G2]. split; auto.
      apply (forallb_false_in _ _ _ (Space (pts w [] cand))); [apply (in_map (fun c0 => Space (pts w [] c0))); eapply nth_error_In; eauto | exact G2].
  Qed.

  Lemma good_choices : forall cands, Forall good cands -> forall cs,
    forallb (fun cs0 => with_nth (fun s => valid s (snd cs0)) false (map (fun c => Space (pts w [] c)) cands) (fst cs0)) cs = true ->
    match map_res (choice_of cands) cs with
    | Ok vs => length vs = length cs /\ Forall (fun v => exists cand, In cand cands /\ shape cdec w cand v) vs /\ Forall rejected vs
    | Err e => cdec_fails e /\ forallb finite (map (fun c => Space (pts w [] c)) cands) = false end.
  Proof.
    intros cands HF. induction cs as [|c cs IH]; intros Hv; simpl in Hv.
    - simpl; auto.
    - apply andb_true_iff in Hv as [H1 H2]. rewrite map_res_cons.
      pose proof (good_choice cands HF c H1) as G.
      destruct (choice_of cands c) as [v|e]; auto. destruct G as [Gs Gr].
      specialize (IH H2). destruct (map_res (choice_of cands) cs) as [vs|e]; auto.
      destruct IH as (Hl & Hs & Hr). simpl; auto.
  Qed.

  Lemma sh_oneof_len : forall c1 c2 a, length c1 = length c2 -> sh (TOneOf c1 a) = sh (TOneOf c2 a).
  Proof.
    intros; simpl; f_equal. revert c2 H; induction c1; destruct c2; simpl; intros; try discriminate; auto.
    f_equal; auto.
  Qed.
  Lemma sh_manyof_len : forall k c1 c2 d s a, length c1 = length c2 -> sh (TManyOf k c1 d s a) = sh (TManyOf k c2 d s a).
  Proof.
    intros; simpl; f_equal. revert c2 H; induction c1; destruct c2; simpl; intros; try discriminate; auto.
    f_equal; auto.
  Qed.

  Lemma dec_good : forall t, good t.
  Proof.
    induction t using tmpl_ind'; intros p ds1 rest Hv.
    - (* leaf *) destruct ds1; [|discriminate Hv]. simpl. repeat split; [constructor | unfold rejected; intros _ _; simpl; constructor].
    - (* dict *) simpl in Hv. rewrite sdec_dict.
      pose proof (good_kvs kvs H (fun k => p ++ [KName k]) ds1 rest Hv) as G.
      destruct (trav_kvs (sdec cdec w) kvs (ds1 ++ rest)) as [[kvs' r]|e]; [|exact G].
      destruct G as (-> & Hs & Hr). repeat split; [constructor; auto|].
      unfold rejected; intros Hsh Hconc; simpl. rej_kids Hr Hsh Hconc.
    - (* object *) simpl in Hv. rewrite sdec_obj.
      pose proof (good_kvs kvs H (fun k => p ++ [KName k]) ds1 rest Hv) as G.
      destruct (trav_kvs (sdec cdec w) kvs (ds1 ++ rest)) as [[kvs' r]|e]; [|exact G].
      destruct G as (-> & Hs & Hr). repeat split; [constructor; auto|].
      unfold rejected; intros Hsh Hconc; simpl. rej_kids Hr Hsh Hconc.
    - (* list *) simpl in Hv. rewrite sdec_list.
      pose proof (good_list ts H (fun i => p ++ [KIdx i]) 0 ds1 rest Hv) as G.
      destruct (trav_list (sdec cdec w) ts (ds1 ++ rest)) as [[ts' r]|e]; [|exact G].
      destruct G as (-> & Hs & Hr). repeat split; [constructor; auto|].
      unfold rejected; intros Hsh Hconc; simpl. rej_kids Hr Hsh Hconc.
    - (* oneof *) rewrite sdec_oneof. simpl in Hv. destruct (w (TOneOf cands a)) eqn:W.
      + destruct ds1 as [|x ds1]; simpl in Hv; try discriminate.
        apply andb_true_iff in Hv as [Hx Hn]. destruct ds1; [|discriminate Hn].
        destruct x as [cs| |]; simpl in Hx; try discriminate.
        apply andb_true_iff in Hx as [Hx Hall]. apply andb_true_iff in Hx as [Hlen _].
        destruct cs as [|c [|c' cs]]; simpl in Hlen; try discriminate.
        simpl in Hall. rewrite andb_true_r in Hall. simpl.
        pose proof (good_choice cands H c Hall) as G.
        destruct (choice_of cands c) as [v|e]; [|destruct G as [G1 G2]; split; auto; simpl; rewrite W; simpl; rewrite G2; reflexivity]. destruct G as [(cand & Hin & Hs) Hr].
        repeat split; auto. eapply shape_oneof; eauto.
      + pose proof (good_list cands H (fun i => p ++ [KName s_candidates; KIdx i]) 0 ds1 rest Hv) as G.
        destruct (trav_list (sdec cdec w) cands (ds1 ++ rest)) as [[cands' r]|e]; [|simpl; rewrite W; exact G].
        destruct G as (-> & Hs & Hr). repeat split; [apply shape_oneof_out; auto|].
        unfold rejected; intros Hsh Hconc; simpl. constructor.
        * rewrite <- W. apply Hsh. apply sh_oneof_len. symmetry. eapply Forall2_length'; eauto.
        * rej_kids Hr Hsh Hconc.
    - (* manyof *) rewrite sdec_manyof. simpl in Hv. destruct (w (TManyOf k cands d s a)) eqn:W.
      + destruct ds1 as [|x ds1]; simpl in Hv; try discriminate.
        apply andb_true_iff in Hv as [Hx Hn]. destruct ds1; [|discriminate Hn].
        destruct x as [cs| |]; simpl in Hx; try discriminate.
        apply andb_true_iff in Hx as [Hx Hall]. apply andb_true_iff in Hx as [Hlen Hc].
        simpl. rewrite Hlen, Hc. simpl.
        pose proof (good_choices cands H cs Hall) as G.
        destruct (map_res (choice_of cands) cs) as [vs|e]; [|destruct G as [G1 G2]; split; auto; simpl; rewrite W; simpl; rewrite G2; reflexivity]. destruct G as (Hl & Hs & Hr).
        repeat split; auto.
        * apply shape_manyof; auto. apply Nat.eqb_eq in Hlen. congruence.
        * unfold rejected; intros Hsh Hconc; simpl. rej_kids Hr Hsh Hconc.
      + pose proof (good_list cands H (fun i => p ++ [KName s_candidates; KIdx i]) 0 ds1 rest Hv) as G.
        destruct (trav_list (sdec cdec w) cands (ds1 ++ rest)) as [[cands' r]|e]; [|simpl; rewrite W; exact G].
        destruct G as (-> & Hs & Hr). repeat split; [apply shape_manyof_out; auto|].
        unfold rejected; intros Hsh Hconc; simpl. constructor.
        * rewrite <- W. apply Hsh. apply sh_manyof_len. symmetry. eapply Forall2_length'; eauto.
        * rej_kids Hr Hsh Hconc.
    - (* float *) simpl in Hv. simpl. destruct (w (TFloat lo hi a)) eqn:W.
      + destruct ds1 as [|x ds1]; simpl in Hv; try discriminate.
        apply andb_true_iff in Hv as [Hx Hn]. destruct ds1; [|discriminate Hn].
        destruct x as [cs|f|]; simpl in Hx; try discriminate. simpl. rewrite Hx.
        apply andb_true_iff in Hx as [H1 H2]. repeat split; [apply shape_float; auto; lia | unfold rejected; intros _ _; simpl; constructor].
      + destruct ds1; [|discriminate Hv]. simpl. repeat split; [apply shape_float_out; auto|].
        unfold rejected; intros _ _; simpl. constructor; auto.
    - (* custom *) simpl in Hv. simpl. destruct (w (TCustom ck a)) eqn:W.
      + destruct ds1 as [|x ds1]; simpl in Hv; try discriminate.
        apply andb_true_iff in Hv as [Hx Hn]. destruct ds1; [|discriminate Hn].
        destruct x as [cs|f|s]; simpl in Hx; try discriminate. simpl.
        destruct (cdec ck s) as [v|e] eqn:E; [|split; [exists ck, s; auto | reflexivity]].
        repeat split; [eapply shape_custom; eauto|]. unfold rejected; intros _ Hconc. rewrite (Hconc _ _ _ E). constructor.
      + destruct ds1; [|discriminate Hv]. simpl. repeat split; [apply shape_custom_out; auto|].
        unfold rejected; intros _ _; simpl. constructor; auto.
  Qed.
End Dec.

(* ---- the statements about whole templates --------------------------------------------------------------- *)
Definition custom_concrete (cdec : nat -> str -> result tmpl) : Prop := forall ck s v, cdec ck s = Ok v -> hypers_of v = [].
Definition custom_total (cdec : nat -> str -> result tmpl) : Prop := forall ck s, exists v, cdec ck s = Ok v.

Lemma decode_valid0 : forall cdec w t d, valid (dna_spec w t) d = true ->
  match sdecode cdec w t d with
  | Ok v => shape cdec w t v /\ rejected cdec w v
  | Err e => (exists ck s, cdec ck s = Err e) /\ finite (dna_spec w t) = false
  end.
Proof.
  intros cdec w t [ds] Hv. simpl in Hv. unfold sdecode.
  pose proof (dec_good cdec w t [] ds [] Hv) as G. rewrite app_nil_r in G.
  destruct (sdec cdec w t ds) as [[v r]|e]; simpl; auto.
  destruct G as (-> & Hs & Hr). auto.
Qed.

Lemma decode_valid : forall cdec w t d, shallow w -> custom_concrete cdec -> valid (dna_spec w t) d = true ->
  match sdecode cdec w t d with
  | Ok v => shape cdec w t v /\ Forall (fun h => w h = false) (hypers_of v)
  | Err e => (exists ck s, cdec ck s = Err e) /\ finite (dna_spec w t) = false
  end.
Proof.
  intros cdec w t d Hsh Hc Hv. pose proof (decode_valid0 cdec w t d Hv) as G.
  destruct (sdecode cdec w t d); auto. destruct G as [Hs Hr]. split; auto.
Qed.

Lemma decode_concrete : forall cdec w t d v, shallow w -> custom_concrete cdec ->
  valid (dna_spec w t) d = true -> sdecode cdec w t d = Ok v -> Forall (fun h => w h = false) (hypers_of v).
Proof. intros. pose proof (decode_valid cdec w t d H H0 H1) as G. rewrite H2 in G. apply G. Qed.

Lemma shallow_all : shallow (fun _ => true).
Proof. intros a b _; reflexivity. Qed.

Lemma decode_concrete_nofilter : forall cdec t d v, custom_concrete cdec ->
  valid (dna_spec (fun _ => true) t) d = true -> sdecode cdec (fun _ => true) t d = Ok v -> hypers_of v = [].
Proof.
  intros. pose proof (decode_concrete cdec _ t d v shallow_all H H0 H1) as G.
  destruct (hypers_of v); auto. inv G. discriminate.
Qed.

(* no premise on the filter or on user code *)
Lemma decode_shape : forall cdec w t d v,
  valid (dna_spec w t) d = true -> sdecode cdec w t d = Ok v -> shape cdec w t v.
Proof. intros. pose proof (decode_valid0 cdec w t d H) as G. rewrite H0 in G. apply G. Qed.

Lemma decode_total : forall cdec w t d, custom_total cdec ->
  valid (dna_spec w t) d = true -> exists v, sdecode cdec w t d = Ok v.
Proof.
  intros. pose proof (decode_valid0 cdec w t d H0) as G.
  destruct (sdecode cdec w t d) as [v|e]; eauto.
  destruct G as [(ck & s & E) _]. destruct (H ck s) as [v E']. congruence.
Qed.

(* on a finite space (no float, no custom point) no user code is consulted *)
Lemma decode_total_finite : forall cdec w t d, finite (dna_spec w t) = true ->
  valid (dna_spec w t) d = true -> exists v, sdecode cdec w t d = Ok v.
Proof.
  intros. pose proof (decode_valid0 cdec w t d H0) as G.
  destruct (sdecode cdec w t d) as [v|e]; eauto. destruct G as [_ G]. congruence.
Qed.

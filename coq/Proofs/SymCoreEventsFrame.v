(* SymCoreEventsFrame.v -- what a write leaves alone: every live node of the new forest is on the chain of the written container, or
   new, or has the contents it had. *)
From PG Require Import Common.Tactics Model.SymCoreDefs Model.SymCoreOps Model.SymCoreSpec Model.SymCoreEvents Model.SymCoreEventsSpec
     Proofs.SymCoreBase Proofs.SymCoreWF Proofs.SymCoreClone Proofs.SymCoreWFOps Proofs.SymCoreIds
     Proofs.SymCoreEventsBase Proofs.SymCoreEventsDeliver Proofs.SymCoreEventsStep Proofs.SymCoreEventsWF Proofs.SymCoreEventsQuery.
From Coq Require Import NArith Permutation.

(* --- contents ------------------------------------------------------------------------------------------------------------------- *)
Lemma cont_items_ext : forall (f : node -> node) (its : list (key * node)),
  Forall (fun kv => cont (f (snd kv)) = cont (snd kv)) its ->
  map (fun kv => (fst kv, cont (snd kv))) (map (fun kv => (fst kv, f (snd kv))) its) = map (fun kv => (fst kv, cont (snd kv))) its.
Proof. induction its; simpl; intros; auto. inv H. simpl. rewrite H2, IHits; auto. Qed.
Lemma cont_set_path : forall n p, cont (set_path p n) = cont n.
Proof.
  induction n using node_ind'; intros; simpl; auto. destruct (path_eqb pt p); simpl; auto. f_equal.
  rewrite map_map. apply map_ext_in. intros kv I. simpl. f_equal. rewrite Forall_forall in H. apply (H _ I).
Qed.
Lemma cont_set_par : forall n p, cont (set_par p n) = cont n.
Proof. destruct n; auto. Qed.
Lemma cont_detach : forall n, cont (detach n) = cont n.
Proof. intros. unfold detach. rewrite cont_set_path, cont_set_par. auto. Qed.
Lemma cont_set_flags : forall f n, cont (set_flags f n) = cont n.
Proof. destruct n; auto. Qed.
Lemma cont_seal_rec : forall b n, cont (seal_rec b n) = cont n.
Proof.
  induction n using node_ind'; simpl; auto. f_equal. rewrite map_map. apply map_ext_in. intros kv I. simpl. f_equal.
  rewrite Forall_forall in H. apply (H _ I).
Qed.
Lemma cont_reindex_child : forall cp i c, cont (reindex_child cp i c) = cont c.
Proof.
  intros. destruct c as [l|id k par pth fl items]; auto. unfold reindex_child.
  destruct (last_key pth); [destruct (key_eqb k0 (KI i))|]; auto; apply cont_set_path.
Qed.
Lemma cont_nid : forall n m, cont n = cont m -> nid0 n = nid0 m.
Proof. destruct n, m; simpl; intros; try discriminate; auto. inv H. auto. Qed.
Lemma cont_ids : forall n m, cont n = cont m -> ids n = ids m.
Proof.
  induction n using node_ind'; destruct m; simpl; intros E; try discriminate; auto. inv E. f_equal.
  revert items H3. induction its as [|[ka ca] ra IH]; destruct items as [|[kb cb] rb]; simpl; intros; try discriminate; auto.
  inv H3. inv H. f_equal; auto.
Qed.
(* the nodes below two nodes with the same contents correspond *)
Lemma subnodes_ceq : forall n n', cont n = cont n' -> forall m', In m' (subnodes n') -> exists m, In m (subnodes n) /\ cont m = cont m'.
Proof.
  induction n using node_ind'; destruct n'; simpl; intros E m' I; try discriminate; try contradiction.
  destruct I as [I|I].
  - subst m'. eexists. split. left. reflexivity. auto.
  - inv E. apply in_flat_map in I. destruct I as [[k1 c1] [I1 I2]].
    assert (exists kv, In kv its /\ cont (snd kv) = cont c1).
    { clear - H3 I1. revert items H3 I1. induction its as [|[ka ca] ra IH]; destruct items as [|[kc cc] rc]; simpl; intros; try discriminate; try contradiction.
      inv H3. destruct I1 as [E|I1]. inv E. eexists. split. left. reflexivity. simpl. auto.
      destruct (IH _ H2 I1) as [kv [A B]]. exists kv. auto. }
    destruct H0 as [kv [A B]]. rewrite Forall_forall in H. destruct (H _ A _ B _ I2) as [m [C D]].
    exists m. split; auto. right. apply in_flat_map. exists kv. auto.
Qed.
(* the facts are functions of the contents *)
Lemma val_pure_cont : forall n m, cont n = cont m -> val_pure n = val_pure m.
Proof.
  induction n using node_ind'; destruct m; simpl; intros E; try discriminate. inv E; auto. inv E.
  revert items H3. induction its as [|[ka ca] ra IH]; destruct items as [|[kb cb] rb]; simpl; intros; try discriminate; auto.
  inv H3. inv H. simpl in H3. rewrite (H3 _ H2). f_equal. auto.
Qed.
Lemma val_gen_cont : forall lp rc n m, cont n = cont m -> val_gen lp rc n = val_gen lp rc m.
Proof.
  intros lp rc. induction n using node_ind'; destruct m; intros E; try discriminate. auto. inv E.
  rewrite !val_gen_node. f_equal.
  revert items H3. induction its as [|[ka ca] ra IH]; destruct items as [|[kb cb] rb]; simpl; intros; try discriminate; auto.
  inv H3. inv H. simpl in H3. f_equal; auto.
  unfold item_val. cbn [fst snd]. destruct ca, cb; try discriminate H2.
  - simpl in H2. inv H2. auto.
  - rewrite (H3 _ H2). auto.
Qed.

(* --- positions and live nodes --------------------------------------------------------------------------------------------------- *)
Lemma get_in_subnodes : forall p t n, get_in p t = Some n -> is_node n = true -> In n (subnodes t).
Proof.
  induction p; simpl; intros.
  - inv H. destruct n; try discriminate; simpl; auto.
  - destruct t as [l|i k pa pt fl its]; simpl in H; [discriminate|].
    destruct (assoc a its) as [c|] eqn:A; [|discriminate]. simpl. right.
    destruct (assoc_in _ _ _ _ A) as (k' & _ & I). apply in_flat_map. exists (k', c). split; auto; simpl; eauto.
Qed.
Lemma live_root : forall st r t n, get_root st r = Some t -> In n (subnodes t) -> In n (live_nodes st).
Proof.
  intros. unfold live_nodes. apply in_flat_map. exists (Live t). split; auto. eapply get_root_in; eauto.
Qed.
Lemma get_at_live : forall st ps n, get_at st ps = Some n -> is_node n = true -> In n (live_nodes st).
Proof.
  unfold get_at. intros. destruct (get_root st (fst ps)) eqn:R; [|discriminate]. eapply live_root; eauto. eapply get_in_subnodes; eauto.
Qed.
Lemma live_get_root : forall st n, In n (live_nodes st) -> exists r t, get_root st r = Some t /\ In n (subnodes t).
Proof.
  intros. unfold live_nodes in H. apply in_flat_map in H. destruct H as [s [I1 I2]]. destruct s as [t|]; [|contradiction].
  apply In_nth_error in I1. destruct I1 as [r E]. exists r, t. unfold get_root. rewrite E. auto.
Qed.
(* in a well-formed tree every id below is reachable by a path *)
Lemma wf_keys_assoc : forall (its : list (key * node)) kv, NoDup (map fst its) -> In kv its -> assoc (fst kv) its = Some (snd kv).
Proof.
  induction its as [|[k0 c0] r IH]; simpl; intros; try contradiction. inv H. destruct H0.
  - subst. simpl. rewrite key_eqb_refl. auto.
  - destruct (key_eqb (fst kv) k0) eqn:E; auto. apply key_eqb_eq in E. exfalso. apply H3. rewrite <- E. apply in_map. auto.
Qed.
Lemma ids_get_in : forall t i ep epth, wf_node ep epth t -> In i (ids t) ->
  exists p k pa pt fl its, get_in p t = Some (Node i k pa pt fl its).
Proof.
  induction t using node_ind'; intros j ep epth W I; simpl in I; try contradiction.
  destruct I as [E|I].
  - subst. exists []. simpl. repeat eexists.
  - apply wf_node_unfold in W. destruct W as (_ & _ & KO & F). apply keys_ok_nodup in KO.
    apply in_flat_map in I. destruct I as [kv [I1 I2]].
    rewrite Forall_forall in H, F. destruct (H _ I1 j _ _ (F _ I1) I2) as (p & k' & pa' & pt' & fl' & its' & G).
    exists (fst kv :: p). simpl. rewrite (wf_keys_assoc its kv KO I1). eauto 10.
Qed.
Lemma subnodes_get_in : forall t m ep epth, wf_node ep epth t -> In m (subnodes t) -> exists p, get_in p t = Some m.
Proof.
  induction t using node_ind'; intros m ep epth W I; simpl in I; try contradiction.
  destruct I as [E|I].
  - subst. exists []. auto.
  - apply wf_node_unfold in W. destruct W as (_ & _ & KO & F). apply keys_ok_nodup in KO.
    apply in_flat_map in I. destruct I as [kv [I1 I2]].
    rewrite Forall_forall in H, F. destruct (H _ I1 m _ _ (F _ I1) I2) as (p & G).
    exists (fst kv :: p). simpl. rewrite (wf_keys_assoc its kv KO I1). auto.
Qed.
Lemma live_get_at : forall st n, wfs st -> In n (live_nodes st) -> exists ps, get_at st ps = Some n.
Proof.
  intros. destruct (live_get_root _ _ H0) as (r & t & R & I). destruct (wfs_get_root _ _ _ H R) as [_ W].
  destruct (subnodes_get_in _ _ _ _ W I) as [p G]. exists (r, p). unfold get_at. simpl. rewrite R. auto.
Qed.

(* locate finds every id that is there *)
Lemma find_id_complete : forall t i, In i (ids t) -> exists p, find_id i t = Some p.
Proof.
  induction t using node_ind'; intros j I; simpl in I; try contradiction. simpl.
  destruct (N.eqb j i) eqn:E. eauto. destruct I as [I|I]. subst. rewrite N.eqb_refl in E. discriminate.
  induction its as [|[k0 c] r IHr]; simpl in *; try contradiction. inv H.
  apply in_app_or in I. destruct I as [I|I].
  - destruct (H2 _ I) as [p F]. simpl in F. rewrite F. eauto.
  - destruct (find_id j c); eauto.
Qed.
Lemma locate_from_complete : forall i rs idx, In i (flat_map ids_slot rs) -> exists ps, locate_from i rs idx = Some ps.
Proof.
  induction rs as [|[t|j] r IH]; simpl; intros; try contradiction.
  - apply in_app_or in H. destruct H as [H|H].
    + destruct (find_id_complete _ _ H) as [p F]. rewrite F. eauto.
    + destruct (find_id i t); eauto.
  - auto.
Qed.
Theorem locate_complete : forall st ps i k pa pt fl its, WFI st -> get_at st ps = Some (Node i k pa pt fl its) -> locate st i = Some ps.
Proof.
  intros st ps i k pa pt fl its W G.
  assert (I : In i (all_ids st)).
  { rewrite <- live_ids. change i with (nid0 (Node i k pa pt fl its)). apply in_map. eapply get_at_live; eauto. }
  destruct (locate_from_complete i (roots st) 0 I) as [ps' L]. unfold locate. rewrite L. f_equal.
  destruct (locate_spec _ _ _ (proj1 W) L) as (k' & pa' & pt' & fl' & its' & G').
  destruct ps as [r p], ps' as [r' p']. destruct (no_node_twice _ _ _ _ _ _ _ _ _ _ _ _ _ _ _ _ W G' G). subst. auto.
Qed.

(* the chain of a node, without positions: every live node that holds it somewhere below *)
Theorem chain_char : forall st i n, WFI st -> In n (live_nodes st) -> In i (ids n) -> In n (chain_of st i).
Proof.
  intros st i n W L I. destruct (live_get_at _ _ (proj1 W) L) as [[r p] G].
  destruct (wfs_get_at _ _ _ (proj1 W) G) as [ep Wn].
  destruct (ids_get_in _ _ _ _ Wn I) as (q & k & pa & pt & fl & its & Gq).
  assert (G2 : get_at st (r, p ++ q) = Some (Node i k pa pt fl its)).
  { rewrite get_at_app, G. auto. }
  unfold chain_of. rewrite (locate_complete _ _ _ _ _ _ _ _ W G2). unfold chain_at. simpl.
  apply in_flat_map. exists p. split. unfold prefixes_desc. apply -> in_rev. apply in_inits. eauto.
  rewrite G. simpl. auto.
Qed.

(* --- the frame relation ------------------------------------------------------------------------------------------------------------ *)
(* a node of the new forest that is either new (id from the new range) or holds what some node of the old forest held *)
Definition allfresh (st : state) (m : node) : Prop := Forall (fun i => (next_id st <= i)%N) (ids m).
Definition good (st : state) (m : node) : Prop :=
  allfresh st m \/ exists n, In n (live_nodes st) /\ cont n = cont m.
Definition FR (st st' : state) (ids : list N) : Prop :=
  (next_id st <= next_id st')%N /\ forall n', In n' (live_nodes st') -> In (nid0 n') ids \/ good st n'.
Lemma good_live : forall st n, In n (live_nodes st) -> good st n.
Proof. intros. right. eauto. Qed.
Lemma FR_refl : forall st, FR st st [].
Proof. intros. split. lia. intros. right. apply good_live; auto. Qed.
Lemma FR_mono : forall st st' a b, FR st st' a -> incl a b -> FR st st' b.
Proof. intros st st' a b [L F] I. split; auto. intros n' H. destruct (F _ H); auto. Qed.
Lemma good_trans : forall a b n' ids, FR a b ids -> good b n' -> In (nid0 n') ids \/ good a n'.
Proof.
  intros a b n' ids [L F] [G|(n & I & C)].
  - right. left. unfold allfresh in *. eapply Forall_impl; [|exact G]. simpl. intros. lia.
  - destruct (F _ I) as [X|[X|(m & I2 & C2)]].
    + left. rewrite <- (cont_nid _ _ C). auto.
    + right. left. unfold allfresh in *. rewrite <- (cont_ids _ _ C). auto.
    + right. right. exists m. split; auto. congruence.
Qed.
Lemma FR_trans : forall a b c i1 i2, FR a b i1 -> FR b c i2 -> FR a c (i1 ++ i2).
Proof.
  intros a b c i1 i2 H1 [L2 F2]. split. destruct H1. lia.
  intros n' I. destruct (F2 _ I) as [X|X].
  - left. apply in_or_app. auto.
  - destruct (good_trans _ _ _ _ H1 X); auto. left. apply in_or_app. auto.
Qed.

Lemma lookup_drop : forall A ids (t : list (N * A)) i, lookup i (drop ids t) = if existsb (N.eqb i) ids then None else lookup i t.
Proof.
  induction t as [|[j v] r IH]; simpl; intros. destruct (existsb _ ids); auto.
  destruct (existsb (N.eqb j) ids) eqn:E; simpl.
  - rewrite IH. destruct (N.eqb i j) eqn:F; auto. apply N.eqb_eq in F. subst. rewrite E. auto.
  - rewrite IH. destruct (N.eqb i j) eqn:F; auto. apply N.eqb_eq in F. subst. rewrite E. auto.
Qed.
Lemma ok_reset : forall A (val : node -> A) st ids t n', is_node n' = true ->
  (forall n m, cont n = cont m -> val n = val m) ->
  (forall n, In n (live_nodes st) -> ok_tbl val t n) -> dom_below (next_id st) t ->
  (In (nid0 n') ids \/ good st n') -> ok_tbl val (drop ids t) n'.
Proof.
  intros A val st ids t n' NN VC V D H v L. rewrite lookup_drop in L.
  destruct (existsb (N.eqb (nid0 n')) ids) eqn:E; [discriminate|].
  destruct H as [H|[H|(n & I & C)]].
  - apply existsb_eqb_in in H. congruence.
  - apply D in L. destruct n'; [discriminate|]. unfold allfresh in H. simpl in *. inv H. unfold nid0 in L. simpl in L. lia.
  - rewrite <- (VC _ _ C). apply (V n I). rewrite (cont_nid _ _ C). auto.
Qed.
Lemma dom_drop : forall A b b' ids (t : list (N * A)), dom_below b t -> (b <= b')%N -> dom_below b' (drop ids t).
Proof.
  intros A b b' ids t D L i v H. rewrite lookup_drop in H. destruct (existsb _ ids); [discriminate|]. apply D in H. lia.
Qed.
Lemma live_is_node : forall st n, In n (live_nodes st) -> is_node n = true.
Proof.
  intros. unfold live_nodes in H. apply in_flat_map in H. destruct H as [sl [I1 I2]]. destruct sl; [|contradiction]. eapply subnodes_node; eauto.
Qed.
(* resetting the memo of every node that is not [good] keeps the tables valid *)
Theorem reset_sound : forall st st' ids c, Fresh (mkX st c) -> FR st st' ids -> Fresh (mkX st' (reset ids c)).
Proof.
  intros st st' ids c [V [D1 [D2 D3]]] [L F]. simpl in *. split; [|repeat split; eapply dom_drop; eauto].
  intros n' I. specialize (F _ I). assert (NN : is_node n' = true) by (eapply live_is_node; eauto).
  unfold valid, reset. simpl. repeat split.
  - eapply ok_reset; eauto. apply val_pure_cont. intros; apply V; auto.
  - eapply ok_reset; eauto. apply val_gen_cont. intros; apply V; auto.
  - eapply ok_reset; eauto. apply val_gen_cont. intros; apply V; auto.
Qed.

(* --- the live nodes of a transformed forest ------------------------------------------------------------------------------------------ *)
Lemma live_set_root_live : forall st r t n, In n (live_nodes (set_root st r (Live t))) ->
  In n (subnodes t) \/ In n (live_nodes st).
Proof.
  intros st r t n. unfold live_nodes, set_root. simpl. generalize (roots st). intros rs. revert r.
  induction rs as [|s rs IH]; destruct r; simpl; intros; auto.
  - apply in_app_or in H. destruct H; auto. right. apply in_or_app. auto.
  - apply in_app_or in H. destruct H. right. apply in_or_app. auto.
    destruct (IH _ H); auto. right. apply in_or_app. auto.
Qed.
Lemma live_set_root_moved : forall st r i n, In n (live_nodes (set_root st r (Moved i))) -> In n (live_nodes st).
Proof.
  intros st r i n. unfold live_nodes, set_root. simpl. generalize (roots st). intros rs. revert r.
  induction rs as [|s rs IH]; destruct r; simpl; intros; auto.
  - apply in_or_app. auto.
  - apply in_app_or in H. destruct H. apply in_or_app; auto. apply in_or_app. right. eauto.
Qed.
Lemma live_with_next : forall st nx, live_nodes (with_next st nx) = live_nodes st.
Proof. reflexivity. Qed.
Lemma live_add_root : forall st t n, In n (live_nodes (add_root st t)) -> In n (live_nodes st) \/ In n (subnodes t).
Proof.
  intros. unfold live_nodes, add_root in H. simpl in H. rewrite flat_map_app in H. apply in_app_or in H. simpl in H.
  rewrite app_nil_r in H. auto.
Qed.
Lemma live_restore_slot : forall i t rs rs' n, restore_slot i t rs = Some rs' ->
  In n (flat_map (fun s => match s with Live t => subnodes t | Moved _ => [] end) rs') ->
  In n (flat_map (fun s => match s with Live t => subnodes t | Moved _ => [] end) rs) \/ In n (subnodes t).
Proof.
  induction rs as [|[x|j] r IH]; simpl; intros; try discriminate.
  - destruct (restore_slot i t r) as [r'|] eqn:E; [|discriminate]. inv H. simpl in H0. apply in_app_or in H0.
    destruct H0. left. apply in_or_app; auto. destruct (IH _ _ eq_refl H); auto. left. apply in_or_app; auto.
  - destruct (N.eqb i j).
    + inv H. simpl in H0. apply in_app_or in H0. tauto.
    + destruct (restore_slot i t r) as [r'|] eqn:E; [|discriminate]. inv H. simpl in H0. eauto.
Qed.
Lemma live_add_detached : forall st old n, In n (live_nodes (add_detached st old)) ->
  In n (live_nodes st) \/ In n (subnodes (detach old)).
Proof.
  intros. unfold add_detached in H. destruct old as [l|i k pa pt fl its]; auto.
  destruct (restore_slot i (detach (Node i k pa pt fl its)) (roots st)) as [rs|] eqn:E.
  - unfold live_nodes in *. simpl in H. eapply live_restore_slot; eauto.
  - apply live_add_root in H. auto.
Qed.
Lemma good_detach : forall st old, (forall m, In m (subnodes old) -> good st m) -> forall m, In m (subnodes (detach old)) -> good st m.
Proof.
  intros. destruct (subnodes_ceq old (detach old)) with (m' := m) as (m0 & I & C); auto. symmetry. apply cont_detach.
  destruct (H _ I) as [G|(n & In' & C')].
  - left. unfold allfresh in *. rewrite <- (cont_ids _ _ C). auto.
  - right. exists n. split; auto. congruence.
Qed.

(* --- replacing something at a position -------------------------------------------------------------------------------------------------- *)
Lemma in_map_assoc : forall A k (g : A -> A) (its : list (key * A)) kv, In kv (map_assoc k g its) ->
  In kv its \/ exists c0, assoc k its = Some c0 /\ kv = (fst kv, g c0) .
Proof.
  induction its as [|[k0 c0] r IH]; simpl; intros; try contradiction.
  destruct (key_eqb k k0) eqn:E.
  - destruct H; auto. subst kv. right. exists c0. auto.
  - destruct H; auto. destruct (IH _ H) as [X|(c1 & A1 & E1)]; auto. right. exists c1. auto.
Qed.
Lemma get_in_update_in : forall p f t c, get_in p t = Some c -> get_in p (update_in p f t) = Some (f c).
Proof.
  induction p; simpl; intros. inv H. auto.
  destruct t as [l|i k pa pt fl its]; simpl in *; [discriminate|].
  destruct (assoc a its) as [c0|] eqn:A; [|discriminate].
  assert (assoc a (map_assoc a (update_in p f) its) = Some (update_in p f c0)).
  { clear - A. induction its as [|[k0 x] r IH]; simpl in *; [discriminate|]. destruct (key_eqb a k0) eqn:E; simpl; rewrite E; auto. inv A. auto. }
  rewrite H0. auto.
Qed.
Lemma subnodes_update_in : forall p f t c i k pa pt fl its, get_in p t = Some c -> f c = Node i k pa pt fl its ->
  forall n', In n' (subnodes (update_in p f t)) -> In i (ids n') \/ In n' (subnodes (f c)) \/ In n' (subnodes t).
Proof.
  induction p; intros f t c i k pa pt fl its G FC n' I.
  - simpl in *. inv G. auto.
  - destruct t as [l|j kd pa0 pt0 fl0 its0]; simpl in G; [discriminate|].
    destruct (assoc a its0) as [c0|] eqn:A; [|discriminate].
    simpl in I. destruct I as [E|I].
    + left. subst n'.
      assert (G2 : get_in (a :: p) (update_in (a :: p) f (Node j kd pa0 pt0 fl0 its0)) = Some (f c)).
      { apply get_in_update_in. simpl. rewrite A. auto. }
      rewrite FC in G2. apply get_in_ids in G2. exact G2.
    + apply in_flat_map in I. destruct I as [kv [I1 I2]]. apply in_map_assoc in I1. destruct I1 as [I1|(c1 & A1 & E1)].
      * right. right. simpl. right. apply in_flat_map. exists kv. auto.
      * rewrite A in A1. inv A1. rewrite E1 in I2. simpl in I2.
        destruct (IHp f c1 c i k pa pt fl its G FC n' I2) as [X|[X|X]]; auto.
        right. right. simpl. right. destruct (assoc_in _ _ _ _ A) as (k' & _ & I3). apply in_flat_map. exists (k', c1). auto.
Qed.

Lemma live_update_at : forall st r p f c i k pa pt fl its, get_at st (r, p) = Some c -> f c = Node i k pa pt fl its ->
  forall n', In n' (live_nodes (update_at st (r, p) f)) -> In i (ids n') \/ In n' (subnodes (f c)) \/ In n' (live_nodes st).
Proof.
  intros. unfold update_at, get_at in *. simpl in *. destruct (get_root st r) as [t|] eqn:R; [|discriminate].
  apply live_set_root_live in H1. destruct H1 as [H1|H1]; auto.
  destruct (subnodes_update_in _ _ _ _ _ _ _ _ _ _ H H0 _ H1) as [X|[X|X]]; auto.
  right. right. eapply live_root; eauto.
Qed.
(* the frame of a write, by ids: what is not [good] holds the written container *)
Lemma FR_by_ids : forall st st' cid, WFI st' -> (next_id st <= next_id st')%N ->
  (forall n', In n' (live_nodes st') -> In cid (ids n') \/ good st n') -> FR st st' (map nid0 (chain_of st' cid)).
Proof.
  intros. split; auto. intros n' I. destruct (H1 _ I); auto. left. apply in_map. apply chain_char; auto.
Qed.

(* --- the value that gets stored -------------------------------------------------------------------------------------------------------- *)
Lemma subnodes_ids_incl : forall n m, In m (subnodes n) -> incl (ids m) (ids n).
Proof.
  induction n using node_ind'; simpl; intros; try contradiction. destruct H0 as [E|I]. subst. apply incl_refl.
  apply in_flat_map in I. destruct I as [kv [I1 I2]]. rewrite Forall_forall in H. intros x Ix. simpl. right.
  apply in_flat_map. exists kv. split; auto. eapply (H _ I1); eauto.
Qed.
Lemma subnodes_fresh : forall st hi n m, in_range (next_id st) hi (ids n) -> In m (subnodes n) -> allfresh st m.
Proof.
  intros. unfold allfresh. apply Forall_forall. intros i I. apply (subnodes_ids_incl _ _ H0) in I.
  unfold in_range in H. rewrite Forall_forall in H. apply H in I. lia.
Qed.
Lemma formalize_good : forall q sc st r ck cid cfl tpath ins rv nw st1,
  wfs st -> rv_ok rv -> formalize q sc st r ck cid cfl tpath ins rv = (nw, st1) ->
  (next_id st <= next_id st1)%N /\ (forall m, In m (subnodes nw) -> good st m) /\
  (forall n, In n (live_nodes st1) -> In n (live_nodes st)).
Proof.
  intros q sc st r ck cid cfl tpath ins rv nw st1 W OK F.
  destruct rv; simpl in F.
  - inv F. split. lia. split; auto. simpl. tauto.
  - pose proof (build_ids l (accepts_partial sc cfl) (Some cid) tpath (next_id st)) as B.
    destruct (build (accepts_partial sc cfl) (Some cid) tpath l (next_id st)) as [n nx]. inversion F; subst nw st1; clear F.
    destruct B as (L & R & N). simpl in *. split; auto. split; auto.
    intros. left. eapply subnodes_fresh; eauto.
  - destruct (locate st i) as [vpos|] eqn:LO; [|inv F; split; [lia|split; auto; simpl; tauto]].
    destruct (get_at st vpos) as [v|] eqn:G; [|inv F; split; [lia|split; auto; simpl; tauto]].
    destruct (needs_clone r ck cid tpath ins vpos v).
    + pose proof (clone_at_ids (q_copy_drops_missing q) false v (Some cid) tpath (next_id st, [])) as C.
      destruct (clone_at (q_copy_drops_missing q) false (Some cid) tpath v (next_id st, [])) as [c cs]. inversion F; subst nw st1; clear F.
      destruct C as (L & R & N). simpl in *. split; auto. split; auto.
      intros. left. eapply subnodes_fresh; eauto.
    + inv F. split. { destruct (snd vpos); simpl; lia. } split.
      * intros m I. destruct (subnodes_ceq v (set_par (Some cid) (set_path tpath v))) with (m' := m) as (m0 & I0 & C0); auto.
        { rewrite cont_set_par, cont_set_path. auto. }
        right. exists m0. split; auto. destruct (locate_spec _ _ _ W LO) as (k & pa & pt & fl & its & G'). rewrite G' in G. inv G.
        eapply live_sub; eauto. eapply get_at_live; eauto.
      * intros n I. destruct (snd vpos); auto. eapply live_set_root_moved; eauto.
  - inv F. split. lia. split; auto. simpl. tauto.
Qed.

(* --- the shape of a write: everything that is not above the written container is new or as it was ---------------------------------------------- *)
Definition SH (st st' : state) (cid : N) : Prop :=
  (next_id st <= next_id st')%N /\ forall n', In n' (live_nodes st') -> In cid (ids n') \/ good st n'.
Definition child_good (st : state) (kv : key * node) : Prop := forall m, In m (subnodes (snd kv)) -> good st m.
Lemma SH_refl : forall st cid, SH st st cid.
Proof. split. lia. intros. right. apply good_live. auto. Qed.
Lemma good_ceq : forall st m0 m, cont m0 = cont m -> good st m0 -> good st m.
Proof.
  intros st m0 m C [G|(n & I & C')]. left. unfold allfresh in *. rewrite <- (cont_ids _ _ C). auto. right. exists n. split; auto. congruence.
Qed.
Lemma child_good_ceq : forall st k c k' c', cont c = cont c' -> child_good st (k, c) -> child_good st (k', c').
Proof.
  intros st k c k' c' C G m I. simpl in *. destruct (subnodes_ceq c c' C m I) as (m0 & I0 & C0). eapply good_ceq; eauto.
Qed.
Lemma children_good : forall st cp cid ck pa pt fl its, get_at st cp = Some (Node cid ck pa pt fl its) -> Forall (child_good st) its.
Proof.
  intros. apply Forall_forall. intros kv I m Im. apply good_live. eapply live_sub. eapply get_at_live; eauto.
  simpl. right. apply in_flat_map. exists kv. auto.
Qed.
Lemma renum_from_good : forall st cp l i, Forall (child_good st) l -> Forall (child_good st) (renum_from cp i l).
Proof.
  induction l as [|[k c] r IH]; simpl; intros; auto. inv H. constructor; auto.
  eapply child_good_ceq; [|exact H2]. symmetry. apply cont_reindex_child.
Qed.
Lemma renum_good : forall st cp l, Forall (child_good st) l -> Forall (child_good st) (renum cp l).
Proof. intros. apply renum_from_good. auto. Qed.
Lemma leaf_good : forall st k l, child_good st (k, Leaf l).
Proof. intros st k l m I. simpl in I. contradiction. Qed.
Lemma items_nodes_good : forall st its m, Forall (child_good st) its -> In m (items_nodes its) -> good st m.
Proof.
  intros. unfold items_nodes in H0. apply in_flat_map in H0. destruct H0 as [kv [I1 I2]]. rewrite Forall_forall in H. eapply H; eauto.
Qed.

(* replacing the items of the container at [cp] (the forest [st1] is [st] after formalize: some root may have been adopted) *)
Lemma replace_items_good : forall st st1 cp cid ck pa pt fl its its',
  get_at st cp = Some (Node cid ck pa pt fl its) ->
  (forall n, In n (live_nodes st1) -> In n (live_nodes st)) ->
  (get_root st1 (fst cp) = None \/ get_root st1 (fst cp) = get_root st (fst cp)) ->
  Forall (child_good st) its' ->
  forall n', In n' (live_nodes (update_at st1 cp (set_items its'))) -> In cid (ids n') \/ good st n'.
Proof.
  intros st st1 [r p] cid ck pa pt fl its its' G SUB R F n' I. simpl in R. destruct R as [R|R].
  - unfold update_at in I. simpl in I. rewrite R in I. right. apply good_live. auto.
  - assert (G1 : get_at st1 (r, p) = Some (Node cid ck pa pt fl its)) by (unfold get_at in *; simpl in *; rewrite R; auto).
    destruct (live_update_at st1 r p (set_items its') _ cid ck pa pt fl its' G1 eq_refl _ I) as [X|[X|X]]; auto.
    + simpl in X. destruct X as [X|X]; [subst n'; left; simpl; auto | right; eapply items_nodes_good; eauto].
    + right. apply good_live. auto.
Qed.
Lemma add_detached_good : forall st st2 cid old,
  (forall n', In n' (live_nodes st2) -> In cid (ids n') \/ good st n') -> child_good st (KI 0, old) ->
  forall n', In n' (live_nodes (add_detached st2 old)) -> In cid (ids n') \/ good st n'.
Proof.
  intros. apply live_add_detached in H1. destruct H1; auto. right. eapply good_detach; eauto.
Qed.
Lemma detach_all_good : forall st cid its st2,
  (forall n', In n' (live_nodes st2) -> In cid (ids n') \/ good st n') -> Forall (child_good st) its ->
  forall n', In n' (live_nodes (detach_all st2 its)) -> In cid (ids n') \/ good st n'.
Proof.
  unfold detach_all. induction its as [|[k c] r IH]; simpl; intros; auto. inv H0.
  eapply IH; [| exact H5 | exact H1]. intros. eapply add_detached_good; eauto; try (intros m I; apply H4; auto).
Qed.

(* --- the write primitives ---------------------------------------------------------------------------------------------------------------------- *)
Section Prims.
Variable q : quirks.
Local Open Scope Z_scope.

Lemma formalize_pack : forall sc st r ck cid cfl tpath ins rv nw st1,
  wfs st -> rv_ok rv -> formalize q sc st r ck cid cfl tpath ins rv = (nw, st1) ->
  (next_id st <= next_id st1)%N /\ child_good st (KI 0, nw) /\
  (forall n, In n (live_nodes st1) -> In n (live_nodes st)) /\
  (forall r', get_root st1 r' = None \/ get_root st1 r' = get_root st r').
Proof.
  intros. destruct (formalize_good _ _ _ _ _ _ _ _ _ _ _ _ H H0 H1) as (A & B & C).
  destruct (formalize_wf _ _ _ _ _ _ _ _ _ _ _ _ H H0 H1) as (_ & _ & D). repeat split; auto.
Qed.

Lemma lprim_shape : forall sc st cp k rv st' p cid ck pa pt fl its,
  wfs st -> rv_ok rv -> lprim q sc st cp k rv = (st', p) -> get_at st cp = Some (Node cid ck pa pt fl its) -> SH st st' cid.
Proof.
  intros sc st cp k rv st' p cid ck pa pt cfl its W OK L G. unfold lprim in L. rewrite G in L.
  destruct ck; try (inv L; apply SH_refl).
  destruct k as [s|z]; [inv L; apply SH_refl|].
  destruct ((z >=? zlen its) && is_missing_rv rv); [inv L; apply SH_refl|].
  set (n := zlen its) in *.
  set (idx0 := if z >=? n then n else z) in *.
  destruct (match rv with RIns v' => (true, v') | _ => (false, rv) end) as [ins v] eqn:IV.
  assert (OKv : rv_ok v). { destruct rv; inv IV; simpl in *; auto. }
  set (idx := if idx0 <? 0 then if idx0 >=? - n then idx0 + n else if ins then 0 else idx0 else idx0) in *.
  assert (CG := children_good _ _ _ _ _ _ _ _ G).
  destruct ((idx <? n) && negb ins) eqn:C1.
  - destruct (idx <? 0) eqn:C2; [inv L; apply SH_refl|].
    destruct (nth_error its (Z.to_nat idx)) as [[k0 old]|] eqn:NE; [|inv L; apply SH_refl].
    destruct (same_obj old v) eqn:SO; [inv L; apply SH_refl|].
    destruct (formalize q sc st (fst cp) KList cid cfl (pt ++ [KI idx]) false v) as [nw st1] eqn:FO.
    destruct (formalize_pack _ _ _ _ _ _ _ _ _ _ _ W OKv FO) as (L1 & GN & SUB & RT).
    inv L. split. { rewrite next_add_detached, next_update_at. auto. }
    eapply add_detached_good.
    + eapply replace_items_good; eauto. apply Forall_set_nth; auto; try (intros m I; apply GN; auto).
    + intros m I. simpl in I. eapply Forall_nth_error in NE; eauto. apply NE. auto.
  - destruct (formalize q sc st (fst cp) KList cid cfl (pt ++ [KI idx]) ins v) as [nw st1] eqn:FO.
    destruct (formalize_pack _ _ _ _ _ _ _ _ _ _ _ W OKv FO) as (L1 & GN & SUB & RT).
    assert (GN' : forall kk, child_good st (kk, nw)) by (intros kk m I; apply GN; auto).
    destruct (idx <? n); inv L; (split; [rewrite next_update_at; auto|]); eapply replace_items_good; eauto.
    + apply renum_good. apply Forall_insert_at; auto.
    + apply Forall_app. split; auto.
Qed.

Lemma dprim_shape : forall sc st cp k rv st' p cid ck pa pt fl its,
  wfs st -> rv_ok rv -> dprim q sc st cp k rv = (st', p) -> get_at st cp = Some (Node cid ck pa pt fl its) -> SH st st' cid.
Proof.
  intros sc st cp k rv st' p cid ck pa pt cfl its W OK L G. unfold dprim in L. rewrite G in L.
  destruct ck; try (inv L; apply SH_refl).
  set (old := match assoc k its with Some o => o | None => Leaf LMissing end) in *.
  assert (CG := children_good _ _ _ _ _ _ _ _ G).
  assert (GO : child_good st (KI 0, old)).
  { unfold old. destruct (assoc k its) eqn:A; [|apply leaf_good]. destruct (assoc_in _ _ _ _ A) as (k' & _ & I).
    rewrite Forall_forall in CG. intros m Im. apply (CG _ I). auto. }
  destruct (same_obj old rv) eqn:SO; [inv L; apply SH_refl|].
  destruct (is_missing_rv rv).
  - inv L. split. { rewrite next_add_detached, next_update_at. lia. }
    eapply add_detached_good; eauto. eapply replace_items_good; eauto. apply Forall_remove_assoc. auto.
  - destruct (formalize q sc st (fst cp) KDict cid cfl (pt ++ [k]) false rv) as [nw st1] eqn:FO.
    destruct (formalize_pack _ _ _ _ _ _ _ _ _ _ _ W OK FO) as (L1 & GN & SUB & RT).
    inv L. split. { rewrite next_add_detached, next_update_at. auto. }
    eapply add_detached_good; eauto. eapply replace_items_good; eauto. apply Forall_set_assoc; auto; try (intros; intros m I; apply GN; auto).
Qed.

Lemma oprim_shape : forall sc st cp k rv st' p cid ck pa pt fl its,
  wfs st -> rv_ok rv -> oprim q sc st cp k rv = (st', p) -> get_at st cp = Some (Node cid ck pa pt fl its) -> SH st st' cid.
Proof.
  intros sc st cp k rv st' p cid ck pa pt cfl its W OK L G. unfold oprim in L. rewrite G in L.
  destruct ck; try (inv L; apply SH_refl).
  assert (CG := children_good _ _ _ _ _ _ _ _ G).
  destruct (assoc k its) as [old|] eqn:A; [|destruct (is_missing_rv rv); inv L; apply SH_refl].
  assert (GO : child_good st (KI 0, old)).
  { destruct (assoc_in _ _ _ _ A) as (k' & _ & I). rewrite Forall_forall in CG. intros m Im. apply (CG _ I). auto. }
  destruct (same_obj old rv) eqn:SO; [inv L; apply SH_refl|].
  destruct (is_missing_rv rv).
  - inv L. split. { rewrite next_add_detached, next_update_at. lia. }
    eapply add_detached_good; eauto. eapply replace_items_good; eauto. apply Forall_set_assoc; auto; try (intros; apply leaf_good).
  - destruct (formalize q sc st (fst cp) (KObj cls) cid cfl (pt ++ [k]) false rv) as [nw st1] eqn:FO.
    destruct (formalize_pack _ _ _ _ _ _ _ _ _ _ _ W OK FO) as (L1 & GN & SUB & RT).
    inv L. split. { rewrite next_add_detached, next_update_at. auto. }
    eapply add_detached_good; eauto. eapply replace_items_good; eauto. apply Forall_set_assoc; auto; try (intros; intros m I; apply GN; auto).
Qed.

Lemma prim_shape : forall sc st cp k rv st' p cid ck pa pt fl its,
  wfs st -> rv_ok rv -> prim q sc st cp k rv = (st', p) -> get_at st cp = Some (Node cid ck pa pt fl its) -> SH st st' cid.
Proof.
  intros. unfold prim in H1. rewrite H2 in H1. destruct ck; eauto using lprim_shape, dprim_shape, oprim_shape.
Qed.
End Prims.

(* --- positions above an update --------------------------------------------------------------------------------------------------------------------- *)
Lemma assoc_map_assoc : forall A k (g : A -> A) (its : list (key * A)) c0, assoc k its = Some c0 -> assoc k (map_assoc k g its) = Some (g c0).
Proof.
  induction its as [|[k0 x] r IH]; simpl; intros; [discriminate|]. destruct (key_eqb k k0) eqn:E; simpl; rewrite E; auto. inv H. auto.
Qed.
Lemma get_in_update_in_prefix : forall pre rest f t m, get_in pre t = Some m ->
  get_in pre (update_in (pre ++ rest) f t) = Some (update_in rest f m).
Proof.
  induction pre; simpl; intros. inv H. auto.
  destruct t as [l|i k pa pt fl its]; simpl in *; [discriminate|].
  destruct (assoc a its) as [c0|] eqn:A; [|discriminate]. rewrite (assoc_map_assoc _ _ _ _ _ A). auto.
Qed.
Lemma nid_update_in : forall rest f m, (forall x, nid0 (f x) = nid0 x) -> nid0 (update_in rest f m) = nid0 m.
Proof. destruct rest; simpl; intros; auto. destruct m; auto. Qed.
Lemma get_in_none_update_in : forall pre rest f t, get_in pre t = None -> get_in pre (update_in (pre ++ rest) f t) = None.
Proof.
  induction pre; simpl; intros. discriminate.
  destruct t as [l|i k pa pt fl its]; simpl in *; auto.
  destruct (assoc a its) as [c0|] eqn:A.
  - rewrite (assoc_map_assoc _ _ _ _ _ A). auto.
  - assert (assoc a (map_assoc a (update_in (pre ++ rest) f) its) = None).
    { clear - A. induction its as [|[k0 x] r IH]; simpl in *; auto. destruct (key_eqb a k0) eqn:E; simpl; rewrite E; auto. discriminate. }
    rewrite H0. auto.
Qed.
Lemma get_at_update_at_prefix : forall st r pre rest f,
  option_map nid0 (get_at (update_at st (r, pre ++ rest) f) (r, pre)) =
  option_map nid0 (match get_at st (r, pre) with Some m => Some (update_in rest f m) | None => None end).
Proof.
  intros. unfold update_at, get_at. simpl. destruct (get_root st r) as [t|] eqn:R; simpl.
  - unfold set_root, get_root. simpl.
    assert (L : (r < length (roots st))%nat). { unfold get_root in R. destruct (nth_error (roots st) r) eqn:E; [|discriminate]. apply nth_error_Some. congruence. }
    assert (N : nth_error (set_nth r (Live (update_in (pre ++ rest) f t)) (roots st)) r = Some (Live (update_in (pre ++ rest) f t))).
    { clear - L. revert r L. induction (roots st); destruct r; simpl; intros; auto; try lia. apply IHl. lia. }
    rewrite N. destruct (get_in pre t) eqn:G.
    + rewrite (get_in_update_in_prefix _ _ _ _ _ G). auto.
    + rewrite (get_in_none_update_in _ _ _ _ G). auto.
  - rewrite R. auto.
Qed.
Lemma chain_ids_update_at : forall st r p rest f, (forall x, nid0 (f x) = nid0 x) ->
  map nid0 (chain_at (update_at st (r, p ++ rest) f) (r, p)) = map nid0 (chain_at st (r, p)).
Proof.
  intros. unfold chain_at. simpl.
  assert (X : forall pre, In pre (prefixes_desc p) ->
              map nid0 (match get_at (update_at st (r, p ++ rest) f) (r, pre) with Some n => [n] | None => [] end) =
              map nid0 (match get_at st (r, pre) with Some n => [n] | None => [] end)).
  { intros pre I. unfold prefixes_desc in I. apply in_rev in I. apply in_inits in I. destruct I as [rest' E]. subst p.
    rewrite <- app_assoc. pose proof (get_at_update_at_prefix st r pre (rest' ++ rest) f) as Y.
    destruct (get_at (update_at st (r, pre ++ rest' ++ rest) f) (r, pre)), (get_at st (r, pre)); simpl in *; try discriminate; auto.
    injection Y as Y. rewrite Y, nid_update_in; auto. }
  induction (prefixes_desc p); simpl; auto. rewrite !map_app. rewrite X by (simpl; auto). f_equal. apply IHl. intros. apply X. simpl. auto.
Qed.
(* the nodes of an updated tree: on the way down to the update, the updated node and what is below it, or untouched *)
Lemma subnodes_update_in' : forall p f t c, get_in p t = Some c ->
  forall n', In n' (subnodes (update_in p f t)) ->
  (exists pre rest, p = pre ++ rest /\ rest <> [] /\ get_in pre (update_in p f t) = Some n') \/ In n' (subnodes (f c)) \/ In n' (subnodes t).
Proof.
  induction p; intros f t c G n' I.
  - simpl in *. inv G. auto.
  - destruct t as [l|j kd pa0 pt0 fl0 its0]; simpl in G; [discriminate|].
    destruct (assoc a its0) as [c0|] eqn:A; [|discriminate].
    simpl in I. destruct I as [E|I].
    + left. exists [], (a :: p). simpl. split; auto. split; [discriminate|]. congruence.
    + apply in_flat_map in I. destruct I as [kv [I1 I2]]. apply in_map_assoc in I1. destruct I1 as [I1|(c1 & A1 & E1)].
      * right. right. simpl. right. apply in_flat_map. exists kv. auto.
      * rewrite A in A1. inv A1. rewrite E1 in I2. simpl in I2.
        destruct (IHp f c1 c G n' I2) as [(pre & rest & E & NE & GI)|[X|X]]; auto.
        -- left. exists (a :: pre), rest. subst p. split; auto. split; auto. simpl. rewrite (assoc_map_assoc _ _ _ _ _ A). auto.
        -- right. right. simpl. right. destruct (assoc_in _ _ _ _ A) as (k' & _ & I3). apply in_flat_map. exists (k', c1). auto.
Qed.

(* --- List._on_change along the chain (fix_chain) -------------------------------------------------------------------------------------------------------- *)
Lemma chain_at_intro : forall st r pre rest n, get_at st (r, pre) = Some n -> In n (chain_at st (r, pre ++ rest)).
Proof.
  intros. unfold chain_at. simpl. apply in_flat_map. exists pre. split.
  unfold prefixes_desc. apply -> in_rev. apply in_inits. eauto. rewrite H. simpl. auto.
Qed.
Lemma chain_at_self : forall st r p n, get_at st (r, p) = Some n -> In n (chain_at st (r, p)).
Proof. intros. rewrite <- (app_nil_r p). apply chain_at_intro. auto. Qed.
Lemma inits_snoc : forall A (p : list A) k, inits (p ++ [k]) = inits p ++ [p ++ [k]].
Proof. induction p; simpl; intros; auto. rewrite IHp. rewrite map_app. auto. Qed.
Lemma prefixes_desc_snoc : forall p k, prefixes_desc (p ++ [k]) = (p ++ [k]) :: prefixes_desc p.
Proof. intros. unfold prefixes_desc. rewrite inits_snoc, rev_app_distr. auto. Qed.
Lemma fix_chain_snoc : forall st r p k, fix_chain st (r, p ++ [k]) = fix_chain (update_at st (r, p ++ [k]) purge_list) (r, p).
Proof. intros. unfold fix_chain. simpl. rewrite prefixes_desc_snoc. auto. Qed.
Lemma nid_purge : forall x, nid0 (purge_list x) = nid0 x.
Proof. destruct x; auto. destruct k; auto. Qed.
Lemma filter_good : forall st (g : key * node -> bool) l, Forall (child_good st) l -> Forall (child_good st) (filter g l).
Proof. induction l; simpl; intros; auto. inv H. destruct (g a); auto. Qed.

Lemma live_update_at' : forall st r p f c, get_at st (r, p) = Some c ->
  forall n', In n' (live_nodes (update_at st (r, p) f)) ->
  (exists pre rest, p = pre ++ rest /\ rest <> [] /\ get_at (update_at st (r, p) f) (r, pre) = Some n') \/
  In n' (subnodes (f c)) \/ In n' (live_nodes st).
Proof.
  intros. unfold update_at, get_at in *. simpl in *. destruct (get_root st r) as [t|] eqn:R; [|discriminate].
  apply live_set_root_live in H0. destruct H0 as [H0|H0]; auto.
  destruct (subnodes_update_in' _ f _ _ H _ H0) as [(pre & rest & E & NE & G)|[X|X]]; auto.
  - left. exists pre, rest. split; auto. split; auto.
    assert (L : (r < length (roots st))%nat). { unfold get_root in R. destruct (nth_error (roots st) r) eqn:E2; [|discriminate]. apply nth_error_Some. congruence. }
    unfold set_root, get_root. simpl.
    assert (N : nth_error (set_nth r (Live (update_in p f t)) (roots st)) r = Some (Live (update_in p f t))).
    { clear - L. revert r L. induction (roots st); destruct r; simpl; intros; auto; try lia. apply IHl. lia. }
    rewrite N. auto.
  - right. right. eapply live_root; eauto.
Qed.
Lemma update_at_none : forall st r p f, get_at st (r, p) = None -> forall n', In n' (live_nodes (update_at st (r, p) f)) -> In n' (live_nodes st).
Proof.
  intros. unfold update_at, get_at in *. simpl in *. destruct (get_root st r) as [t|] eqn:R; auto.
  rewrite ids_update_in_none in H0 by auto. apply live_set_root_live in H0. destruct H0; auto. eapply live_root; eauto.
Qed.

Lemma purge_step_frame : forall st r p, FR st (update_at st (r, p) purge_list) (map nid0 (chain_at st (r, p))).
Proof.
  intros. split. rewrite next_update_at. lia. intros n' I.
  destruct (get_at st (r, p)) as [c|] eqn:G.
  - destruct (live_update_at' _ _ _ purge_list _ G _ I) as [(pre & rest & E & NE & GA)|[X|X]].
    + left. subst p. pose proof (get_at_update_at_prefix st r pre rest purge_list) as Y. rewrite GA in Y.
      destruct (get_at st (r, pre)) as [m|] eqn:GM; simpl in Y; [|discriminate]. injection Y as Y.
      rewrite nid_update_in in Y by apply nid_purge. rewrite Y. apply in_map. apply chain_at_intro. auto.
    + destruct c as [l|i k pa pt fl its]. { simpl in X. contradiction. }
      destruct k; simpl in X.
      * destruct X as [X|X]. left. subst n'. apply in_map. apply chain_at_self. auto.
        right. apply good_live. eapply live_sub. eapply get_at_live; eauto. simpl. auto.
      * destruct X as [X|X]. left. subst n'. change (nid0 (Node i KList pa pt fl _)) with (nid0 (Node i KList pa pt fl its)).
        apply in_map. apply chain_at_self. auto.
        right. eapply items_nodes_good; [|exact X]. apply renum_good. apply filter_good. eapply children_good; eauto.
      * destruct X as [X|X]. left. subst n'. apply in_map. apply chain_at_self. auto.
        right. apply good_live. eapply live_sub. eapply get_at_live; eauto. simpl. auto.
    + right. apply good_live. auto.
  - right. apply good_live. eapply update_at_none; eauto.
Qed.
Lemma chain_at_prefix_incl : forall st r p k, incl (map nid0 (chain_at st (r, p))) (map nid0 (chain_at st (r, p ++ [k]))).
Proof.
  intros st r p k i I. apply in_map_iff in I. destruct I as [n [E I]]. subst i. apply in_map.
  apply chain_at_in in I. destruct I as (pre & rest & E & G). subst p. rewrite <- app_assoc. apply chain_at_intro. auto.
Qed.
Theorem fix_chain_frame : forall p st r, FR st (fix_chain st (r, p)) (map nid0 (chain_at st (r, p))).
Proof.
  induction p using rev_ind; intros.
  - unfold fix_chain. simpl. apply purge_step_frame.
  - rewrite fix_chain_snoc.
    eapply FR_mono. eapply FR_trans. apply purge_step_frame. apply IHp.
    intros i I. apply in_app_or in I. destruct I as [I|I]; auto.
    rewrite (chain_ids_update_at st r p [x] purge_list nid_purge) in I. apply chain_at_prefix_incl. auto.
Qed.

(* --- the written container stays where it is ---------------------------------------------------------------------------------------------------------------- *)
Lemma get_root_restore : forall i t rs rs' r x, restore_slot i t rs = Some rs' -> nth_error rs r = Some (Live x) -> nth_error rs' r = Some (Live x).
Proof.
  induction rs as [|[y|j] rs IH]; simpl; intros; try discriminate.
  - destruct (restore_slot i t rs) eqn:E; [|discriminate]. inv H. destruct r; simpl in *; eauto.
  - destruct (N.eqb i j).
    + inv H. destruct r; simpl in *; auto. discriminate.
    + destruct (restore_slot i t rs) eqn:E; [|discriminate]. inv H. destruct r; simpl in *; eauto.
Qed.
Lemma get_at_add_detached : forall st old ps x, get_at st ps = Some x -> get_at (add_detached st old) ps = Some x.
Proof.
  intros. unfold add_detached. destruct old as [l|i k pa pt fl its]; auto.
  unfold get_at, get_root in *. destruct (nth_error (roots st) (fst ps)) as [[t|]|] eqn:E; try discriminate.
  destruct (restore_slot i (detach (Node i k pa pt fl its)) (roots st)) as [rs|] eqn:R; simpl.
  - rewrite (get_root_restore _ _ _ _ _ _ R E). auto.
  - rewrite nth_error_app1. rewrite E. auto. apply nth_error_Some. congruence.
Qed.
Lemma get_at_update_at_same : forall st cp f c, get_at st cp = Some c -> get_at (update_at st cp f) cp = Some (f c).
Proof.
  intros st [r p] f c H. unfold update_at, get_at in *. simpl in *. destruct (get_root st r) as [t|] eqn:R; [|discriminate].
  assert (L : (r < length (roots st))%nat). { unfold get_root in R. destruct (nth_error (roots st) r) eqn:E2; [|discriminate]. apply nth_error_Some. congruence. }
  unfold set_root, get_root. simpl.
  assert (N : nth_error (set_nth r (Live (update_in p f t)) (roots st)) r = Some (Live (update_in p f t))).
  { clear - L. revert r L. induction (roots st); destruct r; simpl; intros; auto; try lia. apply IHl. lia. }
  rewrite N. apply get_in_update_in. auto.
Qed.

Section Stays.
Variable q : quirks.
Local Open Scope Z_scope.
Definition stays (st' : state) (cp : pos) (cid : N) (ck : kind) (pa : option N) (pt : list key) (fl : flags) : Prop :=
  exists its', get_at st' cp = Some (Node cid ck pa pt fl its').
Lemma stays_replace : forall st st1 cp cid ck pa pt fl its its',
  get_at st cp = Some (Node cid ck pa pt fl its) -> get_root st1 (fst cp) = get_root st (fst cp) ->
  stays (update_at st1 cp (set_items its')) cp cid ck pa pt fl.
Proof.
  intros. assert (G1 : get_at st1 cp = Some (Node cid ck pa pt fl its)) by (unfold get_at in *; rewrite H0; auto).
  exists its'. rewrite (get_at_update_at_same _ _ _ _ G1). auto.
Qed.
Lemma stays_detached : forall st2 old cp cid ck pa pt fl, stays st2 cp cid ck pa pt fl -> stays (add_detached st2 old) cp cid ck pa pt fl.
Proof. intros st2 old cp cid ck pa pt fl [its' G]. exists its'. apply get_at_add_detached. auto. Qed.

Lemma lprim_stays : forall sc st cp k rv st' p cid ck pa pt fl its,
  WFI st -> rv_ok rv -> lprim q sc st cp k rv = (st', p) -> get_at st cp = Some (Node cid ck pa pt fl its) -> stays st' cp cid ck pa pt fl.
Proof.
  intros sc st cp k rv st' p cid ck pa pt cfl its (W & I) OK L G.
  assert (S0 : stays st cp cid ck pa pt cfl) by (exists its; auto).
  unfold lprim in L. rewrite G in L.
  destruct ck; try (inv L; exact S0).
  destruct (container_facts _ _ _ _ _ _ _ _ W G) as (Ept & K & F). simpl in K.
  destruct k as [s|z]; [inv L; exact S0|].
  destruct ((z >=? zlen its) && is_missing_rv rv); [inv L; exact S0|].
  set (n := zlen its) in *.
  set (idx0 := if z >=? n then n else z) in *.
  destruct (match rv with RIns v' => (true, v') | _ => (false, rv) end) as [ins v] eqn:IV.
  assert (OKv : rv_ok v). { destruct rv; inv IV; simpl in *; auto. }
  set (idx := if idx0 <? 0 then if idx0 >=? - n then idx0 + n else if ins then 0 else idx0 else idx0) in *.
  destruct ((idx <? n) && negb ins) eqn:C1.
  - destruct (idx <? 0) eqn:C2; [inv L; exact S0|].
    destruct (nth_error its (Z.to_nat idx)) as [[k0 old]|] eqn:NE; [|inv L; exact S0].
    destruct (same_obj old v) eqn:SO; [inv L; exact S0|].
    destruct (formalize q sc st (fst cp) KList cid cfl (pt ++ [KI idx]) false v) as [nw st1] eqn:FO.
    assert (NC : false = false -> not_current its (KI idx) v).
    { intros _. eapply same_obj_not_current_nth; eauto. lia. }
    destruct (formalize_ids _ _ _ _ _ _ _ _ _ _ _ _ _ _ _ W I OKv G NC FO) as (L1 & R1 & _).
    inv L. apply stays_detached. eapply stays_replace; eauto.
  - destruct (formalize q sc st (fst cp) KList cid cfl (pt ++ [KI idx]) ins v) as [nw st1] eqn:FO.
    assert (NC : ins = false -> not_current its (KI idx) v).
    { intros E i _. subst ins. rewrite andb_true_r in C1.
      rewrite positions_assoc_none with (i := 0); auto. right. unfold n in *. lia. }
    destruct (formalize_ids _ _ _ _ _ _ _ _ _ _ _ _ _ _ _ W I OKv G NC FO) as (L1 & R1 & _).
    destruct (idx <? n); inv L; eapply stays_replace; eauto.
Qed.
Lemma dprim_stays : forall sc st cp k rv st' p cid ck pa pt fl its,
  WFI st -> rv_ok rv -> dprim q sc st cp k rv = (st', p) -> get_at st cp = Some (Node cid ck pa pt fl its) -> stays st' cp cid ck pa pt fl.
Proof.
  intros sc st cp k rv st' p cid ck pa pt cfl its (W & I) OK L G.
  assert (S0 : stays st cp cid ck pa pt cfl) by (exists its; auto).
  unfold dprim in L. rewrite G in L.
  destruct ck; try (inv L; exact S0).
  set (old := match assoc k its with Some o => o | None => Leaf LMissing end) in *.
  destruct (same_obj old rv) eqn:SO; [inv L; exact S0|].
  destruct (is_missing_rv rv).
  - inv L. apply stays_detached. eapply stays_replace; eauto.
  - destruct (formalize q sc st (fst cp) KDict cid cfl (pt ++ [k]) false rv) as [nw st1] eqn:FO.
    assert (NC : false = false -> not_current its k rv).
    { intros _ i E. subst rv. unfold old in SO. destruct (assoc k its) as [[|j]|]; auto. simpl in SO.
      apply N.eqb_neq in SO; auto. }
    destruct (formalize_ids _ _ _ _ _ _ _ _ _ _ _ _ _ _ _ W I OK G NC FO) as (L1 & R1 & _).
    inv L. apply stays_detached. eapply stays_replace; eauto.
Qed.
Lemma oprim_stays : forall sc st cp k rv st' p cid ck pa pt fl its,
  WFI st -> rv_ok rv -> oprim q sc st cp k rv = (st', p) -> get_at st cp = Some (Node cid ck pa pt fl its) -> stays st' cp cid ck pa pt fl.
Proof.
  intros sc st cp k rv st' p cid ck pa pt cfl its (W & I) OK L G.
  assert (S0 : stays st cp cid ck pa pt cfl) by (exists its; auto).
  unfold oprim in L. rewrite G in L.
  destruct ck; try (inv L; exact S0).
  destruct (assoc k its) as [old|] eqn:A; [|destruct (is_missing_rv rv); inv L; exact S0].
  destruct (same_obj old rv) eqn:SO; [inv L; exact S0|].
  destruct (is_missing_rv rv).
  - inv L. apply stays_detached. eapply stays_replace; eauto.
  - destruct (formalize q sc st (fst cp) (KObj cls) cid cfl (pt ++ [k]) false rv) as [nw st1] eqn:FO.
    assert (NC : false = false -> not_current its k rv).
    { intros _ i E. subst rv. rewrite A. destruct old as [|j]; auto. simpl in SO. apply N.eqb_neq in SO; auto. }
    destruct (formalize_ids _ _ _ _ _ _ _ _ _ _ _ _ _ _ _ W I OK G NC FO) as (L1 & R1 & _).
    inv L. apply stays_detached. eapply stays_replace; eauto.
Qed.
Lemma prim_stays : forall sc st cp k rv st' p cid ck pa pt fl its,
  WFI st -> rv_ok rv -> prim q sc st cp k rv = (st', p) -> get_at st cp = Some (Node cid ck pa pt fl its) -> stays st' cp cid ck pa pt fl.
Proof.
  intros. unfold prim in H1. rewrite H2 in H1. destruct ck; eauto using lprim_stays, dprim_stays, oprim_stays.
Qed.
End Stays.

(* JsonStrProofs.v — the string form: int-key encoding and the JSON text layer. *)
From PG Require Import Common.Tactics Model.Json Proofs.JsonProofs.
From Coq Require Import NArith Decimal DecimalZ DecimalPos.
Local Open Scope Z_scope.

(* --- str(int) / int(str) ---------------------------------------------------------------------- *)
Lemma str_uint_uint_str : forall u, str_uint (uint_str u) = Some u.
Proof. induction u; simpl; try reflexivity; rewrite IHu; reflexivity. Qed.

Lemma uint_str_head_digit : forall u, u <> Nil ->
  exists c r, uint_str u = c :: r /\ N.eqb c 45 = false /\ N.eqb c 43 = false.
Proof. destruct u; intro H; [contradiction | ..]; simpl; eexists; eexists; (split; [reflexivity | split; reflexivity]). Qed.

Lemma to_int_nonnil : forall z, match Z.to_int z with Pos u => u <> Nil | Neg u => u <> Nil end.
Proof.
  destruct z; simpl; [discriminate | apply Unsigned.to_uint_nonnil | apply Unsigned.to_uint_nonnil].
Qed.

Lemma parse_int_int_str : forall z, parse_int (int_str z) = Some z.
Proof.
  intro z. unfold int_str. pose proof (DecimalZ.of_to z) as Hz. pose proof (to_int_nonnil z) as Hn.
  destruct (Z.to_int z) as [u|u].
  - destruct (uint_str_head_digit u Hn) as [c [r [E [H1 H2]]]].
    unfold parse_int. rewrite E. rewrite H1, H2. rewrite <- E. rewrite str_uint_uint_str. simpl. simpl in Hz. congruence.
  - destruct (uint_str_head_digit u Hn) as [c [r [E _]]].
    unfold parse_int. simpl. rewrite E. rewrite <- E. rewrite str_uint_uint_str. simpl. simpl in Hz. congruence.
Qed.

Lemma int_str_inj : forall a b, int_str a = int_str b -> a = b.
Proof.
  intros a b H. pose proof (parse_int_int_str a) as Ha. rewrite H in Ha. rewrite parse_int_int_str in Ha. congruence.
Qed.

Lemma strip_prefix_app : forall p r, strip_prefix p (p ++ r) = Some r.
Proof. induction p; simpl; intro r; [reflexivity|]. rewrite N.eqb_refl. apply IHp. Qed.
Lemma strip_prefix_some : forall p s r, strip_prefix p s = Some r -> s = p ++ r.
Proof.
  induction p as [|c p IH]; simpl; intros s r H; [congruence|].
  destruct s as [|d s]; [discriminate|]. destruct (N.eqb c d) eqn:E; [|discriminate].
  apply N.eqb_eq in E. subst. f_equal. apply IH. assumption.
Qed.

(* --- keys ------------------------------------------------------------------------------------------- *)
Lemma key_str_ok_KS : forall s, key_str_ok (KS s) = true -> strip_prefix s_nprefix s = None /\ no_surrogate_pair s = true.
Proof.
  intros s H. unfold key_str_ok in H. apply andb_true_iff in H. destruct H as [H1 H2].
  split; [|assumption]. destruct (strip_prefix s_nprefix s); [discriminate | reflexivity].
Qed.

Lemma decode_encode_key : forall k, key_str_ok k = true -> decode_key (encode_key k) = Ok k.
Proof.
  destruct k as [s|z|b]; intro H; [| |discriminate].
  - apply key_str_ok_KS in H. destruct H as [H _]. unfold encode_key, decode_key. rewrite H. reflexivity.
  - unfold encode_key, decode_key. rewrite strip_prefix_app. rewrite parse_int_int_str. reflexivity.
Qed.

Lemma key_eqb_sym : forall a b, key_eqb a b = key_eqb b a.
Proof.
  destruct a as [s|z|x], b as [t|w|y]; unfold key_eqb, key_int; try reflexivity; try apply str_eqb_sym; apply Z.eqb_sym.
Qed.

Lemma encode_key_eqb : forall a b, key_str_ok a = true -> key_str_ok b = true ->
  key_eqb (encode_key a) (encode_key b) = key_eqb a b.
Proof.
  destruct a as [s|z|x], b as [t|w|y]; intros Ha Hb; try discriminate; try reflexivity.
  - (* KS, KI *) unfold encode_key, key_eqb. apply key_str_ok_KS in Ha. destruct Ha as [Ha _].
    apply str_eqb_neq. intro E. subst s. rewrite strip_prefix_app in Ha. discriminate.
  - (* KI, KS *) unfold encode_key, key_eqb. apply key_str_ok_KS in Hb. destruct Hb as [Hb _].
    apply str_eqb_neq. intro E. subst t. rewrite strip_prefix_app in Hb. discriminate.
  - (* KI, KI *) unfold encode_key, key_eqb, key_int. destruct (Z.eqb z w) eqn:E.
    + apply Z.eqb_eq in E. subst. apply str_eqb_refl.
    + apply str_eqb_neq. intro H. apply app_inv_head in H. apply int_str_inj in H. subst. rewrite Z.eqb_refl in E. discriminate.
Qed.

(* --- dict comprehensions over distinct keys -------------------------------------------------------- *)
Section Dicts.
  Context {V : Type}.
  Implicit Types d : list (key * V).

  Lemma lookup_app_none : forall k d1 d2, lookup k d1 = None -> lookup k (d1 ++ d2) = lookup k d2.
  Proof.
    induction d1 as [|[k' v] d1 IH]; simpl; intros d2 H; [reflexivity|].
    destruct (key_eqb k k'); [discriminate | auto].
  Qed.
  Lemma dict_set_new : forall d k (v : V), lookup k d = None -> dict_set d k v = d ++ [(k, v)].
  Proof.
    induction d as [|[k' v'] d IH]; simpl; intros k v H; [reflexivity|].
    destruct (key_eqb k k'); [discriminate|]. rewrite IH by assumption. reflexivity.
  Qed.
  (* no key of d1 equals k *)
  Lemma keys_nodup_app_lookup : forall d1 k (v : V) d2, keys_nodup (d1 ++ (k, v) :: d2) = true -> lookup k d1 = None.
  Proof.
    induction d1 as [|[k' v'] d1 IH]; simpl; intros k v d2 H; [reflexivity|].
    apply andb_true_iff in H. destruct H as [H1 H2]. apply negb_true_iff in H1.
    unfold has_key in H1.
    destruct (key_eqb k k') eqn:E.
    - exfalso. rewrite lookup_app_none in H1.
      + simpl in H1. rewrite key_eqb_sym in E. rewrite E in H1. discriminate.
      + destruct (lookup k' d1) eqn:E2; [|reflexivity].
        destruct (lookup k' (d1 ++ (k, v) :: d2)) eqn:E3; [discriminate|].
        clear - E2 E3. induction d1 as [|[a b] d1 IH]; simpl in *; [discriminate|].
        destruct (key_eqb k' a); [discriminate | auto].
    - eapply IH. eassumption.
  Qed.
  Lemma fold_set_nodup : forall l acc, keys_nodup (acc ++ l) = true ->
    fold_left (fun d (kv : key * V) => dict_set d (fst kv) (snd kv)) l acc = acc ++ l.
  Proof.
    induction l as [|[k v] l IH]; simpl; intros acc H; [rewrite app_nil_r; reflexivity|].
    rewrite dict_set_new by (eapply keys_nodup_app_lookup; eassumption).
    rewrite IH; rewrite <- app_assoc; simpl; [reflexivity | assumption].
  Qed.
  Lemma dict_of_pairs_nodup : forall (l : list (key * V)), keys_nodup l = true -> dict_of_pairs l = l.
  Proof. intros l H. unfold dict_of_pairs. apply (fold_set_nodup l []). assumption. Qed.
End Dicts.

Lemma has_key_map_values : forall {V W} (h : V -> W) k (d : list (key * V)),
  has_key k (map (fun kv => (fst kv, h (snd kv))) d) = has_key k d.
Proof. intros. unfold has_key. rewrite lookup_map_values. destruct (lookup k d); reflexivity. Qed.
Lemma keys_nodup_map_values : forall {V W} (h : V -> W) (d : list (key * V)),
  keys_nodup (map (fun kv => (fst kv, h (snd kv))) d) = keys_nodup d.
Proof.
  induction d as [|[k v] d IH]; simpl; [reflexivity|]. rewrite IH.
  rewrite (has_key_map_values h k d). reflexivity.
Qed.

Lemma has_key_encode : forall {V W} (h : V -> W) k (d : list (key * V)),
  key_str_ok k = true -> forallb (fun kv => key_str_ok (fst kv)) d = true ->
  has_key (encode_key k) (map (fun kv => (encode_key (fst kv), h (snd kv))) d) = has_key k d.
Proof.
  induction d as [|[k' v] d IH]; intros Hk Hd; [reflexivity|].
  simpl in Hd. apply andb_true_iff in Hd. destruct Hd as [Hk' Hd].
  unfold has_key in *. simpl. rewrite encode_key_eqb by assumption.
  destruct (key_eqb k k'); [reflexivity | apply IH; assumption].
Qed.
Lemma keys_nodup_encode : forall {V W} (h : V -> W) (d : list (key * V)),
  forallb (fun kv => key_str_ok (fst kv)) d = true ->
  keys_nodup (map (fun kv => (encode_key (fst kv), h (snd kv))) d) = keys_nodup d.
Proof.
  induction d as [|[k v] d IH]; intro Hd; [reflexivity|].
  simpl in Hd. apply andb_true_iff in Hd. destruct Hd as [Hk Hd].
  simpl. rewrite IH by assumption. rewrite (has_key_encode h k d) by assumption. reflexivity.
Qed.

(* --- decode_keys (encode_keys j) = j -------------------------------------------------------------- *)
(* JSON trees on which the key encoding is reversible and whose text survives json.dumps / json.loads *)
Fixpoint jv_ok (j : jv) : bool :=
  match j with
  | JStr s => no_surrogate_pair s
  | JList l => forallb jv_ok l
  | JDict d => keys_nodup d && forallb (fun kv => key_str_ok (fst kv) && jv_ok (snd kv)) d
  | _ => true
  end.

Lemma forallb_and_l : forall {A} (p r : A -> bool) l, forallb (fun x => p x && r x) l = true -> forallb p l = true.
Proof.
  intros A p r l H. apply forallb_forall. intros x Hx. rewrite forallb_forall in H. specialize (H x Hx).
  apply andb_true_iff in H. tauto.
Qed.

Lemma encode_dict_eq : forall d, jv_ok (JDict d) = true ->
  encode_keys (JDict d) = JDict (map (fun kv => (encode_key (fst kv), encode_keys (snd kv))) d).
Proof.
  intros d H. simpl in H. apply andb_true_iff in H. destruct H as [H1 H2].
  simpl. rewrite dict_of_pairs_nodup; [reflexivity|].
  rewrite (keys_nodup_encode encode_keys d); [assumption|].
  eapply forallb_and_l. exact H2.
Qed.

Lemma decode_encode : forall j, jv_ok j = true -> decode_keys (encode_keys j) = Ok j.
Proof.
  induction j as [| | | | |l IH|d IH] using jv_ind'; intro H; try reflexivity; rewrite Forall_forall in IH.
  - simpl in H. rewrite forallb_forall in H. simpl. rewrite mapM_map.
    rewrite (mapM_ok_in _ (fun x => x)); [rewrite map_id; reflexivity|]. auto.
  - rewrite encode_dict_eq by assumption.
    simpl in H. apply andb_true_iff in H. destruct H as [H1 H2]. rewrite forallb_forall in H2.
    simpl. rewrite mapM_map. simpl.
    rewrite (mapM_ok_in _ (fun x => x)).
    + simpl. rewrite map_id. rewrite dict_of_pairs_nodup by assumption. reflexivity.
    + intros [k x] Hx. specialize (H2 _ Hx). simpl in H2. apply andb_true_iff in H2. destruct H2 as [Hk Hv].
      simpl. rewrite decode_encode_key by assumption. simpl.
      pose proof (IH _ Hx Hv) as E. simpl in E. rewrite E. reflexivity.
Qed.

(* --- the JSON tree of a value in the domain is in the domain ----------------------------------------- *)
Lemma keys_nodup_KS : forall (fs : list (str * pv)), str_nodup (map fst fs) = true ->
  keys_nodup (map (fun kv => (KS (fst kv), to_json (snd kv))) fs) = true.
Proof.
  induction fs as [|[f v] fs IH]; simpl; intro H; [reflexivity|].
  apply andb_true_iff in H. destruct H as [H1 H2]. rewrite IH by assumption. rewrite andb_true_r.
  apply negb_true_iff. apply negb_true_iff in H1.
  clear - H1. induction fs as [|[g w] fs IH]; [reflexivity|].
  simpl in H1. apply orb_false_iff in H1. destruct H1 as [Ha Hb].
  unfold has_key. simpl. rewrite Ha. apply IH. assumption.
Qed.
Lemma has_type_key_KS : forall (fs : list (str * pv)), smem s_type (map fst fs) = false ->
  has_key (KS s_type) (map (fun kv => (KS (fst kv), to_json (snd kv))) fs) = false.
Proof.
  induction fs as [|[g w] fs IH]; [reflexivity|]. intro H.
  simpl in H. apply orb_false_iff in H. destruct H as [Ha Hb].
  unfold has_key. simpl. unfold s_type in Ha. rewrite Ha. apply IH. assumption.
Qed.

Section StringForm.
  Variable ct : classtab.
  Hypothesis Hct : ct_ok ct = true.

  Lemma jv_ok_to_json : forall v, ser_ok ct v = true -> str_ok v = true -> jv_ok (to_json v) = true.
  Proof.
    induction v as [| | | | s|l IH|l IH|d IH|c fs IH] using pv_ind'; intros H Hs; try reflexivity;
      try rewrite Forall_forall in IH.
    - exact Hs.
    - simpl in *. apply andb_true_iff in H. destruct H as [_ H]. rewrite forallb_forall in *.
      intros x Hx. apply in_map_iff in Hx. destruct Hx as [y [Ey Hy]]. subst. auto.
    - simpl in *. rewrite forallb_forall in *.
      intros x Hx. apply in_map_iff in Hx. destruct Hx as [y [Ey Hy]]. subst. auto.
    - simpl in *. apply andb_true_iff in H. destruct H as [H12 H3]. apply andb_true_iff in H12. destruct H12 as [H1 H2].
      rewrite keys_nodup_map_values. rewrite H2. simpl.
      rewrite forallb_forall in *. intros x Hx. apply in_map_iff in Hx. destruct Hx as [[k y] [Ey Hy]]. subst. simpl.
      specialize (Hs _ Hy). simpl in Hs. apply andb_true_iff in Hs. destruct Hs as [Hk Hv]. rewrite Hk. simpl.
      apply (IH _ Hy); [apply (H3 _ Hy) | exact Hv].
    - simpl in H. apply andb_true_iff in H. destruct H as [H1 H2].
      destruct (slookup c ct) as [fields|] eqn:El; [|discriminate].
      destruct (ct_ok_lookup _ _ _ Hct El) as [Hsp [Hty Hnd]].
      apply strs_eqb_eq in H1. subst fields.
      simpl in Hs. apply andb_true_iff in Hs. destruct Hs as [Hc Hs].
      change (to_json (PObj c fs)) with (JDict ((KS s_type, JStr c) :: map (fun kv => (KS (fst kv), to_json (snd kv))) fs)).
      unfold jv_ok; fold jv_ok. apply andb_true_iff. split.
      + simpl. rewrite keys_nodup_KS by assumption. rewrite has_type_key_KS by assumption. reflexivity.
      + simpl. rewrite Hc. simpl. rewrite forallb_forall in *.
        intros x Hx. apply in_map_iff in Hx. destruct Hx as [[f y] [Ey Hy]]. subst. simpl.
        specialize (Hs _ Hy). simpl in Hs. apply andb_true_iff in Hs. destruct Hs as [Hk Hv]. 
        unfold key_str_ok in Hk. rewrite Hk. simpl.
        apply (IH _ Hy); [apply (H2 _ Hy) | exact Hv].
  Qed.

  Theorem sj_roundtrip_general : forall q v, ser_ok ct v = true -> str_ok v = true ->
    (q_empty_tuple q = false \/ no_empty_tuple v = true) -> of_sj q ct (to_sj v) = Ok v.
  Proof.
    intros q v H Hs Ht. unfold of_sj, to_sj. rewrite decode_encode by (apply jv_ok_to_json; assumption).
    simpl. apply json_roundtrip_general; assumption.
  Qed.
End StringForm.

(* --- the text layer ------------------------------------------------------------------------------------ *)
Lemma no_pair_small : forall s, Forall (fun c => (c < 55296)%N) s -> no_surrogate_pair s = true.
Proof.
  induction 1 as [|c s Hc Hs IH]; [reflexivity|].
  simpl. rewrite IH. rewrite andb_true_r. destruct s; [reflexivity|].
  apply negb_true_iff. unfold is_high. apply andb_false_iff. left. apply andb_false_iff. left. apply N.leb_gt. exact Hc.
Qed.
Lemma uint_str_small : forall u, Forall (fun c => (c < 55296)%N) (uint_str u).
Proof. induction u; simpl; constructor; try assumption; reflexivity. Qed.
Lemma int_str_small : forall z, Forall (fun c => (c < 55296)%N) (int_str z).
Proof.
  intro z. unfold int_str. destruct (Z.to_int z); [apply uint_str_small|]. constructor; [reflexivity | apply uint_str_small].
Qed.
Lemma encode_key_text_ok : forall k, key_str_ok k = true ->
  match encode_key k with KS s => no_surrogate_pair s | _ => false end = true.
Proof.
  destruct k as [s|z|b]; intro H; [| |discriminate].
  - apply key_str_ok_KS in H. simpl. tauto.
  - unfold encode_key. apply no_pair_small. unfold s_nprefix. simpl. repeat (constructor; [reflexivity|]). apply int_str_small.
Qed.

Lemma sj_ok_encode : forall j, jv_ok j = true -> sj_ok (encode_keys j) = true.
Proof.
  induction j as [| | | | |l IH|d IH] using jv_ind'; intro H; try reflexivity; try exact H; rewrite Forall_forall in IH.
  - simpl in *. rewrite forallb_forall in *. intros x Hx. apply in_map_iff in Hx. destruct Hx as [y [Ey Hy]]. subst. auto.
  - rewrite encode_dict_eq by assumption.
    simpl in H. apply andb_true_iff in H. destruct H as [H1 H2].
    simpl. rewrite (keys_nodup_encode encode_keys d) by (eapply forallb_and_l; exact H2). rewrite H1. simpl.
    rewrite forallb_forall in *. intros x Hx. apply in_map_iff in Hx. destruct Hx as [[k y] [Ey Hy]]. subst.
    specialize (H2 _ Hy). simpl in H2. apply andb_true_iff in H2. destruct H2 as [Hk Hv].
    cbn [fst snd]. rewrite encode_key_text_ok by assumption. simpl. apply (IH _ Hy). exact Hv.
Qed.

Section TextLayer.
  Variable text : Type.
  Variable dumps : jv -> text.
  Variable loads : text -> option jv.
  (* the assumed behaviour of Python's json module on what to_json_str hands to it *)
  Hypothesis loads_dumps : forall j, sj_ok j = true -> loads (dumps j) = Some j.

  Variable ct : classtab.
  Hypothesis Hct : ct_ok ct = true.

  Theorem str_roundtrip_general : forall q v, ser_ok ct v = true -> str_ok v = true ->
    (q_empty_tuple q = false \/ no_empty_tuple v = true) ->
    of_str text loads q ct (to_str text dumps v) = Ok v.
  Proof.
    intros q v H Hs Ht. unfold of_str, to_str.
    rewrite loads_dumps by (apply sj_ok_encode; apply (jv_ok_to_json ct Hct); assumption).
    apply sj_roundtrip_general; assumption.
  Qed.
End TextLayer.

(* --- closed statements, witnesses ------------------------------------------------------------------------ *)
Definition q_none : quirks := {| q_empty_tuple := false |}.
Definition q_all : quirks := {| q_empty_tuple := true |}.

Theorem json_roundtrip_full : forall q ct v, no_quirks q -> ct_ok ct = true -> ser_ok ct v = true ->
  from_json q ct (to_json v) = Ok v.
Proof. intros q ct v Hq Hct H. apply json_roundtrip_general; [assumption | assumption | left; exact Hq]. Qed.

Theorem json_roundtrip_avoiding : forall q ct v, ct_ok ct = true -> ser_ok ct v = true -> no_empty_tuple v = true ->
  from_json q ct (to_json v) = Ok v.
Proof. intros q ct v Hct H Hn. apply json_roundtrip_general; [assumption | assumption | right; exact Hn]. Qed.

Theorem empty_tuple_rejected : forall q ct, q_empty_tuple q = true -> from_json q ct (to_json (PTuple [])) = Err EValue.
Proof. intros q ct H. unfold from_json. simpl. rewrite H. reflexivity. Qed.

Theorem to_json_injective : forall ct v w, ct_ok ct = true -> ser_ok ct v = true -> ser_ok ct w = true ->
  to_json v = to_json w -> v = w.
Proof.
  intros ct v w Hct Hv Hw E.
  pose proof (json_roundtrip_full q_none ct v eq_refl Hct Hv) as A.
  pose proof (json_roundtrip_full q_none ct w eq_refl Hct Hw) as B.
  rewrite E in A. rewrite A in B. congruence.
Qed.

Theorem str_roundtrip_full : forall (text : Type) (dumps : jv -> text) (loads : text -> option jv),
  (forall j, sj_ok j = true -> loads (dumps j) = Some j) ->
  forall q ct v, no_quirks q -> ct_ok ct = true -> ser_ok ct v = true -> str_ok v = true ->
  of_str text loads q ct (to_str text dumps v) = Ok v.
Proof. intros. apply str_roundtrip_general; auto. Qed.

Theorem str_roundtrip_avoiding : forall (text : Type) (dumps : jv -> text) (loads : text -> option jv),
  (forall j, sj_ok j = true -> loads (dumps j) = Some j) ->
  forall q ct v, ct_ok ct = true -> ser_ok ct v = true -> str_ok v = true -> no_empty_tuple v = true ->
  of_str text loads q ct (to_str text dumps v) = Ok v.
Proof. intros. apply str_roundtrip_general; auto. Qed.

(* the string form seen through to_json_str's own tree (no text layer): unconditional on json *)
Theorem sj_roundtrip_full : forall q ct v, no_quirks q -> ct_ok ct = true -> ser_ok ct v = true -> str_ok v = true ->
  of_sj q ct (to_sj v) = Ok v.
Proof. intros. apply sj_roundtrip_general; auto. Qed.

(* a class table and a value inside every hypothesis: {"a": [1, (2.5, "x")], 7: A(x=None, y={-3: True})} *)
Definition ex_ct : classtab := [([65%N], [[120%N]; [121%N]])].
Definition ex_value : pv :=
  PDict [(KS [97%N], PList [PInt 1; PTuple [PFloat (FFin 5 1); PStr [120%N]]]);
         (KI 7, PObj [65%N] [([120%N], PNone); ([121%N], PDict [(KI (-3), PBool true)])])].
Example ex_in_domain : ct_ok ex_ct = true /\ ser_ok ex_ct ex_value = true /\ str_ok ex_value = true /\ no_empty_tuple ex_value = true.
Proof. vm_compute. repeat split. Qed.
Example ex_roundtrips : from_json q_all ex_ct (to_json ex_value) = Ok ex_value /\ of_sj q_all ex_ct (to_sj ex_value) = Ok ex_value.
Proof. vm_compute. split; reflexivity. Qed.
Example ex_no_quirks : no_quirks q_none.
Proof. reflexivity. Qed.
(* a text layer satisfying the hypothesis exists: the identity *)
Example ex_text_layer : forall j, sj_ok j = true -> (fun t : jv => Some t) ((fun j : jv => j) j) = Some j.
Proof. reflexivity. Qed.

(* the reserved encodings: each exclusion of ser_ok / str_ok is necessary *)
Theorem marker_list_refuted :
  ser_ok ex_ct (PList [PStr s_marker; PInt 1]) = false /\
  from_json q_none ex_ct (to_json (PList [PStr s_marker; PInt 1])) = Ok (PTuple [PInt 1]).
Proof. vm_compute. split; reflexivity. Qed.
Theorem type_key_refuted :
  ser_ok ex_ct (PDict [(KS s_type, PStr [120%N])]) = false /\
  from_json q_none ex_ct (to_json (PDict [(KS s_type, PStr [120%N])])) = Err EType.
Proof. vm_compute. split; reflexivity. Qed.
Theorem duplicate_key_refuted :      (* not a Python dict: True == 1 *)
  ser_ok ex_ct (PDict [(KI 1, PNone); (KB true, PNone)]) = false.
Proof. reflexivity. Qed.
Theorem unregistered_class_refuted :
  ser_ok ex_ct (PObj [66%N] []) = false /\ from_json q_none ex_ct (to_json (PObj [66%N] [])) = Err EType.
Proof. vm_compute. split; reflexivity. Qed.
Theorem int_prefix_key_refuted :
  str_ok (PDict [(KS (s_nprefix ++ [49%N]), PNone)]) = false /\
  of_sj q_none ex_ct (to_sj (PDict [(KS (s_nprefix ++ [49%N]), PNone)])) = Ok (PDict [(KI 1, PNone)]).
Proof. vm_compute. split; reflexivity. Qed.
Theorem bool_key_refuted :
  str_ok (PDict [(KB true, PNone)]) = false /\
  of_sj q_none ex_ct (to_sj (PDict [(KB true, PNone)])) = Err EValue /\
  from_json q_none ex_ct (to_json (PDict [(KB true, PNone)])) = Ok (PDict [(KB true, PNone)]).
Proof. vm_compute. repeat split; reflexivity. Qed.

(* SymCoreC02RefStep.v -- operations whose argument is taken from the list itself: l.append(l[0]), l[1] = l[0][2], l.insert(0, l),
   through [step] (the argument is resolved against the state the call starts in, copied because it has a parent) and as histories
   mixed with the operations on plain arguments.  On the Python side the argument is what the path reads in the plain list at
   the time of the call. *)
From Coq Require Import ZArith NArith List Bool Lia.
Import ListNotations.
From PG Require Import Common.Tactics Model.SymCoreDefs Model.SymCoreOps Model.SymCoreSpec Model.SymCoreC02
     Proofs.SymCoreBase Proofs.SymCoreWF Proofs.SymCoreWFOps Proofs.SymCoreIds Proofs.SymCoreC08 Proofs.SymCoreC02Read
     Proofs.SymCoreC02Frame Proofs.SymCoreC02Prim Proofs.SymCoreC02List Proofs.SymCoreC02Items Proofs.SymCoreC02Step
     Proofs.SymCoreC02Rebind Proofs.SymCoreC02Nested Proofs.SymCoreC02Refs.
From PG Require Model.PyList Model.PyDict.
Local Open Scope Z_scope.

(* an operation of the mixed history: [rest] is the path below the list ([] is the list itself, [KI 0] is l[0], ...) *)
Inductive rop : Type :=
| RAppend (rest : list key) | RSet (i : Z) (rest : list key) | RInsert (i : Z) (rest : list key)
| RPlain (o : op value).
Definition rop_model (ps : pos) (r : rop) : op value :=
  match r with
  | RAppend rest => LAppend (VRef (fst ps, snd ps ++ rest))
  | RSet i rest => LSet i (VRef (fst ps, snd ps ++ rest))
  | RInsert i rest => LInsert i (VRef (fst ps, snd ps ++ rest))
  | RPlain o => o
  end.
(* values the erasure tells apart: not the MISSING_VALUE marker, not an opaque object *)
Definition visible_pv (v : pv) : bool :=
  match v with PLeaf LMissing | PLeaf (LOpq _ _) => false | _ => true end.
Definition self_value (l : list pv) (rest : list key) : option pv :=
  match pv_get rest (plist l) with Some v => if visible_pv v then Some v else None | None => None end.
Definition rop_py (l : list pv) (r : rop) : option (PyList.lop pv) :=
  match r with
  | RAppend rest => option_map (fun v => PyList.PLAppend v) (self_value l rest)
  | RSet i rest => option_map (fun v => PyList.PLSet i v) (self_value l rest)
  | RInsert i rest => option_map (fun v => PyList.PLInsert i v) (self_value l rest)
  | RPlain o => if vplain_lop o then vlop_of o else None
  end.

Definition ref_arg_v (o : op value) : option value :=
  match o with LAppend x | LSet _ x | LInsert _ x => Some x | _ => None end.
Definition vref_lop (o : op value) (v : pv) : option (PyList.lop pv) :=
  match o with
  | LAppend _ => Some (PyList.PLAppend v)
  | LSet i _ => Some (PyList.PLSet i v)
  | LInsert i _ => Some (PyList.PLInsert i v)
  | _ => None
  end.
Lemma resolve_ref_op : forall st o x rv v lo,
  ref_arg_v o = Some x -> resolve st x = Some rv -> vref_lop o v = Some lo ->
  exists ro, resolve_op st o = Some ro /\ ref_arg ro = Some rv /\ ref_lop ro v = Some lo /\ kind_ok KList o = true.
Proof.
  intros st o x rv v lo RA RS LO. destruct o; simpl in RA, LO; try discriminate; inv RA; inv LO.
  - exists (LSet i rv). simpl. rewrite RS. auto.
  - exists (LAppend rv). simpl. rewrite RS. auto.
  - exists (LInsert i rv). simpl. rewrite RS. auto.
Qed.

Section RefStep.
Variables (q : quirks) (ps : pos) (tid : N) (pa : option N) (fl : flags).
Hypothesis NQ : no_quirks q.

(* the value a path below the list reads: the reference resolves to it *)
Lemma self_resolves : forall st its rest v,
  WFI st -> at_is st ps tid KList pa fl its -> self_value (evals its) rest = Some v ->
  exists rv, resolve st (VRef (fst ps, snd ps ++ rest)) = Some rv /\ ref_value st rv v /\
             (forall old, tag_agree old rv) /\ (forall v', rv <> RIns v').
Proof.
  intros st its rest v W R SV. unfold self_value in SV.
  destruct (pv_get rest (plist (evals its))) as [v0|] eqn:PG; try discriminate.
  destruct (visible_pv v0) eqn:VS; inv SV.
  rewrite <- (erase_list_at st ps tid pa fl its (proj1 W) R) in PG. rewrite <- erase_get_in in PG.
  pose proof (get_at_app st (fst ps) (snd ps) rest _ (R : get_at st (fst ps, snd ps) = _)) as GA.
  destruct (get_in rest (Node tid KList pa (snd ps) fl its)) as [c|] eqn:GI; simpl in PG; inv PG.
  simpl. rewrite GA. destruct c as [l|i k cpa cpt cfl cits].
  - exists (RLeaf l). split; auto. split; [|split].
    + simpl. split; auto. intro; subst l. simpl in VS. discriminate.
    + intros old o t t' _ E. inv E. simpl in VS. discriminate.
    + discriminate.
  - exists (RNodeId i). split; auto. split; [|split].
    + simpl. exists (fst ps, snd ps ++ rest), (Node i k cpa cpt cfl cits). auto.
    + intros old o t t' _ E. discriminate.
    + discriminate.
Qed.

Theorem step_self_refines : forall st its sc r lo,
  WFI st -> at_is st ps tid KList pa fl its -> clean its -> anc_clean st ps -> permits sc fl ->
  rop_py (evals its) r = Some lo ->
  exists its',
    at_is (fst (step q st (mkSop sc ps (rop_model ps r)))) ps tid KList pa fl its' /\ clean its' /\
    anc_clean (fst (step q st (mkSop sc ps (rop_model ps r)))) ps /\
    evals its' = PyList.lstate pv_pyeq (evals its) lo /\
    out_class (snd (step q st (mkSop sc ps (rop_model ps r)))) (py_lstep (evals its) lo).
Proof.
  intros st its sc r lo W R C A PM PY.
  assert (PLAIN : forall o, r = RPlain o -> rop_py (evals its) r = Some lo -> exists its',
    at_is (fst (step q st (mkSop sc ps o))) ps tid KList pa fl its' /\ clean its' /\
    anc_clean (fst (step q st (mkSop sc ps o))) ps /\
    evals its' = PyList.lstate pv_pyeq (evals its) lo /\
    out_class (snd (step q st (mkSop sc ps o))) (py_lstep (evals its) lo)).
  { intros o E P. subst r. simpl in P. destruct (vplain_lop o) eqn:VP; try discriminate.
    destruct (step_list_refines q ps tid pa fl NQ st its sc o lo W R C A PM VP P) as (its1 & R1 & C1 & A1 & E1 & O1 & _).
    exists its1. auto. }
  assert (SELF : forall o rest v, rop_model ps r = o ->
    ref_arg_v o = Some (VRef (fst ps, snd ps ++ rest)) -> self_value (evals its) rest = Some v -> vref_lop o v = Some lo ->
    exists its',
      at_is (fst (step q st (mkSop sc ps o))) ps tid KList pa fl its' /\ clean its' /\
      anc_clean (fst (step q st (mkSop sc ps o))) ps /\
      evals its' = PyList.lstate pv_pyeq (evals its) lo /\
      out_class (snd (step q st (mkSop sc ps o))) (py_lstep (evals its) lo)).
  { intros o rest v _ RA SV LO.
    destruct (self_resolves st its rest v W R SV) as (rv & RS & RV & TA & NI).
    destruct (resolve_ref_op st o _ rv v lo RA RS LO) as (ro & RO & RA' & LO' & KO).
    assert (G : get_at st (o_pos (mkSop sc ps o)) = Some (Node tid KList pa (snd ps) fl its)) by exact R.
    rewrite (step_unfold q st _ tid KList pa (snd ps) fl its ro G KO RO). simpl.
    destruct (exec q sc st ps tid KList (snd ps) fl its ro) as [st1 out] eqn:E. simpl.
    pose proof (exec_list_ref_refines q sc ps tid pa fl st its ro rv v lo st1 out NQ W R C A PM RA' RV (fun _ old _ => TA old) LO' E) as H.
    pose proof (get_at_lt _ _ _ R) as LT.
    unfold PyList.lstate. fold (py_lstep (evals its) lo).
    destruct (py_lstep (evals its) lo) as [[l' ret]|e].
    - destruct H as [(its' & R' & C' & E' & A' & W') RT].
      exists its'. repeat split; auto.
      + apply get_at_gc; auto.
      + eapply anc_clean_gc; eauto.
      + destruct out; simpl; auto. destruct ret; simpl in RT; try contradiction; try discriminate;
          repeat match goal with H : exists _, _ |- _ => destruct H end; intuition discriminate.
    - destruct H as [ES EO]. subst. rewrite gc_same.
      exists its. repeat split; auto. }
  destruct r as [rest|i rest|i rest|o]; simpl in PY.
  - destruct (self_value (evals its) rest) as [v|] eqn:SV; inv PY. eapply SELF; eauto; reflexivity.
  - destruct (self_value (evals its) rest) as [v|] eqn:SV; inv PY. eapply SELF; eauto; reflexivity.
  - destruct (self_value (evals its) rest) as [v|] eqn:SV; inv PY. eapply SELF; eauto; reflexivity.
  - eapply PLAIN; eauto.
Qed.
End RefStep.

(* --- histories --------------------------------------------------------------------------------------------------------------- *)
Fixpoint rhist_ok (fl : flags) (l : list pv) (h : list (scope * rop)) : Prop :=
  match h with
  | [] => True
  | (sc, r) :: h' => permits sc fl /\ exists lo, rop_py l r = Some lo /\ rhist_ok fl (PyList.lstate pv_pyeq l lo) h'
  end.
Fixpoint rhist_py (l : list pv) (h : list (scope * rop)) : list pv :=
  match h with
  | [] => l
  | (_, r) :: h' => match rop_py l r with Some lo => rhist_py (PyList.lstate pv_pyeq l lo) h' | None => l end
  end.
Definition on_pos_r (ps : pos) (h : list (scope * rop)) : list sop := map (fun so => mkSop (fst so) ps (rop_model ps (snd so))) h.

Theorem history_self_refines : forall q ps tid pa fl, no_quirks q -> forall h st its,
  WFI st -> at_is st ps tid KList pa fl its -> clean its -> anc_clean st ps -> rhist_ok fl (evals its) h ->
  exists its', at_is (run_ops q st (on_pos_r ps h)) ps tid KList pa fl its' /\ clean its' /\ anc_clean (run_ops q st (on_pos_r ps h)) ps /\
               WFI (run_ops q st (on_pos_r ps h)) /\ evals its' = rhist_py (evals its) h.
Proof.
  intros q ps tid pa fl NQ. induction h as [|[sc r] h IH]; intros st its W R C A OK; simpl in *.
  - exists its; auto.
  - destruct OK as (PM & lo & L & OK'). rewrite L.
    destruct (step_self_refines q ps tid pa fl NQ st its sc r lo W R C A PM L) as (its1 & R1 & C1 & A1 & E1 & _).
    unfold stepS at 1. fold (run_ops q).
    assert (W1 : WFI (fst (step q st (mkSop sc ps (rop_model ps r))))) by (apply step_WFI; auto).
    rewrite <- E1 in OK'. destruct (IH _ its1 W1 R1 C1 A1 OK') as (its' & R' & C' & A' & W' & E').
    exists its'. repeat split; auto; try apply W'. rewrite E', E1. reflexivity.
Qed.
Corollary history_self_erase : forall q ps tid pa fl, no_quirks q -> forall h st its,
  WFI st -> at_is st ps tid KList pa fl its -> clean its -> anc_clean st ps -> rhist_ok fl (evals its) h ->
  option_map erase (get_at (run_ops q st (on_pos_r ps h)) ps) = Some (plist (rhist_py (evals its) h)).
Proof.
  intros. destruct (history_self_refines q ps tid pa fl H h st its H0 H1 H2 H3 H4) as (its' & R' & C' & A' & W' & E').
  rewrite R'. simpl. f_equal. rewrite <- E'. eapply erase_list_at; eauto. apply W'.
Qed.

(* KeyPathArith.v — path arithmetic laws and the ordering of key paths. *)
From PG Require Import Common.Tactics Model.KeyPath.
Local Open Scope N_scope.

(* ---- decidable equality of keys ------------------------------------------------------------------- *)
Lemma str_eqb_eq : forall a b, str_eqb a b = true <-> a = b.
Proof.
  induction a as [| x a IH]; destruct b as [| y b]; simpl; split; intros H; try congruence; try discriminate.
  - apply andb_true_iff in H as [H1 H2]. apply N.eqb_eq in H1. apply IH in H2. congruence.
  - inv H. rewrite N.eqb_refl. simpl. apply IH. reflexivity.
Qed.

Lemma key_eqb_eq : forall a b, key_eqb a b = true <-> a = b.
Proof.
  destruct a, b; simpl; split; intros H; try discriminate; try congruence.
  - apply str_eqb_eq in H. congruence.
  - inv H. apply str_eqb_eq. reflexivity.
  - apply Z.eqb_eq in H. congruence.
  - inv H. apply Z.eqb_refl.
Qed.

Lemma key_eqb_refl : forall a, key_eqb a a = true.
Proof. intros; apply key_eqb_eq; reflexivity. Qed.

Lemma key_eqb_sym : forall a b, key_eqb a b = key_eqb b a.
Proof.
  intros a b. destruct (key_eqb a b) eqn:E.
  - apply key_eqb_eq in E. subst. symmetry. apply key_eqb_refl.
  - destruct (key_eqb b a) eqn:F; auto. apply key_eqb_eq in F. subst. rewrite key_eqb_refl in E. discriminate.
Qed.

Lemma path_eqb_eq : forall p q, path_eqb p q = true <-> p = q.
Proof.
  induction p as [| a p IH]; destruct q as [| b q]; simpl; split; intros H; try congruence; try discriminate.
  - apply andb_true_iff in H as [H1 H2]. apply key_eqb_eq in H1. apply IH in H2. congruence.
  - inv H. rewrite key_eqb_refl. simpl. apply IH. reflexivity.
Qed.

(* ---- + , - , parent, is_relative_to ------------------------------------------------------------------ *)
Lemma sub_spec : forall p q r, path_sub p q = inr r <-> p = q ++ r.
Proof.
  induction p as [| a p IH]; destruct q as [| b q]; simpl; intros r; split; intros H; try congruence; try discriminate.
  - destruct (key_eqb a b) eqn:E; [| discriminate]. apply key_eqb_eq in E. subst. apply IH in H. congruence.
  - inv H. rewrite key_eqb_refl. apply IH. reflexivity.
Qed.

Lemma sub_add : forall p q, path_sub (path_add p q) p = inr q.
Proof. intros. apply sub_spec. reflexivity. Qed.

Lemma sub_self : forall p, path_sub p p = inr [].
Proof. intros. apply sub_spec. rewrite app_nil_r. reflexivity. Qed.

Lemma add_sub : forall p q r, path_sub p q = inr r -> path_add q r = p.
Proof. intros p q r H. apply sub_spec in H. auto. Qed.

Lemma relative_spec : forall p q, is_relative_to p q = true <-> exists r, p = q ++ r.
Proof.
  unfold is_relative_to. intros p q. revert p.
  induction q as [| b q IH]; intros p; simpl.
  - split; eauto.
  - destruct p as [| a p]; simpl.
    + split; [discriminate | intros [r H]; discriminate].
    + split.
      * intros H. apply andb_true_iff in H as [H1 H2]. apply key_eqb_eq in H1. apply IH in H2 as [r H2]. subst. eauto.
      * intros [r H]. inv H. rewrite key_eqb_refl. simpl. apply IH. eauto.
Qed.

Lemma relative_add : forall p q, is_relative_to (path_add p q) p = true.
Proof. intros. apply relative_spec. eauto. Qed.

(* subtraction is defined exactly on the paths below the subtrahend; the two errors tell why not *)
Lemma sub_defined_iff : forall p q, (exists r, path_sub p q = inr r) <-> is_relative_to p q = true.
Proof.
  intros p q. rewrite relative_spec. split; intros [r H]; exists r; apply sub_spec; auto.
Qed.

Lemma sub_ancestor : forall p q, path_sub p q = inl AValueAncestor <-> exists k r, q = p ++ k :: r.
Proof.
  induction p as [| a p IH]; destruct q as [| b q]; simpl.
  - split; [discriminate | intros (k & r & H); discriminate].
  - split; eauto.
  - split; [discriminate | intros (k & r & H); discriminate].
  - split.
    + intros H. destruct (key_eqb a b) eqn:E; [| discriminate]. apply key_eqb_eq in E. subst.
      apply IH in H as (k & r & H). subst. eauto.
    + intros (k & r & H). inv H. rewrite key_eqb_refl. apply IH. eauto.
Qed.

Lemma parent_snoc : forall p k, path_parent (p ++ [k]) = Some p.
Proof.
  intros p k. unfold path_parent. destruct (p ++ [k]) eqn:E.
  - destruct p; discriminate.
  - rewrite <- E. rewrite removelast_last. reflexivity.
Qed.

Lemma key_snoc : forall p k, path_key (p ++ [k]) = Some k.
Proof.
  intros p k. unfold path_key. destruct (p ++ [k]) eqn:E.
  - destruct p; discriminate.
  - rewrite <- E. rewrite last_last. reflexivity.
Qed.

Lemma parent_root : path_parent [] = None /\ path_key [] = None.
Proof. auto. Qed.

Lemma parent_key : forall p q k, path_parent p = Some q -> path_key p = Some k -> p = q ++ [k].
Proof.
  intros p q k Hp Hk. destruct p as [| a p']; [discriminate|].
  destruct (@exists_last _ (a :: p') ltac:(discriminate)) as [q' [k' E]]. rewrite E in *.
  rewrite parent_snoc in Hp. rewrite key_snoc in Hk. congruence.
Qed.

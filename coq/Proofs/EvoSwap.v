(* EvoSwap.v — mutators.Swap maps valid decisions to valid decisions (C14). *)
From PG Require Import Common.Tactics Model.Geno Model.Evo Proofs.GenoBasics Proofs.GenoValid Proofs.EvoBase Proofs.EvoMut.
From Coq Require Import Permutation FinFun.

Lemma nth_set_nth : forall A (l : list A) n x m d,
  nth m (set_nth l n x) d = if (m =? n) && (n <? length l) then x else nth m l d.
Proof.
  induction l as [|y l IH]; intros n x m d.
  - simpl. destruct n, m; simpl; auto. rewrite andb_false_r; auto.
  - destruct n, m; simpl; auto. rewrite IH. replace (S n <? S (length l)) with (n <? length l); auto.
Qed.

Lemma swap2_perm : forall A (l : list A) i j, Permutation (swap2 l i j) l.
Proof.
  intros A l i j. unfold swap2.
  destruct (nth_error l i) as [a|] eqn:Ei; auto. destruct (nth_error l j) as [b|] eqn:Ej; auto.
  assert (Hi : i < length l) by (apply nth_error_Some; congruence).
  assert (Hj : j < length l) by (apply nth_error_Some; congruence).
  apply Permutation_sym. apply (Permutation_nth _ _ a). rewrite !set_nth_length. split; auto.
  exists (fun p => if p =? i then j else if p =? j then i else p). split; [|split].
  - intros p Hp. destruct (p =? i); auto. destruct (p =? j); auto.
  - intros p q Hp Hq. destruct (Nat.eqb_spec p i), (Nat.eqb_spec q i), (Nat.eqb_spec p j), (Nat.eqb_spec q j); lia.
  - intros p Hp. rewrite !nth_set_nth, set_nth_length.
    apply (nth_error_nth _ _ a) in Ei, Ej.
    destruct (Nat.eqb_spec p j), (Nat.eqb_spec p i); subst;
      repeat match goal with |- context [?x <? ?y] => destruct (Nat.ltb_spec x y); try lia end; simpl; auto.
Qed.

Section Swap.
  Variable R : Type.
  Variable G : rng R.
  Variable wh : nwhere.
  Variable f : list (nat * sdna) -> list (nat * sdna).
  Hypothesis f_perm : forall cs, Permutation (f cs) cs.

  Lemma swa_space_eq : forall es top ds m r,
    swa_space R wh f (Space es) top (SSpace ds) m r =
    mmap R SSpace (mut_list R (fun e x m' => swa_point R wh f e ((length es =? 1) && negb top) x m' r) es ds m).
  Proof. reflexivity. Qed.

  Lemma swa_both :
    (forall s top d m r d' r', valid s d = true -> swa_space R wh f s top d m r = Done d' r' -> valid s d' = true) /\
    (forall p fold x m r x' r', valid_p p x = true -> swa_point R wh f p fold x m r = Done x' r' -> valid_p p x' = true).
  Proof.
    apply dspec_dpoint_ind.
    - intros es IH top [ds] m r d' r' Hv H. rewrite swa_space_eq in H.
      destruct (mut_list _ _ es ds m) as [|l r1|] eqn:E; simpl in H; inv H.
      simpl in Hv |- *. apply forallb2_Forall2 in Hv. apply forallb2_Forall2.
      eapply mut_list_inv in E; eauto.
      intros e x m0 x' r0 Hin Hx Hm. rewrite Forall_forall in IH. eapply (IH e Hin); [exact Hx|exact Hm].
    - intros k cands dist srt nm lits IH fold x m r x' r' Hv H.
      destruct x as [cs| |]; try discriminate.
      assert (Hrec : forall c sc sub m sub' r0, nth_error cands c = Some sc -> valid sc sub = true ->
                swa_space R wh f sc false sub m r = Done sub' r0 -> valid sc sub' = true).
      { intros c sc sub m0 sub' r0 Ec Hs Hm. eapply nth_error_Forall in IH; eauto. }
      change (swa_point R wh f (Choices k cands dist srt nm lits) fold (PChoices cs) m r) with
        (let into := sub_into R (fun s sub m' => swa_space R wh f s false sub m' r) cands cs in
         here R (negb (k =? 1) && w_choice wh && negb fold) m (fun _ => @Done R pdna (PChoices (if srt then cs else f cs)) r)
           (fun m0 => mmap R PChoices (subs_walk R false (fun _ => Skip m0) into (seq 0 k) m0))) in H.
      cbv zeta in H. apply here_inv in H. destruct H as [H|[m' H]].
      + inv H. destruct srt; auto.
        apply valid_p_choices_iff in Hv. destruct Hv as (Hl & Hc & Hs). apply valid_p_choices_iff.
        pose proof (f_perm cs) as Hp. split; [rewrite (Permutation_length Hp); auto|]. split.
        * apply constraint_ok_spec in Hc. apply constraint_ok_spec. split; [|intros; discriminate].
          intros E. eapply Permutation_NoDup; [apply Permutation_sym, Permutation_map; exact Hp|]. apply Hc; auto.
        * eapply Permutation_Forall; [apply Permutation_sym; exact Hp|auto].
      + destruct (subs_walk _ _ _ _ _ m') as [|cs' r1|] eqn:E; simpl in H; inv H.
        eapply (subs_walk_inv R (fun cs' => valid_p (Choices k cands dist srt nm lits) (PChoices cs') = true)) in E; eauto.
        * intros; discriminate.
        * intros j m0 x0 r0 _ Hi. eapply sub_into_valid; [exact Hrec|exact Hv|exact Hi].
    - intros lo hi nm fold x m r x' r' Hv H. destruct x; discriminate.
    - intros nm fold x m r x' r' Hv H. destruct x; discriminate.
  Qed.
End Swap.

Theorem mutate_swap_valid : forall R (G : rng R) wh s d r d' r', valid s d = true ->
  mutate_swap R G wh s d r = Ok (d', r') -> valid s d' = true.
Proof.
  unfold mutate_swap. intros R G wh s d r d' r' Hv H.
  destruct (shuffle G _ r) as [perm r1].
  destruct (find _ perm) as [i|]; [|inv H; auto].
  destruct (sample G _ 2 r1) as [ij r2]. destruct ij as [|a [|b [|? ?]]]; try discriminate.
  destruct (swa_space R wh _ s true d i r2) as [|d1 r3|] eqn:E; inv H.
  eapply swa_both in E; eauto. intros cs. apply swap2_perm.
Qed.

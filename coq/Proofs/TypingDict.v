(* TypingDict.v — facts about Schema.apply in the model: what the per-field results [ups] of
   [fields_apply] contain, and what a fixed point of the dict merge says. *)
From PG Require Import Common.Tactics Model.Typing Proofs.TypingBasics Proofs.TypingApply.
Local Open Scope Z_scope.

Lemma lookup_app : forall {A} k (a b : list (str * A)),
  lookup k (a ++ b) = match lookup k a with Some v => Some v | None => lookup k b end.
Proof.
  induction a as [|[k' v] r IH]; simpl; intros; auto. destruct (str_eqb k k'); auto.
Qed.

Lemma lookup_In : forall {A} k (l : list (str * A)) x, lookup k l = Some x -> In (k, x) l.
Proof.
  induction l as [|[k' v] r IH]; simpl; intros x H; [discriminate|].
  destruct (str_eqb k k') eqn:E.
  - inv H. apply str_eqb_eq in E. subst. auto.
  - right. auto.
Qed.

Lemma In_has_key : forall {A} k (x : A) l, In (k, x) l -> has_key k l = true.
Proof.
  unfold has_key. induction l as [|[k' v] r IH]; simpl; intros H; [contradiction|].
  destruct H as [E|H].
  - inv E. rewrite str_eqb_refl. reflexivity.
  - destruct (str_eqb k k'); auto.
Qed.

Lemma has_key_lookup : forall {A} k (l : list (str * A)), has_key k l = true -> exists x, lookup k l = Some x.
Proof. unfold has_key. intros. destruct (lookup k l); eauto. discriminate. Qed.

Lemma field_of_In : forall {A} k (fs : list (fkey * A)) s, field_of k fs = Some s -> exists k', fkey_eqb k k' = true /\ In (k', s) fs.
Proof.
  induction fs as [|[k' v] r IH]; simpl; intros s H; [discriminate|].
  destruct (fkey_eqb k k') eqn:E.
  - inv H. eauto.
  - destruct (IH _ H) as [k'' [E' I]]. eauto.
Qed.

Lemma fkey_eqb_eq : forall a b, fkey_eqb a b = true <-> a = b.
Proof.
  destruct a, b; simpl; split; intros H; try discriminate; try congruence; auto.
  - apply str_eqb_eq in H. congruence.
  - inv H. apply str_eqb_refl.
Qed.

Lemma field_of_In' : forall {A} k (fs : list (fkey * A)) s, field_of k fs = Some s -> In (k, s) fs.
Proof. intros. destruct (field_of_In _ _ _ H) as [k' [E I]]. apply fkey_eqb_eq in E. subst. auto. Qed.

Lemma fkey_eqb_refl : forall k, fkey_eqb k k = true.
Proof. intros. apply fkey_eqb_eq. reflexivity. Qed.

(* with distinct keys, membership determines field_of *)
Lemma In_field_of : forall {A} k (s : A) fs, keys_distinct fs = true -> In (k, s) fs -> field_of k fs = Some s.
Proof.
  induction fs as [|[k' v] r IH]; simpl; intros D I; [contradiction|].
  apply andb_true_iff in D as [D1 D2].
  destruct I as [E|I].
  - inv E. rewrite fkey_eqb_refl. reflexivity.
  - destruct (fkey_eqb k k') eqn:E.
    + apply fkey_eqb_eq in E. subst. rewrite (IH D2 I) in D1. discriminate.
    + auto.
Qed.

(* ------------------------------------------------------------------------------------------ *)
(** * The entries produced for the StrKey() field *)

Lemma dyn_lookup_const : forall g d (fs : list (fkey * spec)) l mine k,
  dyn_apply g d fs l = Ok mine -> has_const k fs = true -> lookup k mine = None.
Proof.
  induction l as [|[k' x] r IH]; simpl; intros mine k H C.
  - inv H. reflexivity.
  - destruct (has_const k' fs) eqn:C'; eauto.
    destruct (g (if is_missing x then d else x)); simpl in H; [|discriminate].
    destruct (dyn_apply g d fs r) eqn:E; simpl in H; inv H.
    simpl. destruct (str_eqb k k') eqn:EK; eauto.
    apply str_eqb_eq in EK. subst. congruence.
Qed.

Lemma dyn_lookup_absent : forall g d (fs : list (fkey * spec)) l mine k,
  dyn_apply g d fs l = Ok mine -> lookup k l = None -> lookup k mine = None.
Proof.
  induction l as [|[k' x] r IH]; simpl; intros mine k H L.
  - inv H. reflexivity.
  - destruct (str_eqb k k') eqn:EK; [discriminate|].
    destruct (has_const k' fs) eqn:C'; eauto.
    destruct (g (if is_missing x then d else x)); simpl in H; [|discriminate].
    destruct (dyn_apply g d fs r) eqn:E; simpl in H; inv H.
    simpl. rewrite EK. eauto.
Qed.

Lemma dyn_lookup_present : forall g d (fs : list (fkey * spec)) l mine k x,
  dyn_apply g d fs l = Ok mine -> has_const k fs = false -> lookup k l = Some x ->
  exists y, lookup k mine = Some y /\ g (if is_missing x then d else x) = Ok y.
Proof.
  induction l as [|[k' x'] r IH]; simpl; intros mine k x H C L; [discriminate|].
  destruct (str_eqb k k') eqn:EK.
  - inv L. apply str_eqb_eq in EK. subst k'. rewrite C in H.
    destruct (g (if is_missing x then d else x)) eqn:G; simpl in H; [|discriminate].
    destruct (dyn_apply g d fs r) eqn:E; simpl in H; inv H.
    simpl. rewrite str_eqb_refl. eauto.
  - destruct (has_const k' fs) eqn:C'; eauto.
    destruct (g (if is_missing x' then d else x')); simpl in H; [|discriminate].
    destruct (dyn_apply g d fs r) eqn:E; simpl in H; inv H.
    simpl. rewrite EK. eauto.
Qed.

(* every dyn entry comes from an input entry under the same key, computed from its own value *)
Lemma dyn_entries : forall g d (fs : list (fkey * spec)) l mine k y,
  dyn_apply g d fs l = Ok mine -> In (k, y) mine ->
  has_const k fs = false /\ exists x, In (k, x) l /\ g (if is_missing x then d else x) = Ok y.
Proof.
  induction l as [|[k' x'] r IH]; simpl; intros mine k y H I.
  - inv H. contradiction.
  - destruct (has_const k' fs) eqn:C'.
    + destruct (IH _ _ _ H I) as [A [x [B C]]]. eauto.
    + destruct (g (if is_missing x' then d else x')) eqn:G; simpl in H; [|discriminate].
      destruct (dyn_apply g d fs r) eqn:E; simpl in H; inv H.
      destruct I as [X|I].
      * inv X. eauto.
      * destruct (IH _ _ _ eq_refl I) as [A [x [B C]]]. eauto.
Qed.

(* success of the dyn part from success on every entry *)
Lemma dyn_apply_ok : forall g d (fs : list (fkey * spec)) l,
  (forall k x, In (k, x) l -> has_const k fs = false -> exists y, g (if is_missing x then d else x) = Ok y) ->
  exists mine, dyn_apply g d fs l = Ok mine.
Proof.
  induction l as [|[k x] r IH]; simpl; intros H. { eauto. }
  destruct IH as [mine Hm]. { intros; eapply H; eauto. }
  destruct (has_const k fs) eqn:C; eauto.
  destruct (H k x (or_introl eq_refl) C) as [y Hy]. rewrite Hy, Hm. simpl. eauto.
Qed.

(* ------------------------------------------------------------------------------------------ *)
(** * The per-field results of Schema.apply *)

Lemma In_field_some : forall {A} k (s : A) fs, In (k, s) fs -> exists s', field_of k fs = Some s'.
Proof.
  induction fs as [|[k' v] r IH]; simpl; intros I; [contradiction|].
  destruct (fkey_eqb k k') eqn:E; eauto. destruct I as [X|I]; [|auto].
  inv X. rewrite fkey_eqb_refl in E. discriminate.
Qed.

Lemma has_const_In : forall {A} k (s : A) fs, In (KConst k, s) fs -> has_const k fs = true.
Proof. unfold has_const. intros. destruct (In_field_some _ _ _ H) as [s' E]. rewrite E. reflexivity. Qed.

Lemma fields_const : forall f fs kvs fs' ups,
  fields_apply f fs kvs fs' = Ok ups -> keys_distinct fs' = true ->
  (forall k sp, In (KConst k, sp) fs' -> has_const k fs = true) ->
  forall k sp, In (KConst k, sp) fs' ->
  exists x', lookup k ups = Some x' /\ f sp (field_input sp (lookup k kvs)) = Ok x'.
Proof.
  induction fs' as [|[[k0|] sp0] r IH]; simpl; intros ups H D C k sp I; [contradiction| |];
    apply andb_true_iff in D as [D1 D2].
  - destruct (f sp0 (field_input sp0 (lookup k0 kvs))) eqn:F0; simpl in H; [|discriminate].
    destruct (fields_apply f fs kvs r) eqn:E; simpl in H; inv H.
    destruct I as [X|I].
    + inv X. simpl. rewrite str_eqb_refl. eauto.
    + assert (NE : str_eqb k k0 = false).
      { destruct (str_eqb k k0) eqn:EK; auto. apply str_eqb_eq in EK. subst k0.
        rewrite (In_field_of _ _ _ D2 I) in D1. discriminate. }
      simpl. rewrite NE. eapply IH; eauto.
  - destruct (dyn_apply (f sp0) (dflt (mods_of sp0)) fs kvs) as [mine|] eqn:M; simpl in H; [|discriminate].
    destruct (fields_apply f fs kvs r) eqn:E; simpl in H; inv H.
    destruct I as [X|I]; [discriminate|].
    rewrite lookup_app. rewrite (dyn_lookup_const _ _ _ _ _ _ M (C _ _ (or_intror I))).
    eapply IH; eauto.
Qed.

Lemma fields_dyn : forall f fs kvs fs' ups,
  fields_apply f fs kvs fs' = Ok ups -> keys_distinct fs' = true ->
  (forall k sp, In (KConst k, sp) fs' -> has_const k fs = true) ->
  forall spd, In (KDyn, spd) fs' ->
  forall k x, has_const k fs = false -> lookup k kvs = Some x ->
  exists y, lookup k ups = Some y /\ f spd (if is_missing x then dflt (mods_of spd) else x) = Ok y.
Proof.
  induction fs' as [|[[k0|] sp0] r IH]; simpl; intros ups H D C spd I k x NC L; [contradiction| |];
    apply andb_true_iff in D as [D1 D2].
  - destruct (f sp0 (field_input sp0 (lookup k0 kvs))) eqn:F0; simpl in H; [|discriminate].
    destruct (fields_apply f fs kvs r) eqn:E; simpl in H; inv H.
    destruct I as [X|I]; [discriminate|].
    assert (NE : str_eqb k k0 = false).
    { destruct (str_eqb k k0) eqn:EK; auto. apply str_eqb_eq in EK. subst k0.
      rewrite (C k sp0 (or_introl eq_refl)) in NC. discriminate. }
    simpl. rewrite NE. eapply IH; eauto.
  - destruct (dyn_apply (f sp0) (dflt (mods_of sp0)) fs kvs) as [mine|] eqn:M; simpl in H; [|discriminate].
    destruct (fields_apply f fs kvs r) eqn:E; simpl in H; inv H.
    destruct I as [X|I].
    + inv X. destruct (dyn_lookup_present _ _ _ _ _ _ _ M NC L) as [y [Ly Gy]].
      exists y. rewrite lookup_app, Ly. auto.
    + rewrite (In_field_of _ _ _ D2 I) in D1. discriminate.
Qed.

Lemma fields_apply_ok : forall f fs kvs fs',
  (forall k sa, In (KConst k, sa) fs' -> exists x', f sa (field_input sa (lookup k kvs)) = Ok x') ->
  (forall sa, In (KDyn, sa) fs' -> forall k x, In (k, x) kvs -> has_const k fs = false ->
     exists y, f sa (if is_missing x then dflt (mods_of sa) else x) = Ok y) ->
  exists ups, fields_apply f fs kvs fs' = Ok ups.
Proof.
  induction fs' as [|[[k0|] sp0] r IH]; simpl; intros HC HD. { eauto. }
  - destruct (HC k0 sp0 (or_introl eq_refl)) as [x' Hx].
    destruct IH as [ups Hu]. { intros; eapply HC; eauto. } { intros; eapply HD; eauto. }
    rewrite Hx, Hu. simpl. eauto.
  - destruct (dyn_apply_ok (f sp0) (dflt (mods_of sp0)) fs kvs) as [mine Hm].
    { intros. eapply HD; eauto. }
    destruct IH as [ups Hu]. { intros; eapply HC; eauto. } { intros; eapply HD; eauto. }
    rewrite Hm, Hu. simpl. eauto.
Qed.

(* a fixed point of the merge: nothing is appended, nothing changes *)
Lemma filter_nil : forall {A} (p : A -> bool) l, filter p l = [] -> forall x, In x l -> p x = false.
Proof.
  induction l; simpl; intros H x I; [contradiction|].
  destruct (p a) eqn:E; [discriminate|]. destruct I; subst; auto.
Qed.

Lemma merge_fixed : forall kvs ups, dict_merge kvs ups = kvs ->
  (forall k y, In (k, y) ups -> has_key k kvs = true) /\
  (forall k x, In (k, x) kvs -> forall x', lookup k ups = Some x' -> x' = x).
Proof.
  unfold dict_merge. intros kvs ups H.
  assert (F : filter (fun ku => negb (has_key (fst ku) kvs)) ups = []).
  { apply (f_equal (@length _)) in H. rewrite app_length, map_length in H.
    destruct (filter _ ups); auto. simpl in H. lia. }
  rewrite F, app_nil_r in H. split.
  - intros k y I. pose proof (filter_nil _ _ F _ I) as P. simpl in P.
    destruct (has_key k kvs); auto; discriminate.
  - intros k x I x' L. clear F. induction kvs as [|[k0 x0] r IH]; [contradiction|].
    simpl in H. injection H as E1 E2. destruct I as [X|I].
    + inv X. rewrite L in E1. auto.
    + apply IH; auto.
Qed.

(* ------------------------------------------------------------------------------------------ *)
(** * More on the entries of [ups] and on the merged dict (for idempotence) *)

Lemma fields_entries : forall f fs kvs fs' ups,
  fields_apply f fs kvs fs' = Ok ups ->
  forall k y, In (k, y) ups ->
  (exists sp, In (KConst k, sp) fs' /\ f sp (field_input sp (lookup k kvs)) = Ok y) \/
  (has_const k fs = false /\ exists spd x, In (KDyn, spd) fs' /\ In (k, x) kvs /\
     f spd (if is_missing x then dflt (mods_of spd) else x) = Ok y).
Proof.
  induction fs' as [|[[k0|] sp0] r IH]; simpl; intros ups H k y I.
  - inv H. contradiction.
  - destruct (f sp0 (field_input sp0 (lookup k0 kvs))) eqn:F0; simpl in H; [|discriminate].
    destruct (fields_apply f fs kvs r) eqn:E; simpl in H; inv H.
    destruct I as [X|I].
    + inv X. left. eauto.
    + destruct (IH _ eq_refl _ _ I) as [[sp [A B]]|[A [spd [x [B [C D]]]]]]; [left|right]; eauto 8.
  - destruct (dyn_apply (f sp0) (dflt (mods_of sp0)) fs kvs) as [mine|] eqn:M; simpl in H; [|discriminate].
    destruct (fields_apply f fs kvs r) eqn:E; simpl in H; inv H.
    apply in_app_or in I as [I|I].
    + destruct (dyn_entries _ _ _ _ _ _ _ M I) as [A [x [B C]]]. right. eauto 8.
    + destruct (IH _ eq_refl _ _ I) as [[sp [A B]]|[A [spd [x [B [C D]]]]]]; [left|right]; eauto 8.
Qed.

Lemma lookup_map_merge : forall (ups : list (str * pv)) k kvs,
  lookup k (map (fun kx => (fst kx, match lookup (fst kx) ups with Some x' => x' | None => snd kx end)) kvs) =
  match lookup k kvs with
  | Some x => Some (match lookup k ups with Some x' => x' | None => x end)
  | None => None
  end.
Proof.
  induction kvs as [|[k0 x0] r IH]; simpl; auto.
  destruct (str_eqb k k0) eqn:E; auto. apply str_eqb_eq in E. subst. reflexivity.
Qed.

Lemma lookup_filter_all : forall (p : str * pv -> bool) k l,
  (forall y, In (k, y) l -> p (k, y) = true) -> lookup k (filter p l) = lookup k l.
Proof.
  induction l as [|[k0 y0] r IH]; simpl; intros H; auto.
  destruct (str_eqb k k0) eqn:E.
  - apply str_eqb_eq in E. subst k0. rewrite (H y0 (or_introl eq_refl)). simpl.
    rewrite str_eqb_refl. reflexivity.
  - destruct (p (k0, y0)); simpl; rewrite ?E; apply IH; intros; apply H; auto.
Qed.

(* the value found under k in the merged dict *)
Lemma lookup_merge : forall kvs ups k,
  lookup k (dict_merge kvs ups) =
  match lookup k kvs with
  | Some x => Some (match lookup k ups with Some x' => x' | None => x end)
  | None => lookup k ups
  end.
Proof.
  intros. unfold dict_merge. rewrite lookup_app, lookup_map_merge.
  destruct (lookup k kvs) eqn:L; auto.
  apply lookup_filter_all. intros y I. simpl. unfold has_key. rewrite L. reflexivity.
Qed.

Lemma merge_fixed_conv : forall kvs ups,
  (forall k y, In (k, y) ups -> has_key k kvs = true) ->
  (forall k x, In (k, x) kvs -> forall x', lookup k ups = Some x' -> x' = x) ->
  dict_merge kvs ups = kvs.
Proof.
  unfold dict_merge. intros kvs ups A B.
  assert (F : filter (fun ku => negb (has_key (fst ku) kvs)) ups = []).
  { clear B. induction ups as [|[k y] r IH]; simpl; auto.
    rewrite (A k y (or_introl eq_refl)). simpl. apply IH. intros k0 y0 I. eapply A. right. exact I. }
  rewrite F, app_nil_r. clear A F. induction kvs as [|[k x] r IH]; simpl; auto. f_equal.
  - destruct (lookup k ups) eqn:L; auto. rewrite (B k x (or_introl eq_refl) _ L). reflexivity.
  - apply IH. intros k0 x0 I x' L. eapply B; eauto. right; auto.
Qed.

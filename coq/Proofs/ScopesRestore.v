(* C17, restoration: leaving a scope (normally, by exception, or after a failed enter) gives back the state
   observed before entering, for every well-nested program.  The base cases are the enter/exit pairs of
   Gen/ScopeDefs.v as REGENERATED from the source, so an edit of a `finally` block that no longer restores the
   saved value makes this file fail to compile. *)
From PG Require Import Common.Tactics Common.Tr Model.ScopesBase Gen.ScopeDefs Model.Scopes Proofs.ScopesStore.

Local Ltac split_saved sv :=
  destruct sv as [|?x1 [|?x2 [|?x3 [|?x4 ?r]]]]; simpl; auto.

(* --- what the generated two-store managers compute -------------------------------------------------- *)
Lemma dyn_enter_thread : forall a l g,
  dyn_enter v_true a (l, g) =
  if is_none (tl_get g_dynamic_evaluate v_none g)
  then Some ((tl_set k_dynamic_evaluate a l, g), [tl_has k_dynamic_evaluate l; tl_get k_dynamic_evaluate v_none l; v_false])
  else None.
Proof.
  intros. unfold dyn_enter, lift2_enter, dynamic_evaluate_enter. cbn [fst snd truthy v_true].
  destruct (is_none (tl_get g_dynamic_evaluate v_none g)); reflexivity.
Qed.
Lemma dyn_exit_thread : forall a sv l g,
  dyn_exit v_true a sv (l, g) =
  match sv with
  | [had; old; _] => if truthy had then (tl_set k_dynamic_evaluate old l, g) else (tl_del k_dynamic_evaluate l, g)
  | _ => (l, g)
  end.
Proof.
  intros. unfold dyn_exit, lift2_exit, dynamic_evaluate_exit. cbn [fst snd truthy v_true negb].
  destruct sv as [|h [|o [|e [|x r]]]]; try reflexivity.
  destruct (truthy h); match goal with |- (if ?c then _ else _) = _ => destruct c end; reflexivity.
Qed.
Lemma dyn_enter_global : forall a l g,
  dyn_enter v_false a (l, g) = Some ((l, tl_set g_dynamic_evaluate a g), [v_false; tl_get g_dynamic_evaluate v_none g; v_false]).
Proof. intros. unfold dyn_enter, lift2_enter, dynamic_evaluate_enter. cbn [fst snd truthy v_false]. reflexivity. Qed.
Lemma dyn_exit_global : forall a sv l g,
  dyn_exit v_false a sv (l, g) =
  match sv with [_; old; _] => (l, tl_set g_dynamic_evaluate old g) | _ => (l, g) end.
Proof.
  intros. unfold dyn_exit, lift2_exit, dynamic_evaluate_exit. cbn [fst snd truthy v_false negb].
  destruct sv as [|h [|o [|e [|x r]]]]; try reflexivity.
  match goal with |- (if ?c then _ else _) = _ => destruct c end; reflexivity.
Qed.

(* load_types_for_deserialization pushes the merged dict; on an ill-typed slot it pushes nothing (and pops nothing) *)
Lemma loadtypes_enter_cases : forall a l g,
  (exists d, loadtypes_enter a (l, g) = Some ((l, tl_push g_ondemand_types (VD d) g), [VD d]) /\
             VD d = py_update (tl_peek g_ondemand_types v_empty_dict g) a)
  \/ (loadtypes_enter a (l, g) = Some ((l, g), [v_none]) /\ forall s, st_get g_ondemand_types g <> Some (VS s)).
Proof.
  intros. unfold loadtypes_enter, lift2_enter, load_types_enter, tl_get, tl_peek, py_copy, py_last. cbn [fst snd].
  destruct (st_get g_ondemand_types g) as [[[]|[|]|[|]]|] eqn:E; cbn [truthy v_none v_empty_dict];
    repeat match goal with |- context [if ?b then _ else _] => destruct b end;
    unfold v_empty_dict, v_none;
    first [ left; match goal with |- context [py_update (VD ?d) a] => destruct (py_update_dict d a) as [d' Hd']; rewrite Hd' end;
            eexists; split; reflexivity
          | right; split; [unfold py_update, tl_push; reflexivity | congruence] ].
Qed.
Lemma loadtypes_exit_spec : forall a sv l g,
  loadtypes_exit a sv (l, g) = match sv with [_] => (l, tl_pop g_ondemand_types g) | _ => (l, g) end.
Proof. intros. unfold loadtypes_exit, lift2_exit, load_types_exit. cbn [fst snd]. destruct sv as [|x [|y r]]; reflexivity. Qed.

(* --- R1: every exit maps equivalent states to equivalent states ------------------------------------- *)
Lemma tl_set_congr : forall cls k i v s t, seq_at cls k s t -> seq_at cls k (tl_set i v s) (tl_set i v t).
Proof. intros. apply nrm_set_congr; auto. Qed.
Lemma tl_del_congr : forall cls k i s t, seq_at cls k s t -> seq_at cls k (tl_del i s) (tl_del i t).
Proof. intros. apply nrm_set_congr; auto. Qed.

Local Ltac congr_tac :=
  repeat first
    [ assumption
    | apply tl_set_congr | apply tl_del_congr | apply tl_pop_congr
    | match goal with |- context [if ?b then _ else _] => destruct b end ].

Lemma value_scope_exit_congr : forall k a i sv s t,
  seq_at lclass 0 s t -> seq_at lclass 0 (thread_local_value_scope_exit k a i sv s) (thread_local_value_scope_exit k a i sv t).
Proof. intros. unfold thread_local_value_scope_exit. split_saved sv; congr_tac. Qed.
Lemma arg_scope_exit_congr : forall k a sv s t,
  seq_at lclass 0 s t -> seq_at lclass 0 (thread_local_arg_scope_exit k a sv s) (thread_local_arg_scope_exit k a sv t).
Proof. intros. unfold thread_local_arg_scope_exit. split_saved sv; congr_tac. Qed.
Lemma permission_exit_congr : forall a sv s t,
  seq_at lclass 0 s t -> seq_at lclass 0 (permission_exit a sv s) (permission_exit a sv t).
Proof. intros. unfold permission_exit. split_saved sv; congr_tac. Qed.
Lemma context_exit_congr : forall a sv s t,
  seq_at lclass 0 s t -> seq_at lclass 0 (context_exit a sv s) (context_exit a sv t).
Proof. intros. unfold context_exit. split_saved sv; congr_tac. Qed.
Lemma view_options_exit_congr : forall a sv s t,
  seq_at lclass 0 s t -> seq_at lclass 0 (view_options_exit a sv s) (view_options_exit a sv t).
Proof. intros. unfold view_options_exit. split_saved sv; congr_tac. Qed.
Lemma timeit_exit_congr : forall a sv s t,
  seq_at lclass 0 s t -> seq_at lclass 0 (timeit_exit a sv s) (timeit_exit a sv t).
Proof. intros. unfold timeit_exit. split_saved sv; congr_tac. Qed.
Lemma contextual_exit_congr : forall a sv s t,
  seq_at lclass 0 s t -> seq_at lclass 0 (contextual_scope_exit a sv s) (contextual_scope_exit a sv t).
Proof. intros. unfold contextual_scope_exit. split_saved sv; congr_tac. Qed.

Lemma stack_get_cases : forall cls k i s t, cls (k + i) = KStack -> seq_at cls k s t ->
  (st_get i s = st_get i t) \/ (st_get i s = Some (VS []) /\ st_get i t = None) \/ (st_get i s = None /\ st_get i t = Some (VS [])).
Proof.
  intros cls k i s t C H. pose proof (seq_at_get cls s t k i H) as G. rewrite C in G.
  destruct (st_get i s) as [[a|d|[|x l]]|]; destruct (st_get i t) as [[a'|d'|[|x' l']]|]; simpl in G; try discriminate; auto; left; congruence.
Qed.

Lemma detour_exit_congr : forall a sv s t,
  seq_at lclass 0 s t -> seq_at lclass 0 (detour_scope_exit a sv s) (detour_scope_exit a sv t).
Proof.
  intros a sv s t H. unfold detour_scope_exit. destruct sv as [|x1 [|x2 [|x3 r]]]; auto.
  assert (Tq : truthy (tl_get k_detour v_none s) = truthy (tl_get k_detour v_none t)).
  { unfold tl_get. destruct (stack_get_cases lclass 0 k_detour s t eq_refl H) as [E|[[E1 E2]|[E1 E2]]]; rewrite ?E, ?E1, ?E2; reflexivity. }
  rewrite Tq. destruct (truthy (tl_get k_detour v_none t)); auto. apply tl_pop_congr; auto.
Qed.

Lemma exit_congr : forall c a sv s t, obs_eq s t -> obs_eq (cm_exit c a sv s) (cm_exit c a sv t).
Proof.
  intros c a sv s t H. apply obs_eq_split in H. destruct H as [Hl Hg]. apply obs_eq_split.
  destruct c; simpl; unfold lift_exit; simpl.
  - destruct (nth_error flag_scopes i) as [[k init]|]; simpl; split; auto. apply value_scope_exit_congr; auto.
  - split; auto. apply permission_exit_congr; auto.
  - split; auto. apply arg_scope_exit_congr; auto.
  - split; auto. apply arg_scope_exit_congr; auto.
  - split; auto. apply view_options_exit_congr; auto.
  - split; auto. apply context_exit_congr; auto.
  - split; auto. apply contextual_exit_congr; auto.
  - split; auto. apply detour_exit_congr; auto.
  - split; auto. apply detour_exit_congr; auto.
  - split; auto. apply timeit_exit_congr; auto.
  - destruct s as [l g], t as [l' g']. rewrite !dyn_exit_thread. cbn [fst snd] in *.
    destruct sv as [|h [|o [|e [|x r]]]]; cbn [fst snd]; auto. destruct (truthy h); cbn [fst snd]; split; auto; congr_tac.
  - destruct s as [l g], t as [l' g']. rewrite !dyn_exit_global. cbn [fst snd] in *.
    destruct sv as [|h [|o [|e [|x r]]]]; cbn [fst snd]; auto. split; auto. congr_tac.
  - destruct s as [l g], t as [l' g']. rewrite !loadtypes_exit_spec. cbn [fst snd] in *.
    destruct sv as [|x [|y r]]; cbn [fst snd]; auto. split; auto. apply tl_pop_congr; auto.
  - split; auto.
  - cbn [fst snd]. split; auto. apply tl_pop_congr; auto.
  - cbn [fst snd]. split; auto. apply tl_pop_congr; auto.
Qed.

(* --- R2: exit after enter gives back the state ---------------------------------------------------------- *)
(* value scopes restore the store syntactically: the key is deleted again when it was absent *)
Lemma value_scope_restores : forall k a i s s1 sv,
  thread_local_value_scope_enter k a i s = Some (s1, sv) -> thread_local_value_scope_exit k a i sv s1 = s.
Proof.
  unfold thread_local_value_scope_enter, thread_local_value_scope_exit. intros k a i s s1 sv H.
  inversion H; subst; clear H. unfold tl_has, tl_get, tl_set, tl_del.
  destruct (st_get k s) eqn:E; simpl; apply st_set_restore; assumption.
Qed.

Lemma arg_scope_restores : forall k a s s1 sv, lclass k = KStack ->
  thread_local_arg_scope_enter k a s = Some (s1, sv) -> seq_at lclass 0 (thread_local_arg_scope_exit k a sv s1) s.
Proof.
  unfold thread_local_arg_scope_enter, thread_local_arg_scope_exit. intros k a s s1 sv C H.
  inversion H; subst; clear H. unfold py_copy.
  destruct (tl_peek_dict k s []) as [d Hd]. unfold v_empty_dict. rewrite Hd.
  destruct (py_update_dict d a) as [d' Hd']. rewrite Hd'.
  apply tl_pop_push. assumption.
Qed.

Lemma nrm_none_get : forall k s, lclass k = KNone -> is_none (tl_get k v_none s) = true ->
  nrm_at (lclass (0 + k)) None = nrm_at (lclass (0 + k)) (st_get k s).
Proof.
  intros k s C H. simpl. rewrite C. unfold tl_get in H.
  destruct (st_get k s) as [[[]|d|l]|]; simpl in H; try discriminate; reflexivity.
Qed.
Lemma get_not_none : forall k s, is_none (tl_get k v_none s) = false -> st_get k s = Some (tl_get k v_none s).
Proof. intros k s H. unfold tl_get in *. destruct (st_get k s); auto. simpl in H. discriminate. Qed.

Lemma permission_restores : forall a s s1 sv,
  permission_enter a s = Some (s1, sv) -> seq_at lclass 0 (permission_exit a sv s1) s.
Proof.
  unfold permission_enter, permission_exit. intros a s s1 sv H.
  match type of H with context [is_none ?x] => destruct (is_none x) eqn:E end;
    simpl in H; inversion H; subst; clear H; rewrite E.
  - unfold tl_del, tl_set. rewrite st_set_set. apply nrm_set_equiv. apply nrm_none_get; auto.
  - unfold tl_set. rewrite <- (get_not_none _ _ E). rewrite st_set_get_id. apply seq_at_refl.
Qed.

Lemma timeit_restores : forall a s s1 sv,
  timeit_enter a s = Some (s1, sv) -> seq_at lclass 0 (timeit_exit a sv s1) s.
Proof.
  unfold timeit_enter, timeit_exit. intros a s s1 sv H.
  match type of H with context [is_none ?x] => destruct (is_none x) eqn:E end;
    simpl in H; inversion H; subst; clear H.
  - simpl. rewrite ?E. unfold tl_del, tl_set. rewrite st_set_set. apply nrm_set_equiv. apply nrm_none_get; auto.
  - rewrite E. unfold tl_set. rewrite st_set_set. rewrite <- (get_not_none _ _ E). rewrite st_set_get_id. apply seq_at_refl.
Qed.

Lemma get_context_shape : forall s,
  (exists d l, st_get k_context s = Some (VS (d :: l)) /\ get_context s = VD d) \/
  ((forall d l, st_get k_context s <> Some (VS (d :: l))) /\ (get_context s = v_empty_dict \/ get_context s = v_none)).
Proof.
  intros. unfold get_context, tl_get, py_copy, py_last, k_context.
  match goal with |- context [st_get ?k s] => destruct (st_get k s) as [[[]|[|]|[|]]|] end; simpl;
    repeat match goal with |- context [if ?b then _ else _] => destruct b end;
    try (right; split; [congruence | auto]; fail).
  left. eauto.
Qed.

Lemma context_restores : forall a s s1 sv,
  context_enter a s = Some (s1, sv) -> seq_at lclass 0 (context_exit a sv s1) s.
Proof.
  unfold context_enter, context_exit. intros a s s1 sv H. inversion H; subst; clear H.
  pose proof (get_context_shape s) as SH. unfold k_context in *.
  destruct SH as [[d [l [G Hd]]]|[N [He|Hn]]].
  - rewrite Hd. destruct (py_update_dict d a) as [d' Hd']. rewrite Hd'. apply tl_pop_push. reflexivity.
  - rewrite He. unfold v_empty_dict. destruct (py_update_dict [] a) as [d' Hd']. rewrite Hd'. apply tl_pop_push. reflexivity.
  - (* an ill-typed store: get_context returned None, nothing is pushed and nothing is popped *)
    rewrite Hn. unfold v_none, py_update, tl_push, tl_pop.
    match goal with |- context [st_get ?k s] => destruct (st_get k s) as [[a0|d|[|d l]]|] eqn:E end; try apply seq_at_refl.
    exfalso. eapply N; eauto.
Qed.

Lemma view_options_restores : forall a s s1 sv,
  view_options_enter a s = Some (s1, sv) -> seq_at lclass 0 (view_options_exit a sv s1) s.
Proof.
  unfold view_options_enter, view_options_exit. intros a s s1 sv H. inversion H; subst; clear H.
  match goal with |- context [tl_peek ?k _ s] => destruct (tl_peek_dict k s []) as [d Hd] end.
  unfold v_empty_dict. rewrite Hd.
  destruct (py_merge2_dict d a) as [d' Hd']. rewrite Hd'.
  apply tl_pop_push. reflexivity.
Qed.

(* the generated cascade loop computes contextual_merge *)
Lemma contextual_loop_step : forall (p : dict) (k : Z) (v : atom),
  (let p_old_v := py_dict_get (VD p) (VA (AInt k)) v_none in
   if truthy p_old_v && truthy (py_attr_cascade p_old_v)
   then py_setitem (VD p) (VA (AInt k)) p_old_v
   else py_setitem (VD p) (VA (AInt k)) (VA v))
  = VD (dict_set k (match dict_get k p with Some old => if cascade_of old then old else v | None => v end) p).
Proof.
  intros. cbv zeta. unfold py_dict_get. destruct (dict_get k p) as [[| b | z | z c t | dd]|]; simpl; try reflexivity.
  - destruct b; reflexivity.
  - destruct (negb (z =? 0)%Z); reflexivity.
  - destruct c; reflexivity.
  - destruct dd; reflexivity.
Qed.

Lemma contextual_scope_enter_dict : forall vs l p, tl_get k_contextual v_empty_dict l = VD p ->
  contextual_scope_enter (VD vs) l =
  Some (tl_set k_contextual (VD (contextual_merge p vs)) l, [VD p; VD (contextual_merge p vs)]).
Proof.
  intros vs l p H. unfold contextual_scope_enter. rewrite H. unfold py_copy, py_for_items.
  match goal with |- context [fold_left ?f vs (VD p)] =>
    assert (F : forall vs p, fold_left f vs (VD p) = VD (contextual_merge p vs)) end.
  { clear. unfold contextual_merge. induction vs as [|[k v] r IH]; intros p; simpl; [reflexivity|].
    rewrite <- IH. f_equal. apply contextual_loop_step. }
  rewrite F. reflexivity.
Qed.

Lemma contextual_scope_enter_other : forall a l, (forall vs, a <> VD vs) ->
  contextual_scope_enter a l =
  Some (tl_set k_contextual (tl_get k_contextual v_empty_dict l) l,
        [tl_get k_contextual v_empty_dict l; tl_get k_contextual v_empty_dict l]).
Proof.
  intros a l N. unfold contextual_scope_enter, py_copy, py_for_items. destruct a as [x|vs|x]; try reflexivity.
  exfalso. eapply N. reflexivity.
Qed.

(* whatever the loop computes, leaving writes back the saved map *)
Lemma contextual_restores : forall a s s1 sv,
  contextual_scope_enter a s = Some (s1, sv) -> seq_at lclass 0 (contextual_scope_exit a sv s1) s.
Proof.
  unfold contextual_scope_enter, contextual_scope_exit. intros a s s1 sv H.
  apply some_pair_inj in H. destruct H as [<- <-].
  unfold tl_set. rewrite st_set_set. unfold tl_get.
  destruct (st_get k_contextual s) eqn:G.
  - rewrite <- G. rewrite st_set_get_id. apply seq_at_refl.
  - apply nrm_set_equiv. rewrite G. reflexivity.
Qed.

(* --- class detouring: what the generated loops compute ------------------------------------------------------- *)
(* current_mappings is the top of the stack ({} when there is none); on an ill-typed slot (something true that is
   not a list) Python would raise: the generated text yields None there and nothing is pushed or popped *)
Lemma current_mappings_cases : forall l,
  (exists c, current_mappings l = VD c /\ tl_peek k_detour v_empty_dict l = VD c /\
             (truthy (tl_get k_detour v_none l) = true -> exists d r, st_get k_detour l = Some (VS (d :: r))))
  \/ (current_mappings l = v_none /\ truthy (tl_get k_detour v_none l) = true /\ forall s, st_get k_detour l <> Some (VS s)).
Proof.
  intros. unfold current_mappings, tl_get, tl_peek, py_last.
  destruct (st_get k_detour l) as [[[]|[|]|[|]]|] eqn:E; cbn [truthy v_none v_empty_dict];
    repeat match goal with |- context [if ?b then _ else _] => destruct b eqn:? end;
    first [ left; eexists; split; [reflexivity|]; split; [reflexivity|]; intros T; first [discriminate T | eauto]
          | right; split; [reflexivity|]; split; [reflexivity|]; congruence ].
Qed.

Lemma fold_setitem_nondict : forall (nw : dict) a,
  fold_left (fun c kv => py_setitem c (VA (AInt (fst kv))) (VA (snd kv))) nw (VA a) = VA a.
Proof. induction nw; simpl; auto. Qed.

Lemma detour_scope_enter_typed : forall a l c, current_mappings l = VD c ->
  exists nw, detour_scope_enter a l = Some (tl_push k_detour (VD (detour_spec c a)) l, [VD (detour_spec c a); nw]).
Proof.
  intros a l c H. unfold detour_scope_enter. rewrite H. unfold py_copy, py_for_items, v_empty_dict.
  assert (F2 : forall nw acc, fold_left (fun a0 kv => py_setitem a0 (VA (AInt (fst kv))) (VA (snd kv))) nw (VD acc) = VD (dict_update acc nw)).
  { unfold dict_update. induction nw as [|[k v] r IH]; intros acc; simpl; auto. }
  destruct a as [x|ms|x]; cbn [detour_spec]; try (simpl; eexists; reflexivity).
  match goal with |- context [fold_left ?f ms (VD [])] => set (F := f) end.
  assert (Fstep : forall acc s d, F (VD acc) (s, d) = VD (acc ++ match detour_resolve c (s, d) with Some y => [y] | None => [] end)).
  { intros acc s d. unfold F. cbn [fst snd]. unfold py_contains, py_dict_get, py_append_pair, detour_resolve, dict_has. cbn [fst snd].
    destruct (dict_get s c); cbn [negb]; [rewrite app_nil_r; reflexivity|].
    destruct d as [| b | z | z cc tt | dd]; try reflexivity.
    destruct (dict_get z c); reflexivity. }
  assert (F1 : forall ms acc, fold_left F ms (VD acc) = VD (acc ++ filter_map (detour_resolve c) ms)).
  { intro ms0. induction ms0 as [|[s d] r IH]; intros acc; cbn [fold_left filter_map].
    - rewrite app_nil_r. reflexivity.
    - rewrite Fstep. destruct (detour_resolve c (s, d)); rewrite IH; rewrite <- ?app_assoc; cbn [app]; try rewrite app_nil_r; reflexivity. }
  rewrite F1. cbn [app]. rewrite F2. eexists. reflexivity.
Qed.

Lemma detour_scope_enter_ill : forall a l, current_mappings l = v_none -> exists sv, detour_scope_enter a l = Some (l, sv).
Proof.
  intros a l H. unfold detour_scope_enter. rewrite H. unfold py_copy, v_none.
  match goal with |- context [py_for_items ?x (VA ANone) ?f] =>
    assert (F : py_for_items x (VA ANone) f = VA ANone) end.
  { unfold py_for_items. match goal with |- match ?x with _ => _ end = _ => destruct x end; auto. apply fold_setitem_nondict. }
  rewrite F. unfold tl_push. eexists. reflexivity.
Qed.

Lemma detour_restores : forall a s s1 sv,
  detour_scope_enter a s = Some (s1, sv) -> seq_at lclass 0 (detour_scope_exit a sv s1) s.
Proof.
  intros a s s1 sv H.
  destruct (current_mappings_cases s) as [[c [C [P T]]]|[C [T N]]].
  - destruct (detour_scope_enter_typed a s c C) as [nw E]. rewrite E in H. apply some_pair_inj in H. destruct H as [<- <-].
    unfold detour_scope_exit.
    destruct (truthy (tl_get k_detour v_none (tl_push k_detour (VD (detour_spec c a)) s))) eqn:TT.
    + apply tl_pop_push. reflexivity.
    + (* nothing could be pushed: the slot holds a false non-list; then nothing is popped *)
      unfold tl_push in *. unfold tl_get in TT.
      destruct (st_get k_detour s) as [[x|x|x]|] eqn:G; try apply seq_at_refl.
      * destruct (Nat.ltb_spec k_detour (length s)).
        -- rewrite st_get_set_same in TT by auto. discriminate TT.
        -- rewrite st_set_out by auto. apply seq_at_refl.
      * destruct (Nat.ltb_spec k_detour (length s)).
        -- rewrite st_get_set_same in TT by auto. discriminate TT.
        -- rewrite st_set_out by auto. apply seq_at_refl.
  - destruct (detour_scope_enter_ill a s C) as [sv' E]. rewrite E in H. apply some_pair_inj in H. destruct H as [<- <-].
    unfold detour_scope_exit. destruct sv' as [|x1 [|x2 [|x3 r]]]; try apply seq_at_refl.
    rewrite T. unfold tl_pop. destruct (st_get k_detour s) as [[x|x|[|x r]]|] eqn:G; try apply seq_at_refl.
    exfalso. eapply N; eauto.
Qed.

Lemma lift_enter_some : forall f s s1 sv, lift_enter f s = Some (s1, sv) ->
  exists l1, f (fst s) = Some (l1, sv) /\ s1 = (l1, snd s).
Proof.
  unfold lift_enter. intros f s s1 sv H. destruct (f (fst s)) as [[l1 sv1]|]; try discriminate.
  apply some_pair_inj in H. destruct H as [<- <-]. eauto.
Qed.

Lemma enter_exit : forall c a s s1 sv, cm_enter c a s = Some (s1, sv) -> obs_eq (cm_exit c a sv s1) s.
Proof.
  intros c a s s1 sv H. apply obs_eq_split. destruct s as [l g].
  destruct c; cbn [cm_enter cm_exit] in *;
    try (apply lift_enter_some in H; destruct H as [l1 [E ->]]; cbn [fst snd] in *; unfold lift_exit; cbn [fst snd]).
  - (* flags *)
    destruct (nth_error flag_scopes i) as [[k init]|].
    + apply lift_enter_some in H; destruct H as [l1 [E ->]]; cbn [fst snd] in *; unfold lift_exit; cbn [fst snd].
      rewrite (value_scope_restores _ _ _ _ _ _ E). split; apply seq_at_refl.
    + apply some_pair_inj in H. destruct H as [<- <-]. split; apply seq_at_refl.
  - split; [eapply permission_restores; eauto | apply seq_at_refl].
  - split; [eapply arg_scope_restores; eauto; reflexivity | apply seq_at_refl].
  - split; [eapply arg_scope_restores; eauto; reflexivity | apply seq_at_refl].
  - split; [eapply view_options_restores; eauto | apply seq_at_refl].
  - split; [eapply context_restores; eauto | apply seq_at_refl].
  - split; [eapply contextual_restores; eauto | apply seq_at_refl].
  - split; [eapply detour_restores; eauto | apply seq_at_refl].
  - split; [eapply detour_restores; eauto | apply seq_at_refl].
  - split; [eapply timeit_restores; eauto | apply seq_at_refl].
  - (* dynamic_evaluate, per thread: exact *)
    rewrite dyn_enter_thread in H.
    destruct (is_none (tl_get g_dynamic_evaluate v_none g)); try discriminate.
    apply some_pair_inj in H. destruct H as [<- <-]. rewrite dyn_exit_thread.
    unfold tl_has, tl_get, tl_set, tl_del.
    destruct (st_get k_dynamic_evaluate l) eqn:E; cbn [truthy v_true v_false fst snd]; rewrite st_set_restore by assumption; split; apply seq_at_refl.
  - (* dynamic_evaluate, process wide *)
    rewrite dyn_enter_global in H. apply some_pair_inj in H. destruct H as [<- <-]. rewrite dyn_exit_global. cbn [fst snd].
    split; [apply seq_at_refl|].
    unfold tl_set. rewrite st_set_set. unfold tl_get.
    destruct (st_get g_dynamic_evaluate g) eqn:E.
    + rewrite <- E. rewrite st_set_get_id. apply seq_at_refl.
    + apply nrm_set_equiv. rewrite E. reflexivity.
  - (* load_types_for_deserialization *)
    destruct (loadtypes_enter_cases a l g) as [[d [E _]]|[E N]]; rewrite E in H;
      apply some_pair_inj in H; destruct H as [<- <-]; rewrite loadtypes_exit_spec; cbn [fst snd]; (split; [apply seq_at_refl|]).
    + apply tl_pop_push. reflexivity.
    + unfold tl_pop. destruct (st_get g_ondemand_types g) as [[x|x|[|x r]]|] eqn:G; try apply seq_at_refl.
      exfalso. eapply N; eauto.
  - (* the mixing guard changes nothing *)
    unfold dynguard_enter in H. cbn [fst snd] in H.
    repeat match type of H with context [if ?b then _ else _] => destruct b end; try discriminate;
      apply some_pair_inj in H; destruct H as [<- <-]; split; apply seq_at_refl.
  - destruct a as [x|d|x]; try discriminate. apply some_pair_inj in H. destruct H as [<- <-]. cbn [fst snd]. split; [|apply seq_at_refl].
    apply tl_pop_push. reflexivity.
  - destruct a as [x|d|x]; try discriminate. apply some_pair_inj in H. destruct H as [<- <-]. cbn [fst snd]. split; [apply seq_at_refl|].
    apply tl_pop_push. reflexivity.
Qed.

(* --- the theorem: any program, any depth, normal and exceptional exits, failed enters ---------------------- *)
Theorem restore : forall p s, obs_eq (final (exec p s)) s.
Proof.
  induction p; intros s; simpl; unfold final in *; simpl.
  - apply obs_eq_refl.
  - apply obs_eq_refl.
  - apply obs_eq_refl.
  - specialize (IHp1 s). destruct (exec p1 s) as [[s1 o1] e1]. simpl in *.
    destruct e1; simpl; auto.
    specialize (IHp2 s1). destruct (exec p2 s1) as [[s2 o2] e2]. simpl in *.
    eapply obs_eq_trans; eauto.
  - specialize (IHp s). destruct (exec p s) as [[s1 o1] e1]. simpl in *. assumption.
  - destruct (cm_enter c a s) as [[s1 sv]|] eqn:E; simpl.
    + specialize (IHp s1). destruct (exec p s1) as [[s2 o] e]. simpl in *.
      eapply obs_eq_trans; [apply exit_congr; eassumption|]. eapply enter_exit; eauto.
    + apply obs_eq_refl.
Qed.

(* the flag managers and the per-thread dynamic_evaluate restore the stores syntactically *)
Definition exact_cm (c : cm) : bool := match c with CFlag _ | CDynEval => true | _ => false end.
Fixpoint exact_prog (p : sprog) : bool :=
  match p with
  | Seq p q => exact_prog p && exact_prog q
  | Catch p => exact_prog p
  | Scope c _ b => exact_cm c && exact_prog b
  | _ => true
  end.

Lemma enter_exit_exact : forall c a s s1 sv, exact_cm c = true -> cm_enter c a s = Some (s1, sv) -> cm_exit c a sv s1 = s.
Proof.
  intros c a [l g] s1 sv X H. destruct c; try discriminate; cbn [cm_enter cm_exit] in *.
  - destruct (nth_error flag_scopes i) as [[k init]|].
    + apply lift_enter_some in H; destruct H as [l1 [E ->]]; cbn [fst snd] in *; unfold lift_exit; cbn [fst snd].
      rewrite (value_scope_restores _ _ _ _ _ _ E). reflexivity.
    + apply some_pair_inj in H. destruct H as [<- <-]. reflexivity.
  - rewrite dyn_enter_thread in H.
    destruct (is_none (tl_get g_dynamic_evaluate v_none g)); try discriminate.
    apply some_pair_inj in H. destruct H as [<- <-]. rewrite dyn_exit_thread.
    unfold tl_has, tl_get, tl_set, tl_del.
    destruct (st_get k_dynamic_evaluate l) eqn:E; cbn [truthy v_true v_false fst snd]; rewrite st_set_restore by assumption; reflexivity.
Qed.

Theorem restore_exact : forall p s, exact_prog p = true -> final (exec p s) = s.
Proof.
  induction p; intros s X; simpl in *; unfold final in *; simpl; auto.
  - apply andb_prop in X. destruct X as [X1 X2].
    specialize (IHp1 s X1). destruct (exec p1 s) as [[s1 o1] e1]. simpl in *. subst.
    destruct e1; simpl; auto.
    specialize (IHp2 s X2). destruct (exec p2 s) as [[s2 o2] e2]. simpl in *. assumption.
  - specialize (IHp s X). destruct (exec p s) as [[s1 o1] e1]. simpl in *. assumption.
  - apply andb_prop in X. destruct X as [X1 X2].
    destruct (cm_enter c a s) as [[s1 sv]|] eqn:E; simpl; auto.
    specialize (IHp s1 X2). destruct (exec p s1) as [[s2 o] e]. simpl in *. subst.
    eapply enter_exit_exact; eauto.
Qed.

(* C17: the documented semantics as a specification without stores, and the refinement theorem.
   In the specification a scope is LEXICAL: entering changes the value the manager's getter returns according to
   the nesting rule, for the body only; there is no exit at all.  The theorem says that the model of the code
   (stores, saved values, finally blocks, stacks that are popped, keys that are deleted again) produces exactly the
   observations and exception behaviour of this specification, for every program. *)
From PG Require Import Common.Tactics Common.Tr Model.ScopesBase Gen.ScopeDefs Model.Scopes
  Proofs.ScopesStore Proofs.ScopesInstance Proofs.ScopesRestore Proofs.ScopesCongruence Proofs.ScopesEffective Proofs.ScopesFrame.

(* what the specification keeps: the value of every getter, plus the two facts dynamic_evaluate's mixing rules depend on *)
Inductive comp : Type :=
| CG (g : getter)
| CDynGlobalRaw        (* the process-wide evaluate function itself (a thread-local one hides it from the getter) *)
| CDynLocalHas.        (* is this thread inside a per-thread dynamic_evaluate scope *)

Definition getter_eqb (a b : getter) : bool :=
  match a, b with
  | GFlag i, GFlag j => Nat.eqb i j
  | GPerm, GPerm | GStrFmt, GStrFmt | GReprFmt, GReprFmt | GViewOpts, GViewOpts | GCtx, GCtx | GContextual, GContextual
  | GDetour, GDetour | GTimeit, GTimeit | GDynEval, GDynEval | GLoadTypes, GLoadTypes
  | GDynStackL, GDynStackL | GDynStackG, GDynStackG => true
  | _, _ => false
  end.
Definition comp_eqb (a b : comp) : bool :=
  match a, b with
  | CG x, CG y => getter_eqb x y
  | CDynGlobalRaw, CDynGlobalRaw | CDynLocalHas, CDynLocalHas => true
  | _, _ => false
  end.
Lemma getter_eqb_spec : forall a b, getter_eqb a b = true <-> a = b.
Proof.
  destruct a, b; simpl; split; intros H; try discriminate; try reflexivity.
  - apply Nat.eqb_eq in H. congruence.
  - inversion H. apply Nat.eqb_refl.
Qed.

Definition astate := comp -> val.
Definition upd (A : astate) (c : comp) (v : val) : astate := fun c' => if comp_eqb c' c then v else A c'.

(* the nesting rule as a function of the previous value of the getter *)
Definition arule (c : cm) (a old : val) : val :=
  match c with
  | CFlag _ | CTimeit | CDynEval | CDynEvalGlobal => a
  | CPerm => if is_none old then a else old
  | CStrFmt | CReprFmt | CCtx | CLoadTypes => py_update old a
  | CViewOpts => py_merge2 old a
  | CContextual => match old, a with VD p, VD vs => VD (contextual_merge p vs) | o, _ => o end
  | CDetour | CApplyWrappers => match old with VD cur => VD (detour_spec cur a) | o => o end
  | CDynGuard => old
  | CDynStackL | CDynStackG => match old, a with VS l, VD d => VS (d :: l) | o, _ => o end
  end.

(* entering, in the specification.  Only a per-thread dynamic_evaluate under a process-wide one fails. *)
Definition aenter (c : cm) (a : val) (A : astate) : option astate :=
  match c with
  | CDynEval =>
      if is_none (A CDynGlobalRaw) then Some (upd (upd A (CG GDynEval) a) CDynLocalHas v_true) else None
  | CDynEvalGlobal =>
      Some (upd (upd A CDynGlobalRaw a) (CG GDynEval) (if truthy (A CDynLocalHas) then A (CG GDynEval) else a))
  | CDynGuard =>       (* per-thread and process-wide contexts must not be mixed *)
      if truthy a
      then (if truthy (A (CG GDynStackG)) then None else Some A)
      else (if truthy (A (CG GDynStackL)) then None else Some A)
  | CDynStackL | CDynStackG =>
      match a with VD _ => Some (upd A (CG (getter_of c)) (arule c a (A (CG (getter_of c))))) | _ => None end
  | _ => Some (upd A (CG (getter_of c)) (arule c a (A (CG (getter_of c)))))
  end.

(* the specification semantics: observations and the escaping-exception flag; the state after a program is the state before *)
Fixpoint aexec (p : sprog) (A : astate) : list val * bool :=
  match p with
  | Skip => ([], false)
  | Obs g => ([A (CG g)], false)
  | Raise => ([], true)
  | Seq p q =>
      let '(o1, e1) := aexec p A in
      if e1 then (o1, true) else let '(o2, e2) := aexec q A in (o1 ++ o2, e2)
  | Catch p => let '(o, _) := aexec p A in (o, false)
  | Scope c a b => match aenter c a A with None => ([], true) | Some A1 => aexec b A1 end
  end.

(* --- the abstraction ------------------------------------------------------------------------------------------ *)
Definition aobs (c : comp) (s : state) : val :=
  match c with
  | CG g => observe g s
  | CDynGlobalRaw => tl_get g_dynamic_evaluate v_none (snd s)
  | CDynLocalHas => tl_has k_dynamic_evaluate (fst s)
  end.
Definition refines (s : state) (A : astate) : Prop := forall c, aobs c s = A c.
Definition abs (s : state) : astate := fun c => aobs c s.

Lemma refines_abs : forall s, refines s (abs s).
Proof. intros s c. reflexivity. Qed.

Lemma aobs_congr : forall c s t, obs_eq s t -> aobs c s = aobs c t.
Proof.
  intros c s t H. destruct c; cbn [aobs].
  - apply observe_congr. assumption.
  - apply obs_eq_split in H. destruct H as [_ Hg]. eapply tl_get_none_congr; eauto. reflexivity.
  - apply obs_eq_split in H. destruct H as [Hl _]. eapply tl_has_exact_congr; eauto. reflexivity.
Qed.
Lemma refines_congr : forall s t A, obs_eq s t -> refines s A -> refines t A.
Proof. intros s t A H R c. rewrite <- (aobs_congr c s t H). apply R. Qed.

Fixpoint valid_prog (p : sprog) : bool :=
  match p with
  | Seq p q => valid_prog p && valid_prog q
  | Catch p => valid_prog p
  | Scope c _ b => valid_cm c && valid_prog b
  | _ => true
  end.

(* --- entering: the model simulates the specification ----------------------------------------------------------- *)
Lemma rule_arule : forall c a s, c <> CDynEvalGlobal -> rule c a s = arule c a (observe (getter_of c) s).
Proof.
  intros c a s N. destruct c; try reflexivity; try congruence; cbn [rule arule getter_of].
  - destruct (observe GContextual s); destruct a; reflexivity.
  - destruct (observe GDetour s); reflexivity.
  - destruct (observe GDetour s); reflexivity.
  - destruct (observe GDynStackL s); destruct a; reflexivity.
  - destruct (observe GDynStackG s); destruct a; reflexivity.
Qed.

Lemma comp_eqb_CG : forall q g, comp_eqb (CG q) (CG g) = getter_eqb q g.
Proof. reflexivity. Qed.

(* the hidden facts change only under the two dynamic_evaluate managers *)
Lemma enter_keeps_dyn_facts : forall c a s s1 sv, cm_enter c a s = Some (s1, sv) ->
  (c <> CDynEvalGlobal -> aobs CDynGlobalRaw s1 = aobs CDynGlobalRaw s) /\
  (c <> CDynEval -> aobs CDynLocalHas s1 = aobs CDynLocalHas s).
Proof.
  intros c a [l g] [l1 g1] sv H. destruct (enter_frame c a l g l1 g1 sv H) as [FL FG]. cbn [aobs fst snd]. split; intros N.
  - unfold tl_get. rewrite FG; [reflexivity|]. destruct c; cbn [cm_gkey]; try discriminate; try congruence.
    all: try (intros C; inversion C as [C']; vm_compute in C'; discriminate C').
  - unfold tl_has. rewrite FL; [reflexivity|]. intros C.
    destruct c; cbn [cm_lkey] in C; try discriminate; try congruence;
      try (inversion C as [C']; vm_compute in C'; discriminate C').
    destruct (nth_error flag_scopes i) as [[k init]|] eqn:F; cbn [option_map fst] in C; try discriminate.
    inversion C; subst. eapply (flag_scope_not_fixed i k_dynamic_evaluate init); eauto. simpl. tauto.
Qed.

Definition generic (c : cm) : bool :=
  match c with CDynEval | CDynEvalGlobal | CDynGuard | CDynStackL | CDynStackG => false | _ => true end.

Lemma enter_total : forall c a s, generic c = true -> exists s1 sv, cm_enter c a s = Some (s1, sv).
Proof.
  intros c a [l g] N. destruct c; try discriminate; cbn [cm_enter]; unfold lift_enter; cbn [fst snd].
  - destruct (nth_error flag_scopes i) as [[k init]|]; [unfold thread_local_value_scope_enter|]; eauto.
  - unfold permission_enter. match goal with |- context [if ?b then _ else _] => destruct b end; eauto.
  - unfold thread_local_arg_scope_enter. eauto.
  - unfold thread_local_arg_scope_enter. eauto.
  - unfold view_options_enter. eauto.
  - unfold context_enter. eauto.
  - unfold contextual_scope_enter. eauto.
  - unfold detour_scope_enter. eauto.
  - unfold detour_scope_enter. eauto.
  - unfold timeit_enter. match goal with |- context [if ?b then _ else _] => destruct b end; eauto.
  - destruct (loadtypes_enter_cases a l g) as [[d [E _]]|[E _]]; rewrite E; eauto.
Qed.

(* a manager whose enter succeeded and that is not one of the two dynamic_evaluate managers: its own getter follows the rule,
   nothing else changes *)
Lemma enter_simulates_entered : forall c a s A s1 sv, wt s -> valid_cm c = true -> refines s A ->
  c <> CDynEval -> c <> CDynEvalGlobal -> cm_enter c a s = Some (s1, sv) ->
  refines s1 (upd A (CG (getter_of c)) (arule c a (A (CG (getter_of c))))).
Proof.
  intros c a s A s1 sv W V R N1 N2 E c'. destruct (enter_keeps_dyn_facts c a s s1 sv E) as [KG KL].
  destruct c' as [q| |]; unfold upd.
  - rewrite comp_eqb_CG. destruct (getter_eqb q (getter_of c)) eqn:Q.
    + apply getter_eqb_spec in Q. subst q. cbn [aobs]. rewrite (effective_enter c a s s1 sv W V E).
      rewrite (rule_arule c a s N2). rewrite <- (R (CG (getter_of c))). reflexivity.
    + cbn [aobs]. rewrite <- (R (CG q)). cbn [aobs]. eapply enter_no_interference; eauto.
      intros ->. rewrite (proj2 (getter_eqb_spec _ _) eq_refl) in Q. discriminate.
  - assert (comp_eqb CDynGlobalRaw (CG (getter_of c)) = false) as -> by reflexivity. rewrite (KG N2). apply (R CDynGlobalRaw).
  - assert (comp_eqb CDynLocalHas (CG (getter_of c)) = false) as -> by reflexivity. rewrite (KL N1). apply (R CDynLocalHas).
Qed.

Lemma stack_read_truthy : forall k st, truthy (stack_read k st) = truthy (tl_get k v_none st) \/ (exists x, st_get k st = Some x /\ forall l, x <> VS l).
Proof.
  intros. unfold stack_read, tl_get. destruct (st_get k st) as [[x|x|x]|] eqn:E; auto; right; eexists; split; eauto; congruence.
Qed.

Lemma enter_simulates : forall c a s A, wt s -> valid_cm c = true -> refines s A ->
  match cm_enter c a s, aenter c a A with
  | Some (s1, _), Some A1 => refines s1 A1
  | None, None => True
  | _, _ => False
  end.
Proof.
  intros c a s A W V R.
  destruct (generic c) eqn:G.
  - (* every ordinary manager: entering always succeeds *)
    destruct (enter_total c a s G) as [s1 [sv E]]. rewrite E.
    assert (AE : aenter c a A = Some (upd A (CG (getter_of c)) (arule c a (A (CG (getter_of c)))))) by (destruct c; try reflexivity; discriminate).
    rewrite AE. eapply enter_simulates_entered; eauto; intros ->; discriminate.
  - destruct c; try discriminate; clear G.
    + (* per-thread dynamic_evaluate *)
      destruct s as [l g]. cbn [cm_enter aenter]. rewrite dyn_enter_thread. rewrite <- (R CDynGlobalRaw). cbn [aobs snd].
      destruct (is_none (tl_get g_dynamic_evaluate v_none g)) eqn:E; auto.
      destruct W as [[Ll _] _]. cbn [fst snd] in *.
      assert (K : k_dynamic_evaluate < length l) by (rewrite Ll; apply Nat.ltb_lt; vm_compute; reflexivity).
      intros c'. destruct c' as [q| |]; unfold upd; cbn [comp_eqb aobs fst snd].
      * destruct (getter_eqb q GDynEval) eqn:Q.
        -- apply getter_eqb_spec in Q. subst. unfold observe, get_dynamic_evaluate_fn. cbn [fst snd]. apply tl_get_set_same. assumption.
        -- rewrite <- (R (CG q)). cbn [aobs].
          assert (QN : q <> getter_of CDynEval) by (intros ->; simpl in Q; discriminate).
          apply (enter_no_interference CDynEval a (l, g) (tl_set k_dynamic_evaluate a l, g)
                   [tl_has k_dynamic_evaluate l; tl_get k_dynamic_evaluate v_none l; v_false]); auto;
            cbn [cm_enter]; rewrite dyn_enter_thread, E; reflexivity.
      * apply (R CDynGlobalRaw).
      * unfold tl_has, tl_set. rewrite st_get_set_same by assumption. reflexivity.
    + (* process-wide dynamic_evaluate *)
      destruct s as [l g]. cbn [cm_enter aenter]. rewrite dyn_enter_global.
      destruct W as [_ [Lg _]]. cbn [fst snd] in *.
      assert (K : g_dynamic_evaluate < length g) by (rewrite Lg; apply Nat.ltb_lt; vm_compute; reflexivity).
      intros c'. destruct c' as [q| |]; unfold upd; cbn [comp_eqb aobs fst snd].
      * destruct (getter_eqb q GDynEval) eqn:Q.
        -- apply getter_eqb_spec in Q. subst. rewrite <- (R CDynLocalHas), <- (R (CG GDynEval)).
          cbn [aobs]. unfold observe, get_dynamic_evaluate_fn. cbn [fst snd]. rewrite tl_get_set_same by assumption.
          unfold tl_has, tl_get, k_dynamic_evaluate.
          match goal with |- context [st_get ?k l] => destruct (st_get k l) end; reflexivity.
        -- rewrite <- (R (CG q)). cbn [aobs].
          assert (QN : q <> getter_of CDynEvalGlobal) by (intros ->; simpl in Q; discriminate).
          apply (enter_no_interference CDynEvalGlobal a (l, g) (l, tl_set g_dynamic_evaluate a g)
                   [v_false; tl_get g_dynamic_evaluate v_none g; v_false]); auto;
            cbn [cm_enter]; rewrite dyn_enter_global; reflexivity.
      * apply tl_get_set_same. assumption.
      * apply (R CDynLocalHas).
    + (* the mixing guard: decided by the truth value of the two stacks, which the specification sees through the getters *)
      destruct s as [l g]. cbn [cm_enter aenter]. unfold dynguard_enter. cbn [fst snd].
      destruct W as [[Ll Wl] [Lg Wg]]. cbn [fst snd] in *.
      assert (TG : truthy (A (CG GDynStackG)) = truthy (tl_get g_dynstack v_none g)).
      { rewrite <- (R (CG GDynStackG)). cbn [aobs]. unfold observe. cbn [snd].
        destruct (stack_read_truthy g_dynstack g) as [T|[x [E N]]]; auto.
        exfalso. specialize (Wg g_dynstack). replace (gclass g_dynstack) with KStack in Wg by reflexivity. rewrite E in Wg.
        destruct x; try discriminate Wg. eapply N; eauto. }
      assert (TL : truthy (A (CG GDynStackL)) = truthy (tl_get k_dynstack v_none l)).
      { rewrite <- (R (CG GDynStackL)). cbn [aobs]. unfold observe. cbn [fst].
        destruct (stack_read_truthy k_dynstack l) as [T|[x [E N]]]; auto.
        exfalso. specialize (Wl k_dynstack). replace (lclass k_dynstack) with KStack in Wl by reflexivity. rewrite E in Wl.
        destruct x; try discriminate Wl. eapply N; eauto. }
      rewrite TG, TL. destruct (truthy a); match goal with |- context [if ?b then _ else _] => destruct b end; auto.
    + (* the stack of per-thread contexts *)
      destruct a as [x|d|x]; cbn [cm_enter aenter]; auto.
      eapply (enter_simulates_entered CDynStackL (VD d) s A); eauto; try discriminate. reflexivity.
    + destruct a as [x|d|x]; cbn [cm_enter aenter]; auto.
      eapply (enter_simulates_entered CDynStackG (VD d) s A); eauto; try discriminate. reflexivity.
Qed.

(* --- REFINEMENT: every program, from every well-typed state ------------------------------------------------------ *)
Theorem refinement : forall p s A, wt s -> valid_prog p = true -> refines s A ->
  observations (exec p s) = fst (aexec p A) /\ escapes (exec p s) = snd (aexec p A).
Proof.
  unfold observations, escapes.
  induction p; intros s A W V R; cbn [exec aexec].
  - auto.
  - cbn [fst snd]. rewrite <- (R (CG g)). auto.
  - auto.
  - cbn [valid_prog] in V. apply andb_prop in V. destruct V as [V1 V2].
    specialize (IHp1 s A W V1 R).
    pose proof (restore p1 s) as R1. pose proof (exec_wt p1 s W) as W1. unfold final in *.
    destruct (exec p1 s) as [[s1 o1] e1]. destruct (aexec p1 A) as [ao1 ae1]. cbn [fst snd] in *.
    destruct IHp1 as [-> ->]. destruct ae1; cbn [fst snd]; auto.
    assert (Rs1 : refines s1 A) by (eapply refines_congr; [apply obs_eq_sym; eassumption | assumption]).
    specialize (IHp2 s1 A W1 V2 Rs1).
    destruct (exec p2 s1) as [[s2 o2] e2]. destruct (aexec p2 A) as [ao2 ae2]. cbn [fst snd] in *.
    destruct IHp2 as [-> ->]. auto.
  - cbn [valid_prog] in V. specialize (IHp s A W V R).
    destruct (exec p s) as [[s1 o1] e1]. destruct (aexec p A) as [ao1 ae1]. cbn [fst snd] in *.
    destruct IHp as [-> _]. auto.
  - cbn [valid_prog] in V. apply andb_prop in V. destruct V as [V1 V2].
    pose proof (enter_simulates c a s A W V1 R) as ES.
    destruct (cm_enter c a s) as [[s1 sv]|] eqn:E; destruct (aenter c a A) as [A1|]; try contradiction.
    + assert (W1 : wt s1) by (eapply enter_wt; eauto).
      specialize (IHp s1 A1 W1 V2 ES).
      destruct (exec p s1) as [[s2 o] e]. cbn [fst snd] in *. assumption.
    + auto.
Qed.

(* from a fresh thread: the observations of a program are those of the specification run on the documented defaults *)
Corollary refinement_from_fresh_state : forall p, valid_prog p = true ->
  observations (exec p init_state) = fst (aexec p (abs init_state)) /\
  escapes (exec p init_state) = snd (aexec p (abs init_state)).
Proof. intros p V. apply refinement; auto using wt_init, refines_abs. Qed.

(* HyperIter.v — the specification of a well-formed template is well-formed; two valid DNAs that decode to equal (==)
   values are the same DNA when the candidates are distinguishable; hence iterating the template yields as many
   pairwise different values as the size of its space (with C11). *)
From Coq Require Import Sorted.
From PG Require Import Common.Tactics Model.Geno Proofs.GenoBasics Proofs.GenoValid Proofs.GenoSize Proofs.GenoOrder
  Proofs.GenoNext Proofs.GenoIter Model.Hyper Model.HyperSpec Proofs.HyperBasics Proofs.HyperDecode Proofs.HyperEncode.

(* ---- well-formed specification -------------------------------------------------------------------------- *)
Lemma forallb_flat_mapi : forall A B (p : B -> bool) (f : nat -> A -> list B) l n,
  Forall (fun x => forall i, forallb p (f i x) = true) l -> forallb p (flat_mapi f n l) = true.
Proof.
  induction l; intros n H; simpl; auto. inv H. rewrite forallb_app, H2. simpl. auto.
Qed.
Lemma forallb_flat_map : forall A B (p : B -> bool) (f : A -> list B) l,
  Forall (fun x => forallb p (f x) = true) l -> forallb p (flat_map f l) = true.
Proof. induction 1; simpl; auto. rewrite forallb_app, H. simpl. auto. Qed.

Lemma pts_wf : forall w t, hwf t = true -> forall p, forallb wf_p (pts w p t) = true.
Proof.
  intros w. induction t using tmpl_ind'; intros Hw p; simpl in Hw |- *; auto.
  - apply forallb_flat_map. rewrite forallb_forall in Hw. rewrite Forall_forall in *. intros kv Hkv. apply H; auto.
  - apply forallb_flat_map. rewrite forallb_forall in Hw. rewrite Forall_forall in *. intros kv Hkv. apply H; auto.
  - apply forallb_flat_mapi. rewrite forallb_forall in Hw. rewrite Forall_forall in *. intros x Hx i. apply H; auto.
  - apply andb_true_iff in Hw as [Hn Hc]. rewrite forallb_forall in Hc.
    destruct (w (TOneOf cands a)).
    + simpl. rewrite map_length, Hn. simpl. rewrite andb_true_r.
      rewrite forallb_forall. intros s Hs. apply in_map_iff in Hs as (c & <- & Hin). simpl.
      rewrite Forall_forall in H. apply H; auto.
    + apply forallb_flat_mapi. rewrite Forall_forall in *. intros x Hx i. apply H; auto.
  - apply andb_true_iff in Hw as [Hw Hc]. apply andb_true_iff in Hw as [Hw Hd]. apply andb_true_iff in Hw as [Hk Hn].
    rewrite forallb_forall in Hc.
    destruct (w (TManyOf k cands d s a)).
    + simpl. rewrite map_length, Hk, Hn, Hd. simpl. rewrite andb_true_r.
      rewrite forallb_forall. intros sp Hs. apply in_map_iff in Hs as (c & <- & Hin). simpl.
      rewrite Forall_forall in H. apply H; auto.
    + apply forallb_flat_mapi. rewrite Forall_forall in *. intros x Hx i. apply H; auto.
  - destruct (w (TFloat lo hi a)); simpl; auto. rewrite Hw; auto.
  - destruct (w (TCustom ck a)); simpl; auto.
Qed.
Lemma dna_spec_wf : forall w t, hwf t = true -> wf (dna_spec w t) = true.
Proof. intros. simpl. apply pts_wf; auto. Qed.

(* ---- decode is injective modulo == on distinguishable templates ----------------------------------------------- *)
Lemma finish_ok : forall S (r : result (tmpl * list S)) v, finish r = Ok v -> r = Ok (v, []).
Proof. intros S [[v0 [|x l]]|e] v H; simpl in H; inv H; auto. Qed.

Lemma trav_kvs_keys : forall K X S (f : X -> S -> result (X * S)) (l : list (K * X)) s l' r,
  trav_kvs f l s = Ok (l', r) -> map fst l' = map fst l.
Proof.
  induction l as [|[k x] l IH]; intros s l' r H.
  - simpl in H. inv H. auto.
  - rewrite trav_kvs_cons in H. destruct (f x s) as [[v s1]|]; try discriminate.
    destruct (trav_kvs f l s1) as [[vs s2]|] eqn:E; inv H. simpl. f_equal. eauto.
Qed.

Lemma with_key_skip : forall X B (g : X -> B) d k y l k', str_eqb k' k = false ->
  with_key g d ((k, y) :: l) k' = with_key g d l k'.
Proof. intros; simpl. rewrite H; auto. Qed.

(* on dicts with the same unique keys in the same order, == by key is == by position *)
Lemma veq_dict_pos : forall l1 l2, NoDup (map fst l1) -> map fst l1 = map fst l2 ->
  forallb (fun kv => with_key (fun y => veq (snd kv) y) false l2 (fst kv)) l1 = true ->
  forallb2 (fun x y => str_eqb (fst x) (fst y) && veq (snd x) (snd y)) l1 l2 = true.
Proof.
  induction l1 as [|[k x] l1 IH]; intros [|[k' y] l2] ND Hk H; simpl in Hk; try discriminate; auto.
  injection Hk as Hk1 Hk2. subst k'. simpl in ND. apply NoDup_cons_iff in ND as [Hnin ND].
  simpl in H. rewrite str_eqb_refl in H. apply andb_true_iff in H as [Hq1 Hq2].
  simpl. rewrite str_eqb_refl, Hq1. simpl. apply IH; auto.
  rewrite forallb_forall in *. intros [k0 x0] Hin. specialize (Hq2 _ Hin). simpl in Hq2.
  destruct (str_eqb k0 k) eqn:E; auto. apply str_eqb_eq in E; subst.
  exfalso. apply Hnin. change k with (fst (k, x0)). apply in_map; auto.
Qed.

Section Inj.
  Variable cdec : nat -> str -> result tmpl.
  Variable w : tmpl -> bool.
  Notation sdec := (sdec cdec w).
  Hypothesis Hinj : forall ck s1 s2 v1 v2, cdec ck s1 = Ok v1 -> cdec ck s2 = Ok v2 -> veq v1 v2 = true -> s1 = s2.

  Definition inj_ok (t : tmpl) : Prop := wf_t t -> distinguishable cdec w t -> forall p ds1 ds2 r1 r2 v1 v2 r1' r2',
    forallb2 valid_p (pts w p t) ds1 = true -> forallb2 valid_p (pts w p t) ds2 = true ->
    sdec t (ds1 ++ r1) = Ok (v1, r1') -> sdec t (ds2 ++ r2) = Ok (v2, r2') ->
    r1' = r1 /\ r2' = r2 /\ (veq v1 v2 = true -> ds1 = ds2).

  Lemma inj_list : forall ts, Forall inj_ok ts -> Forall wf_t ts -> Forall (distinguishable cdec w) ts ->
    forall (pf : nat -> list ikey) n ds1 ds2 r1 r2 vs1 vs2 r1' r2',
    forallb2 valid_p (flat_mapi (fun i x => pts w (pf i) x) n ts) ds1 = true ->
    forallb2 valid_p (flat_mapi (fun i x => pts w (pf i) x) n ts) ds2 = true ->
    trav_list sdec ts (ds1 ++ r1) = Ok (vs1, r1') -> trav_list sdec ts (ds2 ++ r2) = Ok (vs2, r2') ->
    r1' = r1 /\ r2' = r2 /\ (forallb2 veq vs1 vs2 = true -> ds1 = ds2).
  Proof.
    induction 1 as [|t ts Ht _ IH]; intros Hwf Hdi pf n ds1 ds2 r1 r2 vs1 vs2 r1' r2' Hv1 Hv2 Hd1 Hd2.
    - destruct ds1; [|discriminate Hv1]. destruct ds2; [|discriminate Hv2]. simpl in Hd1, Hd2. inv Hd1. inv Hd2. auto.
    - apply Forall_cons_iff in Hwf as [Hw1 Hw2]. apply Forall_cons_iff in Hdi as [Hi1 Hi2].
      rewrite flat_mapi_cons in Hv1, Hv2.
      apply forallb2_app_l in Hv1 as (a1 & b1 & -> & Ha1 & Hb1). apply forallb2_app_l in Hv2 as (a2 & b2 & -> & Ha2 & Hb2).
      rewrite <- app_assoc, trav_list_cons in Hd1, Hd2.
      destruct (sdec t (a1 ++ b1 ++ r1)) as [[x1 s1]|] eqn:E1; try discriminate.
      destruct (sdec t (a2 ++ b2 ++ r2)) as [[x2 s2]|] eqn:E2; try discriminate.
      destruct (Ht Hw1 Hi1 _ _ _ _ _ _ _ _ _ Ha1 Ha2 E1 E2) as (-> & -> & Hx).
      destruct (trav_list sdec ts (b1 ++ r1)) as [[ys1 t1]|] eqn:F1; try discriminate.
      destruct (trav_list sdec ts (b2 ++ r2)) as [[ys2 t2]|] eqn:F2; try discriminate.
      inv Hd1. inv Hd2.
      destruct (IH Hw2 Hi2 _ _ _ _ _ _ _ _ _ _ Hb1 Hb2 F1 F2) as (-> & -> & Hy).
      repeat split; auto. simpl. intros Hq. apply andb_true_iff in Hq as [Hq1 Hq2]. f_equal; auto.
  Qed.

  Lemma inj_kvs : forall kvs, Forall (fun kv => inj_ok (snd kv)) kvs -> Forall (fun kv => wf_t (snd kv)) kvs ->
    Forall (fun kv => distinguishable cdec w (snd kv)) kvs ->
    forall (pf : str -> list ikey) ds1 ds2 r1 r2 l1 l2 r1' r2',
    forallb2 valid_p (flat_map (fun kv => pts w (pf (fst kv)) (snd kv)) kvs) ds1 = true ->
    forallb2 valid_p (flat_map (fun kv => pts w (pf (fst kv)) (snd kv)) kvs) ds2 = true ->
    trav_kvs sdec kvs (ds1 ++ r1) = Ok (l1, r1') -> trav_kvs sdec kvs (ds2 ++ r2) = Ok (l2, r2') ->
    r1' = r1 /\ r2' = r2 /\
    (forallb2 (fun x y => str_eqb (fst x) (fst y) && veq (snd x) (snd y)) l1 l2 = true -> ds1 = ds2).
  Proof.
    induction 1 as [|[k t] kvs Ht _ IH]; intros Hwf Hdi pf ds1 ds2 r1 r2 l1 l2 r1' r2' Hv1 Hv2 Hd1 Hd2.
    - destruct ds1; [|discriminate Hv1]. destruct ds2; [|discriminate Hv2]. simpl in Hd1, Hd2. inv Hd1. inv Hd2. auto.
    - apply Forall_cons_iff in Hwf as [Hw1 Hw2]. apply Forall_cons_iff in Hdi as [Hi1 Hi2]. simpl in Ht, Hw1, Hi1.
      simpl in Hv1, Hv2.
      apply forallb2_app_l in Hv1 as (a1 & b1 & -> & Ha1 & Hb1). apply forallb2_app_l in Hv2 as (a2 & b2 & -> & Ha2 & Hb2).
      rewrite <- app_assoc, trav_kvs_cons in Hd1, Hd2.
      destruct (sdec t (a1 ++ b1 ++ r1)) as [[x1 s1]|] eqn:E1; try discriminate.
      destruct (sdec t (a2 ++ b2 ++ r2)) as [[x2 s2]|] eqn:E2; try discriminate.
      destruct (Ht Hw1 Hi1 _ _ _ _ _ _ _ _ _ Ha1 Ha2 E1 E2) as (-> & -> & Hx).
      destruct (trav_kvs sdec kvs (b1 ++ r1)) as [[ys1 t1]|] eqn:F1; try discriminate.
      destruct (trav_kvs sdec kvs (b2 ++ r2)) as [[ys2 t2]|] eqn:F2; try discriminate.
      inv Hd1. inv Hd2.
      destruct (IH Hw2 Hi2 _ _ _ _ _ _ _ _ _ Hb1 Hb2 F1 F2) as (-> & -> & Hy).
      repeat split; auto. simpl. intros Hq. apply andb_true_iff in Hq as [Hq1 Hq2].
      apply andb_true_iff in Hq1 as [_ Hq1]. f_equal; auto.
  Qed.

  Lemma inj_choice : forall cands, Forall inj_ok cands -> Forall wf_t cands -> Forall (distinguishable cdec w) cands ->
    cand_distinct cdec w cands -> forall cs1 cs2 v1 v2,
    with_nth (fun s => valid s (snd cs1)) false (map (fun c => Space (pts w [] c)) cands) (fst cs1) = true ->
    with_nth (fun s => valid s (snd cs2)) false (map (fun c => Space (pts w [] c)) cands) (fst cs2) = true ->
    choice_of cdec w cands cs1 = Ok v1 -> choice_of cdec w cands cs2 = Ok v2 -> veq v1 v2 = true -> cs1 = cs2.
  Proof.
    intros cands Hi Hwf Hdi Hcd [c1 [s1]] [c2 [s2]] v1 v2 Hv1 Hv2 Hc1 Hc2 Hq. simpl in Hv1, Hv2.
    unfold choice_of in Hc1, Hc2; simpl in Hc1, Hc2.
    rewrite with_nth_map, with_nth_nth_error in Hv1, Hv2. rewrite with_nth_nth_error in Hc1, Hc2.
    destruct (nth_error cands c1) as [cc1|] eqn:E1; try discriminate.
    destruct (nth_error cands c2) as [cc2|] eqn:E2; try discriminate.
    apply finish_ok in Hc1. apply finish_ok in Hc2.
    destruct (Nat.eq_dec c1 c2) as [->|Hne].
    - rewrite E1 in E2. inv E2. f_equal. f_equal.
      assert (A1 : sdec cc2 (s1 ++ []) = Ok (v1, [])) by (rewrite app_nil_r; auto).
      assert (A2 : sdec cc2 (s2 ++ []) = Ok (v2, [])) by (rewrite app_nil_r; auto).
      destruct (nth_error_Forall _ _ _ _ _ Hi E1 (nth_error_Forall _ _ _ _ _ Hwf E1) (nth_error_Forall _ _ _ _ _ Hdi E1)
                  [] _ _ _ _ _ _ _ _ Hv1 Hv2 A1 A2) as (_ & _ & G). auto.
    - exfalso.
      assert (F : veq v1 v2 = false).
      { apply (Hcd c1 c2 cc1 cc2 (SSpace s1) (SSpace s2) v1 v2); auto.
        - unfold sdecode. rewrite Hc1. reflexivity.
        - unfold sdecode. rewrite Hc2. reflexivity. }
      congruence.
  Qed.

  Lemma inj_choices : forall cands, Forall inj_ok cands -> Forall wf_t cands -> Forall (distinguishable cdec w) cands ->
    cand_distinct cdec w cands -> forall cs1 cs2 vs1 vs2,
    forallb (fun cs0 => with_nth (fun s => valid s (snd cs0)) false (map (fun c => Space (pts w [] c)) cands) (fst cs0)) cs1 = true ->
    forallb (fun cs0 => with_nth (fun s => valid s (snd cs0)) false (map (fun c => Space (pts w [] c)) cands) (fst cs0)) cs2 = true ->
    map_res (choice_of cdec w cands) cs1 = Ok vs1 -> map_res (choice_of cdec w cands) cs2 = Ok vs2 ->
    forallb2 veq vs1 vs2 = true -> cs1 = cs2.
  Proof.
    intros cands Hi Hwf Hdi Hcd. induction cs1 as [|c1 cs1 IH]; intros [|c2 cs2] vs1 vs2 Hv1 Hv2 Hm1 Hm2 Hq.
    - auto.
    - simpl in Hm1. inv Hm1. rewrite map_res_cons in Hm2.
      destruct (choice_of cdec w cands c2); try discriminate. destruct (map_res _ cs2); inv Hm2. discriminate.
    - simpl in Hm2. inv Hm2. rewrite map_res_cons in Hm1.
      destruct (choice_of cdec w cands c1); try discriminate. destruct (map_res _ cs1); inv Hm1. discriminate.
    - simpl in Hv1, Hv2. apply andb_true_iff in Hv1 as [Ha1 Hb1]. apply andb_true_iff in Hv2 as [Ha2 Hb2].
      rewrite map_res_cons in Hm1, Hm2.
      destruct (choice_of cdec w cands c1) as [x1|] eqn:E1; try discriminate.
      destruct (choice_of cdec w cands c2) as [x2|] eqn:E2; try discriminate.
      destruct (map_res _ cs1) as [ys1|] eqn:F1; try discriminate. destruct (map_res _ cs2) as [ys2|] eqn:F2; try discriminate.
      inv Hm1. inv Hm2. simpl in Hq. apply andb_true_iff in Hq as [Hq1 Hq2].
      f_equal; [eapply inj_choice; eauto | eapply IH; eauto].
  Qed.

  Lemma dec_inj : forall t, inj_ok t.
  Proof.
    induction t using tmpl_ind'; intros Hwf Hdi p ds1 ds2 r1 r2 v1 v2 r1' r2' Hv1 Hv2 Hd1 Hd2.
    - (* leaf *) destruct ds1; [|discriminate Hv1]. destruct ds2; [|discriminate Hv2]. simpl in Hd1, Hd2. inv Hd1. inv Hd2. auto.
    - (* dict *) destruct Hwf as [ND Hw]. apply all_P_Forall in Hw. simpl in Hdi. apply all_P_Forall in Hdi.
      simpl in Hv1, Hv2. rewrite sdec_dict in Hd1, Hd2.
      destruct (trav_kvs sdec kvs (ds1 ++ r1)) as [[l1 s1]|] eqn:E1; inv Hd1.
      destruct (trav_kvs sdec kvs (ds2 ++ r2)) as [[l2 s2]|] eqn:E2; inv Hd2.
      destruct (inj_kvs kvs H Hw Hdi (fun k => p ++ [KName k]) _ _ _ _ _ _ _ _ Hv1 Hv2 E1 E2) as (-> & -> & G).
      repeat split; auto. simpl. intros Hq. apply andb_true_iff in Hq as [_ Hq]. apply G.
      pose proof (trav_kvs_keys _ _ _ _ _ _ _ _ E1) as K1. pose proof (trav_kvs_keys _ _ _ _ _ _ _ _ E2) as K2.
      apply veq_dict_pos; auto; congruence.
    - (* object *) destruct Hwf as [ND Hw]. apply all_P_Forall in Hw. simpl in Hdi. apply all_P_Forall in Hdi.
      simpl in Hv1, Hv2. rewrite sdec_obj in Hd1, Hd2.
      destruct (trav_kvs sdec kvs (ds1 ++ r1)) as [[l1 s1]|] eqn:E1; inv Hd1.
      destruct (trav_kvs sdec kvs (ds2 ++ r2)) as [[l2 s2]|] eqn:E2; inv Hd2.
      destruct (inj_kvs kvs H Hw Hdi (fun k => p ++ [KName k]) _ _ _ _ _ _ _ _ Hv1 Hv2 E1 E2) as (-> & -> & G).
      repeat split; auto. simpl. intros Hq. apply andb_true_iff in Hq as [_ Hq]. auto.
    - (* list *) simpl in Hwf. apply all_P_Forall in Hwf. simpl in Hdi. apply all_P_Forall in Hdi.
      simpl in Hv1, Hv2. rewrite sdec_list in Hd1, Hd2.
      destruct (trav_list sdec ts (ds1 ++ r1)) as [[l1 s1]|] eqn:E1; inv Hd1.
      destruct (trav_list sdec ts (ds2 ++ r2)) as [[l2 s2]|] eqn:E2; inv Hd2.
      destruct (inj_list ts H Hwf Hdi (fun i => p ++ [KIdx i]) 0 _ _ _ _ _ _ _ _ Hv1 Hv2 E1 E2) as (-> & -> & G).
      repeat split; auto.
    - (* oneof *) simpl in Hwf. apply all_P_Forall in Hwf. destruct Hdi as [Hcd Hdi]. apply all_P_Forall in Hdi.
      simpl in Hv1, Hv2. rewrite sdec_oneof in Hd1, Hd2. destruct (w (TOneOf cands a)) eqn:W.
      + destruct ds1 as [|x1 ds1]; simpl in Hv1; try discriminate. destruct ds2 as [|x2 ds2]; simpl in Hv2; try discriminate.
        apply andb_true_iff in Hv1 as [Hx1 Hn1]. destruct ds1; [|discriminate Hn1].
        apply andb_true_iff in Hv2 as [Hx2 Hn2]. destruct ds2; [|discriminate Hn2].
        destruct x1 as [cs1| |]; simpl in Hx1; try discriminate. destruct x2 as [cs2| |]; simpl in Hx2; try discriminate.
        apply andb_true_iff in Hx1 as [Hx1 Hall1]. apply andb_true_iff in Hx1 as [Hlen1 _].
        apply andb_true_iff in Hx2 as [Hx2 Hall2]. apply andb_true_iff in Hx2 as [Hlen2 _].
        destruct cs1 as [|c1 [|c1' cs1]]; simpl in Hlen1; try discriminate.
        destruct cs2 as [|c2 [|c2' cs2]]; simpl in Hlen2; try discriminate.
        simpl in Hall1, Hall2. rewrite andb_true_r in Hall1, Hall2. simpl in Hd1, Hd2.
        destruct (choice_of cdec w cands c1) as [y1|] eqn:Ec1; inv Hd1.
        destruct (choice_of cdec w cands c2) as [y2|] eqn:Ec2; inv Hd2.
        repeat split; auto. intros Hq.
        rewrite (inj_choice cands H Hwf Hdi (Hcd eq_refl) c1 c2 v1 v2 Hall1 Hall2 Ec1 Ec2 Hq). auto.
      + destruct (trav_list sdec cands (ds1 ++ r1)) as [[l1 s1]|] eqn:E1; inv Hd1.
        destruct (trav_list sdec cands (ds2 ++ r2)) as [[l2 s2]|] eqn:E2; inv Hd2.
        destruct (inj_list cands H Hwf Hdi (fun i => p ++ [KName s_candidates; KIdx i]) 0 _ _ _ _ _ _ _ _ Hv1 Hv2 E1 E2) as (-> & -> & G).
        repeat split; auto. simpl. intros Hq. apply andb_true_iff in Hq as [_ Hq]. auto.
    - (* manyof *) simpl in Hwf. apply all_P_Forall in Hwf. destruct Hdi as [Hcd Hdi]. apply all_P_Forall in Hdi.
      simpl in Hv1, Hv2. rewrite sdec_manyof in Hd1, Hd2. destruct (w (TManyOf k cands d s a)) eqn:W.
      + destruct ds1 as [|x1 ds1]; simpl in Hv1; try discriminate. destruct ds2 as [|x2 ds2]; simpl in Hv2; try discriminate.
        apply andb_true_iff in Hv1 as [Hx1 Hn1]. destruct ds1; [|discriminate Hn1].
        apply andb_true_iff in Hv2 as [Hx2 Hn2]. destruct ds2; [|discriminate Hn2].
        destruct x1 as [cs1| |]; simpl in Hx1; try discriminate. destruct x2 as [cs2| |]; simpl in Hx2; try discriminate.
        apply andb_true_iff in Hx1 as [Hx1 Hall1]. apply andb_true_iff in Hx2 as [Hx2 Hall2].
        simpl in Hd1, Hd2. rewrite Hx1 in Hd1. rewrite Hx2 in Hd2.
        destruct (map_res (choice_of cdec w cands) cs1) as [vs1|] eqn:Em1; inv Hd1.
        destruct (map_res (choice_of cdec w cands) cs2) as [vs2|] eqn:Em2; inv Hd2.
        repeat split; auto. simpl. intros Hq.
        rewrite (inj_choices cands H Hwf Hdi (Hcd eq_refl) cs1 cs2 vs1 vs2 Hall1 Hall2 Em1 Em2 Hq). auto.
      + destruct (trav_list sdec cands (ds1 ++ r1)) as [[l1 s1]|] eqn:E1; inv Hd1.
        destruct (trav_list sdec cands (ds2 ++ r2)) as [[l2 s2]|] eqn:E2; inv Hd2.
        destruct (inj_list cands H Hwf Hdi (fun i => p ++ [KName s_candidates; KIdx i]) 0 _ _ _ _ _ _ _ _ Hv1 Hv2 E1 E2) as (-> & -> & G).
        repeat split; auto. simpl. intros Hq. apply andb_true_iff in Hq as [_ Hq]. auto.
    - (* float *) simpl in Hv1, Hv2, Hd1, Hd2. destruct (w (TFloat lo hi a)) eqn:W.
      + destruct ds1 as [|x1 ds1]; simpl in Hv1; try discriminate. destruct ds2 as [|x2 ds2]; simpl in Hv2; try discriminate.
        apply andb_true_iff in Hv1 as [Hx1 Hn1]. destruct ds1; [|discriminate Hn1].
        apply andb_true_iff in Hv2 as [Hx2 Hn2]. destruct ds2; [|discriminate Hn2].
        destruct x1 as [|f1|]; simpl in Hx1; try discriminate. destruct x2 as [|f2|]; simpl in Hx2; try discriminate.
        simpl in Hd1, Hd2. rewrite Hx1 in Hd1. rewrite Hx2 in Hd2. inv Hd1. inv Hd2.
        repeat split; auto. simpl. intros Hq. apply Z.eqb_eq in Hq. subst. auto.
      + destruct ds1; [|discriminate Hv1]. destruct ds2; [|discriminate Hv2]. simpl in Hd1, Hd2. inv Hd1. inv Hd2. auto.
    - (* custom *) simpl in Hv1, Hv2, Hd1, Hd2. destruct (w (TCustom ck a)) eqn:W.
      + destruct ds1 as [|x1 ds1]; simpl in Hv1; try discriminate. destruct ds2 as [|x2 ds2]; simpl in Hv2; try discriminate.
        apply andb_true_iff in Hv1 as [Hx1 Hn1]. destruct ds1; [|discriminate Hn1].
        apply andb_true_iff in Hv2 as [Hx2 Hn2]. destruct ds2; [|discriminate Hn2].
        destruct x1 as [| |s1]; simpl in Hx1; try discriminate. destruct x2 as [| |s2]; simpl in Hx2; try discriminate.
        simpl in Hd1, Hd2.
        destruct (cdec ck s1) as [y1|] eqn:E1; inv Hd1. destruct (cdec ck s2) as [y2|] eqn:E2; inv Hd2.
        repeat split; auto. intros Hq. rewrite (Hinj _ _ _ _ _ E1 E2 Hq). auto.
      + destruct ds1; [|discriminate Hv1]. destruct ds2; [|discriminate Hv2]. simpl in Hd1, Hd2. inv Hd1. inv Hd2. auto.
  Qed.

  Lemma decode_injective : forall t d1 d2 v1 v2, wf_t t -> distinguishable cdec w t ->
    valid (dna_spec w t) d1 = true -> valid (dna_spec w t) d2 = true ->
    sdecode cdec w t d1 = Ok v1 -> sdecode cdec w t d2 = Ok v2 -> veq v1 v2 = true -> d1 = d2.
  Proof.
    intros t [ds1] [ds2] v1 v2 Hwf Hdi Hv1 Hv2 Hd1 Hd2 Hq. simpl in Hv1, Hv2. unfold sdecode in Hd1, Hd2.
    apply finish_ok in Hd1. apply finish_ok in Hd2.
    assert (A1 : sdec t (ds1 ++ []) = Ok (v1, [])) by (rewrite app_nil_r; auto).
    assert (A2 : sdec t (ds2 ++ []) = Ok (v2, [])) by (rewrite app_nil_r; auto).
    destruct (dec_inj t Hwf Hdi [] _ _ _ _ _ _ _ _ Hv1 Hv2 A1 A2) as (_ & _ & G). f_equal; auto.
  Qed.
End Inj.

(* ---- iterating a finite template: as many pairwise different values as the size of its space -------------------- *)
Theorem iter_count : forall cdec w t, hwf t = true -> wf_t t -> finite (dna_spec w t) = true ->
  (forall ck s1 s2 v1 v2, cdec ck s1 = Ok v1 -> cdec ck s2 = Ok v2 -> veq v1 v2 = true -> s1 = s2) ->
  distinguishable cdec w t ->
  let s := dna_spec w t in
  forall fuel, length (all_valid s) <= fuel ->
  (* the DNAs pg.iter decodes are exactly the valid ones, each once, as many as space_size *)
  iter s fuel = all_valid s /\ NoDup (iter s fuel) /\ space_size s = Some (N.of_nat (length (iter s fuel))) /\
  (* every one decodes, and two of them never decode to equal values *)
  (forall d, In d (iter s fuel) -> exists v, sdecode cdec w t d = Ok v) /\
  (forall d1 d2 v1 v2, In d1 (iter s fuel) -> In d2 (iter s fuel) ->
     sdecode cdec w t d1 = Ok v1 -> sdecode cdec w t d2 = Ok v2 -> veq v1 v2 = true -> d1 = d2).
Proof.
  intros cdec w t Hh Hwf Hfin Hinj Hdi s fuel Hfuel.
  assert (Hw : wf s = true) by (apply dna_spec_wf; auto).
  assert (E : iter s fuel = all_valid s) by (apply iter_exact_fuel; auto).
  rewrite E. repeat split; auto.
  - apply sorted_NoDup. apply all_valid_sorted.
  - apply size_exact; auto.
  - intros d Hin. apply decode_total_finite; auto. apply valid_iff; auto.
  - intros d1 d2 v1 v2 H1 H2 Hd1 Hd2 Hq.
    eapply decode_injective; eauto; apply valid_iff; auto.
Qed.

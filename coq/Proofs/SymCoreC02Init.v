(* SymCoreC02Init.v -- "for all initial contents": a list / dict constructed from any valid literal is a clean root, so the
   history theorems apply to every constructed container. *)
From Coq Require Import ZArith NArith List Bool Lia.
Import ListNotations.
From PG Require Import Common.Tactics Model.SymCoreDefs Model.SymCoreOps Model.SymCoreSpec Model.SymCoreC02
     Proofs.SymCoreBase Proofs.SymCoreWF Proofs.SymCoreWFOps Proofs.SymCoreClone Proofs.SymCoreIds Proofs.SymCoreC02Read
     Proofs.SymCoreC02Frame Proofs.SymCoreC02Prim Proofs.SymCoreC02List Proofs.SymCoreC02Dict Proofs.SymCoreC02Step
     Proofs.SymCoreC02Slice Proofs.SymCoreC02WF.
From PG Require Model.PyList Model.PyDict.
Local Open Scope Z_scope.

Lemma build_valid_not_missing : forall l ctx pa p nx, lit_valid l = true -> is_missing (fst (build ctx pa p l nx)) = false.
Proof.
  intros. destruct l as [lf|k fl pl its].
  - Transparent build. simpl. Opaque build. simpl in H. destruct lf; simpl in *; congruence.
  - apply build_not_missing.
Qed.
Lemma build_items_clean : forall k ctx me p its i nx,
  forallb (fun kv => lit_valid (snd kv)) its = true -> clean (fst (build_items build k ctx me p its i nx)).
Proof.
  unfold clean. induction its as [|[kk c] r IH]; simpl; intros; auto.
  apply andb_true_iff in H. destruct H as [V VS].
  destruct (build ctx (Some me) (p ++ [match k with KList => KI i | _ => kk end]) c nx) as [c' n1] eqn:B.
  specialize (IH (i + 1) n1 VS). destruct (build_items build k ctx me p r (i + 1) n1) as [r' n2]. simpl in *.
  constructor; auto. simpl.
  pose proof (build_valid_not_missing c ctx (Some me) (p ++ [match k with KList => KI i | _ => kk end]) nx V) as M.
  rewrite B in M. exact M.
Qed.

(* pg.List(items) / pg.Dict(items) as the only value of the forest *)
Theorem constructed_root : forall k fl lits,
  f_sealed fl = false -> lit_valid (LitNode k fl false lits) = true ->
  exists its, at_is (init_forest [LitNode k fl false lits] empty_state) (0%nat, []) 1%N k None fl its /\ clean its /\
              WFI (init_forest [LitNode k fl false lits] empty_state) /\
              eitems its = pitems (plit (LitNode k fl false lits)).
Proof.
  intros k fl lits NS V.
  assert (W : WFI (init_forest [LitNode k fl false lits] empty_state)).
  { apply init_forest_WFI. apply empty_WFI. change (forallb lit_valid [LitNode k fl false lits]) with (lit_valid (LitNode k fl false lits) && true). rewrite V. reflexivity. }
  pose proof (build_erase (LitNode k fl false lits) false None [] 1%N) as BE.
  unfold init_forest in *. simpl next_id in *.
  destruct (build false None [] (LitNode k fl false lits) 1%N) as [n nx] eqn:B.
  rewrite build_node in B. cbv zeta in B.
  pose proof (build_items_clean k (f_partial fl) 1%N [] lits 0 (N.succ 1)) as CL.
  match type of B with (let '(_, _) := ?X in _) = _ => destruct X as [its' nx'] eqn:BI end.
  inv B. simpl in BE. unfold ctor_seal in *. rewrite NS in *.
  exists its'. split; [reflexivity|]. split; [|split; [exact W|]].
  - apply CL. simpl in V. apply andb_true_iff in V. tauto.
  - rewrite erase_node in BE. simpl in BE. injection BE as BE. simpl. exact BE.
Qed.

Section FromLiteral.
Variables (q : quirks).
Hypothesis NQ : no_quirks q.

(* any constructed list, any history of plain calls: the erasure at the end is the plain list driven by the same calls *)
Theorem history_of_constructed_list : forall fl lits h,
  f_sealed fl = false -> lit_valid (LitNode KList fl false lits) = true ->
  lhist2_ok fl (pvals (plit (LitNode KList fl false lits))) h ->
  option_map erase (get_at (run_ops2 q (init_forest [LitNode KList fl false lits] empty_state) (on_pos2 (0%nat, []) h)) (0%nat, [])) =
  Some (plist (lhist2_py (pvals (plit (LitNode KList fl false lits))) h)).
Proof.
  intros fl lits h NS V OK.
  destruct (constructed_root KList fl lits NS V) as (its & R & C & W & E).
  assert (EV : evals its = pvals (plit (LitNode KList fl false lits))) by (rewrite <- pvals_eitems, E; reflexivity).
  rewrite <- EV in *. eapply history2_list_erase; eauto. apply anc_clean_root.
Qed.
Theorem history_of_constructed_dict : forall fl lits h,
  f_sealed fl = false -> lit_valid (LitNode KDict fl false lits) = true ->
  dhist_ok fl (pitems (plit (LitNode KDict fl false lits))) h ->
  option_map erase (get_at (run_ops q (init_forest [LitNode KDict fl false lits] empty_state) (on_pos (0%nat, []) h)) (0%nat, [])) =
  Some (PNode KDict (dhist_py (pitems (plit (LitNode KDict fl false lits))) h)).
Proof.
  intros fl lits h NS V OK.
  destruct (constructed_root KDict fl lits NS V) as (its & R & C & W & E).
  rewrite <- E in *. eapply history_dict_erase; eauto; [apply W | apply anc_clean_root].
Qed.
End FromLiteral.

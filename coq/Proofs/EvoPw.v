(* EvoPw.v — point-wise recombinators (Uniform, Sample, Average, WeightedAverage) produce valid children (C14). *)
From PG Require Import Common.Tactics Model.Geno Model.GenoViews Model.Evo Proofs.GenoBasics Proofs.GenoValid Proofs.EvoBase Proofs.EvoMut.
From Coq Require Import Permutation.

(* ---- positional list facts ----------------------------------------------------------------------------- *)
Lemma foldi_inv : forall A St (P : nat -> St -> Prop) (f : nat -> A -> St -> res St) l i s0 s,
  P i s0 ->
  (forall j a s1 s2, nth_error l (j - i) = Some a -> i <= j -> P j s1 -> f j a s1 = Ok s2 -> P (S j) s2) ->
  foldi f i l s0 = Ok s -> P (i + length l) s.
Proof.
  intros A St P f. induction l as [|a l IH]; simpl; intros i s0 s H0 Hs H.
  - inv H. rewrite Nat.add_0_r; auto.
  - destruct (f i a s0) as [s1|] eqn:E; [|discriminate].
    replace (i + S (length l)) with (S i + length l) by lia. eapply IH; [| |exact H].
    + eapply Hs; eauto. rewrite Nat.sub_diag; auto.
    + intros j b s2 s3 Hn Hj. apply Hs; [|lia]. replace (j - i) with (S (j - S i)) by lia. auto.
Qed.
Lemma nth_error_combine : forall A B (l : list A) (m : list B) p,
  nth_error (combine l m) p = match nth_error l p, nth_error m p with Some a, Some b => Some (a, b) | _, _ => None end.
Proof.
  induction l as [|a l IH]; intros m p; simpl. destruct p; auto.
  destruct m as [|b m]; simpl. destruct p; simpl; auto. destruct (nth_error l p); auto.
  destruct p; simpl; auto.
Qed.
Lemma nth_error_zip_app : forall X (acc : list (option (list X))) outs p z,
  nth_error (zip_app acc outs) p = Some (Some z) <->
  exists l y, nth_error acc p = Some (Some l) /\ nth_error outs p = Some (Some y) /\ z = l ++ [y].
Proof.
  intros. unfold zip_app. rewrite nth_error_map, nth_error_combine.
  destruct (nth_error acc p) as [[l|]|]; destruct (nth_error outs p) as [[y|]|]; simpl; split; intros H;
    try discriminate; try (destruct H as (l0 & y0 & H1 & H2 & H3); discriminate).
  - inv H. eauto.
  - destruct H as (l0 & y0 & H1 & H2 & ->). inv H1. inv H2. auto.
Qed.
Lemma nth_error_map_const : forall A B (l : list A) (b : B) p x, nth_error (map (fun _ => b) l) p = Some x -> x = b.
Proof. intros. rewrite nth_error_map in H. destruct (nth_error l p); inv H; auto. Qed.
Lemma Forall2_nth_error : forall A B (P : A -> B -> Prop) l m i a b,
  Forall2 P l m -> nth_error l i = Some a -> nth_error m i = Some b -> P a b.
Proof. intros A B P l m i a b H. revert i. induction H; destruct i; simpl; intros; try discriminate. inv H1; inv H2; auto. eauto. Qed.
Lemma firstn_S_nth : forall A (l : list A) i a, nth_error l i = Some a -> firstn (S i) l = firstn i l ++ [a].
Proof.
  induction l as [|x l IH]; destruct i; intros a H; try discriminate.
  - inv H. reflexivity.
  - simpl in H. change (firstn (S (S i)) (x :: l)) with (x :: firstn (S i) l). rewrite (IH i a H). reflexivity.
Qed.
Lemma Forall2_snoc : forall A B (P : A -> B -> Prop) l m a b, Forall2 P l m -> P a b -> Forall2 P (l ++ [a]) (m ++ [b]).
Proof. intros. apply Forall2_app; auto. Qed.

(* every present entry satisfies P *)
Definition okp {X} (P : X -> Prop) (l : list (option X)) : Prop := forall x, In (Some x) l -> P x.

Lemma constraint_from_snoc : forall dist srt l prior d,
  constraint_from dist srt prior (l ++ [d]) = constraint_from dist srt prior l && allowed dist srt (prior ++ l) d.
Proof.
  induction l as [|c l IH]; simpl; intros prior d.
  - rewrite app_nil_r, andb_true_r. auto.
  - rewrite IH, <- app_assoc. simpl. rewrite andb_assoc. auto.
Qed.

Lemma mean_in_range : forall (l : list Z) lo hi, l <> [] -> Forall (fun f => lo <= f <= hi)%Z l ->
  (lo <= sumZ l / Z.of_nat (length l) <= hi)%Z.
Proof.
  intros l lo hi Hne H.
  assert (Hb : (Z.of_nat (length l) * lo <= sumZ l <= Z.of_nat (length l) * hi)%Z).
  { clear Hne. induction H; simpl length; simpl sumZ. lia. rewrite Nat2Z.inj_succ. lia. }
  assert (Hn : (0 < Z.of_nat (length l))%Z) by (destruct l; [congruence|simpl; lia]).
  split. apply Z.div_le_lower_bound; lia. apply Z.div_le_upper_bound; lia.
Qed.
Lemma somes_In : forall X (l : list (option X)) x, In x (somes l) <-> In (Some x) l.
Proof.
  induction l as [|[y|] l IH]; simpl; intros x. tauto.
  - rewrite IH. split; intros [H|H]; auto. left; congruence. inv H; auto.
  - rewrite IH. split; auto. intros [H|H]; auto. discriminate.
Qed.
Lemma all_none_false : forall X (l : list (option X)), all_none l = false -> somes l <> [].
Proof. induction l as [|[y|] l IH]; simpl; intros; try discriminate; auto. Qed.

Section Merge.
  Variable R : Type.
  Variable G : rng R.
  Variable ws : list Z.

  Lemma choose_weighted_in : forall kd X (vals : list (option X)) r x r',
    choose_weighted R G kd ws vals r = Ok (x, r') -> In (Some x) vals.
  Proof.
    unfold choose_weighted. intros kd X vals r x r' H. destruct (sumZ _ <=? 0)%Z; [discriminate|].
    destruct (picks G _ 1 r) as [l r1]. destruct l as [|p [|? ?]]; try discriminate.
    destruct (nth_error vals p) as [[y|]|] eqn:E; inv H. eapply nth_error_In; eauto.
  Qed.
  Lemma choose_parent_in : forall kd X (vals : list (option X)) r x r',
    choose_parent R G kd ws vals r = Ok (x, r') -> In (Some x) vals.
  Proof.
    unfold choose_parent. intros kd X vals r x r' H. destruct kd; try (eapply choose_weighted_in; exact H).
    destruct (pick G _ r) as [i r1]. destruct (nth_error (live_idx 0 vals) i); [|discriminate].
    destruct (nth_error vals n) as [[y|]|] eqn:E; inv H. eapply nth_error_In; eauto.
  Qed.

  Lemma merge_multi_S : forall kd fu k dist srt vals index attempts results r,
    merge_multi R G kd ws (S fu) k dist srt vals index attempts results r =
    if index =? k then Ok (results, r)
    else if 8 <=? attempts then choose_weighted R G kd ws vals r
    else
      let w := adjusted kd ws vals in
      if (sumZ w <=? 0)%Z then Err EValue else
      let (l, r1) := picks G w 1 r in
      match l with
      | [p] =>
          match nth_error vals p with
          | Some (Some dl) =>
              let d := nth index dl O in
              if allowed dist srt results d
              then merge_multi R G kd ws fu k dist srt vals (S index) attempts (results ++ [d]) r1
              else merge_multi R G kd ws fu k dist srt vals index (S attempts) results r1
          | _ => Err EDraw end
      | _ => Err EDraw end.
  Proof. reflexivity. Qed.
  Lemma merge_multi_ok : forall kd fuel k dist srt vals index attempts results r dec r',
    (forall l, In (Some l) vals -> length l = k /\ constraint_ok dist srt l = true) ->
    length results = index -> constraint_ok dist srt results = true -> index <= k ->
    merge_multi R G kd ws fuel k dist srt vals index attempts results r = Ok (dec, r') ->
    length dec = k /\ constraint_ok dist srt dec = true.
  Proof.
    intros kd. induction fuel as [|fuel IH]; intros k dist srt vals index attempts results r dec r' Hv Hl Hc Hi H. discriminate.
    rewrite merge_multi_S in H.
    destruct (Nat.eqb_spec index k). inv H. auto.
    destruct (8 <=? attempts). apply choose_weighted_in in H. auto.
    cbv zeta in H. destruct (sumZ _ <=? 0)%Z; [discriminate|].
    destruct (picks G _ 1 r) as [l r1]. destruct l as [|p [|? ?]]; try discriminate.
    destruct (nth_error vals p) as [[dl|]|] eqn:E; try discriminate.
    destruct (allowed dist srt results (nth index dl 0)) eqn:Ec.
    - eapply IH in H; eauto. rewrite app_length; simpl; lia.
      unfold constraint_ok in *. rewrite constraint_from_snoc, Hc. simpl. exact Ec. lia.
    - eapply IH in H; eauto.
  Qed.
  Lemma merge_choice_ok : forall kd k dist srt vals r dec r',
    (forall l, In (Some l) vals -> length l = k /\ constraint_ok dist srt l = true) ->
    merge_choice R G kd ws k dist srt vals r = Ok (dec, r') -> length dec = k /\ constraint_ok dist srt dec = true.
  Proof.
    unfold merge_choice. intros kd k dist srt vals r dec r' Hv H. destruct (k =? 1).
    apply choose_parent_in in H; auto.
    eapply merge_multi_ok in H; eauto. lia.
  Qed.

  Lemma weighted_in_range : forall (vals : list (option flt)) lo hi,
    Forall (fun w => 0 <= w)%Z ws -> (forall f, In (Some f) vals -> lo <= f <= hi)%Z ->
    let num := sumZ (map (fun ow => match fst ow with Some d => (snd ow * d)%Z | None => 0%Z end) (combine vals ws)) in
    let den := sumZ (map (fun ow => match fst ow with Some _ => snd ow | None => 0%Z end) (combine vals ws)) in
    (0 <= den /\ den * lo <= num <= den * hi)%Z.
  Proof.
    intros vals lo hi Hw. revert vals. induction Hw as [|w ws' Hw0 Hw IH]; intros vals Hv; simpl.
    - rewrite combine_nil. simpl. lia.
    - destruct vals as [|[d|] vals]; simpl; try lia.
      + specialize (IH vals (fun f Hf => Hv f (or_intror Hf))). specialize (Hv d (or_introl eq_refl)). simpl in IH. nia.
      + specialize (IH vals (fun f Hf => Hv f (or_intror Hf))). simpl in IH. lia.
  Qed.

  Lemma merge_float_ok : forall kd vals lo hi r f r',
    (forall x, In (Some x) vals -> lo <= x <= hi)%Z -> all_none vals = false ->
    merge_float R G kd ws lo hi vals r = Ok (f, r') -> (lo <= f <= hi)%Z.
  Proof.
    unfold merge_float. intros kd vals lo hi r f r' Hv Hn H.
    assert (Hlh : (lo <= hi)%Z).
    { apply all_none_false in Hn. destruct (somes vals) as [|x l] eqn:E; [congruence|].
      assert (In (Some x) vals) by (apply somes_In; rewrite E; left; auto). specialize (Hv x H0). lia. }
    destruct kd.
    - apply choose_parent_in in H; auto.
    - apply choose_parent_in in H; auto.
    - inv H. unfold clip. lia.
    - match type of H with (if ?c then _ else _) = _ => destruct c end; inv H. unfold clip. lia.
  Qed.
End Merge.

Lemma okp_nth : forall X (P : X -> Prop) l p x, okp P l -> nth_error l p = Some (Some x) -> P x.
Proof. intros. apply H. eapply nth_error_In; eauto. Qed.

Section Subs.
  Variable R : Type.
  Variable cands : list dspec.
  Definition Rsub (c : nat) (sub : sdna) : Prop := with_nth (fun s => valid s sub) false cands c = true.
  Variable old : list (option (list (nat * sdna))).
  Variable newv : list (option (list nat)).
  Hypothesis Hold : forall p cs, nth_error old p = Some (Some cs) -> Forall (fun c => Rsub (fst c) (snd c)) cs.

  Lemma pw_cands_inv : forall (rec : nat -> dspec -> list (option sdna) -> R -> res (list (option sdna) * R)) j r cur r',
    (forall c cand lives r0 outs r1, nth_error cands c = Some cand -> okp (fun d => valid cand d = true) lives ->
        rec c cand lives r0 = Ok (outs, r1) -> okp (fun d => valid cand d = true) outs) ->
    pw_cands R rec cands old newv j (length cands) r = Ok (cur, r') ->
    forall p sub l, nth_error cur p = Some (Some sub) -> nth_error newv p = Some (Some l) -> Rsub (nth j l (length cands)) sub.
  Proof.
    intros rec j r cur r' Hrec H. unfold pw_cands in H.
    refine (foldi_inv _ _ (fun (c : nat) (st : list (option sdna) * R) =>
             forall p sub l, nth_error (fst st) p = Some (Some sub) -> nth_error newv p = Some (Some l) -> Rsub (nth j l (length cands)) sub)
             _ _ _ _ (cur, r') _ _ H).
    - simpl. intros p sub l Hn. apply nth_error_map_const in Hn. discriminate.
    - intros c cand [cur0 r0] st2 Hc _ Hinv Hstep. rewrite Nat.sub_0_r in Hc. simpl in Hstep.
      destruct (negb (existsb (fun b : bool => b) (wants_of newv j c (length cands)))). inv Hstep. exact Hinv.
      destruct (rec c cand _ r0) as [[outs r1]|] eqn:Er; simpl in Hstep; inv Hstep.
      assert (Hl : okp (fun d => valid cand d = true) (lives_of old (wants_of newv j c (length cands)) j c)).
      { intros sub Hin. unfold lives_of in Hin. apply in_map_iff in Hin as [[[cs|] [|]] [Hx Hin]]; try discriminate.
        destruct (nth_error cs j) as [[c0 sub0]|] eqn:Ej; [|discriminate].
        destruct (Nat.eqb_spec c0 c); inv Hx.
        apply In_nth_error in Hin as [p Hp]. rewrite nth_error_combine in Hp.
        destruct (nth_error old p) as [[cs'|]|] eqn:Eo; try discriminate;
          destruct (nth_error (wants_of newv j c (length cands)) p); inv Hp.
        apply Hold in Eo. rewrite Forall_forall in Eo. apply nth_error_In in Ej. apply Eo in Ej.
        unfold Rsub in Ej. simpl in Ej. rewrite with_nth_nth_error, Hc in Ej. auto. }
      specialize (Hrec _ _ _ _ _ _ Hc Hl Er).
      intros p sub l Hp Hn. simpl in Hp. unfold pick_outs in Hp. rewrite nth_error_map, !nth_error_combine in Hp.
      destruct (nth_error (wants_of newv j c (length cands)) p) as [w|] eqn:Ew; [|discriminate].
      destruct (nth_error cur0 p) as [cu|] eqn:Ecu; [|discriminate].
      destruct (nth_error outs p) as [o|] eqn:Eo; [|discriminate]. simpl in Hp.
      destruct w.
      + inv Hp. unfold wants_of in Ew. rewrite nth_error_map, Hn in Ew. simpl in Ew. inv Ew.
        apply Nat.eqb_eq in H1. rewrite H1. unfold Rsub. rewrite with_nth_nth_error, Hc.
        exact (okp_nth _ (fun d => valid cand d = true) _ _ _ Hrec Eo).
      + inv Hp. eapply Hinv; eauto.
  Qed.

  Lemma pw_subs_inv : forall (rec : nat -> nat -> dspec -> list (option sdna) -> R -> res (list (option sdna) * R)) k r subs r',
    (forall j c cand lives r0 outs r1, nth_error cands c = Some cand -> okp (fun d => valid cand d = true) lives ->
        rec j c cand lives r0 = Ok (outs, r1) -> okp (fun d => valid cand d = true) outs) ->
    (forall p l, nth_error newv p = Some (Some l) -> length l = k) ->
    pw_subs R rec k cands old newv r = Ok (subs, r') ->
    forall p sl l, nth_error subs p = Some (Some sl) -> nth_error newv p = Some (Some l) -> Forall2 Rsub l sl.
  Proof.
    intros rec k r subs r' Hrec Hlen H. unfold pw_subs in H.
    assert (HF : forall p sl l, nth_error subs p = Some (Some sl) -> nth_error newv p = Some (Some l) ->
                 Forall2 Rsub (firstn (0 + length (seq 0 k)) l) sl).
    2: { intros p sl l Hp Hn. specialize (HF p sl l Hp Hn). rewrite seq_length in HF. simpl in HF.
         rewrite firstn_all2 in HF; auto. rewrite (Hlen _ _ Hn). auto. }
    refine (foldi_inv _ _ (fun (j : nat) (st : list (option (list sdna)) * R) =>
             forall p sl l, nth_error (fst st) p = Some (Some sl) -> nth_error newv p = Some (Some l) -> Forall2 Rsub (firstn j l) sl)
             _ _ _ _ (subs, r') _ _ H).
    - simpl. intros p sl l Hp Hn. apply nth_error_map_const in Hp. inv Hp. simpl. constructor.
    - intros j a [acc r0] st2 Ha _ Hinv Hstep. rewrite Nat.sub_0_r in Ha.
      assert (Hj : j < k). { rewrite <- (seq_length k 0). apply nth_error_Some. congruence. }
      simpl in Hstep. destruct (pw_cands R (rec j) cands old newv j (length cands) r0) as [[cu r1]|] eqn:Ec; simpl in Hstep; inv Hstep.
      intros p sl l Hp Hn. simpl in Hp. apply nth_error_zip_app in Hp as (sl0 & y & Hacc & Hcu & ->).
      assert (Hnj : nth_error l j = Some (nth j l (length cands))).
      { apply nth_error_nth'. rewrite (Hlen _ _ Hn). auto. }
      rewrite (firstn_S_nth _ _ _ _ Hnj). apply Forall2_snoc. eapply Hinv; eauto.
      eapply pw_cands_inv; eauto.
  Qed.
End Subs.

Lemma combine_fst : forall A B (l : list A) (m : list B), length l = length m -> map fst (combine l m) = l.
Proof. induction l; destruct m; simpl; intros; try discriminate; auto. f_equal; auto. Qed.
Lemma Forall2_combine : forall A B (P : A -> B -> Prop) l m, Forall2 P l m -> Forall (fun ab => P (fst ab) (snd ab)) (combine l m).
Proof. induction 1; simpl; constructor; auto. Qed.
Lemma Forall2_len : forall A B (P : A -> B -> Prop) l m, Forall2 P l m -> length l = length m.
Proof. induction 1; simpl; auto. Qed.

Section PwValid.
  Variable R : Type.
  Variable G : rng R.
  Variable kd : pwkind.
  Variable ws : list Z.
  Variable tgt : addr -> bool.

  Lemma pw_space_eq : forall es a forced ps r,
    pw_space R G kd ws tgt (Space es) a forced ps r =
    rbind (foldi (fun i e (st : list (option (list pdna)) * R) =>
                    let col := map (fun o => match o with Some (SSpace ds) => nth_error ds i | None => None end) ps in
                    rbind (pw_point R G kd ws tgt e (a ++ [i]) forced col (snd st)) (fun o1 =>
                    Ok (zip_app (fst st) (fst o1), snd o1))) 0 es (map (fun _ => Some []) ps, r))
          (fun st => Ok (map (option_map SSpace) (fst st), snd st)).
  Proof. reflexivity. Qed.

  Lemma pw_point_float_eq : forall lo hi nm a forced col r,
    pw_point R G kd ws tgt (FloatP lo hi nm) a forced col r =
    let vals := map (fun o => match o with Some (PFloat f) => Some f | _ => None end) col in
    if (tgt a || forced) && negb (all_none vals)
    then rbind (merge_float R G kd ws lo hi vals r) (fun fr => Ok (map (fun _ => Some (PFloat (fst fr))) col, snd fr))
    else Ok (map (option_map PFloat) vals, r).
  Proof. reflexivity. Qed.
  Lemma pw_point_custom_eq : forall nm a forced col r,
    pw_point R G kd ws tgt (CustomP nm) a forced col r =
    let vals := map (fun o => match o with Some (PCustom t) => Some t | _ => None end) col in
    if (tgt a || forced) && negb (numeric kd) && negb (all_none vals)
    then rbind (choose_parent R G kd ws vals r) (fun fr => Ok (map (fun _ => Some (PCustom (fst fr))) col, snd fr))
    else Ok (map (option_map PCustom) vals, r).
  Proof. reflexivity. Qed.

  Lemma pw_point_choices_eq : forall k cands dist srt nm lits a forced col r,
    pw_point R G kd ws tgt (Choices k cands dist srt nm lits) a forced col r =
        (let n := length cands in
         let old := map (fun o => match o with Some (PChoices cs) => Some cs | _ => None end) col in
         let oldv := map (option_map (map fst)) old in
         let merged := (tgt a || forced) && negb (numeric kd) && negb (all_none old) in
         rbind (if merged
                then rbind (merge_choice R G kd ws k dist srt oldv r) (fun dc => Ok (map (fun _ => Some (fst dc)) old, snd dc))
                else Ok (oldv, r)) (fun nv =>
         let newv := fst nv in
         let changed := fun (j : nat) =>
           merged && existsb (fun ov => match ov with
                                        | (Some o, Some v) => negb (nth j o n =? nth j v n)
                                        | _ => true end) (combine oldv newv) in
         rbind (pw_subs R (fun j c cand lives r0 =>
                             pw_space R G kd ws tgt cand (a ++ (if k =? 1 then [] else [j]) ++ [c]) (forced || changed j) lives r0)
                          k cands old newv (snd nv)) (fun sb =>
         Ok (pw_assemble newv (fst sb), snd sb)))).
  Proof. reflexivity. Qed.

  Lemma pw_both :
    (forall s a forced ps r outs r', okp (fun d => valid s d = true) ps ->
       pw_space R G kd ws tgt s a forced ps r = Ok (outs, r') -> okp (fun d => valid s d = true) outs) /\
    (forall p a forced col r outs r', okp (fun x => valid_p p x = true) col ->
       pw_point R G kd ws tgt p a forced col r = Ok (outs, r') -> okp (fun x => valid_p p x = true) outs).
  Proof.
    apply dspec_dpoint_ind.
    - (* Space *)
      intros es IH a forced ps r outs r' Hps H. rewrite pw_space_eq in H.
      match type of H with rbind ?e _ = _ => destruct e as [[acc r1]|] eqn:E; simpl in H; inv H end.
      assert (HF : forall p l, nth_error acc p = Some (Some l) ->
                   Forall2 (fun e x => valid_p e x = true) (firstn (0 + length es) es) l).
      { refine (foldi_inv _ _ (fun (i : nat) (st : list (option (list pdna)) * R) =>
                  forall p l, nth_error (fst st) p = Some (Some l) -> Forall2 (fun e x => valid_p e x = true) (firstn i es) l)
                  _ _ _ _ _ _ _ E).
        - simpl. intros p l Hp. apply nth_error_map_const in Hp. inv Hp. constructor.
        - intros i e [acc0 r0] st2 He _ Hinv Hstep. rewrite Nat.sub_0_r in He. simpl in Hstep.
          match type of Hstep with rbind ?e _ = _ => destruct e as [[o1 r2]|] eqn:Ep; simpl in Hstep; inv Hstep end.
          rewrite Forall_forall in IH. eapply (IH e (nth_error_In _ _ He)) in Ep.
          + intros p l Hp. simpl in Hp. apply nth_error_zip_app in Hp as (l0 & y & Hacc & Ho & ->).
            rewrite (firstn_S_nth _ _ _ _ He). apply Forall2_snoc. eapply Hinv; eauto.
            exact (okp_nth _ (fun x => valid_p e x = true) _ _ _ Ep Ho).
          + intros x Hx. apply in_map_iff in Hx as [[[ds]|] [Hx Hin]]; [|discriminate].
            apply Hps in Hin. simpl in Hin. apply forallb2_Forall2 in Hin.
            exact (Forall2_nth_error _ _ (fun e0 x0 => valid_p e0 x0 = true) _ _ _ _ _ Hin He Hx). }
      intros d Hd. apply in_map_iff in Hd as [[l|] [Hd Hin]]; inv Hd.
      apply In_nth_error in Hin as [p Hp]. apply HF in Hp. simpl in Hp. rewrite firstn_all in Hp.
      simpl. apply forallb2_Forall2. auto.
    - (* Choices *)
      intros k cands dist srt nm lits IH a forced col r outs r' Hcol H.
      change (pw_point R G kd ws tgt (Choices k cands dist srt nm lits) a forced col r) with
        (let n := length cands in
         let old := map (fun o => match o with Some (PChoices cs) => Some cs | _ => None end) col in
         let oldv := map (option_map (map fst)) old in
         let merged := (tgt a || forced) && negb (numeric kd) && negb (all_none old) in
         rbind (if merged
                then rbind (merge_choice R G kd ws k dist srt oldv r) (fun dc => Ok (map (fun _ => Some (fst dc)) old, snd dc))
                else Ok (oldv, r)) (fun nv =>
         let newv := fst nv in
         let changed := fun (j : nat) =>
           merged && existsb (fun ov => match ov with
                                        | (Some o, Some v) => negb (nth j o n =? nth j v n)
                                        | _ => true end) (combine oldv newv) in
         rbind (pw_subs R (fun j c cand lives r0 =>
                             pw_space R G kd ws tgt cand (a ++ (if k =? 1 then [] else [j]) ++ [c]) (forced || changed j) lives r0)
                          k cands old newv (snd nv)) (fun sb =>
         Ok (pw_assemble newv (fst sb), snd sb)))) in H.
      cbv zeta in H.
      set (old := map (fun o => match o with Some (PChoices cs) => Some cs | _ => None end) col) in *.
      set (oldv := map (option_map (map fst)) old) in *.
      (* what the parents' own decisions satisfy *)
      assert (Hold : forall p cs, nth_error old p = Some (Some cs) ->
                length cs = k /\ constraint_ok dist srt (map fst cs) = true /\ Forall (fun c => Rsub cands (fst c) (snd c)) cs).
      { intros p cs Hp. unfold old in Hp. rewrite nth_error_map in Hp. destruct (nth_error col p) as [[[cs'| |]|]|] eqn:Ec; inv Hp.
        apply (okp_nth _ _ _ _ _ Hcol) in Ec. apply valid_p_choices_iff in Ec. exact Ec. }
      assert (Holdv : forall l, In (Some l) oldv -> length l = k /\ constraint_ok dist srt l = true).
      { intros l Hl. apply In_nth_error in Hl as [p Hp]. unfold oldv in Hp. rewrite nth_error_map in Hp.
        destruct (nth_error old p) as [[cs|]|] eqn:Eo; inv Hp. apply Hold in Eo. rewrite map_length. tauto. }
      match type of H with rbind ?e _ = _ => destruct e as [[newv r1]|] eqn:En; simpl in H; [|discriminate] end.
      assert (Hnew : forall p l, nth_error newv p = Some (Some l) -> length l = k /\ constraint_ok dist srt l = true).
      { intros p l Hp. destruct ((tgt a || forced) && negb (numeric kd) && negb (all_none old)).
        - destruct (merge_choice R G kd ws k dist srt oldv r) as [[dec r2]|] eqn:Em; simpl in En; inv En.
          apply nth_error_map_const in Hp. inv Hp. eapply merge_choice_ok; eauto.
        - inv En. apply Holdv. eapply nth_error_In; eauto. }
      match type of H with rbind ?e _ = _ => destruct e as [[subs r2]|] eqn:Es; simpl in H; inv H end.
      assert (HS : forall p sl l, nth_error subs p = Some (Some sl) -> nth_error newv p = Some (Some l) -> Forall2 (Rsub cands) l sl).
      { eapply pw_subs_inv; [| | |exact Es].
        - intros p cs Hp. exact (proj2 (proj2 (Hold p cs Hp))).
        - intros j c cand lives r0 outs0 r3 Hc Hl Hr. cbv beta in Hr.
          eapply nth_error_Forall in IH; [|exact Hc]. eapply IH; eauto.
        - intros p l Hp. exact (proj1 (Hnew p l Hp)). }
      intros x Hx. unfold pw_assemble in Hx. apply in_map_iff in Hx as [[[l|] [sl|]] [Hx Hin]]; inv Hx.
      apply In_nth_error in Hin as [p Hp]. rewrite nth_error_combine in Hp.
      destruct (nth_error newv p) as [nl|] eqn:E1; [|discriminate]. destruct (nth_error subs p) as [sb|] eqn:E2; inv Hp.
      specialize (HS p sl l E2 E1). destruct (Hnew p l E1) as [Hl Hc].
      pose proof (Forall2_len _ _ _ _ _ HS) as Hlen.
      apply valid_p_choices_iff. rewrite combine_length, combine_fst by auto. split; [lia|]. split; auto.
      apply Forall2_combine in HS. exact HS.
    - (* Float *)
      intros lo hi nm a forced col r outs r' Hcol H. rewrite pw_point_float_eq in H.
      set (vals := map (fun o => match o with Some (PFloat f) => Some f | _ => None end) col) in *. cbv zeta in H.
      assert (Hv : forall f, In (Some f) vals -> (lo <= f <= hi)%Z).
      { intros f Hf. unfold vals in Hf. apply in_map_iff in Hf as [[[| f0 |]|] [Hx Hin]]; inv Hx.
        apply Hcol in Hin. simpl in Hin. apply andb_true_iff in Hin as [H1 H2]. apply Z.leb_le in H1, H2. lia. }
      destruct ((tgt a || forced) && negb (all_none vals)) eqn:Et.
      + destruct (merge_float R G kd ws lo hi vals r) as [[f r1]|] eqn:Em; simpl in H; inv H.
        apply andb_true_iff in Et as [_ Et]. apply negb_true_iff in Et.
        eapply merge_float_ok in Em; eauto.
        intros x Hx. apply in_map_iff in Hx as [o [Hx _]]. inv Hx. simpl. apply andb_true_iff; split; apply Z.leb_le; lia.
      + inv H. intros x Hx. apply in_map_iff in Hx as [[f|] [Hx Hin]]; inv Hx. apply Hv in Hin.
        simpl. apply andb_true_iff; split; apply Z.leb_le; lia.
    - (* Custom *)
      intros nm a forced col r outs r' Hcol H. rewrite pw_point_custom_eq in H. cbv zeta in H.
      destruct ((tgt a || forced) && negb (numeric kd) && negb (all_none _)).
      + destruct (choose_parent R G kd ws _ r) as [[t r1]|]; simpl in H; inv H.
        intros x Hx. apply in_map_iff in Hx as [o [Hx _]]. inv Hx. reflexivity.
      + inv H. intros x Hx. apply in_map_iff in Hx as [[t|] [Hx _]]; inv Hx. reflexivity.
  Qed.
End PwValid.

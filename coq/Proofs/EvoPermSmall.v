(* EvoPermSmall.v — the three permutation crossovers only propose permutations: exhaustive check inside Coq for every
   pair of parent permutations of up to 4 values, every pair of cutting points (PMX, Order) and every sequence of
   coin flips (Cycle).  (The general statement is not proved; see C14_recombinator_closed_permutation_partial.) *)
From PG Require Import Common.Tactics Model.Geno Model.Evo Proofs.EvoBase.

Fixpoint inserts (x : nat) (l : list nat) : list (list nat) :=
  match l with [] => [[x]] | y :: r => (x :: l) :: map (cons y) (inserts x r) end.
Fixpoint perms (l : list nat) : list (list nat) :=
  match l with [] => [[]] | x :: r => flat_map (inserts x) (perms r) end.
Definition is_perm_of (pa l : list nat) : bool :=
  nodupb l && (length l =? length pa) && forallb (fun v => memb v pa) l.
Definition both_perms (pa : list nat) (x : res (list nat)) : bool :=
  match x with Ok c => is_perm_of pa c | Err _ => false end.
(* (start, end) = sorted(sample(range(size), 2)): 0 <= start < end < size *)
Definition cuts (n : nat) : list (nat * nat) :=
  flat_map (fun st => map (fun en => (st, en)) (seq (S st) (n - S st))) (seq 0 n).
Definition check_cut (f : list nat -> list nat -> nat -> nat -> res (list nat)) (n : nat) : bool :=
  let ps := perms (seq 0 n) in
  forallb (fun pa => forallb (fun pb => forallb (fun se => both_perms pa (f pa pb (fst se) (snd se)) && both_perms pa (f pb pa (fst se) (snd se)))
                                                (cuts n)) ps) ps.
(* the coin flips of Cycle come from a list of bits *)
Definition bit_rng : rng (list nat) := {|
  pick := fun _ r => match r with b :: r' => (b, r') | [] => (0, []) end;
  picks := fun _ _ r => ([], r); sample := fun _ _ r => ([], r); uniform := fun lo _ r => (lo, r);
  shuffle := fun _ r => ([], r); real := fun r => (0%Z, r); order := fun _ r => ([], r) |}.
Fixpoint bit_lists (n : nat) : list (list nat) :=
  match n with O => [[]] | S m => flat_map (fun l => [0 :: l; 1 :: l]) (bit_lists m) end.
Definition check_cycle (n : nat) : bool :=
  let ps := perms (seq 0 n) in
  forallb (fun pa => forallb (fun pb => forallb (fun bits =>
             match cycle_children (list nat) bit_rng pa pb bits with
             | Ok ([c0; c1], _) => is_perm_of pa c0 && is_perm_of pa c1
             | _ => false end) (bit_lists n)) ps) ps.

Lemma pmx_small : forallb (check_cut pmx_child) [2; 3; 4] = true.
Proof. vm_compute. reflexivity. Qed.
Lemma ox_small : forallb (check_cut ox_child) [2; 3; 4] = true.
Proof. vm_compute. reflexivity. Qed.
Lemma cycle_small : forallb check_cycle [2; 3; 4] = true.
Proof. vm_compute. reflexivity. Qed.

(* BindingNotify.v — later bindings with change notification on or off: whatever the flags, the functor
   binds the effective arguments and reports the supplied names and values (only the default /
   non-default classification needs the notification). *)
From PG Require Import Common.Tactics Model.Binding Proofs.BindingMaps Proofs.BindingProofs Proofs.BindingReport.
From Coq Require Import NArith.
Local Open Scope N_scope.

Definition strip (lates : list (name * val * bool)) : list (name * val) := map fst lates.

Lemma late_all_n_all_notified : forall q s lates st,
  late_all_n q s st (map (fun kv => (kv, true)) lates) = late_all q s st lates.
Proof.
  intros q s; induction lates as [|[k v] r IH]; intros st; simpl; [reflexivity|].
  destruct (late_one q s st k v); [apply IH|reflexivity].
Qed.

Lemma late_one_silent_rel : forall s st e k v, wf_sig s -> rel s st e -> accepts_key s k = true ->
  match late_one_silent s st k v, supply s e {| cpos := []; ckw := [(k, v)] |} true false with
  | Ok st', Ok e' => rel s st' e'
  | Err a, Err b => a = b
  | _, _ => False
  end.
Proof.
  intros s st e k v W R A. rewrite supply_single. unfold late_one_silent.
  destruct (is_va s k) eqn:V.
  - destruct (vals_of_val v) as [l|]; [|reflexivity].
    unfold mark_specified, set_vattr; simpl. apply rel_set_va; assumption.
  - rewrite A. unfold accepts_key, is_field in A. rewrite V, orb_false_r in A. rewrite A.
    unfold mark_specified, set_attr; simpl. apply rel_set_named; try assumption.
    + apply kget_kset_same.
    + intros; apply kget_kset_other; assumption.
    + apply ksorted_kset. apply (r_sorted s st e R).
Qed.

Lemma late_all_n_rel : forall q s lates st e, wf_sig s -> eff_ok s e -> rel s st e ->
  late_names_ok s (strip lates) -> q_noop_rebind q = false ->
  match late_all_n q s st lates, supply_lates s e (strip lates) with
  | Ok st', Ok e' => rel s st' e' /\ eff_ok s e'
  | Err a, Err b => a = b
  | _, _ => False
  end.
Proof.
  intros q s; induction lates as [|[[k v] n] r IH]; intros st e W OK R F Q; simpl.
  - split; assumption.
  - inversion F; subst. simpl in H1. destruct n.
    + pose proof (late_one_rel q s st e k v W R H1 Q) as L.
      destruct (late_one q s st k v) as [st1|a]; destruct (supply s e {| cpos := []; ckw := [(k, v)] |} true false) as [e1|b] eqn:S1;
        try contradiction; [|exact L].
      apply IH; try assumption. eapply supply_ok; eauto.
    + pose proof (late_one_silent_rel s st e k v W R H1) as L.
      destruct (late_one_silent s st k v) as [st1|a]; destruct (supply s e {| cpos := []; ckw := [(k, v)] |} true false) as [e1|b] eqn:S1;
        try contradiction; [|exact L].
      apply IH; try assumption. eapply supply_ok; eauto.
Qed.

Lemma late_one_n_flags : forall q s st u st', late_one_n q s st u = Ok st' -> f_ov st' = f_ov st /\ f_ie st' = f_ie st.
Proof.
  intros q s st [[k v] n] st' H. simpl in H. destruct n; [eapply late_one_flags; eauto|].
  unfold late_one_silent in H. destruct (is_va s k).
  - destruct (vals_of_val v); inversion H; subst; split; reflexivity.
  - destruct (accepts_key s k); inversion H; subst; split; reflexivity.
Qed.
Lemma late_all_n_flags : forall q s lates st st', late_all_n q s st lates = Ok st' -> f_ov st' = f_ov st /\ f_ie st' = f_ie st.
Proof.
  intros q s; induction lates as [|u r IH]; intros st st' H; simpl in H.
  - inversion H; subst; split; reflexivity.
  - destruct (late_one_n q s st u) as [st1|] eqn:L; [|discriminate].
    destruct (late_one_n_flags _ _ _ _ _ L) as [A B]. destruct (IH _ _ H) as [C D]. split; congruence.
Qed.

Definition functor_bind_n (q : quirks) (s : sig) (ctor : call) (ov ie : bool) (lates : list (name * val * bool))
    (c : call) (ovo ieo : option bool) : result bound :=
  match functor_ctor s ctor ov ie with
  | Err x => Err x
  | Ok st => match late_all_n q s st lates with
             | Err x => Err x
             | Ok st' => functor_call s st' c ovo ieo
             end
  end.

Theorem functor_binds_effective_arguments_any_notification : forall q s ctor ov ie lates c ovo ieo,
  wf_sig s -> q_noop_rebind q = false -> late_names_ok s (strip lates) -> call_ok s c ->
  functor_bind_n q s ctor ov ie lates c ovo ieo =
  spec_outcome s ctor (strip lates) c (match ovo with Some b => b | None => ov end) (match ieo with Some b => b | None => ie end).
Proof.
  intros q s ctor ov ie lates c ovo ieo W Q LN [ND NV].
  unfold functor_bind_n, spec_outcome, effective.
  rewrite functor_ctor_supply by assumption.
  destruct (supply s eff0 ctor false false) as [e1|x] eqn:S1; [|reflexivity].
  assert (eff_ok s e1) as OK1 by (eapply supply_ok; [assumption|apply eff0_ok|exact S1]).
  pose proof (late_all_n_rel q s lates _ e1 W OK1 (ctor_finish_rel s e1 ov ie W OK1) LN Q) as L.
  destruct (late_all_n q s (ctor_finish s (enamed e1) (evar e1) ov ie) lates) as [st2|a] eqn:L2;
    destruct (supply_lates s e1 (strip lates)) as [e2|b] eqn:S2; try contradiction; [|congruence].
  destruct L as [R2 OK2].
  destruct (late_all_n_flags _ _ _ _ _ L2) as [FO FI].
  destruct (ctor_finish_flags s (enamed e1) (evar e1) ov ie) as [CO CI].
  unfold functor_call. rewrite (functor_call_args_supply s st2 e2 c ovo ieo W OK2 R2 ND NV).
  rewrite FO, FI, CO, CI.
  destruct (supply s e2 c _ _) as [e3|y]; [|reflexivity].
  unfold effective_call.
  destruct (list_args (pos s) (enamed e3)) as [[la|] K] eqn:LA; [reflexivity|].
  symmetry. eapply missing_positional_fails; eauto.
Qed.

(* reported names and values, whatever the notification flags *)
Theorem functor_reports_effective_arguments_any_notification : forall q s ctor ov ie lates st0 st,
  wf_sig s -> q_noop_rebind q = false -> late_names_ok s (strip lates) ->
  functor_ctor s ctor ov ie = Ok st0 -> late_all_n q s st0 lates = Ok st ->
  exists e, bound_arguments s ctor (strip lates) = Ok e /\
    (forall k, is_va s k = false -> smem k (spec st) = kmem k (enamed e)) /\
    (has_va s = true -> smem (va_name s) (spec st) = match evar e with Some _ => true | None => false end) /\
    (forall k, kget k (attrs st) = match kget k (enamed e) with Some v => Some v | None => default_of s k end) /\
    vattr st = match evar e with Some l => l | None => [] end.
Proof.
  intros q s ctor ov ie lates st0 st W Q LN C L. unfold bound_arguments.
  rewrite functor_ctor_supply in C by assumption.
  destruct (supply s eff0 ctor false false) as [e1|x] eqn:S1; [|discriminate].
  inversion C; subst st0; clear C.
  assert (eff_ok s e1) as OK1 by (eapply supply_ok; [assumption|apply eff0_ok|exact S1]).
  pose proof (late_all_n_rel q s lates _ e1 W OK1 (ctor_finish_rel s e1 ov ie W OK1) LN Q) as R.
  rewrite L in R. destruct (supply_lates s e1 (strip lates)) as [e2|]; [|contradiction].
  destruct R as [R OK]. exists e2. split; [reflexivity|]. split; [apply R|]. split; [apply R|]. split; [|apply R].
  intros k. destruct (kget k (enamed e2)) as [v|] eqn:G.
  - rewrite <- G. apply (r_attrs s st e2 R). unfold kmem; rewrite G; reflexivity.
  - apply (r_unbound s st e2 R). unfold kmem; rewrite G; reflexivity.
Qed.

#!/bin/bash
# Full clean build, offline: Coq development (full .vo), then every model's extracted runner.
cd "$(dirname "$0")"
export PYTHONHASHSEED=0 PYTHONDONTWRITEBYTECODE=1
rm -rf .work ocaml/build
find coq -name '*.vo' -o -name '*.vos' -o -name '*.vok' -o -name '*.glob' -o -name '.*.aux' | xargs -r rm -f
/venv/bin/python -W ignore - <<'PY' 2> >(grep -v 'WARNING conda' >&2)
import sys, os, glob, importlib, subprocess, json
sys.path.insert(0, os.getcwd())
from harness.lib import coqrun
from harness.lib.common import COQ
registered = [c['property_id'].lower() for c in json.load(open('MANIFEST.json'))['checks']]
def modules():
  for pid in registered:
    try:
      yield importlib.import_module('harness.props.' + pid)
    except Exception as e:
      print('setup: cannot import harness.props.%s: %s' % (pid, e))
# regenerate Gen/*.v from /repo when a translator is registered (fail-soft here: the checks fail closed)
for m in modules():
  for rel, fn in getattr(m, 'GENERATED', {}).items():
    try:
      res = fn(); text = res[0] if isinstance(res, tuple) else res
      coqrun.write_if_changed(os.path.join(COQ, rel), text)
    except Exception as e:
      print('setup: translator for %s failed: %s (keeping committed copy)' % (rel, e))
coqrun.mkproject()
p = subprocess.run(['timeout', '3000', 'make', '-j16', '-k'], cwd=COQ)
print('coq build rc=%d' % p.returncode)
for m in modules():
  M = m.META
  if M.get('model_run'):
    try:
      coqrun.build_runner(M.get('runner_name', M['id']), M['model_run'])
      print('runner %s ok' % M['id'])
    except Exception as e:
      print('runner %s FAILED: %s' % (M['id'], e))
PY
echo setup done

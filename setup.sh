#!/bin/bash
# Full clean build, offline: Coq development (full .vo), then every model's extracted runner.
set -e
cd "$(dirname "$0")"
export PYTHONHASHSEED=0 PYTHONDONTWRITEBYTECODE=1
rm -rf .work ocaml/build
find coq -name '*.vo' -o -name '*.vos' -o -name '*.vok' -o -name '*.glob' -o -name '.*.aux' | xargs -r rm -f
/venv/bin/python -W ignore - <<'PY' 2> >(grep -v 'WARNING conda' >&2)
import sys, os, glob, importlib, subprocess
sys.path.insert(0, os.getcwd())
from harness.lib import coqrun
from harness.lib.common import COQ
# regenerate Gen/*.v from /repo when a translator is registered (fail-soft here: the checks fail closed)
for f in sorted(glob.glob('harness/props/c*.py')):
  m = importlib.import_module('harness.props.' + os.path.basename(f)[:-3])
  for rel, fn in getattr(m, 'GENERATED', {}).items():
    try:
      res = fn(); text = res[0] if isinstance(res, tuple) else res
      coqrun.write_if_changed(os.path.join(COQ, rel), text)
    except Exception as e:
      print('setup: translator for %s failed: %s (keeping committed copy)' % (rel, e))
coqrun.mkproject()
p = subprocess.run(['timeout', '3000', 'make', '-j16', '-k'], cwd=COQ)
print('coq build rc=%d' % p.returncode)
for f in sorted(glob.glob('harness/props/c*.py')):
  m = importlib.import_module('harness.props.' + os.path.basename(f)[:-3])
  M = m.META
  if M.get('model_run'):
    try:
      coqrun.build_runner(M.get('runner_name', M['id']), M['model_run'])
      print('runner %s ok' % M['id'])
    except Exception as e:
      print('runner %s FAILED: %s' % (M['id'], e))
PY
echo setup done

#!/venv/bin/python
"""./check Cxx [--tier quick|thorough] [--replay FILE]"""
import argparse, importlib, json, os, sys, traceback
HERE = os.path.dirname(os.path.abspath(__file__))
sys.path.insert(0, os.path.dirname(HERE))
os.environ.setdefault('PYTHONHASHSEED', '0')
from harness.lib.common import VERIF, REPO, use_repo
from harness.lib.ctx import Ctx

def main():
  ap = argparse.ArgumentParser()
  ap.add_argument('prop')
  ap.add_argument('--tier', default=os.environ.get('VERIF_TIER', 'quick'), choices=['quick', 'thorough'])
  ap.add_argument('--replay')
  ap.add_argument('--seed', type=int, default=int(os.environ.get('VERIF_SEED', '20260930') or 20260930))
  a = ap.parse_args()
  os.chdir(VERIF)
  use_repo()
  mod = importlib.import_module('harness.props.' + a.prop.lower())
  ctx = Ctx(a.prop, a.tier, a.seed, mod.META)
  if a.replay:
    rp = json.load(open(a.replay))
    ok = mod.replay(ctx, rp)
    print('REPLAY %s: %s' % (a.replay, 'property holds on this input now' if ok else 'property FAILS on this input'))
    import shutil; shutil.rmtree(ctx.workdir, ignore_errors=True)
    sys.exit(0 if ok else 1)
  try:
    mod.run(ctx)
  except Exception as e:   # the check itself crashed: fail closed
    traceback.print_exc()
    ctx.broken.append(dict(kind='harness-crash', name=type(e).__name__, detail=traceback.format_exc()[-1500:]))
  rc = ctx.finish()
  print('%s %s tier=%s seed=%d evaluations=%d distinct=%d obligations=%d/%d wall=%.1fs' % (
      a.prop, 'OK' if rc == 0 else 'FAILED', a.tier, a.seed, ctx.evaluations, len(ctx.distinct), ctx.discharged, ctx.obligations,
      __import__('time').time() - ctx.t0), flush=True)
  sys.exit(rc)

if __name__ == '__main__':
  main()

#!/usr/bin/env python3
"""Validates MANIFEST.json and every evidence/*.json against the schemas (run with python3-vt, which has jsonschema)."""
import glob, json, sys, os
import jsonschema
V = os.path.dirname(os.path.dirname(os.path.abspath(__file__)))
ok = True
try:
  jsonschema.validate(json.load(open(V + '/MANIFEST.json')), json.load(open('/root/.vp/MANIFEST.schema.json')))
  print('MANIFEST.json: valid')
except Exception as e:
  ok = False; print('MANIFEST.json INVALID:', str(e)[:300])
es = json.load(open('/root/.vp/EVIDENCE.schema.json'))
for f in sorted(glob.glob(V + '/evidence/*.json')):
  try:
    ev = json.load(open(f)); jsonschema.validate(ev, es)
    c = ev['coverage']
    print('%s: valid  tier=%s obligations=%s/%s evaluations=%s distinct=%s wall=%ss violations=%s' % (
        os.path.basename(f), ev['tier'], c.get('discharged'), c.get('obligations'), c.get('evaluations'), c.get('distinct_nontrivial'), ev['wall_s'], ev.get('violations')))
  except Exception as e:
    ok = False; print('%s INVALID: %s' % (os.path.basename(f), str(e)[:300]))
sys.exit(0 if ok else 1)

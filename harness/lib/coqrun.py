"""Building the Coq development, reading Print Assumptions, and running models.

Two ways to run a model's `run : tr -> tr`:
  * run_ocaml: the function extracted with ExtrOcamlBasic, linked with ocaml/main.ml (volume);
  * run_vm:    `Eval vm_compute` inside coqc on a generated cases.v (cross-check of a sample;
               no extraction in the loop).
"""
import fcntl, glob, hashlib, os, re, shutil, subprocess, time
from . import tr as trlib
from .common import VERIF, COQ, WORK, NPROC

BANNED = r'Admitted|\badmit\b|\bAxiom\b|\bParameter\b|\bConjecture\b|Unset Guard|bypass_check|type-in-type|impredicative-set|Admit Obligations|Unset Universe Checking|Unset Positivity'

def dep_closure(relfiles):
  """Files of coq/ that the given files (relative to coq/) transitively Require from the PG library."""
  seen, todo = set(), list(relfiles)
  while todo:
    f = todo.pop()
    if f in seen or not os.path.exists(os.path.join(COQ, f)):
      continue
    seen.add(f)
    txt = open(os.path.join(COQ, f), encoding='utf-8').read()
    for m in re.finditer(r'(From\s+PG\s+)?Require\s+(?:Import\s+|Export\s+)?(.*?)\.(?=\s|$)', txt, re.S):
      frm, mods = m.group(1), m.group(2)
      for mod in mods.split():
        if frm:
          todo.append(mod.replace('.', '/') + '.v')
        elif mod.startswith('PG.'):
          todo.append(mod[3:].replace('.', '/') + '.v')
  return sorted(seen)

def hygiene(relfiles=None):
  """Fail-closed scan of the development for anything that would declare an axiom or weaken the kernel.
  relfiles: restrict to the dependency closure of these files (default: everything under coq/)."""
  bad = []
  if relfiles is None:
    files = sorted(glob.glob(os.path.join(COQ, '**', '*.v'), recursive=True))
  else:
    files = [os.path.join(COQ, f) for f in dep_closure(relfiles)]
  for f in files:
    txt = open(f, encoding='utf-8').read()
    # strip comments (nested) before scanning
    out, depth, i = [], 0, 0
    while i < len(txt):
      if txt.startswith('(*', i):
        depth += 1; i += 2
      elif txt.startswith('*)', i) and depth > 0:
        depth -= 1; i += 2
      else:
        if depth == 0:
          out.append(txt[i])
        i += 1
    code = ''.join(out)
    for m in re.finditer(BANNED, code):
      bad.append('%s: %s' % (os.path.relpath(f, VERIF), m.group(0)))
    # Variable/Hypothesis outside a section
    sect = 0
    for line in code.split('\n'):
      s = line.strip()
      if re.match(r'Section\b', s): sect += 1
      elif re.match(r'End\b', s) and sect > 0: sect -= 1
      elif sect == 0 and re.match(r'(Variables?|Hypothes[ie]s|Context)\b', s):
        bad.append('%s: %s outside a section' % (os.path.relpath(f, VERIF), s[:40]))
  return bad

class _Lock:
  def __init__(self, name):
    os.makedirs(WORK, exist_ok=True)
    self.path = os.path.join(WORK, name)
  def __enter__(self):
    self.f = open(self.path, 'w')
    fcntl.flock(self.f, fcntl.LOCK_EX)
  def __exit__(self, *a):
    fcntl.flock(self.f, fcntl.LOCK_UN); self.f.close()

def mkproject():
  """Regenerates coq/_CoqProject (all .v files under coq/, sorted) and the Makefile when the file list changed."""
  files = []
  for sub in ('Common', 'Gen', 'Model', 'Proofs', 'Properties'):
    files += sorted(os.path.relpath(f, COQ) for f in glob.glob(os.path.join(COQ, sub, '**', '*.v'), recursive=True))
  text = '-Q . PG\n-arg -w -arg -notation-overridden,-abstract-large-number,-deprecated-hint-without-locality,-deprecated-instance-without-locality\n' + '\n'.join(files) + '\n'
  p = os.path.join(COQ, '_CoqProject')
  old = open(p).read() if os.path.exists(p) else ''
  if old != text or not os.path.exists(os.path.join(COQ, 'Makefile')):
    open(p, 'w').write(text)
    subprocess.run(['coq_makefile', '-f', '_CoqProject', '-o', 'Makefile'], cwd=COQ, check=True,
                   stdout=subprocess.DEVNULL, stderr=subprocess.DEVNULL)

def write_if_changed(path, text):
  old = open(path).read() if os.path.exists(path) else None
  if old != text:
    open(path, 'w').write(text)
    return True
  return False

def build(targets, timeout=1500):
  """make -j targets (full .vo).  Returns (ok, log)."""
  with _Lock('coq.lock'):
    mkproject()
    t0 = time.time()
    p = subprocess.run(['timeout', str(timeout), 'make', '-j%d' % NPROC, '-k'] + list(targets), cwd=COQ,
                       stdout=subprocess.PIPE, stderr=subprocess.STDOUT, text=True)
    return p.returncode == 0, p.stdout, time.time() - t0

def first_error(log):
  m = re.search(r'File "([^"]+)", line (\d+), characters [^\n]*\n(Error:.*?)(?:\n\n|\nmake|\Z)', log, re.S)
  if m:
    return dict(file=m.group(1), line=int(m.group(2)), error=m.group(3)[:600])
  return dict(file='?', line=0, error=log[-600:])

def failed_files(log):
  return sorted(set(re.findall(r'File "\./([^"]+)", line \d+, characters [^\n]*\nError', log)))

def theorems_of(vfile):
  txt = open(vfile).read()
  return re.findall(r'^\s*(?:Theorem|Corollary)\s+([A-Za-z0-9_\']+)', txt, re.M)

def print_assumptions(prop, workdir):
  """Recompiles Properties/<prop>.v (tiny) to capture what Print Assumptions says for each theorem."""
  src = os.path.join(COQ, 'Properties', prop + '.v')
  out_vo = os.path.join(workdir, prop + '.vo')
  p = subprocess.run(['timeout', '600', 'coqc', '-Q', '.', 'PG', '-w', '-notation-overridden', '-o', out_vo, src],
                     cwd=COQ, stdout=subprocess.PIPE, stderr=subprocess.STDOUT, text=True)
  names = theorems_of(src)
  blocks = re.split(r'(?=Closed under the global context|Axioms:)', p.stdout)
  blocks = [b.strip() for b in blocks if b.strip().startswith(('Closed under', 'Axioms:'))]
  res = {}
  for i, n in enumerate(names):
    if i < len(blocks):
      b = blocks[i]
      res[n] = 'closed' if b.startswith('Closed under') else re.sub(r'\s+', ' ', b)[:800]
    else:
      res[n] = 'NOT-REPORTED'
  return p.returncode == 0, res, p.stdout

def coqchk(prop, timeout=1500):
  """Independent re-check of Properties/<prop>.vo and everything it depends on; returns (ok, axioms text)."""
  p = subprocess.run(['timeout', str(timeout), 'coqchk', '-silent', '-o', '-Q', '.', 'PG', 'PG.Properties.' + prop],
                     cwd=COQ, stdout=subprocess.PIPE, stderr=subprocess.STDOUT, text=True)
  m = re.search(r'\* Axioms:(.*?)\n\s*\n\* Constants/Inductives relying on type-in-type:(.*?)\n\s*\n\* Constants/Inductives relying on unsafe \(co\)fixpoints:(.*?)\n\s*\n\* Inductives whose positivity is assumed:(.*?)(\n\s*\n|\Z)', p.stdout, re.S)
  if p.returncode != 0 or not m:
    return False, p.stdout[-800:]
  parts = [re.sub(r'\s+', ' ', x).strip() for x in m.groups()[:4]]
  return True, dict(axioms=parts[0], type_in_type=parts[1], unsafe_fixpoints=parts[2], assumed_positivity=parts[3])

# ------------------------------------------------------------------------------------------------
def _newest_vo():
  m = 0
  for f in glob.glob(os.path.join(COQ, '**', '*.vo'), recursive=True):
    m = max(m, os.path.getmtime(f))
  return m

def build_runner(name, run_qualid):
  """Extracts `run_qualid : tr -> tr` with ExtrOcamlBasic and links it with ocaml/main.ml.
  Returns the path of the binary.  Rebuilt whenever a .vo is newer than the binary."""
  bdir = os.path.join(VERIF, 'ocaml', 'build', name)
  binp = os.path.join(bdir, 'runner')
  with _Lock('ocaml_%s.lock' % name):
    main_src = os.path.join(VERIF, 'ocaml', 'main.ml')
    if os.path.exists(binp) and os.path.getmtime(binp) > max(_newest_vo(), os.path.getmtime(main_src)):
      return binp
    os.makedirs(bdir, exist_ok=True)
    for f in glob.glob(os.path.join(bdir, '*')):
      os.remove(f)
    ev = os.path.join(bdir, 'extract.v')
    open(ev, 'w').write(
        'From Coq Require Extraction.\nFrom Coq Require Import ExtrOcamlBasic.\n'
        'Require %s.\nExtraction Language OCaml.\nSet Extraction Optimize.\n'
        'Extraction "model.ml" %s.\n' % (run_qualid.rsplit('.', 1)[0], run_qualid))
    p = subprocess.run(['timeout', '600', 'coqc', '-Q', COQ, 'PG', '-w', '-all', 'extract.v'], cwd=bdir,
                       stdout=subprocess.PIPE, stderr=subprocess.STDOUT, text=True)
    if p.returncode != 0 or not os.path.exists(os.path.join(bdir, 'model.ml')):
      raise RuntimeError('extraction failed: ' + p.stdout[-800:])
    shutil.copy(main_src, os.path.join(bdir, 'main.ml'))
    p = subprocess.run(['timeout', '600', 'ocamlfind', 'ocamlopt', '-w', '-a',
                        '-package', 'zarith', '-linkpkg', 'model.mli', 'model.ml', 'main.ml', '-o', 'runner'],
                       cwd=bdir, stdout=subprocess.PIPE, stderr=subprocess.STDOUT, text=True)
    if p.returncode != 0:
      raise RuntimeError('ocamlopt failed: ' + p.stdout[-800:])
    return binp

def run_ocaml(binp, cases, workdir, shards=None, timeout=3600):
  """cases: list of trees -> list of trees (None where the runner printed an error marker)."""
  if not cases:
    return []
  shards = shards or min(NPROC, max(1, len(cases) // 200))
  chunks = [cases[i::shards] for i in range(shards)]
  procs = []
  for k, ch in enumerate(chunks):
    inp = os.path.join(workdir, 'oc_in_%d.txt' % k)
    outp = os.path.join(workdir, 'oc_out_%d.txt' % k)
    with open(inp, 'w') as f:
      for c in ch:
        f.write(trlib.to_line(c)); f.write('\n')
    fi = open(inp); fo = open(outp, 'w')
    procs.append((subprocess.Popen(['bash', '-c', 'ulimit -s unlimited 2>/dev/null; exec timeout %d %s' % (timeout, binp)],
                                   stdin=fi, stdout=fo, stderr=subprocess.STDOUT), fi, fo, outp, len(ch)))
  outs = []
  for p, fi, fo, outp, n in procs:
    p.wait(); fi.close(); fo.close()
    lines = open(outp).read().split('\n')
    res = []
    for ln in lines[:n]:
      try:
        res.append(trlib.parse_line(ln))
      except Exception:
        res.append(None)
    while len(res) < n:
      res.append(None)
    outs.append(res)
  merged = [None] * len(cases)
  for k, res in enumerate(outs):
    for j, r in enumerate(res):
      merged[k + j * shards] = r
  return merged

def run_vm(run_qualid, cases, workdir, per_file=150, timeout=900):
  """Evaluates run on each case with vm_compute inside coqc.  Returns list of trees."""
  if not cases:
    return []
  mod = run_qualid.rsplit('.', 1)[0]
  files = []
  for k in range(0, len(cases), per_file):
    fn = os.path.join(workdir, 'cases_%d.v' % (k // per_file))
    with open(fn, 'w') as f:
      f.write('From Coq Require Import ZArith List.\nImport ListNotations.\nFrom PG Require Import Common.Tr.\nRequire %s.\n' % mod)
      f.write('Set Printing Width 100000000.\nSet Printing Depth 100000000.\n')
      for c in cases[k:k + per_file]:
        f.write('Eval vm_compute in (%s (%s)).\n' % (run_qualid, trlib.to_gallina(c)))
    files.append(fn)
  procs = []
  results = []
  def launch(fn):
    return subprocess.Popen(['timeout', str(timeout), 'coqc', '-Q', COQ, 'PG', '-w', '-all', fn], cwd=workdir,
                            stdout=subprocess.PIPE, stderr=subprocess.STDOUT, text=True)
  outs = {}
  pending = list(files)
  running = []
  while pending or running:
    while pending and len(running) < NPROC:
      fn = pending.pop(0)
      running.append((fn, launch(fn)))
    fn, p = running.pop(0)
    outs[fn] = p.communicate()[0]
  for fn in files:
    txt = outs[fn]
    blocks = re.findall(r'=\s*(.*?)\n\s*:\s*tr\b', txt, re.S)
    for b in blocks:
      try:
        results.append(trlib.parse_gallina(b))
      except Exception:
        results.append(None)
  while len(results) < len(cases):
    results.append(None)
  return results

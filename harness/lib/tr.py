"""Trees of integers: the wire format shared with coq/Common/Tr.v and ocaml/main.ml.

A tree is a Python int or a list of trees.  enc() maps common Python values onto trees the way
the Coq encoders do: bool -> 0/1, str -> list of code points, None -> [], tuple/list -> list.
"""

def enc(x):
  if isinstance(x, bool):
    return 1 if x else 0
  if isinstance(x, int):
    return x
  if isinstance(x, str):
    return [ord(c) for c in x]
  if x is None:
    return []
  if isinstance(x, (list, tuple)):
    return [enc(e) for e in x]
  raise TypeError('cannot encode %r' % (x,))

def opt(x, f=enc):
  """Coq [eopt]: None -> (), Some a -> (a)."""
  return [] if x is None else [f(x)]

def to_line(t):
  out = []
  stack = [t]
  # iterative printer
  while stack:
    x = stack.pop()
    if isinstance(x, str):
      out.append(x)
    elif isinstance(x, bool):
      out.append('1' if x else '0'); out.append(' ')
    elif isinstance(x, int):
      out.append(str(x)); out.append(' ')
    else:
      stack.append(') ')
      for e in reversed(x):
        stack.append(e)
      stack.append('(')
  s = ''.join(out)
  return s.replace(' )', ')').replace('( ', '(').strip()

def parse_line(s):
  s = s.split(';', 1)[0].strip()
  stack = []
  cur = None
  i, n = 0, len(s)
  result = None
  while i < n:
    c = s[i]
    if c in ' \t\r':
      i += 1
    elif c == '(':
      stack.append(cur); cur = []; i += 1
    elif c == ')':
      node = cur
      cur = stack.pop()
      if cur is None:
        result = node
      else:
        cur.append(node)
      i += 1
    else:
      j = i
      while j < n and (s[j] == '-' or s[j].isdigit()):
        j += 1
      if j == i:
        raise ValueError('bad tree text at %d: %r' % (i, s[i:i+20]))
      v = int(s[i:j])
      if cur is None:
        result = v
      else:
        cur.append(v)
      i = j
  return result

def to_gallina(t):
  """Gallina literal of type PG.Common.Tr.tr."""
  if isinstance(t, bool):
    t = int(t)
  if isinstance(t, int):
    return 'I (%d)%%Z' % t
  return 'L [' + '; '.join(to_gallina(e) for e in t) + ']'

def parse_gallina(s):
  """Parses what Coq prints for a closed [tr] (or a list of them): L [I 1%Z; I (-2)%Z; L []]."""
  import re
  toks = re.findall(r'L|I|\[|\]|;|\(|\)|-?\d+|%Z|::|nil', s)
  pos = [0]
  def peek():
    return toks[pos[0]] if pos[0] < len(toks) else None
  def take(x=None):
    t = toks[pos[0]]; pos[0] += 1
    if x is not None and t != x:
      raise ValueError('expected %s got %s' % (x, t))
    return t
  def num():
    if peek() == '(':
      take('('); v = num(); take(')')
    else:
      v = int(take())
    if peek() == '%Z':
      take()
    return v
  def tree():
    t = take()
    if t == '(':
      v = tree(); take(')'); return v
    if t == 'I':
      return num()
    if t == 'L':
      return lst(tree)
    raise ValueError('unexpected token %s' % t)
  def lst(elem):
    if peek() == 'nil':
      take(); return []
    take('[')
    out = []
    while peek() != ']':
      out.append(elem())
      if peek() == ';':
        take()
    take(']')
    return out
  if peek() == '[':
    return lst(tree)
  return tree()

import os, sys
VERIF = os.path.dirname(os.path.dirname(os.path.dirname(os.path.abspath(__file__))))
REPO = os.environ.get('VERIF_REPO', '/repo')
COQ = os.path.join(VERIF, 'coq')
WORK = os.path.join(VERIF, '.work')
PY = '/venv/bin/python'
NPROC = int(os.environ.get('VERIF_JOBS', '16'))

def use_repo():
  """Make `import pyglove` resolve to the working tree under test."""
  if REPO not in sys.path:
    sys.path.insert(0, REPO)

"""The run context handed to every property module: building, running the model, recording
coverage, hits, broken obligations / correspondences, known findings, evidence and the verdict."""
import json, os, random, shutil, sys, time, traceback
from . import coqrun, tr as trlib
from .common import VERIF, COQ, WORK, REPO

class Ctx:
  def __init__(self, prop, tier, seed, meta):
    self.prop, self.tier, self.seed, self.meta = prop, tier, seed, meta
    self.rng = random.Random(seed * 1000003 + sum(map(ord, prop)))
    self.t0 = time.time()
    self.workdir = os.path.join(WORK, '%s_%d' % (prop, os.getpid()))
    os.makedirs(self.workdir, exist_ok=True)
    self.thorough = tier == 'thorough'
    # coverage
    self.evaluations = 0
    self.distinct = set()
    self.samples = []
    self.histograms = {}
    self.extra = {}
    self.obligations = 0
    self.discharged = 0
    self.obligation_names = []
    self.trusted = []
    self.assumptions = []
    self.disagreements_checked = 0
    self.exhaustive = None
    self.traces_validated = 0
    # verdict
    self.broken = []          # [{kind, name, detail}]
    self.hits = []            # unknown oracle hits
    self.known_hits = {}      # signature -> what
    self.findings = [f for f in _load_findings() if f.get('property') == prop]
    self.model_ok = False
    self.runner = None
    self.notes = []

  # ---- logging -------------------------------------------------------------------------------
  def log(self, *a):
    print('[%s %6.1fs]' % (self.prop, time.time() - self.t0), *a, flush=True)

  def scale(self, quick, thorough):
    return thorough if self.thorough else quick

  # ---- regeneration / build ------------------------------------------------------------------
  def regen(self, relpath, translate):
    """translate() -> coq text (raises on unrecognised source).  Returns extra info or None when broken."""
    try:
      res = translate()
      text, info = res if isinstance(res, tuple) else (res, {})
      changed = coqrun.write_if_changed(os.path.join(COQ, relpath), text)
      self.log('regenerated %s (%s)' % (relpath, 'changed' if changed else 'unchanged'))
      return info
    except Exception as e:   # fail closed
      self.broken.append(dict(kind='translation', name=relpath, detail='%s: %s' % (type(e).__name__, e)))
      self.log('TRANSLATION BROKEN %s: %s' % (relpath, e))
      return None

  def build(self, model_targets=None):
    """Builds the model files first (so the model runs even when a proof breaks), then Properties/<prop>.vo.
    Fills obligations/discharged/trusted_base."""
    bad = coqrun.hygiene(['Properties/%s.v' % self.prop] + [t[:-1] if t.endswith('.vo') else t for t in self.meta.get('model_targets', [])])
    if bad:
      self.broken.append(dict(kind='hygiene', name='coq/', detail='; '.join(bad[:10])))
      self.log('HYGIENE FAILURE', bad[:10])
    model_targets = model_targets or self.meta.get('model_targets', [])
    if model_targets:
      ok, log, dt = coqrun.build(model_targets)
      self.model_ok = ok
      self.log('model build %s in %.1fs' % ('ok' if ok else 'FAILED', dt))
      if not ok:
        self.broken.append(dict(kind='model-build', name=','.join(model_targets), detail=json.dumps(coqrun.first_error(log))))
    else:
      self.model_ok = True
    pfile = os.path.join(COQ, 'Properties', self.prop + '.v')
    names = coqrun.theorems_of(pfile)
    extra = self.meta.get('instance_obligations', [])
    self.obligation_names = names + extra
    self.obligations = len(self.obligation_names)
    ok, log, dt = coqrun.build(['Properties/%s.vo' % self.prop])
    self.log('proof build %s in %.1fs (%d theorems)' % ('ok' if ok else 'FAILED', dt, len(names)))
    if ok and not bad:
      ok2, pa, raw = coqrun.print_assumptions(self.prop, self.workdir)
      self.discharged = self.obligations if ok2 else 0
      axioms = sorted(set(v for v in pa.values() if v != 'closed'))
      self.print_assumptions = pa
      self.trusted = ['Coq 8.16.1 kernel (coqc, full .vo build; vm_compute used, native_compute not used)'] + \
          (['Print Assumptions: every theorem of Properties/%s.v is closed under the global context (no axioms)' % self.prop]
           if not axioms else ['Print Assumptions reports: ' + a for a in axioms])
      allowed = self.meta.get('allowed_axioms', [])
      for n, v in pa.items():
        if v != 'closed' and not any(a in v for a in allowed):
          self.broken.append(dict(kind='axiom', name=n, detail=v))
        if v == 'NOT-REPORTED':
          self.broken.append(dict(kind='assumptions-missing', name=n, detail='no Print Assumptions output'))
      if self.thorough and not self.meta.get('skip_coqchk'):
        t1 = time.time()
        okc, res = coqrun.coqchk(self.prop)
        self.log('coqchk -o %s in %.1fs: %s' % ('ok' if okc else 'FAILED', time.time() - t1, res))
        self.extra['coqchk'] = res
        if not okc:
          self.broken.append(dict(kind='coqchk', name='Properties/%s.vo' % self.prop, detail=str(res)))
        else:
          self.trusted.append('coqchk -o (independent checker) re-checked Properties/%s.vo and its dependencies: axioms = %s' % (self.prop, res['axioms']))
          for k in ('type_in_type', 'unsafe_fixpoints', 'assumed_positivity'):
            if res[k] != '<none>':
              self.broken.append(dict(kind='coqchk', name=k, detail=res[k]))
          if res['axioms'] != '<none>' and not all(any(a in ax for a in allowed) for ax in res['axioms'].split(' ') if ax):
            self.broken.append(dict(kind='coqchk-axioms', name='Properties/%s.vo' % self.prop, detail=res['axioms']))
    else:
      err = coqrun.first_error(log)
      failed = coqrun.failed_files(log)
      self.discharged = 0
      self.print_assumptions = {}
      self.trusted = ['Coq 8.16.1 kernel (coqc)']
      self.broken.append(dict(kind='proof', name=','.join(failed) or err['file'], detail=json.dumps(err)))
    return ok

  # ---- running the model ----------------------------------------------------------------------
  def model_run(self, cases, vm_sample=None):
    """Runs the model on all cases with the extracted runner and cross-checks a sample with vm_compute."""
    qual = self.meta['model_run']
    if not self.model_ok:
      return [None] * len(cases)
    if self.runner is None:
      self.runner = coqrun.build_runner(self.meta.get('runner_name', self.prop), qual)
    t0 = time.time()
    outs = coqrun.run_ocaml(self.runner, cases, self.workdir)
    self.log('model (extracted) ran %d cases in %.1fs' % (len(cases), time.time() - t0))
    k = vm_sample if vm_sample is not None else self.scale(40, 300)
    if k and cases:
      idx = sorted(self.rng.sample(range(len(cases)), min(k, len(cases))))
      # a case whose literal is very large cannot be evaluated inside coqc (stack depth of the parser, see DESIGN 2.2):
      # such cases stay with the extracted runner only and are counted
      big = [i for i in idx if len(trlib.to_line(cases[i])) > 30000]
      if big:
        idx = [i for i in idx if i not in set(big)]
        self.extra['vm_compute_crosscheck_skipped_oversized'] = len(big)
      t0 = time.time()
      vm = coqrun.run_vm(qual, [cases[i] for i in idx], self.workdir)
      bad = [(i, v) for i, v in zip(idx, vm) if v != outs[i]]
      self.extra['vm_compute_crosscheck'] = dict(cases=len(idx), mismatches=len(bad))
      self.log('vm_compute cross-check of %d cases in %.1fs: %d mismatches' % (len(idx), time.time() - t0, len(bad)))
      if bad:
        i, v = bad[0]
        self.broken.append(dict(kind='extraction-vs-vm_compute', name=qual,
                                detail='case %s: extracted %s, vm_compute %s' % (trlib.to_line(cases[i]), outs[i], v)))
    return outs

  # ---- coverage --------------------------------------------------------------------------------
  def count(self, key, nontrivial=True, sample=None, kind=None):
    self.evaluations += 1
    if nontrivial:
      self.distinct.add(key if isinstance(key, (str, int, tuple)) else json.dumps(key, sort_keys=True, default=str))
    if sample is not None and len(self.samples) < 6:
      self.samples.append(sample)
    if kind is not None:
      self.hist('case_kinds', kind)

  def hist(self, name, key, n=1):
    h = self.histograms.setdefault(name, {})
    h[str(key)] = h.get(str(key), 0) + n

  # ---- correspondence ---------------------------------------------------------------------------
  def compare(self, name, cases, impl_outs, model_outs, describe=None):
    """Diffs implementation and model outcomes case by case. Returns indices that disagree."""
    bad = []
    for i, (a, b) in enumerate(zip(impl_outs, model_outs)):
      self.disagreements_checked += 1
      if a != b:
        bad.append(i)
    if bad:
      i = bad[0]
      self.broken.append(dict(kind='correspondence', name=name, count=len(bad),
                              detail=dict(case=describe(cases[i]) if describe else trlib.to_line(cases[i]),
                                          case_tr=trlib.to_line(cases[i]),
                                          implementation=trlib.to_line(impl_outs[i]) if impl_outs[i] is not None else None,
                                          model=trlib.to_line(model_outs[i]) if model_outs[i] is not None else None)))
      self.log('CORRESPONDENCE %s: %d of %d cases disagree; first: %s' % (name, len(bad), len(cases), self.broken[-1]['detail']))
    return bad

  # ---- oracle hits -------------------------------------------------------------------------------
  def open_findings(self):
    return [f for f in self.findings if f.get('status') == 'open']

  def hit(self, signature, what, case):
    """An input on which the property itself fails on the implementation."""
    for f in self.open_findings():
      if f['signature'] == signature:
        if signature not in self.known_hits:
          self.known_hits[signature] = f.get('what', what)
        return 'known'
    if not any(h['signature'] == signature for h in self.hits):
      self.hits.append(dict(signature=signature, what=what, case=case))
      self.log('ORACLE HIT %s: %s' % (signature, what))
    return 'new'

  def is_broken(self):
    return bool(self.broken)

  # ---- verdict -------------------------------------------------------------------------------------
  def finish(self):
    rc = 0
    os.makedirs(os.path.join(VERIF, 'replays'), exist_ok=True)
    for sig, what in sorted(self.known_hits.items()):
      print('KNOWN-FINDING: property=%s %s [%s]' % (self.prop, what, sig), flush=True)
    n = 0
    for h in self.hits[:5]:
      n += 1
      path = os.path.join('replays', '%s-%d-%d.json' % (self.prop, self.seed, n))
      json.dump(dict(property=self.prop, kind='failing-input', signature=h['signature'], what=h['what'], case=h['case'],
                     seed=self.seed, tier=self.tier, broken=self.broken[:5],
                     how_to_replay='./check %s --replay %s' % (self.prop, path)),
                open(os.path.join(VERIF, path), 'w'), indent=1, default=str)
      print('VIOLATION property=%s replay=%s' % (self.prop, path), flush=True)
      rc = 1
    if self.broken and not self.hits:
      path = os.path.join('replays', '%s-%d-broken.json' % (self.prop, self.seed))
      json.dump(dict(property=self.prop, kind='no-failing-input-found', no_longer_checks=self.broken[:10], seed=self.seed, tier=self.tier,
                     note='a theorem / regenerated obligation / correspondence no longer checks and the search found no input on which the property fails'),
                open(os.path.join(VERIF, path), 'w'), indent=1, default=str)
      print('VIOLATION property=%s replay=%s no-failing-input-found' % (self.prop, path), flush=True)
      rc = 1
    self.write_evidence(len(self.hits) + (1 if (self.broken and not self.hits) else 0))
    shutil.rmtree(self.workdir, ignore_errors=True)
    return rc

  def write_evidence(self, violations):
    cov = dict(
        obligations=max(self.obligations, 0), discharged=self.discharged,
        obligation_names=self.obligation_names,
        checker_cmd='cd coq && make -j16 Properties/%s.vo   (coqc 8.16.1; then coqc Properties/%s.v for Print Assumptions)' % (self.prop, self.prop),
        trusted_base=self.trusted + self.meta.get('trusted_base', []),
        print_assumptions=getattr(self, 'print_assumptions', {}),
        evaluations=self.evaluations, distinct_nontrivial=len(self.distinct),
        rule=self.meta.get('rule', ''), samples=self.samples[:6],
        disagreements_checked=self.disagreements_checked,
        histograms=self.histograms, broken=self.broken[:10],
        known_findings_reproduced=sorted(self.known_hits),
    )
    if self.discharged < 1 or self.obligations < 1:
      # the proof-level keys are only valid with >= 1 discharged obligation; a run whose proofs did not build
      # reports them under other names so the file still validates (as exploration-style counts) and says so
      cov['proof_obligations_total'] = cov.pop('obligations'); cov['proof_obligations_discharged'] = cov.pop('discharged')
      cov['explanation'] = 'the Coq development did not build (or has no theorem yet) on this run; see broken'
    if self.exhaustive is not None:
      cov['exhaustive'] = self.exhaustive
    if self.traces_validated:
      cov['traces_validated_against_impl'] = self.traces_validated
    cov.update(self.extra)
    ev = dict(property_id=self.prop, tier=self.tier, seed=self.seed, level='proof', coverage=cov,
              assumptions=self.meta.get('assumptions', []) + self.notes, wall_s=round(time.time() - self.t0, 2),
              violations=violations)
    # runs against a scratch tree ($VERIF_REPO) must not overwrite the evidence of /repo itself
    edir = os.path.join(VERIF, 'evidence') if os.path.realpath(REPO) == '/repo' else os.path.join(WORK, 'evidence_scratch')
    os.makedirs(edir, exist_ok=True)
    tmp = os.path.join(edir, self.prop + '.json.tmp')
    json.dump(ev, open(tmp, 'w'), indent=1, default=str)
    os.replace(tmp, os.path.join(edir, self.prop + '.json'))

def _load_findings():
  p = os.path.join(VERIF, 'KNOWN_FINDINGS.json')
  if not os.path.exists(p):
    return []
  return json.load(open(p)).get('findings', [])

"""C19 — permission-gated code execution never runs a forbidden construct."""
import ast, contextlib, io, json, os, sys
from harness.lib import tr as trlib
from harness.lib.common import REPO
from harness.translators import perm_table, eval_shape, eval_outputs

META = dict(
    id='C19',
    model_run='PG.Model.PermRun.run',
    model_targets=['Model/Perm.vo', 'Model/EvalOut.vo', 'Model/PermRun.vo'],
    instance_obligations=['generated_table_covers (Proofs/PermInstance.v: covers Gen.PermTable.tbl = true, vm_compute, re-checked on the table regenerated from the current source)',
                          'generated_eval_perm_* (Proofs/PermInstance.v: four lemmas about Gen.PermTable.eval_perm as regenerated from execution.py)',
                          'generated_shape_ok (Proofs/EvalInstance.v: shape_ok Gen.EvalShape.shape = true — the plan of evaluate() regenerated from execution.py pops only Expr/Assign and re-uses the evaluated result for complex targets)',
                          'generated_out_plan_ok (Proofs/EvalOutInstance.v: plan_ok Gen.EvalOutPlan.out_plan = true — as regenerated from execution.py, global_vars win over context symbols, an inner context over an outer one, __builtins__ is skipped and a name is reported iff it is new or bound to another object than the snapshot taken before execution)'],
    technique='Coq proof over a rose-tree AST model (induction on the tree) + table regenerated from parsing.py by a fail-closed ast translator + differential correspondence and sentinel oracle',
    design_ref='DESIGN.md §5 C19',
    level_text=('Theorems (any program, any nesting depth, any of the 256 permission sets): the validator rejects iff some node needs a withheld flag; '
                'the table regenerated from the current parsing.py gates every construct the property names; a rejected program never reaches the interpreter; '
                'nested permission scopes never widen; evaluate() performs every side effect of the program exactly once, binds the same names and returns the value of the last expression/assignment (on the plan regenerated from execution.py). Tie: translator (fail-closed) regenerates Gen/PermTable.v each run and the proofs are re-checked; '
                'the model is run against parsing.parse on every node class x withheld flag and on random nested programs; a direct oracle (sentinel proves nothing ran; accepted programs equal plain exec) runs on every case; the names reported as intermediate variables are exactly those plain execution rebinds (binding language of Model/EvalOut.v, plan regenerated from execution.py); an API-surface sweep runs permitted programs through evaluate / run (in process, sandboxed) in every return mode and with every way of injecting symbols, and the named constructs through every entry point.'),
    level_note=('Trusted: Coq kernel; translator harness/translators/perm_table.py; extraction (ExtrOcamlBasic) cross-checked against vm_compute; Python ast.parse for turning source text into the tree. '
                'Modelled, not verified: Python exec/eval semantics (a Section variable); result/stdout/variables equality with plain execution is proved for the event and binding languages of the model and decided by the oracle for arbitrary Python (partial).'),
    rule='a case is (program source, permission bits[, enclosing scopes]); distinct by (source, bits, scopes); non-trivial when the program has at least one node gated by some flag',
    trusted_base=['translators harness/translators/perm_table.py, eval_shape.py, eval_outputs.py (fail-closed ast readers)', 'extraction: ExtrOcamlBasic only; ocaml/main.ml lexer/printer; cross-checked against vm_compute on a sample',
                  'Python ast.parse converts source text to the tree given to the model'],
    assumptions=['exec/eval/compile semantics are a Section variable of the model (Model/Perm.v Section Evaluate)'],
)

# ------------------------------------------------------------------------------------------------
# program generator: every construct can be nested in every other; all programs terminate.
SNIPPETS = [
    'x = 1', 'x = 1\nx += 2', 'x: int = 1', 'y: int', '(z := 3)', 'a = (b := 2) + 1', 'x = 1\ndel x',
    'if 1 < 2:\n  pass\nelse:\n  pass', 'x = 1 if 2 > 1 else 0',
    'match 3:\n  case 1:\n    pass\n  case [a, *b]:\n    pass\n  case {"k": v, **r}:\n    pass\n  case str() | int():\n    pass\n  case (1 | 2) as w:\n    pass\n  case _:\n    pass',
    'match (1, 2):\n  case P(x=1):\n    pass\n  case None:\n    pass\n  case _:\n    pass',
    'for i in (1, 2):\n  pass\nelse:\n  pass', 'i = 0\nwhile i < 2:\n  i += 1\nelse:\n  pass',
    'for i in (1, 2):\n  if i:\n    continue\n  break',
    'async def f():\n  async for i in g():\n    pass\n  async with c() as d:\n    pass\n  await h()\n  return [j async for j in g()]',
    'len((1, 2))', 'print("a", end="")', 'try:\n  pass\nexcept ValueError as e:\n  pass\nelse:\n  pass\nfinally:\n  pass',
    'try:\n  pass\nexcept* ValueError:\n  pass', 'try:\n  raise ValueError("v")\nexcept ValueError:\n  pass', 'assert True, "m"',
    'class A:\n  pass', 'class B(object, metaclass=type):\n  k = 1\n  def m(self):\n    return self.k',
    'def f(a, b=1, *c, d, e=2, **g):\n  return a', 'def gen():\n  yield 1\n  yield from (2, 3)', 'f = lambda q: q',
    '@staticmethod\ndef h() -> int:\n  return 1', 'import math', 'from math import pi as PI', 'import os.path as p',
    'with ctx as c:\n  pass', '[i for i in (1, 2) if i]', '{i for i in (1, 2)}', '{i: i for i in (1, 2)}', 'list(i for i in (1, 2))',
    'f"{1!r:>4} {2}"', 's = (1, 2)[0:1]', 't = [1, 2][::2]', 'u = {"a": 1}["a"]', 'v = [*(1, 2)]', 'w = {**{}}', 'not True', '-1', '1 + 2 * 3',
    'True and False or True', '1 < 2 <= 3', 'a = b = 1', 'a, b = 1, 2', 'x = 1\nx.__class__', 'global G', 'def o():\n  n = 1\n  def i():\n    nonlocal n', 'pass',
    '...', 'b"x"', '1j', 'None', '{1, 2}', '[1, 2]', '(1,)', 'type T = int', 'def tp[T: int, *Ts, **P](x: T) -> T:\n  return x', 'class G[T]:\n  pass',
    'x = [0]\nx[0] = 1', 'x = [0]\nx[0] += 1', 'lambda: (yield)', 'raise ValueError from None',
]

# ------------------------------------------------------------------------------------------------
# context x construct sweep: every gated construct isolated inside every nesting context, so that the
# construct is the ONLY node needing its flag (random programs almost never isolate one).
EXPR_CONSTRUCTS = {     # expression-level gated constructs -> flag
    '(w_ := 1)': 'ASSIGN', 'fn_()': 'CALL', '(lambda: 0)': 'FUNCTION_DEFINITION',
}
STMT_CONSTRUCTS = {     # statement-level gated constructs (one line or block, indented by the template)
    'a_ = 1': 'ASSIGN', 'a_ += 1': 'ASSIGN', 'a_: int = 1': 'ASSIGN',
    'if 1:\n  pass': 'CONDITION', 'match 1:\n  case _:\n    pass': 'CONDITION',
    'for i_ in ():\n  pass': 'LOOP', 'while 0:\n  pass': 'LOOP',
    'try:\n  pass\nfinally:\n  pass': 'EXCEPTION', 'try:\n  pass\nexcept* E_:\n  pass': 'EXCEPTION', 'raise E_': 'EXCEPTION', 'assert 1': 'EXCEPTION',
    'class K_:\n  pass': 'CLASS_DEFINITION', 'def f_():\n  pass': 'FUNCTION_DEFINITION', 'async def g_():\n  pass': 'FUNCTION_DEFINITION',
    'import m_': 'IMPORT', 'from m_ import n_': 'IMPORT',
}
# templates: needs = flags the template itself needs; HOLE is replaced by an expression / STMT by an indented block
EXPR_CONTEXTS = [
    ('HOLE', []), ('[HOLE]', []), ('(HOLE, 1)', []), ('{HOLE}', []), ('{1: HOLE}', []), ('{HOLE: 1}', []), ('x_[HOLE]', []), ('x_[HOLE:2]', []),
    ('x_[1:2:HOLE]', []), ('HOLE.attr', []), ('-HOLE', []), ('not HOLE', []), ('HOLE + 1', []), ('1 < HOLE < 3', []), ('HOLE and 1', []),
    ('1 if HOLE else 2', []), ('(HOLE if 1 else 2)', []), ('f"{HOLE}"', []), ('f"{1:{HOLE}}"', []), ('f"a{HOLE!r:>4}b"', []), ('[*HOLE]', []), ('{**HOLE}', []),
    ('[i_ for i_ in HOLE]', []), ('[HOLE for i_ in ()]', []), ('[i_ for i_ in () if HOLE]', []), ('{i_: HOLE for i_ in ()}', []), ('(HOLE for i_ in ())', []),
    ('{HOLE for i_ in () for j_ in ()}', []), ('del x_[HOLE]', []), ('x_: HOLE', []), ('with HOLE:\n  pass', []), ('with x_ as y_[HOLE]:\n  pass', []),
    ('global_ = 0\nx_[HOLE] = 1', ['ASSIGN']), ('x_ = HOLE', ['ASSIGN']), ('x_ += HOLE', ['ASSIGN']), ('x_: int = HOLE', ['ASSIGN']), ('x_: HOLE = 1', ['ASSIGN']),
    ('(v_ := HOLE)', ['ASSIGN']), ('g_(HOLE)', ['CALL']), ('g_(k=HOLE)', ['CALL']), ('g_(*HOLE)', ['CALL']), ('g_(**HOLE)', ['CALL']), ('HOLE(1)', ['CALL']),
    ('lambda: HOLE', ['FUNCTION_DEFINITION']), ('lambda a=HOLE: a', ['FUNCTION_DEFINITION']), ('lambda *, k=HOLE: k', ['FUNCTION_DEFINITION']),
    ('def f_(a=HOLE):\n  pass', ['FUNCTION_DEFINITION']), ('def f_(*, k=HOLE):\n  pass', ['FUNCTION_DEFINITION']), ('def f_(a: HOLE):\n  pass', ['FUNCTION_DEFINITION']),
    ('def f_() -> HOLE:\n  pass', ['FUNCTION_DEFINITION']), ('@HOLE\ndef f_():\n  pass', ['FUNCTION_DEFINITION']), ('def f_():\n  return HOLE', ['FUNCTION_DEFINITION']),
    ('def f_():\n  yield HOLE', ['FUNCTION_DEFINITION']), ('def f_():\n  yield from HOLE', ['FUNCTION_DEFINITION']), ('async def f_():\n  await HOLE', ['FUNCTION_DEFINITION']),
    ('async def f_():\n  return [i_ async for i_ in HOLE]', ['FUNCTION_DEFINITION']),
    ('class C_(HOLE):\n  pass', ['CLASS_DEFINITION']), ('class C_(metaclass=HOLE):\n  pass', ['CLASS_DEFINITION']), ('@HOLE\nclass C_:\n  pass', ['CLASS_DEFINITION']),
    ('class C_:\n  k = HOLE', ['CLASS_DEFINITION', 'ASSIGN']),
    ('if HOLE:\n  pass', ['CONDITION']), ('if 0:\n  pass\nelif HOLE:\n  pass', ['CONDITION']), ('match HOLE:\n  case _:\n    pass', ['CONDITION']),
    ('match 1:\n  case _ if HOLE:\n    pass', ['CONDITION']), ('match 1:\n  case 1:\n    HOLE', ['CONDITION']),
    ('for i_ in HOLE:\n  pass', ['LOOP']), ('for x_[HOLE] in ():\n  pass', ['LOOP']), ('while HOLE:\n  break', ['LOOP']),
    ('assert HOLE', ['EXCEPTION']), ('assert 1, HOLE', ['EXCEPTION']), ('raise HOLE', ['EXCEPTION']), ('raise E_ from HOLE', ['EXCEPTION']),
    ('try:\n  pass\nexcept HOLE:\n  pass', ['EXCEPTION']), ('try:\n  HOLE\nfinally:\n  pass', ['EXCEPTION']),
    ('type T_ = HOLE', []), ('def f_[T_: HOLE]():\n  pass', ['FUNCTION_DEFINITION']),
]
STMT_CONTEXTS = [
    ('STMT', []), ('if 1:\n  STMT', ['CONDITION']), ('if 0:\n  pass\nelse:\n  STMT', ['CONDITION']), ('match 1:\n  case _:\n    STMT', ['CONDITION']),
    ('for i_ in ():\n  STMT', ['LOOP']), ('for i_ in ():\n  pass\nelse:\n  STMT', ['LOOP']), ('while 0:\n  STMT', ['LOOP']), ('while 0:\n  pass\nelse:\n  STMT', ['LOOP']),
    ('try:\n  STMT\nfinally:\n  pass', ['EXCEPTION']), ('try:\n  pass\nexcept E_:\n  STMT', ['EXCEPTION']), ('try:\n  pass\nexcept E_:\n  pass\nelse:\n  STMT', ['EXCEPTION']),
    ('try:\n  pass\nfinally:\n  STMT', ['EXCEPTION']), ('try:\n  pass\nexcept* E_:\n  STMT', ['EXCEPTION']),
    ('with x_:\n  STMT', []), ('def f_():\n  STMT', ['FUNCTION_DEFINITION']), ('async def f_():\n  STMT', ['FUNCTION_DEFINITION']),
    ('class C_:\n  STMT', ['CLASS_DEFINITION']), ('async def f_():\n  async with x_:\n    STMT', ['FUNCTION_DEFINITION', 'LOOP']),
    ('async def f_():\n  async for i_ in x_:\n    STMT', ['FUNCTION_DEFINITION', 'LOOP']),
]

def _fill_stmt(tmpl, block):
  out = []
  for line in tmpl.split('\n'):
    if line.strip() == 'STMT':
      ind = line[:len(line) - len(line.lstrip())]
      out += [ind + l for l in block.split('\n')]
    else:
      out.append(line)
  return '\n'.join(out)

def context_sweep(rng, depth2):
  """Yields (source, construct_flag, template_flags)."""
  progs = []
  for c, cf in EXPR_CONSTRUCTS.items():
    for t, tf in EXPR_CONTEXTS:
      progs.append((t.replace('HOLE', c), cf, tf))
  for c, cf in STMT_CONSTRUCTS.items():
    for t, tf in STMT_CONTEXTS:
      progs.append((_fill_stmt(t, c), cf, tf))
  # expression construct inside an expression context inside a statement context, and two expression contexts deep
  for _ in range(depth2):
    c, cf = rng.choice(list(EXPR_CONSTRUCTS.items()))
    (t1, f1), (t2, f2) = rng.choice(EXPR_CONTEXTS), rng.choice(EXPR_CONTEXTS)
    inner = t1.replace('HOLE', c)
    if '\n' in inner or not _is_expr(inner):
      (t3, f3) = rng.choice(STMT_CONTEXTS)
      progs.append((_fill_stmt(t3, inner), cf, f1 + f3))
    else:
      progs.append((t2.replace('HOLE', '(' + inner + ')'), cf, f1 + f2))
  for _ in range(depth2):
    c, cf = rng.choice(list(STMT_CONSTRUCTS.items()))
    (t1, f1), (t2, f2) = rng.choice(STMT_CONTEXTS), rng.choice(STMT_CONTEXTS)
    progs.append((_fill_stmt(t2, _fill_stmt(t1, c)), cf, f1 + f2))
  return progs

def _is_expr(src):
  try:
    ast.parse(src, mode='eval'); return True
  except SyntaxError:
    return False

# ------------------------------------------------------------------------------------------------
# last-statement sweep: evaluate() treats the LAST statement specially (its value is the result); every statement
# kind in last position, with a right-hand side / expression that has side effects (a counter, a print, a pop), so
# that executing it twice, dropping it, or evaluating it in another order is visible in variables and stdout.
LAST_PRELUDE = ("log = []\n"
                "def f_():\n  log.append(len(log))\n  print('called', len(log))\n  return len(log)\n"
                "class H_:\n  pass\n"
                "h_ = H_()\nd_ = {}\nxs_ = [3, 2, 1]\nn_ = 0\n")
LAST_STATEMENTS = [
    'f_()', 'v_ = f_()', 'v_ = w_ = f_()', "d_['k'] = f_()", 'h_.x = f_()', 'a_, b_ = f_(), f_()', 'a_, *r_ = xs_.pop(), f_(), f_()',
    "v_ = d_['j'] = f_()", 'n_ += f_()', 'm_: int = f_()', 'm_: int', 'xs_.pop()', 'a_, b_ = xs_.pop(), xs_.pop()',
    "d_[f_()] = f_()", 'h_.x, h_.y = f_(), f_()', '(q_ := f_())', 'xs_[0], xs_[1] = xs_[1], f_()', 'del xs_[0]', 'pass',
    'if f_():\n  v_ = f_()', 'for i_ in (1, 2):\n  f_()', 'while n_ < 2:\n  n_ += f_()', 'try:\n  v_ = f_()\nfinally:\n  f_()',
    'with NULLCTX:\n  v_ = f_()', 'def g_():\n  return f_()', 'class K_:\n  c_ = f_()', 'import math', 'assert f_()',
    'v_ = [f_() for _ in (1, 2)]', 'print(f_())', "h_.z = [print('once')]", 'v_ = xs_[f_():]', 'raise ValueError(f_())',
    "d_['k'] = xs_.pop() + f_()", 'lambda: f_()', 'v_ = lambda: f_()', "v_ = f'{f_()}'", 'global G_', 'v_ = yield_ = 1',
]

# programs that raise at run time, in every block shape the error can travel through
ERROR_PROGRAMS = [
    'x_ = 1\nraise ValueError("a")', 'x_ = [1][3]', 'for i_ in (1, 2):\n  y_ = 1 // (i_ - 2)', 'i_ = 0\nwhile True:\n  i_ += 1\n  {}["k"]',
    'if 1:\n  pass\nelse:\n  pass\nz_ = int("q")', 'try:\n  x_ = {}["k"]\nexcept ValueError:\n  pass', 'try:\n  x_ = 1\n  y_ = [][0]\nfinally:\n  z_ = 2\n  w_ = 3',
    'try:\n  x_ = 1 // 0\nexcept ZeroDivisionError:\n  y_ = 2\n  raise', 'try:\n  pass\nfinally:\n  x_ = 1\nraise KeyError("k")',
    'def f_():\n  a_ = 1\n  return [][a_]\nx_ = 1\ny_ = f_()', 'def f_():\n  raise TypeError("t")\ndef g_():\n  return f_()\n\n\ng_()', 'class K_:\n  v_ = 1\n  w_ = {}["x"]',
    'x_ = 1\ny_ = 2\n[][5]', 'x_ = 1\nd_ = {}\nd_["a"]["b"] = 1', 'x_ = 1\n(lambda: 1 // 0)()', 'with NULLCTX:\n  x_ = 1\n  y_ = int("z")',
    'try:\n  try:\n    x_ = [][0]\n  finally:\n    y_ = 1\nexcept KeyError:\n  z_ = 2', 'match 1:\n  case 1:\n    x_ = None.attr', 'x_ = [i_ // (i_ - 1) for i_ in (2, 1)]',
    'assert 1 == 2, "m"', 'import math\nmath.sqrt(-1)', 'x_ = 1\n\n\n# comment\ny_ = undefined_name_', 'try:\n  x_ = 1\nexcept* ValueError:\n  pass\nraise ExceptionGroup("g", [ValueError(1)])',
]

def last_statement_programs():
  out = []
  for st in LAST_STATEMENTS:
    out.append(LAST_PRELUDE + st)
    out.append(LAST_PRELUDE + 'f_()\n' + st)          # the same with an ordinary statement before it
    out.append(LAST_PRELUDE + st + '\n' + 'n_ = n_')    # and NOT in last position (control)
  return out

class Gen:
  """Random, terminating, mostly side-effect free programs with deep nesting."""
  def __init__(self, rng):
    self.r = rng
    self.n = 0
  def name(self):
    self.n += 1
    return 'v%d' % self.n
  def expr(self, d):
    r = self.r
    k = r.randrange(14 if d > 0 else 4)
    if k == 0: return str(r.randint(0, 9))
    if k == 1: return repr(r.choice(['a', 'bc', '']))
    if k == 2: return r.choice(['True', 'None', '1.5'])
    if k == 3: return '(%s, %s)' % (r.randint(0, 3), r.randint(0, 3))
    if k == 4: return '(%s + %s)' % (self.expr(d - 1), self.expr(d - 1)) if r.random() < .5 else '(1 + %s)' % r.randint(0, 5)
    if k == 5: return 'len(%s)' % self.seq(d - 1)
    if k == 6: return '(%s if %s else %s)' % (self.expr(d - 1), self.expr(d - 1), self.expr(d - 1))
    if k == 7: return '(lambda a=%s: a)' % self.expr(d - 1) + ('()' if r.random() < .5 else '')
    if k == 8: return '[%s for i_ in %s if %s]' % (self.expr(d - 1), self.seq(d - 1), self.expr(d - 1))
    if k == 9: return '(%s := %s)' % (self.name(), self.expr(d - 1))
    if k == 10: return 'f"{%s!r}"' % self.expr(d - 1)
    if k == 11: return '{%s: %s for j_ in %s}' % (r.randint(0, 3), self.expr(d - 1), self.seq(d - 1))
    if k == 12: return 'sum(k_ for k_ in (1, 2))'
    return 'str(%s)' % self.expr(d - 1)
  def seq(self, d):
    return self.r.choice(['(1, 2)', '[0]', '"ab"', '()', '[%s]' % self.expr(max(d, 0))])
  def block(self, d, ind, n=None):
    n = n or self.r.randint(1, 2)
    return '\n'.join(self.stmt(d, ind) for _ in range(n))
  def stmt(self, d, ind=''):
    r = self.r
    k = r.randrange(20 if d > 0 else 6)
    i2 = ind + '  '
    if k == 0: return '%s%s = %s' % (ind, self.name(), self.expr(d))
    if k == 1:
      v = self.name(); return '%s%s = 1\n%s%s += %s' % (ind, v, ind, v, r.randint(1, 3))
    if k == 2: return '%s%s: int = %s' % (ind, self.name(), r.randint(0, 5))
    if k == 3: return '%s%s' % (ind, self.expr(d))
    if k == 4: return '%spass' % ind
    if k == 5: return '%sassert %s or True' % (ind, self.expr(0))
    if k == 6: return '%sif %s:\n%s\n%selse:\n%s' % (ind, self.expr(d - 1), self.block(d - 1, i2), ind, self.block(d - 1, i2))
    if k == 7: return '%sfor %s in %s:\n%s' % (ind, self.name(), self.seq(d - 1), self.block(d - 1, i2))
    if k == 8:
      v = self.name(); return '%s%s = 0\n%swhile %s < 2:\n%s%s += 1\n%s' % (ind, v, ind, v, i2, v, self.block(d - 1, i2))
    if k == 9: return '%stry:\n%s\n%sexcept Exception:\n%s\n%sfinally:\n%s' % (ind, self.block(d - 1, i2), ind, self.block(d - 1, i2), ind, self.block(d - 1, i2))
    if k == 10: return '%stry:\n%sraise ValueError(%s)\n%sexcept ValueError as e_:\n%s' % (ind, i2, self.expr(0), ind, self.block(d - 1, i2))
    if k == 11:
      f = self.name(); return '%sdef %s(a=%s, *b, c=1, **d):\n%s\n%sreturn a\n%s%s()' % (ind, f, self.expr(d - 1), self.block(d - 1, i2), i2, ind, f)
    if k == 12:
      c = self.name(); return '%sclass %s:\n%sk = %s\n%s' % (ind, c, i2, self.expr(d - 1), self.block(d - 1, i2))
    if k == 13: return '%s%s' % (ind, r.choice(['import math', 'from math import pi', 'import math as m_']))
    if k == 14: return '%smatch %s:\n%scase 1:\n%s\n%scase _:\n%s' % (ind, self.expr(d - 1), i2, self.block(d - 1, i2 + '  '), i2, self.block(d - 1, i2 + '  '))
    if k == 15: return '%stry:\n%s\n%sexcept* ValueError:\n%s' % (ind, self.block(d - 1, i2), ind, self.block(d - 1, i2))
    if k == 16:
      g = self.name(); return '%sdef %s():\n%syield %s\n%s\n%slist(%s())' % (ind, g, i2, self.expr(d - 1), self.block(d - 1, i2), ind, g)
    if k == 17:
      f = self.name(); return '%s@(lambda f_: f_)\n%sdef %s():\n%s\n%s%s()' % (ind, ind, f, self.block(d - 1, i2), ind, f)
    if k == 18:
      f = self.name(); return '%sasync def %s():\n%s' % (ind, f, self.block(d - 1, i2))
    return '%swith NULLCTX:\n%s' % (ind, self.block(d - 1, i2))
  def program(self):
    self.n = 0
    d = self.r.choice([1, 2, 2, 3, 3, 4])
    return self.block(d, '', self.r.randint(1, 3))

# ------------------------------------------------------------------------------------------------
FLAG_NAMES = ['ASSIGN', 'CONDITION', 'LOOP', 'CALL', 'EXCEPTION', 'CLASS_DEFINITION', 'FUNCTION_DEFINITION', 'IMPORT']
# the specification table of Model/Perm.v (required_pairs), by name
REQUIRED = {'Assign': 'ASSIGN', 'AugAssign': 'ASSIGN', 'AnnAssign': 'ASSIGN', 'NamedExpr': 'ASSIGN', 'If': 'CONDITION', 'Match': 'CONDITION',
            'For': 'LOOP', 'While': 'LOOP', 'AsyncFor': 'LOOP', 'Call': 'CALL', 'Try': 'EXCEPTION', 'TryStar': 'EXCEPTION', 'Raise': 'EXCEPTION',
            'Assert': 'EXCEPTION', 'ClassDef': 'CLASS_DEFINITION', 'FunctionDef': 'FUNCTION_DEFINITION', 'AsyncFunctionDef': 'FUNCTION_DEFINITION',
            'Lambda': 'FUNCTION_DEFINITION', 'Import': 'IMPORT', 'ImportFrom': 'IMPORT'}

GENERATED = {'Gen/PermTable.v': perm_table.translate, 'Gen/EvalShape.v': eval_shape.translate, 'Gen/EvalOutPlan.v': eval_outputs.translate}

def py():
  from pyglove.core.coding import parsing, permissions, execution, errors
  return parsing, permissions, execution, errors

def perm_of_bits(bits, flag_order):
  _, permissions, _, _ = py()
  p = permissions.CodePermission(0)
  for i, f in enumerate(flag_order):
    if bits >> i & 1:
      p |= getattr(permissions.CodePermission, f)
  return p

def conv(node, kidx):
  return [kidx[type(node).__name__]] + [conv(c, kidx) for c in ast.iter_child_nodes(node)]

def needed_flags(tree):
  out = {}
  for n in ast.walk(tree):
    f = REQUIRED.get(type(n).__name__)
    if f:
      out.setdefault(f, type(n).__name__)
  return out

class Sentinel:
  def __init__(self): self.hits = 0
  def __getitem__(self, k): self.hits += 1; return 0

def make_globals():
  return dict(SENTINEL=Sentinel(), NULLCTX=contextlib.nullcontext())

def oracle(code, arg_bits, scopes, flag_order):
  """The property itself on the implementation. Returns list of (signature, what)."""
  parsing, permissions, execution, errors = py()
  tree = ast.parse(code)
  needs = needed_flags(tree)
  fidx = {f: i for i, f in enumerate(flag_order)}
  hits = []
  full = 'SENTINEL[0]\n' + code
  g = make_globals()
  def call():
    kw = dict(global_vars=g, outputs_intermediate=True)
    if arg_bits is not None:
      kw['permission'] = perm_of_bits(arg_bits, flag_order)
    return execution.evaluate(full, **kw)
  with contextlib.ExitStack() as st:
    for s in scopes:
      st.enter_context(permissions.permission(perm_of_bits(s, flag_order)))
    try:
      out = call(); err = None
    except errors.CodeError as e:
      out = None; err = e
    except BaseException as e:   # anything else escaping is a failure of "reported as code errors"
      out = None; err = e
  rejected_before_run = isinstance(err, errors.CodeError) and g['SENTINEL'].hits == 0 and isinstance(err.cause, SyntaxError)
  # which flags must be granted for this program according to the property
  must_reject = []
  for f, kind in sorted(needs.items()):
    b = fidx.get(f)
    if b is None: continue
    if arg_bits is not None and not (arg_bits >> b & 1):
      must_reject.append(('arg', f, kind))
    if scopes and not (scopes[0] >> b & 1):
      must_reject.append(('scope', f, kind))
  if must_reject and not rejected_before_run:
    src, f, kind = must_reject[0]
    if src == 'arg' and arg_bits == 0:
      sig = 'C19/forbidden-runs/empty-permission-set-means-unchecked'
      what = 'evaluate(code, permission=CodePermission(0)) validates nothing: %s ran without %s' % (kind, f)
    elif src == 'arg':
      sig = 'C19/forbidden-runs/%s-ungated-by-%s' % (kind, f)
      what = '%s is executed although %s is not granted' % (kind, f)
    else:
      sig = 'C19/scope-widened/argument-overrides-enclosing-scope' if arg_bits is not None else 'C19/scope-widened/%s' % kind
      what = 'inside `with permission(q)` a %s ran although q lacks %s' % (kind, f)
    hits.append((sig, what))
  if not must_reject and (arg_bits is not None or scopes):
    # a program using only granted constructs: must equal plain execution
    g2 = make_globals()
    buf = io.StringIO()
    plain_err = None
    try:
      with contextlib.redirect_stdout(buf):
        exec(compile(full, '', 'exec'), g2)
    except Exception as e:
      plain_err = e
    if plain_err is None:
      if err is not None:
        hits.append(('C19/granted-program-differs/raises', 'a program using only granted constructs is refused or raises %s: %s' % (type(err).__name__, str(err)[:100])))
      else:
        if out.get('__stdout__') != buf.getvalue():
          hits.append(('C19/granted-program-differs/stdout', 'captured stdout differs from plain execution'))
        for k, v in g2.items():
          if k in ('__builtins__', 'SENTINEL', 'NULLCTX'): continue
          pv = _plain(v)
          if pv is not _OPAQUE and (k not in out or _plain(out[k]) != pv):
            hits.append(('C19/granted-program-differs/variables', 'variable %s differs from plain execution: %r vs %r' % (k, out.get(k, '<absent>'), v))); break
    else:
      if not isinstance(err, errors.CodeError) or type(err.cause) is not type(plain_err):
        hits.append(('C19/granted-program-differs/error', 'plain execution raises %s but evaluate gives %r' % (type(plain_err).__name__, err)))
      else:
        # "carrying the original cause and position": the line of the program's own top-level frame in the traceback
        want = None
        tb = plain_err.__traceback__
        while tb is not None:
          if tb.tb_frame.f_code.co_filename == '':
            want = tb.tb_lineno; break
          tb = tb.tb_next
        if want is not None and getattr(err, 'lineno', None) != want:
          hits.append(('C19/granted-program-differs/error-position',
                       'the %s is raised at line %s of the program, the CodeError reports line %s' % (type(plain_err).__name__, want, getattr(err, 'lineno', None))))
        if err.cause is None or str(err.cause) != str(plain_err):
          hits.append(('C19/granted-program-differs/error-cause', 'the CodeError does not carry the original cause: %r vs %r' % (err.cause, plain_err)))
  return hits

def _norm(v):
  """Object addresses in reprs differ between two executions of the same text; they are not part of the comparison."""
  import re
  if isinstance(v, str):
    return re.sub(r' at 0x[0-9a-fA-F]+', ' at 0x?', v)
  if isinstance(v, tuple):
    return tuple(_norm(x) for x in v)
  return v

_OPAQUE = object()
def _plain(v, depth=0):
  """Comparable form of a value built from plain data (ints, strs, tuples, lists, dicts, sets, simple instances);
  _OPAQUE for anything else (functions, classes, modules …), which is then not compared."""
  if depth > 6:
    return _OPAQUE
  if isinstance(v, (bool, int, float, type(None), bytes, complex)):
    return (type(v).__name__, v)
  if isinstance(v, str):
    return ('str', _norm(v))
  if isinstance(v, (tuple, list)):
    items = [_plain(x, depth + 1) for x in v]
    return _OPAQUE if any(i is _OPAQUE for i in items) else (type(v).__name__, tuple(items))
  if isinstance(v, (set, frozenset)):
    items = [_plain(x, depth + 1) for x in v]
    return _OPAQUE if any(i is _OPAQUE for i in items) else (type(v).__name__, tuple(sorted(items, key=repr)))
  if isinstance(v, dict):
    items = [(_plain(k, depth + 1), _plain(x, depth + 1)) for k, x in v.items()]
    return _OPAQUE if any(a is _OPAQUE or b is _OPAQUE for a, b in items) else ('dict', tuple(items))
  if type(v).__module__ in ('', '__main__', 'builtins') or getattr(type(v), '__module__', None) is None:
    d = getattr(v, '__dict__', None)
    if isinstance(d, dict) and not callable(v) and not isinstance(v, type):
      inner = _plain(d, depth + 1)
      return _OPAQUE if inner is _OPAQUE else ('instance', type(v).__name__, inner)
  return _OPAQUE

def impl_validate(code, bits, flag_order):
  parsing, permissions, execution, errors = py()
  try:
    parsing.parse(code, perm_of_bits(bits, flag_order))
    return True
  except errors.CodeError:
    return False

def impl_scopes(ps, flag_order):
  parsing, permissions, execution, errors = py()
  with contextlib.ExitStack() as st:
    for s in ps:
      st.enter_context(permissions.permission(perm_of_bits(s, flag_order)))
    p = permissions.get_permission()
  assert permissions.get_permission() is None
  if p is None:
    return None
  return sum(1 << i for i, f in enumerate(flag_order) if p & getattr(permissions.CodePermission, f))

def impl_evaluate_accepts(code, arg_bits, scopes, flag_order):
  """Does evaluate() get past validation?  (rejected = CodeError caused by SyntaxError with the sentinel untouched)"""
  parsing, permissions, execution, errors = py()
  g = make_globals()
  kw = dict(global_vars=g)
  if arg_bits is not None:
    kw['permission'] = perm_of_bits(arg_bits, flag_order)
  with contextlib.ExitStack() as st:
    for sc in scopes:
      st.enter_context(permissions.permission(perm_of_bits(sc, flag_order)))
    try:
      with contextlib.redirect_stdout(io.StringIO()):
        execution.evaluate('SENTINEL[0]\n' + code, **kw)
      return True
    except errors.CodeError as e:
      return not (isinstance(e.cause, SyntaxError) and g['SENTINEL'].hits == 0)
    except BaseException:
      return True

# ------------------------------------------------------------------------------------------------
# event traces of evaluate(): programs of traced statements, compared with Model/PermRun.run case 3 and with plain exec
class _Trace:
  def __init__(self):
    self.log = []
  def E(self, e):
    self.log.append([0, e]); return e
  def S(self, i):
    self.log.append([1, i]); return i
  def __setitem__(self, t, v):
    self.log.append([3, t, v])

def trace_source(stmts):
  """stmts: [(kind, value|None, [(0,name)|(1,complex)], id)] -> Python source"""
  lines = []
  for kind, val, targets, sid in stmts:
    if kind == 0:
      lines.append('T_.E(%d)' % val)
    elif kind == 1:
      lines.append(' = '.join(('v%d' % t[1]) if t[0] == 0 else ('T_[%d]' % t[1]) for t in targets) + ' = T_.E(%d)' % val)
    else:
      lines.append('for i_ in (0,):\n  T_.S(%d)' % sid)
  return '\n'.join(lines)

def _names_of(stmts):
  seq = [t[1] for k, v, ts, i in stmts if k == 1 for t in ts if t[0] == 0]
  return [n for j, n in enumerate(seq) if n not in seq[j + 1:]]     # Coq's nodup keeps the last occurrence

def trace_case_tr(stmts):
  return [3, [[k, trlib.opt(v), [list(t) for t in ts], i] for k, v, ts, i in stmts]]

def impl_trace(stmts, plain=False):
  parsing, permissions, execution, errors = py()
  T = _Trace()
  src = trace_source(stmts)
  g = dict(T_=T)
  try:
    if plain:
      exec(compile(src, '', 'exec'), g); out = g
    else:
      out = execution.evaluate(src, global_vars=g, permission=permissions.CodePermission.ALL, outputs_intermediate=True)
  except BaseException as e:   # noqa
    return [3, [[9, 9]], [], trlib.opt(None)], T.log
  binds = [[n, trlib.opt(out.get('v%d' % n))] for n in _names_of(stmts)]
  # for a last statement that is not popped, evaluate() documents __result__ as 'the last global' — not part of the model
  res = out.get('__result__') if (not plain and stmts[-1][0] in (0, 1)) else None
  return [3, T.log, binds, trlib.opt(res if isinstance(res, int) and not isinstance(res, bool) else None)], T.log

def gen_trace_program(rng):
  n = rng.randint(1, 5)
  stmts = []
  eid = 1
  for j in range(n):
    k = rng.choice([0, 1, 1, 1, 2])
    if k == 0:
      stmts.append((0, eid, [], j + 1))
    elif k == 1:
      ts = [(rng.choice([0, 0, 1]), rng.randint(1, 4)) for _ in range(rng.randint(1, 3))]
      stmts.append((1, eid, ts, j + 1))
    else:
      stmts.append((2, None, [], j + 1))
    eid += 1
  return stmts

def all_trace_programs():
  """Every last statement shape behind every one-statement prefix shape (small scope, exhaustive)."""
  shapes = [(0, [])] + [(1, ts) for ts in ([(0, 1)], [(1, 1)], [(0, 1), (0, 2)], [(0, 1), (1, 2)], [(1, 1), (0, 2)], [(1, 1), (1, 2)],
                                           [(0, 1), (0, 1)], [(0, 2), (1, 1), (0, 2)])] + [(2, [])]
  progs = []
  for lk, lts in shapes:
    for pk, pts in [(None, None)] + shapes:
      st = []
      if pk is not None:
        st.append((pk, 1 if pk != 2 else None, pts, 1))
      st.append((lk, 2 if lk != 2 else None, lts, 2))
      progs.append(st)
  return progs

# ---- (I) API surface: evaluate / run, every return mode, every way of injecting symbols --------------------------------
API_PROGRAMS = [
  'x = [0, 0, 0]\ni = 0\nx[i] = i = 2', 'x = [0, 0, 0]\ni = 0\ni = x[i] = 2', 'x = [0, 0, 0]\ni = 0\nx[i], i = 1, 2', 'x = [0, 0, 0]\ni = 0\ni, x[i] = 1, 2',
  'x = [0, 0, 0]\na = b = 0\na = x[a] = b = x[b] = 1', 'd = {}\nk = "p"\nd[k] = k = "q"', 'x = [[0, 0], [0, 0]]\ni = 0\nx[i][i] = i = 1',
  'A + 1', 'x = A + 1', 'x = A\ny = x * 2\nprint(x, y)\ny', 'print("hi")\nprint(K)', 'A = A + 1\nA', 'A = 10', 'A = 11',
  'B.append(3)\nB', 'B = B + [3]', 'x = 1\ndel x\ny = 2', 'x = 1\ny = 2\ndel y', 'del A\nz = 1', '_p = 5\n__q = 6\n_p + __q',
  'def f(a):\n  return a + A\nf(1)', 'def f(a):\n  return a + A\nz = f(2)\nprint(z)', 'class C:\n  v = A\nC.v',
  'import math\nmath.floor(2.5)', 'for i in range(3):\n  print(i)\ni', 'x = [i * A for i in range(3)]\nx', 'x = y = A\nx + y',
  'a, b = 1, 2\nb', 'x = {}\nx["k"] = K\nx', 'if A > 5:\n  r = "big"\nelse:\n  r = "small"\nr',
  'try:\n  1/0\nexcept ZeroDivisionError:\n  r = "caught"\nr', 'x = 1\nx += A\nx', 'print(A, end="")\nNone', 'K', 'x = None',
  'x = 1\nx = 2\nx = 3', 'with NULL:\n  w = 1\nw', '(lambda q: q + A)(1)', 'x = 0\nwhile x < 3:\n  x += 1\nx',
  'print("a")\nx = 5\nprint("b")\nx', '', '# only a comment', 'pass', 'x = 1\npass', 'x = 1\nx', 'K = K + "!"\nprint(K)\nK',
  'x = (A, B, K)\nx', 'x = A\nA = 0\nx', 'y = 3\n"just a string"', 'x = 1; y = 2; x + y', 'x: int = 4\nx', 'x = [1, 2]\nx[0] = A\nx',
  'import sys\nsys.stdout.write("w")\n1', 'print("x" * 3)\nprint()\n2',
]
API_FORBIDDEN = [('x = 1', 'ASSIGN'), ('if A: pass', 'CONDITION'), ('for i in B: pass', 'LOOP'), ('len(B)', 'CALL'),
                 ('try:\n  pass\nexcept Exception:\n  pass', 'EXCEPTION'), ('class C: pass', 'CLASS_DEFINITION'),
                 ('def f(): pass', 'FUNCTION_DEFINITION'), ('import math', 'IMPORT')]
API_MODES = ('result', 'stdout', 'inter')
API_SYMS = ('g', 'c', 'cg', 'cc')
API_APIS = ('evaluate', 'run0', 'runN', 'runS')

def _api_symbols():
  return dict(A=10, B=[1, 2], K='key', NULL=contextlib.nullcontext())

def api_call(code, mode, symsrc, api, perm, scopes=()):
  """Runs the program through the public API. -> ('ok', value) | ('err', exception)"""
  parsing, permissions, execution, errors = py()
  syms = _api_symbols()
  kw = {}
  if mode == 'stdout': kw['returns_stdout'] = True
  if mode == 'inter': kw['outputs_intermediate'] = True
  if perm is not None: kw['permission'] = perm
  with contextlib.ExitStack() as st:
    for sc in scopes:
      st.enter_context(permissions.permission(sc))
    if symsrc == 'g':
      kw['global_vars'] = syms
    elif symsrc == 'c':
      st.enter_context(execution.context(**syms))
    elif symsrc == 'cg':
      st.enter_context(execution.context(A=-1, B=syms['B'], K='decoy', NULL=syms['NULL']))
      kw['global_vars'] = dict(A=syms['A'], K=syms['K'])
    else:
      st.enter_context(execution.context(A=-1, K=syms['K'], NULL=syms['NULL']))
      st.enter_context(execution.context(A=syms['A'], B=syms['B']))
    try:
      if api == 'evaluate':
        return 'ok', execution.evaluate(code, **kw)
      sb = {'run0': False, 'runN': None, 'runS': True}[api]
      return 'ok', execution.run(code, sandbox=sb, timeout=20, **kw)
    except BaseException as e:   # noqa
      return 'err', e

def api_oracle(code, mode, symsrc, api, perm_bits, flag_order):
  """Result, captured output and intermediate variables must be those of plain execution of the same text."""
  parsing, permissions, execution, errors = py()
  hits = []
  tag = '%s/%s' % (api, mode)
  init = _api_symbols(); g2 = dict(init)
  buf = io.StringIO(); plain_err = None
  tree = ast.parse(code)
  last = tree.body[-1] if tree.body else None
  want = _OPAQUE
  try:
    with contextlib.redirect_stdout(buf):
      if isinstance(last, (ast.Expr, ast.Assign)):
        head = ast.Module(body=tree.body[:-1], type_ignores=[])
        exec(compile(head, '', 'exec'), g2)
        want_v = eval(compile(ast.Expression(last.value), '', 'eval'), g2)
        if isinstance(last, ast.Assign):
          g2['__v__'] = want_v
          asg = ast.Module(body=[ast.Assign(targets=last.targets, value=ast.Name(id='__v__', ctx=ast.Load()))], type_ignores=[])
          exec(compile(ast.fix_missing_locations(asg), '', 'exec'), g2)
          del g2['__v__']
        want = _plain(want_v)
      else:
        exec(compile(tree, '', 'exec'), g2)
  except Exception as e:
    plain_err = e
  if plain_err is not None:
    return hits      # error programs are sweep (H)
  perm = None if perm_bits is None else perm_of_bits(perm_bits, flag_order)
  st, out = api_call(code, mode, symsrc, api, perm)
  if st == 'err':
    if api == 'runS' and isinstance(out, errors.SerializationError):
      return hits    # values that cannot cross the process boundary: documented behaviour of sandbox=True
    hits.append(('C19/api/%s/raises' % tag, 'a program using only granted constructs raises %s: %s' % (type(out).__name__, str(out)[:120])))
    return hits
  stdout = buf.getvalue()
  if mode == 'stdout':
    if out != stdout:
      hits.append(('C19/api/%s/stdout' % tag, 'returned output %r, plain execution prints %r' % (out, stdout)))
  elif mode == 'result':
    if last is None:
      if out is not None:
        hits.append(('C19/api/%s/result' % tag, 'empty program returns %r' % (out,)))
    elif want is not _OPAQUE and _plain(out) != want:
      hits.append(('C19/api/%s/result' % tag, 'returned %r, the last line evaluates to %r' % (out, want)))
  else:
    if not isinstance(out, dict):
      hits.append(('C19/api/%s/not-a-dict' % tag, 'outputs_intermediate=True returned %r' % (out,)))
      return hits
    if last is None:
      if out: hits.append(('C19/api/%s/variables' % tag, 'empty program reports %r' % (out,)))
      return hits
    if out.get('__stdout__') != stdout:
      hits.append(('C19/api/%s/stdout' % tag, 'captured output %r, plain execution prints %r' % (out.get('__stdout__'), stdout)))
    if want is not _OPAQUE and ('__result__' not in out or _plain(out['__result__']) != want):
      hits.append(('C19/api/%s/result' % tag, '__result__ is %r, the last line evaluates to %r' % (out.get('__result__', '<absent>'), want)))
    init_plain = {k: _plain(v) for k, v in _api_symbols().items()}
    for k, v in g2.items():
      if k == '__builtins__': continue
      pv = _plain(v)
      if pv is _OPAQUE: 
        if k not in init and k not in out:
          hits.append(('C19/api/%s/variable-missing' % tag, 'the program binds %s, it is not reported' % k))
        continue
      rebound = k not in init or (v is not init[k] and pv != init_plain.get(k))
      if rebound and (k not in out or _plain(out[k]) != pv):
        hits.append(('C19/api/%s/variables' % tag, 'variable %s is %r after plain execution, reported %r' % (k, v, out.get(k, '<absent>'))))
    for k, v in out.items():
      if k in ('__result__', '__stdout__'): continue
      if k not in g2:
        hits.append(('C19/api/%s/phantom-variable' % tag, 'reports %s = %r, which plain execution does not bind (or deletes)' % (k, v)))
      elif _plain(g2[k]) is not _OPAQUE and _plain(v) != _plain(g2[k]):
        hits.append(('C19/api/%s/variables' % tag, 'variable %s is %r after plain execution, reported %r' % (k, g2[k], v)))
  return hits

def api_forbidden_oracle(code, flag, api, how, flag_order):
  """A forbidden construct must be refused with a code error on every entry point (argument, scope, scope + wider argument)."""
  parsing, permissions, execution, errors = py()
  allb = (1 << len(flag_order)) - 1
  lack = perm_of_bits(allb & ~(1 << flag_order.index(flag)), flag_order)
  full = perm_of_bits(allb, flag_order)
  perm, scopes = {'arg': (lack, ()), 'scope': (None, (lack,)), 'scope+arg': (full, (lack,)), 'scope>scope': (None, (lack, full))}[how]
  st, out = api_call(code, 'result', 'g', api, perm, scopes)
  if st == 'err' and isinstance(out, errors.CodeError) and isinstance(out.cause, SyntaxError):
    return []
  return [('C19/api/%s/forbidden-runs/%s/%s' % (api, how, flag),
           '%s without %s (%s): %s' % (code.split('\n')[0], flag, how, 'returned %r' % (out,) if st == 'ok' else 'raised %s' % type(out).__name__))]


# ---- (J) which names evaluate(outputs_intermediate=True) reports: straight-line binding programs (Model/EvalOut.v) -----
class _Obj:
  def __init__(self, i): self.i = i
  def __repr__(self): return 'Obj(%d)' % self.i

def binding_source(prog):
  lines = []
  for st in prog:
    if st[0] == 0: lines.append('n%d = n%d' % (st[1], st[2]))
    elif st[0] == 1: lines.append('n%d = [%d]' % (st[1], st[2]))
    elif st[0] == 2: lines.append('del n%d' % st[1])
    else: lines.append('n%d' % st[1])
  return '\n'.join(lines)

def _ident(v):
  if isinstance(v, _Obj): return v.i
  if isinstance(v, list) and len(v) == 1 and isinstance(v[0], int): return v[0]
  if isinstance(v, dict) and '__name__' in v: return 0        # the builtins dict
  return 999

def _name_idx(k):
  if k == '__result__': return 1
  if k == '__builtins__': return 0
  return int(k[1:]) if k[:1] == 'n' and k[1:].isdigit() else 998

def impl_bindings(ctxs, gv, prog, plain=False):
  """-> ([4, opt([[name, obj] ...])], expected-by-plain-execution or None)"""
  parsing, permissions, execution, errors = py()
  objs = {}
  ob = lambda i: objs.setdefault(i, _Obj(i))
  src = binding_source(prog)
  with contextlib.ExitStack() as st:
    g = {'n%d' % k: ob(v) for k, v in gv}
    if plain:
      # the documented rule, not the code's: an inner context over an outer one, global_vars over both
      syms = {}
      for c in ctxs:
        syms.update({'n%d' % k: ob(v) for k, v in c})
      syms.update(g)
      init = dict(syms)
      try:
        exec(compile(src, '', 'exec'), syms)
      except Exception:
        return None
      return sorted([_name_idx(k), _ident(v)] for k, v in syms.items() if k != '__builtins__' and (k not in init or v is not init[k]))
    for c in ctxs:
      st.enter_context(execution.context(**{'n%d' % k: ob(v) for k, v in c}))
    try:
      out = execution.evaluate(src, global_vars=g, outputs_intermediate=True)
    except errors.CodeError:
      return [4, trlib.opt(None)]
    except BaseException:   # noqa
      return [4, [[[997, 997]]]]
  return [4, trlib.opt([[_name_idx(k), _ident(v)] for k, v in out.items() if k != '__stdout__'])]

def binding_case_tr(ctxs, gv, prog):
  return [4, [[list(kv) for kv in c] for c in ctxs], [list(kv) for kv in gv], [list(st) for st in prog]]

def binding_oracle(ctxs, gv, prog):
  """The reported names (other than __result__) are exactly those plain execution leaves bound to another object."""
  got = impl_bindings(ctxs, gv, prog)
  want = impl_bindings(ctxs, gv, prog, plain=True)
  if not prog:
    return [] if got == [4, [[]]] else [('C19/intermediates/empty-program', 'an empty program reports %r' % (got,))]
  if want is None:
    return [] if got == [4, []] else [('C19/intermediates/error-differs', 'plain execution raises, evaluate() reports %r' % (got,))]
  if got == [4, []] or got[1] == [[[997, 997]]]:
    return [('C19/intermediates/raises', 'plain execution succeeds, evaluate() raises, for:\n%s' % binding_source(prog))]
  rep = sorted(kv for kv in got[1][0] if kv[0] != 1)
  if rep != want:
    return [('C19/intermediates/names-differ', 'evaluate() reports %r, plain execution rebinds %r, for:\n%s' % (rep, want, binding_source(prog)))]
  return []

def all_binding_statements(names, sources):
  out = [(0, x, s) for x in names for s in sources] + [(1, x, None) for x in names] + [(2, x) for x in sources] + [(3, s) for s in sources]
  return out

def binding_setups():
  return [([], [(4, 10), (2, 11)]), ([[(4, 10), (2, 11)]], []), ([[(4, 10), (2, 11)]], [(2, 12)]),
          ([[(4, 10), (2, 11), (3, 13)], [(2, 12)]], [(3, 14)]), ([], [])]

def number_news(prog):
  out, n = [], 100
  for st in prog:
    if st[0] == 1:
      out.append((1, st[1], n)); n += 1
    else:
      out.append(st)
  return out

def gen_binding_case(rng):
  names = list(range(2, 8))
  mk = lambda: [(k, rng.randint(10, 14)) for k in rng.sample(names, rng.randint(0, 4))]
  ctxs = [mk() for _ in range(rng.choice([0, 1, 1, 2, 3]))]
  gv = mk()
  prog = []
  for _ in range(rng.randint(1, 6)):
    k = rng.choice([0, 0, 0, 1, 1, 2, 3])
    if k == 0: prog.append((0, rng.choice(names), rng.choice(names)))
    elif k == 1: prog.append((1, rng.choice(names), None))
    elif k == 2: prog.append((2, rng.choice(names)))
    else: prog.append((3, rng.choice(names)))
  return ctxs, gv, number_news(prog)


def parseable(snips):
  out = []
  for s in snips:
    try:
      ast.parse(s); out.append(s)
    except SyntaxError:
      pass
  return out

def run(ctx):
  info = ctx.regen('Gen/PermTable.v', perm_table.translate)
  ctx.regen('Gen/EvalShape.v', eval_shape.translate)
  ctx.regen('Gen/EvalOutPlan.v', eval_outputs.translate)
  ctx.build()
  if info is None:
    kinds = perm_table.node_kinds(); flag_order = FLAG_NAMES
  else:
    kinds, flag_order = info['kinds'], info['flags']
  kidx = {k: i for i, k in enumerate(kinds)}
  nflags = len(flag_order)
  ALL = (1 << nflags) - 1
  rng = ctx.rng
  cases = []   # (descr, tree-case, impl-out)
  # (A) exhaustive sweep: every node class that has a witness snippet x every singly withheld flag, plus none and all
  snippets = parseable(SNIPPETS)
  covered = set()
  for s in snippets:
    t = ast.parse(s)
    covered |= {type(n).__name__ for n in ast.walk(t)}
    for bits in [ALL, 0] + [ALL & ~(1 << b) for b in range(nflags)]:
      cases.append((dict(code=s, bits=bits), [0, bits, conv(t, kidx)], 'sweep'))
  concrete = [k for k in kinds if not getattr(ast, k).__subclasses__() and getattr(ast, k)._fields is not None]
  uncovered = sorted(set(concrete) - covered)
  ctx.extra['node_kinds_total'] = len(kinds)
  ctx.extra['node_kinds_with_witness'] = len(covered)
  ctx.extra['node_kinds_without_witness'] = uncovered
  # (B) random nested programs x permission subsets
  gen = Gen(rng)
  nprog = ctx.scale(250, 4000)
  progs = []
  while len(progs) < nprog:
    src = gen.program()
    try:
      t = ast.parse(src)
      compile(src, '', 'exec')     # symtable-level errors (e.g. a walrus in a comprehension iterable) are not ast.parse errors
    except SyntaxError:
      ctx.hist('generator', 'syntax-error'); continue
    progs.append((src, t))
  for src, t in progs:
    needs = needed_flags(t)
    subsets = set()
    for _ in range(ctx.scale(6, 12)):
      subsets.add(rng.randrange(ALL + 1))
    # targeted: withhold exactly one needed flag, grant exactly the needed ones
    fidx = {f: i for i, f in enumerate(flag_order)}
    need_bits = sum(1 << fidx[f] for f in needs if f in fidx)
    subsets.add(need_bits)
    for f in needs:
      if f in fidx:
        subsets.add(ALL & ~(1 << fidx[f])); subsets.add(need_bits & ~(1 << fidx[f]))
    for bits in sorted(subsets):
      cases.append((dict(code=src, bits=bits), [0, bits, conv(t, kidx)], 'random'))
  # (E) context x construct sweep (parse level): construct isolated in every nesting context;
  #     permissions: everything but the construct's flag, and exactly what the context itself needs
  fidx = {f: i for i, f in enumerate(flag_order)}
  nsweep = 0
  for src, cf, tf in context_sweep(rng, ctx.scale(150, 3000)):
    try:
      t = ast.parse(src)
    except SyntaxError:
      ctx.hist('generator', 'context-sweep-syntax-error'); continue
    if cf not in fidx: continue
    tbits = sum(1 << fidx[f] for f in set(tf) if f in fidx)
    for bits in sorted({ALL & ~(1 << fidx[cf]), tbits & ~(1 << fidx[cf]), tbits | (1 << fidx[cf]), ALL}):
      cases.append((dict(code=src, bits=bits), [0, bits, conv(t, kidx)], 'context-sweep'))
    nsweep += 1
  ctx.extra['context_sweep_programs'] = nsweep
  # (C) nested scopes
  scope_cases = []
  for _ in range(ctx.scale(60, 600)):
    ps = [rng.randrange(ALL + 1) for _ in range(rng.randint(0, 4))]
    scope_cases.append(ps)
  # (D) evaluate(code, permission=arg) inside nested scopes
  eval_cases = []
  pool = [s for s in snippets if executable(s)] + [src for src, _ in progs[:ctx.scale(60, 600)]]
  for _ in range(ctx.scale(300, 5000)):
    src = rng.choice(pool)
    arg = rng.choice([None, 0, ALL, rng.randrange(ALL + 1), rng.randrange(ALL + 1)])
    scs = [rng.choice([0, ALL, rng.randrange(ALL + 1)]) for _ in range(rng.choice([0, 0, 1, 1, 2, 3]))]
    eval_cases.append((src, arg, scs))
  impl_outs, trs, descrs = [], [], []
  for d, c, kind in cases:
    ok = impl_validate(d['code'], d['bits'], flag_order)
    impl_outs.append([0, 1 if ok else 0]); trs.append(c); descrs.append(d)
    nt = bool(needed_flags(ast.parse(d['code'])))
    ctx.count((d['code'], d['bits']), nontrivial=nt, sample=dict(kind=kind, code=d['code'], permission_bits=d['bits'], accepted=ok) if (kind == 'random' and nt) or len(ctx.samples) < 2 else None, kind=kind)
    ctx.hist('accepted', ok)
  for ps in scope_cases:
    eff = impl_scopes(ps, flag_order)
    impl_outs.append([1, trlib.opt(eff)]); trs.append([1, ps]); descrs.append(dict(scopes=ps))
    ctx.count(('scopes', tuple(ps)), nontrivial=len(ps) >= 2, kind='scopes')
  for src, arg, scs in eval_cases:
    full = 'SENTINEL[0]\n' + src
    acc = impl_evaluate_accepts(src, arg, scs, flag_order)
    impl_outs.append([2, 1 if acc else 0]); trs.append([2, trlib.opt(arg), scs, conv(ast.parse(full), kidx)])
    descrs.append(dict(evaluate=src, arg_bits=arg, scopes=scs))
    ctx.count(('eval', src, arg, tuple(scs)), nontrivial=bool(needed_flags(ast.parse(src))) and (arg is not None or bool(scs)), kind='evaluate')
    ctx.hist('evaluate_shape', 'arg=%s scopes=%d' % ('none' if arg is None else 'given', len(scs)))
  # (G) event traces of evaluate(): exhaustive small scope + random programs, against the model and against plain exec
  tprogs = all_trace_programs() + [gen_trace_program(rng) for _ in range(ctx.scale(400, 6000))]
  for st in tprogs:
    out, log = impl_trace(st)
    impl_outs.append(out); trs.append(trace_case_tr(st)); descrs.append(dict(trace=trace_source(st)))
    pout, plog = impl_trace(st, plain=True)
    last = st[-1]
    ctx.count(('trace', trace_source(st)), nontrivial=any(t[0] == 1 for t in last[2]) or len(st) > 1, kind='evaluate-trace')
    ctx.hist('trace_last_kind', ['Expr', 'Assign-names-only' if all(t[0] == 0 for t in last[2]) else 'Assign-with-complex-target', 'other'][last[0]] if last[0] != 1 else ('Assign-names-only' if all(t[0] == 0 for t in last[2]) else 'Assign-with-complex-target'))
    if log != plog or out[2] != pout[2]:
      ctx.hit('C19/granted-program-differs/effects-trace', 'evaluate() performs %s, plain execution %s, for:\n%s' % (log, plog, trace_source(st)),
              dict(code='T_ = None\n', trace_program=[list(x) for x in st], arg_bits=None, scopes=[], flag_order=flag_order))
  # (J) binding programs: exhaustive small scope + random, against the model (case 4) and against plain execution
  import itertools
  stmts_small = all_binding_statements([2, 3], [2, 3, 4])
  bprogs = []
  for n in range(0, ctx.scale(2, 3) + 1):
    for combo in itertools.product(stmts_small, repeat=n):
      for setup in (binding_setups() if n <= 2 else binding_setups()[2:4]):
        bprogs.append((setup[0], setup[1], number_news(combo)))
  bprogs += [gen_binding_case(rng) for _ in range(ctx.scale(800, 10000))]
  for cx, gv, prog in bprogs:
    impl_outs.append(impl_bindings(cx, gv, prog)); trs.append(binding_case_tr(cx, gv, prog))
    descrs.append(dict(bindings=binding_source(prog), contexts=cx, global_vars=gv))
    ctx.count(('bind', repr((cx, gv, prog))), nontrivial=len(prog) > 1 and bool(cx or gv), kind='binding-program')
    for sig, what in binding_oracle(cx, gv, prog):
      ctx.hit(sig, what, dict(binding_case=dict(ctxs=cx, gv=gv, prog=[list(x) for x in prog]), flag_order=flag_order))
  ctx.extra['binding_programs'] = len(bprogs)
  model_outs = ctx.model_run(trs)
  lookup = {id(t): d for t, d in zip(trs, descrs)}
  bad = ctx.compare('Perm.run vs parsing.parse / permissions.permission', trs, impl_outs, model_outs, describe=lambda c: lookup.get(id(c)))
  ctx.exhaustive = False
  ctx.extra['sweep'] = dict(exhaustive=True, what='every node class with a witness snippet x {all, none, each single flag withheld}', snippets=len(snippets))
  # direct oracle on every case (plus scoped variants)
  ocount = 0
  def run_oracle(code, arg_bits, scopes):
    nonlocal ocount
    ocount += 1
    for sig, what in oracle(code, arg_bits, scopes, flag_order):
      ctx.hit(sig, what, dict(code=code, arg_bits=arg_bits, scopes=scopes, flag_order=flag_order))
  seen = set()
  for d in descrs:
    if 'code' not in d: continue
    key = (d['code'], d['bits'])
    if key in seen: continue
    seen.add(key)
    if not executable(d['code']):
      # constructs that cannot be run stand-alone are still checked for rejection only
      run_oracle_reject_only(ctx, d['code'], d['bits'], flag_order)
      continue
    run_oracle(d['code'], d['bits'], [])
    r = rng.random()
    if r < 0.15:
      run_oracle(d['code'], None, [d['bits']])
    elif r < 0.25:
      run_oracle(d['code'], None, [d['bits'], ALL])
    elif r < 0.35:
      run_oracle(d['code'], ALL, [d['bits']])
  # (F) last-statement sweep (oracle: stdout / variables / error class equal plain execution)
  nlast = 0
  for src in last_statement_programs():
    try:
      compile(src, '', 'exec')
    except SyntaxError:
      continue
    nlast += 1
    for bits, scs in ((ALL, []), (None, [ALL]), (ALL, [ALL])):
      run_oracle(src, bits, scs)
      ctx.count(('last', src, bits, tuple(scs)), nontrivial=True, kind='last-statement',
                sample=dict(kind='last-statement', code=src[len(LAST_PRELUDE):], permission_bits=bits) if nlast == 4 and bits == ALL and not scs else None)
  ctx.extra['last_statement_programs'] = nlast
  # (H) run-time errors in every block shape: cause type, cause text and position must be those of plain execution
  nerr = 0
  for src in ERROR_PROGRAMS:
    try:
      compile(src, '', 'exec')
    except SyntaxError:
      continue
    nerr += 1
    for bits, scs in ((ALL, []), (None, [ALL])):
      run_oracle(src, bits, scs)
      ctx.count(('error', src, bits, tuple(scs)), nontrivial=True, kind='runtime-error')
  ctx.extra['runtime_error_programs'] = nerr
  ctx.extra['oracle_evaluations'] = ocount
  # (I) API surface: every return mode x symbol source x entry point (evaluate / run in process / run sandboxed)
  napi = 0
  for code in API_PROGRAMS:
    for mode in API_MODES:
      for symsrc in API_SYMS:
        for api in API_APIS:
          if api == 'runS' and not (ctx.tier == 'thorough' or (symsrc == 'g' and mode != 'inter')):
            continue
          for pb in ((ALL, None) if api == 'evaluate' else (ALL,)):
            napi += 1
            for sig, what in api_oracle(code, mode, symsrc, api, pb, flag_order):
              ctx.hit(sig, what, dict(api_case=dict(code=code, mode=mode, symsrc=symsrc, api=api, perm_bits=pb), flag_order=flag_order))
    ctx.count(('api', code), nontrivial=True, kind='api-surface')
  nforb = 0
  for code, flag in API_FORBIDDEN:
    if flag not in flag_order: continue
    for api in API_APIS:
      for how in ('arg', 'scope', 'scope+arg', 'scope>scope'):
        nforb += 1
        for sig, what in api_forbidden_oracle(code, flag, api, how, flag_order):
          ctx.hit(sig, what, dict(api_forbidden=dict(code=code, flag=flag, api=api, how=how), flag_order=flag_order))
  ctx.extra['api_surface_evaluations'] = napi
  ctx.extra['api_forbidden_evaluations'] = nforb
  # violation search when something is broken and nothing was hit yet: withhold each flag on each snippet under evaluate
  if ctx.is_broken() and not ctx.hits:
    for s in snippets:
      if executable(s):
        for b in range(nflags):
          run_oracle(s, ALL & ~(1 << b), [])

_EXEC_CACHE = {}
def executable(code):
  """Can the snippet be run stand-alone (terminates, no NameError)?  Decided once by plain exec."""
  if code not in _EXEC_CACHE:
    g = make_globals()
    try:
      with contextlib.redirect_stdout(io.StringIO()):
        exec(compile(code, '', 'exec'), g)
      _EXEC_CACHE[code] = True
    except BaseException:
      _EXEC_CACHE[code] = False
  return _EXEC_CACHE[code]

def run_oracle_reject_only(ctx, code, bits, flag_order):
  parsing, permissions, execution, errors = py()
  needs = needed_flags(ast.parse(code))
  fidx = {f: i for i, f in enumerate(flag_order)}
  missing = [(f, k) for f, k in sorted(needs.items()) if f in fidx and not (bits >> fidx[f] & 1)]
  if not missing or bits == 0:
    return
  g = make_globals()
  try:
    execution.evaluate('SENTINEL[0]\n' + code, global_vars=g, permission=perm_of_bits(bits, flag_order))
    rejected = False
  except errors.CodeError as e:
    rejected = isinstance(e.cause, SyntaxError) and g['SENTINEL'].hits == 0
  except BaseException:
    rejected = False
  if not rejected:
    f, kind = missing[0]
    ctx.hit('C19/forbidden-runs/%s-ungated-by-%s' % (kind, f), '%s is executed although %s is not granted' % (kind, f),
            dict(code=code, arg_bits=bits, scopes=[], flag_order=flag_order))

def replay(ctx, rp):
  c = rp['case']
  if c.get('trace_program'):
    st = [(k, v, [tuple(t) for t in ts], i) for k, v, ts, i in c['trace_program']]
    out, log = impl_trace(st); pout, plog = impl_trace(st, plain=True)
    return log == plog and out[2] == pout[2]
  if c.get('binding_case'):
    b = c['binding_case']
    hits = binding_oracle([[tuple(kv) for kv in e] for e in b['ctxs']], [tuple(kv) for kv in b['gv']], [tuple(x) for x in b['prog']])
    for h in hits:
      print('  still fails:', h)
    return not hits
  if c.get('api_case'):
    a = c['api_case']
    hits = api_oracle(a['code'], a['mode'], a['symsrc'], a['api'], a['perm_bits'], c['flag_order'])
  elif c.get('api_forbidden'):
    a = c['api_forbidden']
    hits = api_forbidden_oracle(a['code'], a['flag'], a['api'], a['how'], c['flag_order'])
  else:
    hits = oracle(c['code'], c['arg_bits'], c['scopes'], c['flag_order'])
  for h in hits:
    print('  still fails:', h)
  return not hits

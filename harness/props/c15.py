"""C15 — search algorithms recover their state from history at every crash point."""
import json, os, sys, traceback
from harness.lib import tr as trlib

META = dict(
    id='C15',
    model_run='PG.Model.Recover.run',
    model_targets=['Model/Recover.vo'],
    technique=('Coq proof over an executable model of the DNAGenerator state machines (Sweeping, seeded Random, Deduping, Evolution with its '
               'recover override) + differential correspondence at every crash point + direct recovery oracle on the real algorithms through JSON'),
    design_ref='DESIGN.md §5 C15',
    level_text=('Theorems (16, closed, no axioms) over the executable model of the DNAGenerator state machines: for EVERY configuration the syntax names '
                '(Sweeping; Random seeded or not; Evolution with any initialiser, any reproduction, update None / Last n / Last(step) / Top n / newest generation (NEAT) / NSGA2 (its own operators modelled: '
                'nondominated sort, crowding distance over exact rationals, elites, cursor) / recorded table; Deduping over any of these with any hash, auto-reward, max_duplicates, max_proposal_attempts; '
                'only Deduping directly over Deduping is excluded, and refuted: C15_nested_deduping_refuted, an open finding), for every schedule of propose / feedback-in-order / abandon events '
                '(hence every crash point k and every number w of missing rewards) a fresh instance that replays the persisted history has the same num_proposals, num_feedbacks, population '
                '(values, fitness, ids) and de-duplication cache as the uninterrupted run, including the wrapped Evolution of a Deduping (C15_recover_observable, C15_crash_points, C15_recover_counts, '
                'C15_shipped_algorithms) and the NSGA2 elites (C15_nsga2_elites); also when the history holds the DNAs as they were proposed, without feedback metadata '
                '(C15_recover_from_proposal_time_history), when the last reward was never fed back (C15_recover_with_undelivered_reward) — both without any hypothesis on the history: every generator proposes '
                'DNAs without a sequence number and feedback only adds metadata — and when recover() is called in two parts (C15_recover_in_parts); '
                'Sweeping, seeded Random and Deduping over them then make exactly the same further proposals, any number of them (C15_continuation), and those of Sweeping are, through the enumeration '
                'C11 proves, what Sweeping._propose yields over a real DNASpec (C15_sweeping_over_spec); the Deduping wrapper preserves recoverability of any generator (C15_dedup_wrapper); Evolution with '
                'ARBITRARY operators over an arbitrary global state recovers counters and population when the update reads only state that reproduction does not change (C15_evolution_any_operators), which is '
                'discharged for NSGA2 (modelled operators) and for NEAT with any speciation (C15_neat_any_speciation). Tie: the model is run against the real classes on every crash point of every generated run '
                '(live state, recovered state incl. population_initialized / num_generations / NSGA2 elites and cursor, three further recovery variants, the next 5 proposals), history persisted through '
                'pg.to_json_str/from_json_str; the direct oracle compares the real recovered instance with the real uninterrupted one at every crash point.'),
    level_note=('Trusted: Coq kernel; extraction (ExtrOcamlBasic) cross-checked against vm_compute; the harness tables (seeded PRNG draws, children returned by the real reproduction operator) '
                'recorded from the real run. Modelled as identity: the JSON round trip of (DNA, metadata, reward) — exercised for real by the oracle. NSGA2 crowding distances are exact rationals in the model and '
                'floats in the code: the generated NSGA2 rewards have three levels per objective so that every float operation is exact. Not modelled: NEAT speciation (the theorem holds for any), mutators and '
                'selectors inside reproduction (recorded; the theorems hold for any), multi-objective reward normalisation. Not claimed (and refuted for the model, C15_extra_state_refuted): '
                'num_generations / population_initialized during the initial phase, pending children of a multi-child generation, feedback out of proposal order. Open finding: Deduping directly over Deduping.'),
    rule=('a case is (algorithm configuration, search space, reward table, event schedule of propose/feedback/abandon); every prefix of the schedule is a crash point; '
          'distinct by (configuration, space, rewards, schedule); non-trivial when the schedule has a crash point with at least one fed-back and one in-flight proposal'),
    trusted_base=['extraction: ExtrOcamlBasic only; ocaml/main.ml lexer/printer; cross-checked against vm_compute on a sample',
                  'the harness records the seeded PRNG draw sequence and the children returned by the (randomised) reproduction operator of the real run and hands them to the model as tables'],
    assumptions=['the seeded PRNG (draw : nat -> Z) and the reproduction operator are function parameters of the model; the theorems hold for all of them',
                 'feedback arrives in proposal order (proposals may stay in flight or be abandoned for ever)',
                 'every propose() of the uninterrupted run returned a DNA (a run ends at its first StopIteration)'],
)

# ------------------------------------------------------------------------------------------------
# search spaces (small, finite, ordered by DNASpec.next_dna)

def pg():
  import pyglove as pg_
  return pg_

def evo():
  from pyglove.ext import evolution
  return evolution

def build_space(name):
  p = pg()
  if name == 's6':
    return p.dna_spec(p.Dict(a=p.oneof([1, 2, 3]), b=p.oneof(['x', 'y'])))
  if name == 's4':
    return p.dna_spec(p.oneof([10, 20, 30, 40]))
  if name == 's3h':
    return p.dna_spec(p.oneof([p.oneof([1, 2]), 3]))
  if name == 's3m':
    return p.dna_spec(p.manyof(2, ['a', 'b', 'c'], distinct=True, sorted=True))
  if name == 's8':
    return p.dna_spec(p.Dict(a=p.oneof([0, 1]), b=p.oneof([0, 1]), c=p.oneof([0, 1])))
  if name == 's12':
    return p.dna_spec(p.Dict(a=p.oneof([1, 2, 3]), b=p.oneof([1, 2, 3, 4])))
  if name == 's2':
    return p.dna_spec(p.oneof([0, 1]))
  if name == 'sf':
    return p.dna_spec(p.Dict(x=p.floatv(0.0, 1.0), a=p.oneof([1, 2, 3])))
  if name == 'sff':
    return p.dna_spec(p.floatv(-1.0, 1.0))
  if name == 's24':
    return p.dna_spec(p.Dict(a=p.oneof([1, 2, 3, 4]), b=p.oneof(['x', 'y', 'z']), c=p.oneof([0, 1])))
  raise KeyError(name)

SPACE_NAMES = ['s6', 's4', 's3h', 's3m', 's8', 's12', 's2', 's24']

_DRAWS = {}
INFINITE = ('sf', 'sff')

def bare_clone(d):
  return pg().DNA(d.value, [bare_clone(c) for c in d.children])

class Space:
  """A search space with its DNAs numbered: by DNASpec.next_dna order when finite; in order of first appearance
  within a run when it has float decision points (the registry is reset at the start of every run)."""
  _cache = {}
  def __init__(self, name):
    self.name = name
    self.spec = build_space(name)
    self.finite = name not in INFINITE
    self.keymap = {}
    self.reset(force=True)
  def reset(self, force=False):
    if self.finite and not force:
      return
    self.dnas, self.index, self.hash_index = [], {}, {}
    if self.finite:
      d = None
      while True:
        d = self.spec.next_dna(d)
        if d is None:
          break
        self._register(d)
      self.m = len(self.dnas)
      assert len(self.hash_index) == self.m
    else:
      self.m = 10 ** 6
      for k in [k for k in _DRAWS if k[0] == self.name]:
        del _DRAWS[k]
  def _register(self, d):
    i = len(self.dnas)
    b = bare_clone(d) if not self.finite else d
    self.dnas.append(b)
    self.index[self.key(d)] = i
    self.hash_index[pg().hash(b)] = i
    return i
  @staticmethod
  def key(d):
    return json.dumps(d.to_numbers())
  def idx(self, d):
    k = self.key(d)
    if k not in self.index:
      if self.finite:
        raise KeyError(k)
      return self._register(d)
    return self.index[k]
  @classmethod
  def get(cls, name):
    if name not in cls._cache:
      cls._cache[name] = Space(name)
    return cls._cache[name]

def draws(space, seed, n):
  """The first n DNAs (as indices) drawn by pg.geno.Random(seed) on the space — the recorded PRNG table given to the model."""
  k = (space.name, seed)
  have = _DRAWS.get(k, [])
  if len(have) < n:
    g = pg().geno.Random(seed=seed)
    g.setup(space.spec)
    have = [space.idx(g.propose()) for _ in range(max(n, 64))]
    _DRAWS[k] = have
  return have[:n]

# ------------------------------------------------------------------------------------------------
# algorithm configurations (JSON-able nested lists)
#   ['sweep'] | ['rand', seed|None] | ['dedup', inner, hashmod, auto, maxdup, maxatt]
#   ['regevo', pop, tour, seed] | ['hill', batch, init, seed] | ['nsga2', pop, seed] | ['neat', pop, seed]
#   ['gevo', init_cfg, init_size|None, upd, nchild]   upd: ['none'] | ['last', n] | ['top', n] | ['laststep', a, b]

AUTO = {0: None, 1: 'sum', 2: 'max'}

def is_evo(cfg):
  return cfg[0] in ('regevo', 'hill', 'nsga2', 'neat', 'gevo')

def needs_feedback(cfg):
  if cfg[0] == 'dedup':
    return needs_feedback(cfg[1])
  return is_evo(cfg)

def multi_objective(cfg):
  if cfg[0] == 'dedup':
    return multi_objective(cfg[1])
  return cfg[0] == 'nsga2'

def shape(cfg):
  n = dict(sweep='Sweeping', rand='Random', regevo='RegularizedEvolution', hill='HillClimb', nsga2='NSGA2', neat='NEAT', gevo='Evolution')
  if cfg[0] == 'dedup':
    return 'Deduping(%s)' % shape(cfg[1]) + ('+auto_reward' if cfg[3] else '')
  return n[cfg[0]]

def gevo_children(space, nchild):
  p = pg()
  def reproduce(pop, global_state, step):
    base = sum(space.idx(d) for d in pop) + step
    return [space.dnas[(base + 3 * i) % space.m].clone(deep=True) for i in range(nchild)] if pop else []
  return reproduce

def make(cfg, space):
  p = pg(); e = evo()
  k = cfg[0]
  if k == 'sweep':
    return p.geno.Sweeping()
  if k == 'rand':
    return p.geno.Random(seed=cfg[1])
  if k == 'dedup':
    _, inner, hashmod, auto, maxdup, maxatt = cfg
    hash_fn = None
    if hashmod:
      hash_fn = lambda dna, s=space, m=hashmod: s.idx(dna) % m
    auto_fn = None
    if auto == 1:
      auto_fn = lambda rs: float(sum(rs))
    elif auto == 2:
      auto_fn = lambda rs: float(max(rs))
    return p.geno.Deduping(make(inner, space), hash_fn=hash_fn, auto_reward_fn=auto_fn, max_duplicates=maxdup, max_proposal_attempts=maxatt)
  if k == 'regevo':
    return e.regularized_evolution(population_size=cfg[1], tournament_size=cfg[2], seed=cfg[3])
  if k == 'hill':
    return e.hill_climb(batch_size=cfg[1], init_population_size=cfg[2], seed=cfg[3])
  if k == 'nsga2':
    return e.nsga2(population_size=cfg[1], seed=cfg[2])
  if k == 'neat':
    return e.neat(population_size=cfg[1], seed=cfg[2])
  if k == 'gevo':
    _, init, size, upd, nchild = cfg
    ig = make(init, space)
    from pyglove.ext.evolution import selectors
    u = None
    if upd[0] == 'last':
      u = selectors.Last(upd[1])
    elif upd[0] == 'top':
      u = selectors.Top(upd[1])
    elif upd[0] == 'laststep':
      u = selectors.Last(lambda step, a=upd[1], b=upd[2]: a + step % b)
    return e.Evolution(gevo_children(space, nchild), population_init=(ig, size) if size is not None else ig, population_update=u)
  raise KeyError(k)

def unseeded_randoms(alg):
  p = pg(); e = evo()
  if isinstance(alg, p.geno.Deduping):
    return unseeded_randoms(alg.generator)
  if isinstance(alg, e.Evolution):
    return unseeded_randoms(alg._init_population_generator)
  if isinstance(alg, p.geno.Random) and alg.seed is None:
    return [alg]
  return []

def find_evo(alg):
  """The Evolution instance inside a (possibly wrapped) algorithm, or None."""
  e = evo()
  while True:
    if isinstance(alg, e.Evolution):
      return alg
    if isinstance(alg, pg().geno.Deduping):
      alg = alg.generator
    else:
      return None

# ------------------------------------------------------------------------------------------------
# rewards: reward table per DNA index (small integers, used as floats); multi-objective algorithms get the
# pair (r, m-1-idx+r%2) so that fronts are non-trivial; the model sees an injective packing r0*64 + r1.

def reward_value(case, space, cfg, d):
  if 'reward' in d.metadata and d.metadata.get('feedback_sequence_number') is None:
    return d.metadata['reward']          # computed by Deduping(auto_reward_fn), what pg.sample feeds back
  i = space.idx(d)
  r = reward_base(case, space, d)
  wrapped = case.get('reward_form') == 'wrapped'     # the other form feedback() accepts: a float for a multi-objective
  if multi_objective(cfg):                            # algorithm, a 1-tuple for a single-objective one
    return float(r % 3) if wrapped else (float(r % 3), float((i + r // 3) % 3))
  return (float(r),) if wrapped else float(r)

def reward_base(case, space, d):
  """The reward as a function of the DNA: a table over the enumeration, or (float spaces) over a digest of the values."""
  if space.finite:
    return case['rewards'][space.idx(d)]
  return case['rewards'][int(sum(abs(x) * 9973 for x in d.to_numbers())) % len(case['rewards'])]

def pack_reward(r):
  if r is None:
    return None
  if isinstance(r, (tuple, list)):
    a, b = r if len(r) == 2 else (r[0], 63)
    assert a == int(a) and b == int(b) and 0 <= b < 64
    return int(a) * 64 + int(b)
  assert r == int(r), r
  return int(r)

# ------------------------------------------------------------------------------------------------
# canonical encodings

HASH_OFFSET = 10 ** 7      # default-hash keys live far from the small keys of a custom hash_fn

def canon_key(space, key, d=None):
  """Default-hash keys (pg.hash of the DNA, which covers its metadata) are canonicalised: a bare DNA -> its index;
  a DNA carrying Evolution metadata -> m + proposal_id (the hash is then unique per proposal)."""
  if key is None or (isinstance(key, int) and 0 <= key < 64):
    return key
  if key in space.hash_index:
    return HASH_OFFSET + space.hash_index[key]
  if d is not None and 'proposal_id' in d.metadata:
    space.keymap[key] = HASH_OFFSET + space.m + d.metadata['proposal_id']
  elif d is not None and not space.finite:
    space.keymap[key] = HASH_OFFSET + space.idx(d)
  return space.keymap[key]

def enc_dna(space, d):
  md = d.metadata
  key = canon_key(space, md.get('dedup_key'), d)
  return [space.idx(d), trlib.opt(md.get('proposal_id')), trlib.opt(md.get('generation_id')), trlib.opt(md.get('initial_population')),
          trlib.opt(md.get('feedback_sequence_number')), trlib.opt(pack_reward(md.get('reward'))), trlib.opt(key), md.get('dedup_skipped', 0)]

def observe(space, cfg, alg):
  """(np nf pop cache extra inner) — pop/cache empty where not applicable; extra = model-faithfulness-only state."""
  p = pg(); e = evo()
  pop, cache, extra, inner = [], [], [], []
  if isinstance(alg, e.Evolution):
    pop = [enc_dna(space, d) for d in alg.population]
    extra = [1 if alg._population_initialized else 0, alg.num_generations]
    if cfg[0] == 'nsga2':     # the global state NSGA2 keeps: cursor of next_elite and the elites (by proposal id)
      gs = alg.global_state
      extra += [gs.get('elite_cursor', 0)] + [d.metadata.get('proposal_id', -1) for d in gs.get('elites', [])]
  if isinstance(alg, p.geno.Deduping):
    items = []
    for k, v in alg._cache.items():
      k = canon_key(space, k)
      items.append([k, [trlib.opt(pack_reward(r)) for r in v]])
    cache = sorted(items)
    if needs_feedback(cfg[1]):
      inner = [observe(space, cfg[1], alg.generator)]
  return [alg.num_proposals, alg.num_feedbacks, pop, cache, extra, inner]

def property_view(o):
  """The part of an observation the property speaks about (drops `extra`)."""
  return [o[0], o[1], o[2], o[3], [property_view(i) for i in o[5]]]

ERR = {'StopIteration': 0, 'ValueError': 1, 'TypeError': 2, 'AssertionError': 3, 'KeyError': 4, 'IndexError': 5, 'ZeroDivisionError': 6}
def err_code(e):
  return ERR.get(type(e).__name__, 9)

# ------------------------------------------------------------------------------------------------
# the uninterrupted run, its snapshots, and recovery from every snapshot

CONT = 5

class Live:
  def __init__(self, case):
    self.case = case
    self.space = Space.get(case['space'])
    self.cfg = case['alg']

  def fresh(self, record=None):
    alg = make(self.cfg, self.space)
    alg.setup(self.space.spec)
    if record is not None:
      for rnd in unseeded_randoms(alg):
        rnd._c15_log = []
        def logged(_r=rnd, _o=rnd._propose):
          d = _o()
          _r._c15_log.append(self.space.idx(d))
          return d
        rnd._propose = logged
    ev = find_evo(alg)
    if ev is not None and record is not None:
      orig = ev._reproduction
      def rec(pop, global_state=None, step=0, _o=orig):
        out = _o(pop, global_state=global_state, step=step)
        record.append([self.space.idx(d) for d in out])
        return out
      ev._reproduction = rec
    return alg

  def run(self):
    """Returns dict(snaps=[(history_json, obs)], proposals=[idx...], repro=[[idx]], terminal=None|(event, code), updates=[[pid...]])."""
    p = pg()
    case, space, cfg = self.case, self.space, self.cfg
    import random as _random
    _random.seed(json.dumps(case, sort_keys=True))     # unseeded generators / selectors draw from the global PRNG
    space.keymap = {}
    space.reset()
    repro = []
    alg = self.fresh(repro)
    ev = find_evo(alg)
    updates = []
    if ev is not None and cfg_evo(cfg)[0] == 'nsga2':
      orig_u = ev._population_update
      def upd(pop, global_state=None, step=0, _o=orig_u):
        out = _o(pop, global_state=global_state, step=step)
        updates.append([d.metadata['proposal_id'] for d in out])
        return out
      ev._population_update = upd
    hist = []          # [dna, reward|None, abandoned]
    hist0 = []         # the DNA as it was when proposed
    nskipped = nauto = 0
    ptr = 0
    snaps = []
    proposals = []
    initial_flags = []
    terminal = None
    feedback_error = None
    sched = list(case['sched']) + ['p'] * CONT
    n_real = len(case['sched'])
    for i, e in enumerate(sched):
      if i <= n_real:
        hu = None
        if e == 'f' and i < n_real:
          q = ptr
          while q < len(hist) and hist[q][2]:
            q += 1
          if q < len(hist):   # the reward is in the history but feedback() was never called
            hu = p.to_json_str([(d, (reward_value(case, space, cfg, d) if j == q else r)) for j, (d, r, _) in enumerate(hist)])
        hp = None
        if any(r is not None for _, r, _ in hist):   # the DNA as stored when it was proposed, the reward as it arrived
          hp = p.to_json_str([(d0, r) for (_, r, _), d0 in zip(hist, hist0)])
        snaps.append((p.to_json_str([(d, r) for d, r, _ in hist]), observe(space, cfg, alg), hu, hp))
      if e == 'p':
        try:
          d = alg.propose()
        except Exception as ex:   # StopIteration or an error: the run ends here
          terminal = (i, err_code(ex))
          break
        hist.append([d, None, False])
        hist0.append(p.from_json_str(p.to_json_str(d)))
        nskipped += 1 if d.metadata.get('dedup_skipped') else 0
        nauto += 1 if ('reward' in d.metadata and d.metadata.get('feedback_sequence_number') is None) else 0
        canon_key(space, d.metadata.get('dedup_key'), d)
        proposals.append(space.idx(d))
        initial_flags.append(d.metadata.get('initial_population') is True)
      else:
        while ptr < len(hist) and hist[ptr][2]:
          ptr += 1
        if ptr < len(hist):
          if e == 'x':
            hist[ptr][2] = True
          else:
            d = hist[ptr][0]
            r = reward_value(case, space, cfg, d)
            try:
              alg.feedback(d, r)
            except Exception as ex:    # the uninterrupted run itself cannot go on: an outcome, not a harness crash
              terminal = (i, err_code(ex))
              feedback_error = '%s: %s' % (type(ex).__name__, str(ex)[:160])
              break
            hist[ptr][1] = r
          ptr += 1
    return dict(snaps=snaps, proposals=proposals, repro=repro, terminal=terminal, updates=updates, live=alg, initial_flags=initial_flags, hist=hist, skipped=nskipped, auto_rewarded=nauto, feedback_error=feedback_error)

  def recover(self, history_json, sched_rest, want_cont):
    """Fresh instance, same space, replay persisted history. Returns (obs | error tree, continuation)."""
    p = pg()
    alg = self.fresh()
    try:
      h = p.from_json_str(history_json)
      alg.recover([(d, (tuple(r) if isinstance(r, list) else r)) for d, r in h])
    except Exception as ex:
      return [-2, err_code(ex)], [], '%s: %s' % (type(ex).__name__, str(ex)[:200])
    o = observe(self.space, self.cfg, alg)
    cont = []
    if want_cont == 'init':
      # the initial-population phase of a recovered Evolution: its proposals come from the (seeded) initialiser;
      # stop (-9) at the first proposal that is not an initial individual or that fails
      for _ in range(CONT):
        try:
          d = alg.propose()
        except Exception:
          cont.append(-9); break
        if d.metadata.get('initial_population') is True:
          cont.append(self.space.idx(d))
        else:
          cont.append(-9); break
    elif want_cont:
      for _ in range(CONT):
        try:
          cont.append(self.space.idx(alg.propose()))
        except Exception as ex:
          cont.append(-1 - err_code(ex))
          break
    return o, cont, None

PROBE = 3

def _probe_live(self, c):
  """The uninterrupted instance at crash point c (the run is replayed up to there: it is deterministic inside the
  bootstrap window), asked for its next PROBE proposals: indices of initial individuals, -9 at the first
  proposal that is not one or that raises."""
  import random as _random
  case, space, cfg = self.case, self.space, self.cfg
  _random.seed(json.dumps(case, sort_keys=True))
  alg = self.fresh()
  hist = []; ptr = 0
  for e in case['sched'][:c]:
    if e == 'p':
      hist.append([alg.propose(), False])
    else:
      while ptr < len(hist) and hist[ptr][1]:
        ptr += 1
      if ptr < len(hist):
        if e == 'x':
          hist[ptr][1] = True
        else:
          alg.feedback(hist[ptr][0], reward_value(case, space, cfg, hist[ptr][0]))
        ptr += 1
  out = []
  for _ in range(PROBE):
    try:
      d = alg.propose()
    except Exception:
      out.append(-9); break
    if d.metadata.get('initial_population') is True:
      out.append(space.idx(d))
    else:
      out.append(-9); break
  return out

def obs_initialized(o):
  if o[4]:
    return o[4][0] == 1
  if len(o[5]) == 1:
    return obs_initialized(o[5][0])
  return False

def init_stream(cfg, space, n):
  """The first n proposals of a seeded Random / Sweeping initialiser (None for other initialisers)."""
  ic = init_cfg(cfg)
  if ic[0] == 'sweep':
    return list(range(min(n, space.m)))
  if ic[0] == 'rand' and ic[1] is not None:
    return draws(space, ic[1], n)
  return None

def _recover_in_parts(self, history_json, cut):
  p = pg()
  alg = self.fresh()
  try:
    h = [(d, (tuple(r) if isinstance(r, list) else r)) for d, r in p.from_json_str(history_json)]
    alg.recover(h[:cut])
    alg.recover(h[cut:])
  except Exception as ex:
    return [-2, err_code(ex)], '%s: %s' % (type(ex).__name__, str(ex)[:200])
  return observe(self.space, self.cfg, alg), None
Live.recover_in_parts = _recover_in_parts
Live.probe_live = _probe_live

def cfg_evo(cfg):
  while cfg[0] == 'dedup':
    cfg = cfg[1]
  return cfg

# ------------------------------------------------------------------------------------------------
# the direct oracle: the property text on the real objects

NESTED_SIG = 'C15/nested-deduping/shared-metadata-slots'
NESTED_WITNESS = dict(space='s6', alg=['dedup', ['dedup', ['gevo', ['sweep'], 2, ['none'], 1], 2, 0, 1, 100], 2, 0, 1, 100],
                      rewards=[1, 1, 1, 1, 1, 1], sched=['p', 'p', 'f', 'p'])
NESTED_KINDS = ['dedup-dedup-rand', 'dedup-dedup-hill', 'dedup-dedup-gevo']

def is_nested(cfg):
  return cfg[0] == 'dedup' and cfg[1][0] == 'dedup'

def deterministic(cfg):
  """Algorithms whose proposals are a function of history and seed: Sweeping, seeded Random, Deduping over them."""
  if cfg[0] == 'sweep':
    return True
  if cfg[0] == 'rand':
    return cfg[1] is not None
  if cfg[0] == 'dedup':
    return deterministic(cfg[1])
  return False

def diff_clause(cfg, live, rec):
  """Names the first observable (of the property) on which live and recovered states differ."""
  if live[0] != rec[0] or live[1] != rec[1]:
    return 'counts', 'num_proposals/num_feedbacks %s/%s after recovery, %s/%s in the uninterrupted run' % (rec[0], rec[1], live[0], live[1])
  if live[2] != rec[2]:
    return 'population', 'population (values, fitness, ids) differs: %d individuals recovered, %d live' % (len(rec[2]), len(live[2]))
  if live[3] != rec[3]:
    lp = sum(1 for k, v in rec[3] for r in v if r == []) - sum(1 for k, v in live[3] for r in v if r == [])
    if needs_feedback(cfg) and lp > 0:
      return 'dedup-cache/in-flight-counted', 'de-duplication memory counts %d in-flight proposal(s) that the live run does not count' % lp
    return 'dedup-cache', 'de-duplication memory differs (hash -> rewards)'
  for a, b in zip(live[4], rec[4]):
    c = diff_clause(cfg[1], a, b)
    if c:
      return 'inner-' + c[0], 'inner algorithm: ' + c[1]
  return None

_JS_CACHE = {}
def js_reward(hjson, j):
  """The reward of entry j of a persisted history (None while in flight)."""
  if _JS_CACHE.get('key') != id(hjson):
    _JS_CACHE['key'] = id(hjson)
    _JS_CACHE['val'] = [r for _, r in pg().from_json_str(hjson)]
  return _JS_CACHE['val'][j]

def init_cfg(cfg):
  """The population initialiser of the Evolution inside cfg, as a configuration."""
  e = cfg_evo(cfg)
  if e[0] == 'gevo':
    return e[1]
  return ['rand', e[-1]]

def deterministic_init(cfg):
  return is_evo(cfg_evo(cfg)) and deterministic(init_cfg(cfg))

def evaluate_case(case, lv=None):
  """Runs the real algorithm uninterrupted, recovers a fresh instance at every crash point.
  Returns (impl_out_tree, hits, info) where hits = [(signature, what, crash_point)]."""
  lv = lv or Live(case)
  cfg, space = lv.cfg, lv.space
  res = lv.run()
  lv.last = res
  det = deterministic(cfg)
  hits = []
  outs = []
  P = res['proposals']
  sched = case['sched']
  nsn = len(res['snaps'])
  if res['feedback_error']:
    hits.append(('C15/run-raises/feedback/%s/%s' % (shape(cfg), res['feedback_error'].split(':')[0]),
                 '%s: feedback() of the uninterrupted run raises %s (event %d of schedule %s)' % (shape(cfg), res['feedback_error'], res['terminal'][0], ''.join(sched)), res['terminal'][0]))
  for c, (hjson, lobs, hu, hp) in enumerate(res['snaps']):
    k = lobs[0]
    robs, rcont, err = lv.recover(hjson, None, True if det else ('init' if deterministic_init(cfg) else False))
    und = []
    if hu is not None:
      uobs, _, uerr = lv.recover(hu, None, False)
      und = [uobs, 1]    # 1: the model confirms that this history satisfies the hypothesis of C15_recover_from_stored_proposals
      sh = shape(cfg)
      if uerr is not None:
        hits.append(('C15/undelivered-reward/recover-raises/%s/%s' % (sh, uerr.split(':')[0]), 'recover() raises %s when the last reward is in the history but was never fed back (crash point %d)' % (uerr, c), c))
      elif c + 1 < len(res['snaps']):
        d = diff_clause(cfg, property_view(res['snaps'][c + 1][1]), property_view(uobs))
        if d:
          hits.append(('C15/undelivered-reward/%s/%s' % (d[0], sh), '%s, reward in the history but feedback() not yet called: %s (crash point %d of schedule %s)' % (sh, d[1], c, ''.join(sched)), c))
    lcont = []
    if det:
      lcont = list(P[k:k + CONT])
      if len(lcont) < CONT and res['terminal'] is not None:
        lcont.append(-1 - res['terminal'][1])
    flags = res['initial_flags']
    in_flight = [j for j in range(k) if flags[j] and js_reward(hjson, j) is None]
    window = (not det) and deterministic_init(cfg) and not obs_initialized(lobs) and bool(in_flight)
    if window:
      # inside the bootstrap window with rewards missing: the uninterrupted instance is asked for its next proposals too
      lcont = lv.probe_live(c)
    ptm = []
    if hp is not None:
      pobs, _, perr = lv.recover(hp, None, False)
      ptm = [pobs, 1]
      sh = shape(cfg)
      if perr is not None:
        hits.append(('C15/proposal-time-metadata/recover-raises/%s/%s' % (sh, perr.split(':')[0]), 'recover() raises %s when the history holds the DNAs as they were proposed (no feedback metadata) (crash point %d)' % (perr, c), c))
      else:
        d = diff_clause(cfg, property_view(lobs), property_view(pobs))
        if d:
          hits.append(('C15/proposal-time-metadata/%s/%s' % (d[0], sh), '%s, history with the DNAs as they were proposed: %s (crash point %d of schedule %s)' % (sh, d[1], c, ''.join(sched)), c))
    parts = []
    if k >= 2 and c % 3 == 0:
      qobs, qerr = lv.recover_in_parts(hjson, k // 2)
      parts = [qobs]
      sh = shape(cfg)
      if qerr is not None:
        hits.append(('C15/recover-in-parts/recover-raises/%s/%s' % (sh, qerr.split(':')[0]), 'recover() called twice on the two halves of the history raises %s (crash point %d)' % (qerr, c), c))
      else:
        d = diff_clause(cfg, property_view(lobs), property_view(qobs))
        if d:
          hits.append(('C15/recover-in-parts/%s/%s' % (d[0], sh), '%s, recover() called twice on the two halves of the history: %s (crash point %d of schedule %s)' % (sh, d[1], c, ''.join(sched)), c))
    outs.append([lobs, robs, lcont, rcont, und, ptm, parts])
    sh = shape(cfg)
    if err is not None:
      hits.append(('C15/recover-raises/%s/%s' % (sh, err.split(':')[0]), 'recover() raises %s at crash point %d' % (err, c), c))
      continue
    d = diff_clause(cfg, property_view(lobs), property_view(robs))
    if d:
      hits.append(('C15/%s/%s' % (d[0], sh), '%s: %s (crash point %d of schedule %s)' % (sh, d[1], c, ''.join(sched)), c))
    elif cfg[0] == 'nsga2' and lobs[4][3:] != robs[4][3:]:
      hits.append(('C15/nsga2-elites/NSGA2', 'NSGA2: the elites (proposal ids %s) are %s after recovery (crash point %d of schedule %s)' % (lobs[4][3:], robs[4][3:], c, ''.join(sched)), c))
    elif det and lcont != rcont:
      hits.append(('C15/continuation/%s' % sh, '%s continues with %s after recovery, the uninterrupted run with %s (crash point %d)' % (sh, rcont, lcont, c), c))
    elif not det and is_evo(cfg) and deterministic_init(cfg):
      got = [x for x in rcont if x != -9]
      if window:
        # kind (bootstrap vs evolved) and not raising: what the uninterrupted instance proposes next are initial
        # individuals; the recovered one must propose as many of them
        lgot = [x for x in lcont if x != -9]
        if len(got[:PROBE]) < len(lgot):
          what = 'raises or proposes an evolved individual' if not got else 'stops proposing initial individuals after %d' % len(got)
          hits.append(('C15/bootstrap-continuation/kind/%s' % sh,
                       '%s: with %d initial individual(s) in flight the uninterrupted run goes on with %d more initial individuals, the recovered instance %s (crash point %d of schedule %s)'
                       % (sh, len(in_flight), len(lgot), what, c, ''.join(sched)), c))
          continue
      # the DNAs: the initialiser's proposals are a function of its seed: the recovered instance must go on inside the
      # stream somewhere between the last rewarded and the last proposed initial individual (it may propose in-flight
      # ones again, but neither evaluated ones nor skip any); with nothing in flight: exactly where the run was
      n_prop = sum(1 for j in range(k) if flags[j])
      n_rew = n_prop - len(in_flight)
      stream = init_stream(cfg, space, n_prop + CONT + 2)
      live_goes_on = (window and any(x != -9 for x in lcont)) or (not in_flight and k < len(P) and flags[k] and not obs_initialized(lobs))
      if stream is not None and got and live_goes_on:
        ok = any(stream[p_:p_ + len(got)] == got[:max(0, len(stream) - p_)] for p_ in range(n_rew, n_prop + 1))
        if not ok:
          hits.append(('C15/initial-population-continuation/%s' % sh,
                       '%s goes on with the initial individuals %s after recovery; the initialiser stream is %s, %d of its individuals were proposed and %d fed back (crash point %d of schedule %s)'
                       % (sh, got, stream, n_prop, n_rew, c, ''.join(sched)), c))
  live = res['live']
  allobs = [o[0] for o in outs]
  def walk(o):
    yield o
    for i in o[5]:
      yield from walk(i)
  skipped = sum(1 for o in outs[-1:] for x in walk(o[0]) for d in x[2] if d[7])
  if is_nested(cfg) and hits:
    # one known shape, one signature: the two wrappers share the 'dedup_key' / 'dedup_skipped' metadata slots
    hits = [(NESTED_SIG, 'Deduping directly over Deduping shares the dedup_key / dedup_skipped metadata slots of the DNA: ' + what, c) for _, what, c in hits]
  info = dict(proposals=len(P), terminal=res['terminal'], repro=res['repro'], updates=res['updates'], crash_points=nsn,
              evolve_calls=len(res['repro']), max_population=max([len(x[2]) for o in allobs for x in walk(o)] or [0]),
              cache_keys=max([len(x[3]) for o in allobs for x in walk(o)] or [0]),
              skipped=res['skipped'], auto_rewarded=res['auto_rewarded'], undelivered=sum(1 for o in outs if o[4]),
              max_inflight=max([o[0][0] - o[0][1] for o in outs] or [0]))
  return outs, hits, info

# ------------------------------------------------------------------------------------------------
# case generation

def gen_sched(rng, n, maxlag, abandon):
  """Random FIFO schedule with at most `maxlag` proposals in flight; 'x' abandons the oldest in-flight proposal."""
  out = []; pending = 0; props = 0
  while props < n:
    if pending and (pending >= maxlag + 1 or rng.random() < 0.45):
      out.append('x' if abandon and rng.random() < 0.12 else 'f'); pending -= 1
    else:
      out.append('p'); pending += 1; props += 1
  while pending and rng.random() < 0.7:
    out.append('f'); pending -= 1
  return out

def lag_sched(n, w):
  """The (k, w) schedule of the property: proposal i+w follows feedback i; the last w rewards are always missing."""
  out = []
  for i in range(n):
    out.append('p')
    if i >= w:
      out.append('f')
  return out

BIG_SEED = 2 ** 31 + 11
SEEDS = [0, 1, BIG_SEED, None]       # 0 is falsy but a valid seed; None = unseeded (global PRNG)

def gen_cfg(rng, kind, seed='random'):
  """Parameters include the smallest valid (often falsy) values: seed 0, sizes 0 / 1, max_proposal_attempts 1."""
  if seed == 'random':
    seed = rng.choice([0, 0, 1, 2, 7, BIG_SEED])
    eseed = seed if rng.random() < 0.85 else None          # the seed of an Evolution-based algorithm may be None too
  else:
    eseed = seed
  if kind == 'sweep': return ['sweep']
  if kind == 'rand': return ['rand', seed if (seed is None or rng.random() < 0.7) else None]
  if kind == 'regevo':
    t = rng.choice([2, 3]); return ['regevo', rng.choice([t, t + 1, 5]), t, eseed]
  if kind == 'hill': return ['hill', rng.choice([1, 2, 3]), rng.choice([0, 1, 2, 3]), eseed]
  if kind == 'nsga2': return ['nsga2', rng.choice([1, 2, 3, 3, 4, 5]), eseed]
  if kind == 'neat': return ['neat', rng.choice([2, 3, 4]), eseed]
  if kind == 'gevo':
    iseed = seed if seed is not None else 0
    init = rng.choice([['sweep'], ['rand', seed], ['rand', None], ['dedup', ['rand', iseed], 0, 0, 1, rng.choice([3, 100])]])
    size = rng.choice([None, 0, 1, 2, 3, 4]) if init[0] != 'rand' else rng.choice([1, 2, 3, 4])
    upd = rng.choice([['none'], ['last', rng.choice([1, 2, 3])], ['top', rng.choice([1, 2])], ['laststep', rng.choice([1, 2]), rng.choice([2, 3])]])
    return ['gevo', init, size, upd, rng.choice([1, 1, 2, 3])]
  if kind.startswith('dedup-dedup-'):
    # a Deduping directly over a Deduping (the outer one with a custom hash: the default hash would cover the inner key)
    return ['dedup', gen_cfg(rng, kind[6:], seed), rng.choice([2, 3]), 0, rng.choice([1, 2]), rng.choice([3, 100])]
  if kind.startswith('dedup-'):
    inner = gen_cfg(rng, kind[6:], seed)
    auto = rng.choice([0, 1, 2]) if needs_feedback(inner) else rng.choice([0, 0, 1])
    if inner[0] == 'nsga2':
      auto = 0                     # sum / max of fitness tuples is not a fitness
    hashmod = rng.choice([0, 0, 2, 3])
    return ['dedup', inner, hashmod, auto, rng.choice([1, 1, 2, 3]), rng.choice([1, 2, 3, 5, 100])]
  raise KeyError(kind)

KINDS = ['sweep', 'rand', 'dedup-sweep', 'dedup-rand', 'dedup-regevo', 'dedup-gevo', 'dedup-hill', 'dedup-nsga2', 'regevo', 'hill', 'nsga2', 'neat', 'gevo']

def gen_case(rng, kind, n=None, lag=None, seed='random'):
  cfg = gen_cfg(rng, kind, seed)
  n = n if n is not None else rng.choice([3, 6, 10, 15, 20, 30])
  maxlag = lag if lag is not None else rng.choice([0, 1, 2, 3, 3, 5])
  names = SPACE_NAMES
  if kind in ('sweep', 'dedup-sweep', 'dedup-rand') and rng.random() < 0.8:
    # a sweep ends with the space, a de-duplicated stream when every point was proposed max_duplicates times:
    # mostly pick a space that lasts for the run, sometimes one that ends inside it
    cap = cfg[4] if cfg[0] == 'dedup' else 1
    if cfg[0] == 'dedup' and cfg[2]:
      cap = 0        # a hash modulo 2 or 3 exhausts after a handful of proposals whatever the space
    names = [x for x in SPACE_NAMES if Space.get(x).m * cap >= n] or SPACE_NAMES
  if kind == 'neat':
    # NEAT's Proportional selector divides by zero when the (newest-generation) population has one fitness value:
    # keep a generation larger than the number of proposals in flight and make the rewards distinct
    cfg[1] = max(cfg[1], maxlag + 2)
    names = [x for x in SPACE_NAMES if Space.get(x).m >= 6]
  if kind in ('rand', 'dedup-rand', 'regevo', 'hill', 'nsga2', 'neat', 'dedup-regevo', 'dedup-hill') and rng.random() < 0.2:
    names = list(INFINITE)         # spaces with float decision points
  sp = rng.choice(names)
  space = Space.get(sp)
  if lag is not None:
    sched = lag_sched(n, lag)
  else:
    sched = gen_sched(rng, n, maxlag, rng.random() < 0.3)
  nr = space.m if space.finite else 11
  rewards = [rng.randrange(0, 6) for _ in range(nr)]
  if kind == 'neat':
    rewards = list(range(nr)); rng.shuffle(rewards)
  case = dict(space=sp, alg=cfg, rewards=rewards, sched=sched)
  if needs_feedback(cfg) and rng.random() < 0.15:
    case['reward_form'] = 'wrapped'
  return case

# ------------------------------------------------------------------------------------------------
# model cases

def random_need(alg, extra=0):
  """How many PRNG draws the model may ask of each seeded Random inside the algorithm."""
  p = pg(); e = evo()
  if isinstance(alg, p.geno.Deduping):
    return random_need(alg.generator, extra + (CONT + 1) * alg.max_proposal_attempts)    # every continuation proposal may use up all attempts
  if isinstance(alg, e.Evolution):
    return random_need(alg._init_population_generator, extra)
  return alg.num_proposals + extra + 8

def enc_alg(cfg, space, res, need, obj):
  """obj: the live instance of this configuration (an unseeded Random has its draws logged on it)."""
  k = cfg[0]
  if k == 'sweep':
    return [0]
  if k == 'rand':
    if cfg[1] is None:
      return [6, list(obj._c15_log)]
    return [1, draws(space, cfg[1], need)]
  if k == 'dedup':
    return [2, enc_alg(cfg[1], space, res, need, obj.generator), cfg[2], cfg[3], cfg[4], cfg[5]]
  rp = res['repro']
  def init_rand(seed):
    return enc_alg(['rand', seed], space, res, need, obj._init_population_generator)
  if k == 'regevo':
    return [3, init_rand(cfg[3]), [cfg[1]], [1, cfg[1]], rp]
  if k == 'hill':
    return [3, init_rand(cfg[3]), [cfg[2]], [2, 1], rp]
  if k == 'nsga2':
    return [3, init_rand(cfg[2]), [2 * cfg[1]], [6, cfg[1]], rp]
  if k == 'neat':
    return [3, init_rand(cfg[2]), [cfg[1]], [3], rp]
  if k == 'gevo':
    _, init, size, upd, nchild = cfg
    u = dict(none=[0], last=[1] + upd[1:], top=[2] + upd[1:], laststep=[5] + upd[1:])[upd[0]]
    return [3, enc_alg(init, space, res, need, obj._init_population_generator), trlib.opt(size), u, rp]
  raise KeyError(k)

EV = {'p': 0, 'f': 1, 'x': 2}

def model_case(case, res):
  space = Space.get(case['space'])
  cfg = case['alg']
  need = random_need(res['live'])
  base = list(case['rewards']) if space.finite else [reward_base(case, space, d) for d in space.dnas]
  if multi_objective(cfg):
    wrapped = case.get('reward_form') == 'wrapped'
    rewards = [pack_reward((float(r % 3),) if wrapped else (float(r % 3), float((i + r // 3) % 3))) for i, r in enumerate(base)]
  else:
    rewards = base
  return [enc_alg(cfg, space, res, need, res['live']), space.m, rewards, [EV[e] for e in case['sched']]]

def evaluate_full(case):
  """(model case tree, implementation outcome tree, oracle hits, info)."""
  lv = Live(case)
  outs, hits, info = evaluate_case(case, lv=lv)
  return model_case(case, lv.last), outs, hits, info

# ------------------------------------------------------------------------------------------------
CORPUS_DIR = os.path.join(os.path.dirname(os.path.dirname(os.path.dirname(os.path.abspath(__file__)))), 'corpus', 'C15')

def corpus_cases():
  out = []
  if os.path.isdir(CORPUS_DIR):
    for f in sorted(os.listdir(CORPUS_DIR)):
      if f.endswith('.json'):
        out.append(json.load(open(os.path.join(CORPUS_DIR, f)))['case'])
  return out

EXHAUSTIVE_CONFIGS = [
    ('s4', ['dedup', ['regevo', 2, 2, 1], 2, 1, 1, 3]),
    ('s3h', ['dedup', ['rand', 0], 0, 0, 2, 3]),
    ('s4', ['hill', 2, 1, 0]),
    ('s3m', ['dedup', ['gevo', ['sweep'], None, ['laststep', 1, 2], 2], 3, 2, 1, 2]),
    ('s6', ['nsga2', 2, 1]),
    ('s6', ['neat', 3, 1]),
    ('s6', ['dedup', ['sweep'], 2, 0, 2, 2]),
    ('s4', ['gevo', ['rand', 2], 2, ['top', 1], 1]),
]

def exhaustive_cases(ctx):
  """Every event schedule up to a length bound for a few small configurations (every prefix is a crash point,
  so the schedules of exactly that length cover all shorter ones)."""
  import itertools
  alphabet, length, nconf = ctx.scale(('pf', 6, 4), ('pfx', 6, 8))
  out = []
  for sp, cfg in EXHAUSTIVE_CONFIGS[:nconf]:
    m = Space.get(sp).m
    rewards = [(3 * i + 1) % 5 for i in range(m)]
    for ev in itertools.product(alphabet, repeat=length):
      if ev[0] != 'p':
        continue                       # a leading feedback/abandon is a no-op
      out.append(('exhaustive', dict(space=sp, alg=cfg, rewards=rewards, sched=list(ev))))
  ctx.extra['bounded_exhaustive'] = dict(configurations=nconf, alphabet=alphabet, schedule_length=length, runs=len(out),
                                         what='every schedule over the alphabet of that length starting with a proposal; every prefix is a crash point')
  return out

def plan(ctx):
  """The case list of a run: corpus, then for every configuration kind the (k, w) schedules of the property, then random schedules."""
  rng = ctx.rng
  cases = [('corpus', c) for c in corpus_cases()] + exhaustive_cases(ctx)
  kinds = [k for k in os.environ.get('C15_KINDS', '').split(',') if k] or KINDS     # C15_KINDS=nsga2,neat: debugging aid
  for kind in kinds:
    for w in (0, 1, 2, 3):
      for n in ctx.scale([8], [6, 14, 30]):
        cases.append(('lag%d' % w, gen_case(rng, kind, n=n, lag=w)))
  # systematic sweep of the seed value (0 is falsy but valid; a large one; None = unseeded) over every kind that takes one
  for kind in kinds:
    if kind == 'sweep' or kind == 'dedup-sweep':
      continue
    for sd in SEEDS:
      cases.append(('seed-sweep', gen_case(rng, kind, n=ctx.scale(7, 16), lag=rng.choice([0, 1, 2]), seed=sd)))
  # open finding (nested Deduping): its witness is replayed first; while it still fails the model (which shares the
  # metadata slots exactly as the code does) is run against the code on that shape too, otherwise the shape is left out
  try:
    nested_open = any(sig == NESTED_SIG for sig, _, _ in evaluate_case(NESTED_WITNESS)[1])
  except Exception:
    nested_open = True
  ctx.extra['open_finding_nested_deduping_reproduced'] = nested_open
  if nested_open and not os.environ.get('C15_KINDS'):
    cases.append(('known-finding', NESTED_WITNESS))
    for kind in NESTED_KINDS:
      for _ in range(ctx.scale(2, 40)):
        cases.append(('random', gen_case(rng, kind, n=rng.choice([6, 10, 14]))))
  for _ in range(ctx.scale(3, 110) * (len(KINDS) // len(kinds))):      # round-robin over the kinds: a wall-clock cut
    for kind in kinds:                                                  # of the tail costs every kind the same
      cases.append(('random', gen_case(rng, kind)))
  return cases

def shrink(case, signature, crash_point, budget=40):
  """Smallest schedule found (prefix, then single events removed) on which the oracle still reports `signature`."""
  def fails(c):
    try:
      return any(sig == signature for sig, _, _ in evaluate_case(c)[1])
    except Exception:
      return False
  best = dict(case); n = 0
  cand = dict(best, sched=best['sched'][:crash_point + 1])
  if fails(cand):
    best = cand
  i = 0
  while i < len(best['sched']) and n < budget:
    cand = dict(best, sched=best['sched'][:i] + best['sched'][i + 1:])
    n += 1
    if fails(cand):
      best = cand
    else:
      i += 1
  return best

def _work(case):
  try:
    mc, outs, hits, info = evaluate_full(case)
    info = dict(info); info.pop('repro', None); info.pop('updates', None)
    return mc, outs, hits, info, None
  except Exception:
    return None, None, [], None, traceback.format_exc()[-1200:]

def _oracle_only(case):
  try:
    return evaluate_case(case)[1]
  except Exception:
    return []

def pool_map(fn, items, deadline=None):
  """Ordered results of fn over items on forked workers; stops handing out results at the wall-clock deadline
  (the items not evaluated are simply missing from the end of the returned list)."""
  import multiprocessing as mp, time
  from harness.lib.common import NPROC
  pg(); evo()                      # import before forking
  n = max(1, min(8, NPROC, len(items)))
  out = []
  if n == 1:
    for x in items:
      if deadline and time.time() > deadline:
        break
      out.append(fn(x))
    return out
  with mp.get_context('fork').Pool(n) as pool:
    for res in pool.imap(fn, items, chunksize=1):
      out.append(res)
      if deadline and time.time() > deadline:
        pool.terminate()
        break
  return out

def run(ctx):
  ctx.build()
  cases = plan(ctx)
  trs, impl, descr = [], [], []
  nhits = 0
  budget = ctx.scale(70, 1500)       # seconds of wall clock for driving the implementation (from the start of the check)
  results = pool_map(_work, [c for _, c in cases], deadline=ctx.t0 + budget)
  if len(results) < len(cases):
    ctx.extra['skipped_for_wall_clock_budget'] = dict(cases_planned=len(cases), cases_run=len(results), budget_s=budget,
                                                      skipped_kinds=sorted({kind_of(c['alg']) for _, c in cases[len(results):]}))
    ctx.log('wall-clock budget of %ds reached: %d of %d planned cases run (the tail of the plan is random cases)' % (budget, len(results), len(cases)))
  for (tag, case), (mc, outs, hits, info, err) in zip(cases, results):
    if err is not None:
      ctx.broken.append(dict(kind='harness-crash', name='evaluate_case', detail=dict(case=case, error=err)))
      ctx.log('HARNESS ERROR on %s: %s' % (json.dumps(case), err[-300:]))
      continue
    trs.append(mc); impl.append(outs); descr.append(case)
    sh = shape(case['alg'])
    nt = any(o[0][1] >= 1 and o[0][0] > o[0][1] for o in outs)
    ctx.count(json.dumps(case, sort_keys=True), nontrivial=nt, kind=sh,
              sample=dict(kind=tag, case=case, crash_points=info['crash_points'], proposals=info['proposals'], max_in_flight=info['max_inflight'])
              if (tag == 'random' and nt and len(ctx.samples) < 6 and ctx.rng.random() < 0.1) or len(ctx.samples) < 1 else None)
    ctx.hist('schedule_kind', tag)
    ctx.hist('space', case['space'])
    ctx.hist('reward_form', case.get('reward_form', 'native'))
    ctx.hist('seed', seed_of(case['alg']))
    if case['alg'][0] == 'nsga2':
      ctx.hist('nsga2_max_elites', max([len(o[0][4]) - 3 for o in outs] or [0]))
    ctx.hist('crash_points_per_case', min(info['crash_points'] // 10 * 10, 60))
    ctx.hist('max_in_flight', info['max_inflight'])
    ctx.hist('run_ended_by', 'schedule' if info['terminal'] is None or info['terminal'][0] >= len(case['sched']) else 'propose-raised-%s' % {0: 'StopIteration', 1: 'ValueError', 6: 'ZeroDivisionError'}.get(info['terminal'][1], info['terminal'][1]))
    ctx.hist('proposals_per_run', min(info['proposals'] // 5 * 5, 35))
    if is_evo(cfg_evo(case['alg'])):
      ctx.hist('evolve_calls', min(info['evolve_calls'] // 5 * 5, 30))
      ctx.hist('max_population', min(info['max_population'], 10))
    if case['alg'][0] == 'dedup':
      ctx.hist('dedup_runs_with_dropped_duplicates', info['skipped'] > 0)
      ctx.hist('dedup_runs_with_auto_reward_applied', info['auto_rewarded'] > 0)
      ctx.hist('dedup_cache_keys', min(info['cache_keys'], 12))
    ctx.extra['undelivered_reward_recoveries'] = ctx.extra.get('undelivered_reward_recoveries', 0) + info['undelivered']
    ctx.extra['crash_points_total'] = ctx.extra.get('crash_points_total', 0) + info['crash_points']
    for sig, what, c in hits:
      nhits += 1
      known = any(f['signature'] == sig for f in ctx.open_findings()) or any(h['signature'] == sig for h in ctx.hits)
      import time as _t
      late = _t.time() - ctx.t0 > ctx.scale(85, 1700)           # no shrinking once the wall-clock budget is used up
      small = case if known or late or len(ctx.hits) >= 5 else shrink(case, sig, c, budget=25)
      ctx.hit(sig, what, dict(case=small, crash_point=c, original_schedule=''.join(case['sched'])))
  ctx.log('implementation: %d cases, %d crash points, %d oracle hits' % (len(results), ctx.extra.get('crash_points_total', 0), nhits))
  model = ctx.model_run(trs)
  lookup = {id(t): d for t, d in zip(trs, descr)}
  bad = ctx.compare('Recover.run vs the real generators (live and recovered state at every crash point)', trs, impl, model,
                    describe=lambda c: lookup.get(id(c)))
  for i in bad[:3]:
    ctx.log('first difference in case %s: %s' % (json.dumps(descr[i]), first_diff(impl[i], model[i])))
  ctx.exhaustive = False
  ctx.extra['oracle_evaluations'] = ctx.extra.get('crash_points_total', 0)
  # targeted search: something no longer checks and the oracle has not failed yet -> more cases of the kinds that disagree
  if ctx.is_broken() and not ctx.hits:
    kinds = sorted({kind_of(descr[i]['alg']) for i in bad}) or KINDS
    extra = [gen_case(ctx.rng, kind, n=ctx.rng.choice([6, 10, 16])) for kind in kinds for _ in range(max(4, 96 // len(kinds)))]
    for case, hits in zip(extra, pool_map(_oracle_only, extra)):
      for sig, what, c in hits:
        ctx.hit(sig, what, dict(case=case, crash_point=c))
    ctx.log('targeted search over %s: %d more cases, %d hits' % (kinds, len(extra), len(ctx.hits)))

def seed_of(cfg):
  if cfg[0] == 'dedup':
    return seed_of(cfg[1])
  if cfg[0] == 'sweep':
    return 'n/a'
  if cfg[0] == 'gevo':
    return seed_of(cfg[1])
  sd = cfg[1] if cfg[0] == 'rand' else cfg[-1]
  return {0: '0', None: 'None', BIG_SEED: 'large'}.get(sd, 'small')

def kind_of(cfg):
  if cfg[0] == 'dedup':
    return 'dedup-' + kind_of(cfg[1])
  return cfg[0]

def first_diff(a, b, path=''):
  if a == b:
    return None
  if isinstance(a, list) and isinstance(b, list):
    if len(a) != len(b):
      return '%s: length %d vs %d (impl %s | model %s)' % (path, len(a), len(b), str(a)[:200], str(b)[:200])
    for i, (x, y) in enumerate(zip(a, b)):
      d = first_diff(x, y, '%s/%d' % (path, i))
      if d:
        return d
  return '%s: impl %s | model %s' % (path, str(a)[:200], str(b)[:200])

def replay(ctx, rp):
  c = rp['case']
  case = c['case'] if 'case' in c else c
  outs, hits, info = evaluate_case(case)
  for h in hits[:5]:
    print('  still fails:', h[0], '::', h[1])
  return not hits

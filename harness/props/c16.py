"""C16 — concurrent sampling hands out each trial once and loses no feedback (the one property over thread schedules)."""
import collections, json, os, random, sys, time
from harness.lib import tr as trlib
from harness.lib.common import REPO
from harness.translators import sched_prog

META = dict(
    id='C16',
    model_run='PG.Model.SchedRun.run',
    model_targets=['Model/SchedRun.vo'],
    instance_obligations=[],   # the per-run instance obligation is the theorem C16_instance of Properties/C16.v (Proofs/SchedInstance.v, vm_compute on the regenerated programs)
    technique=('Coq proof over an interleaving semantics of a small shared-memory language (invariants preserved by one act of an arbitrary thread, hence by '
               'every schedule, any number of threads) + programs regenerated from the source by a fail-closed ast translator + trace correspondence under a '
               'deterministic statement-granular scheduler + direct oracle on the real objects'),
    design_ref='DESIGN.md §5 C16',
    level_text=('Theorems (every program set accepted by the decidable discipline check, every configuration, any number of workers and scripts, every schedule): '
                'mutual exclusion; ids 1..n each once, never more than requested, exactly the requested number once full, one study per name; a trial is reported to the algorithm '
                'at most once in every state and exactly once iff completed and feasible at quiescence; counters consistent at quiescence; best trial feasible and maximal; '
                'one pending trial per group and a worker only holds trials of its group; the algorithm is set up at most once however many workers race for the first sample(); '
                'outside the setup window num_feedbacks = number of reports and num_proposals = number of trials + proposals in flight, and at quiescence num_proposals = number of trials; every report carries the reward that is (and stays) the final measurement of a completed feasible trial; '
                'no deadlock (some unfinished worker can always step; lock order registry > study > evolution).  The programs are regenerated from the source on every run and the instance obligation is re-checked.'),
    level_note=('Tie: fail-closed translator + footprint obligation + trace correspondence (final state and program-counter sequence) under a deterministic statement-granular scheduler + direct oracle. '
                'An exception in the constructor ends the worker (model rule; the discipline requires the algorithm to be set up at every other exit). '
                'When the translator or the instance obligation stops, an implementation-only search (single-preemption and parking sweeps with distinct rewards, direct oracle) still produces concrete replays, shrunk before they are recorded. '
                'Not proved: evolution population contents; termination under fair schedules (no-deadlock is proved).'),
    rule=('a case is (configuration: threads, num_examples, groups, algorithm kind, early-stopping policy, per-worker scripts; a schedule = the sequence of thread choices '
          'at every scheduling point).  distinct by (configuration, schedule); non-trivial when at least two threads were interleaved inside a critical section or an '
          'API entry (at least one context switch away from a thread that had not finished its current call)'),
    trusted_base=['translator harness/translators/sched_prog.py (fail-closed ast reader; statement -> effect table cross-checked by the footprint obligation and by the trace correspondence)',
                  'harness/sched (sys.settrace gate scheduler, instrumented lock): trusted to serialise the workers and to report the executed (thread, line) sequence',
                  'extraction: ExtrOcamlBasic only; ocaml/main.ml; cross-checked against vm_compute on a sample'],
    assumptions=['one act = one Python statement (the granularity the property names); preemption inside a statement (e.g. between the read and the write of `x += 1`) is not modelled',
                 'code outside the anchored files (geno.Random._propose, selectors/mutators of Evolution, the early-stopping policy, Trial/Measurement constructors) is atomic and touches none of the modelled variables'],
)

UOPS = dict(next=0, add=1, done=2, skip=3, skipif=4, stop=5, end=6)

# ------------------------------------------------------------------------------------------------
# regenerated from the source by setup.sh and by every run
GENERATED = {'Gen/SchedProg.v': sched_prog.translate}

def _pg():
  import pyglove as pg
  from pyglove.core.tuning import protocols
  from harness.sched import core, pg_env
  return pg, protocols, core, pg_env

_ALGOS = {}
def make_algo(kind, pop):
  pg = _pg()[0]
  if kind == 'random':
    return pg.geno.Random(seed=1)
  if kind == 'random_fb':
    if 'fb' not in _ALGOS:
      class RandomWithFeedback(pg.geno.Random):
        def _feedback(self, dna, reward):
          pass
      _ALGOS['fb'] = RandomWithFeedback
    return _ALGOS['fb'](seed=1)
  return pg.evolution.regularized_evolution(population_size=pop, tournament_size=2, seed=1)

def make_policy(stop_ids):
  pg = _pg()[0]
  if 'pol' not in _ALGOS:
    class StopListed(pg.tuning.EarlyStoppingPolicy):
      def _on_bound(self):
        super()._on_bound()
        self.ids = ()
      def should_stop_early(self, trial):
        return trial.id in self.ids
    _ALGOS['pol'] = StopListed
  p = _ALGOS['pol']()
  p.ids = tuple(stop_ids)
  return p

# ------------------------------------------------------------------------------------------------
class Run:
  """One execution of a configuration under a strategy; collects what the oracle and the correspondence need."""

  def __init__(self, cfg, lm, env):
    self.cfg, self.lm, self.env = cfg, lm, env

  def go(self, strategy_fn, name):
    pg, protocols, core, pg_env = _pg()
    cfg, lm, env = self.cfg, self.lm, self.env
    n = len(cfg['workers'])
    self.algo = make_algo(cfg['algo'], cfg['pop'])
    env.begin_run(self.algo)
    lm.unmapped = []
    space = pg.Dict(x=pg.oneof([1, 2, 3]), y=pg.oneof([1, 2]))
    self.name = name
    self.deliveries = []       # (worker, group number, trial id, study object)
    self.live = []             # live violations of "one pending trial per group"
    self.ended = [None] * n
    self.study_of_worker = [None] * n
    self.errors = []
    self.fed_vals = []         # (study object, trial id, reward argument) at the same statement
    self.fed_log = []          # (study object, trial id) each time the statement `self._num_feedbacks += 1` of the main algorithm ran
    self.cur_fb = [None] * n
    gnum = [w['group'] for w in cfg['workers']]
    def mk(i):
      w = cfg['workers'][i]
      group = None if w['gnone'] else 'g%d' % w['group']
      def worker():
        policy = make_policy(cfg['stop']) if cfg['policy'] else None
        gen = pg.sample(space, self.algo, num_examples=cfg['max'], name=name, group=group, early_stopping_policy=policy)
        ops = list(w['script'])
        ret = False
        pos = 0
        fb = None
        while pos < len(ops):
          op = ops[pos]; pos += 1
          try:
            if op[0] == 'next':
              try:
                _, fb = next(gen)
              except StopIteration:
                self.ended[i] = 'stop'
                return
              self.cur_fb[i] = fb
              self.deliveries.append((i, gnum[i], fb.id, fb._study))
              self.check_live(gnum[i], fb._study)
            elif op[0] == 'add':
              fb.add_measurement(float(op[1]))
            elif op[0] == 'done':
              fb.done()
            elif op[0] == 'skip':
              fb.skip()
            elif op[0] == 'skipif':
              if ret:
                fb.skip()
            elif op[0] == 'stop':
              ret = bool(fb.should_stop_early())
            elif op[0] == 'end':
              fb.end_loop()
          except (protocols.RaceConditionError, ValueError) as e:
            pass
        self.ended[i] = 'script'
      return worker
    base_gate = lm.gate_of
    inc_nf = self.inc_nf_pcs(lm)
    def gate_of(frame, state):
      lab = base_gate(frame, state)
      if lab is not None:
        w = core._tls.worker
        if frame.f_code.co_name == '__init__' and 'study' in frame.f_locals:
          self.study_of_worker[w.idx] = frame.f_locals['study']
      return lab
    import linecache
    def after_gate(w, lab, frame):
      # the statement `self._num_feedbacks += 1` of DNAGenerator.feedback is about to run on the main algorithm:
      # the worker's current trial is being reported (recognised by its source text, independent of the line map)
      if frame.f_code.co_name == 'feedback' and frame.f_locals.get('self') is self.algo and \
         linecache.getline(frame.f_code.co_filename, frame.f_lineno).strip() == 'self._num_feedbacks += 1':
        fb = self.cur_fb[w.idx]
        self.fed_log.append((fb._study, fb.id))
        self.fed_vals.append((fb._study, fb.id, frame.f_locals.get('reward')))   # the value handed to algorithm.feedback
    self.ctl = core.Controller([mk(i) for i in range(n)], strategy_fn, gate_of, lm.accept_code, acquire_label=lm.acquire_label, step_timeout=60.0)
    self.ctl.after_gate = after_gate
    self.ctl.run()
    for w in self.ctl.workers:
      if w.error is not None:
        self.errors.append((w.idx, type(w.error).__name__, str(w.error)[:200]))
    return self

  @staticmethod
  def inc_nf_pcs(lm):
    return set(pi for pi, txt in lm.gate_text.items() if txt == 'self._num_feedbacks += 1')

  def check_live(self, g, study):
    pend = set()
    for (_, g2, tid, s2) in self.deliveries:
      if g2 == g and s2 is study and tid <= len(study._trials) and study._trials[tid - 1].status == 'PENDING':
        pend.add(tid)
    if len(pend) > 1:
      self.live.append((g, tuple(sorted(pend))))

  # ---- the state as the model prints it -----------------------------------------------------------
  def observed(self):
    pg = _pg()[0]
    env, cfg = self.env, self.cfg
    from pyglove.ext.evolution import base as evo_base
    studies = list(env.studies)
    sidx = {id(s): k for k, s in enumerate(studies)}
    group_of = {}
    for (i, g, tid, s) in self.deliveries:
      group_of.setdefault((id(s), tid), g)
    fedc = collections.Counter((id(s), tid) for (s, tid) in self.fed_log)
    is_evo = cfg['algo'] == 'evo'
    def edna(d):
      if not is_evo:
        return [0, 0]
      return [evo_base.get_proposal_id(d), 1 if evo_base.is_initial_population(d) else 0]
    def estudy(s):
      trials = []
      for t in s._trials:
        fin = t.final_measurement
        trials.append([t.id, group_of.get((id(s), t.id), self.group_guess(s, t)), edna(t.dna), 1 if t.status == 'COMPLETED' else 0, 1 if t.infeasible else 0,
                       len(t.measurements), trlib.opt(None if fin is None else int(fin.reward)), fedc[(id(s), t.id)]])
      latest = []
      for gname, t in s._latest_trial_per_group.items():
        latest.append([self.gnum_of_name(gname), t.id])
      return [trials, s._num_trials_by_status['PENDING'], s._num_trials_by_status['COMPLETED'], s._num_infeasible,
              trlib.opt(None if s._best_trial is None else s._best_trial.id), latest, 1 if s._is_active else 0]
    from pyglove.core.tuning import local_backend
    reg = local_backend._in_memory_results.get(self.name)
    a = self.algo
    fedv = [[sidx[id(s)], tid, int(r) if isinstance(r, (int, float)) else [-1]] for (s, tid, r) in self.fed_vals]
    if is_evo and hasattr(a, '_population'):
      ig = a._init_population_generator
      algo = [1 if a.dna_spec is not None else 0, a.num_proposals, a.num_feedbacks, [[sidx[id(s)], tid] for (s, tid) in self.fed_log],
              [edna(d) for d in a._pending_proposals], 1 if a._population_initialized else 0, [edna(d) for d in a._population], a.num_generations,
              env.algo_locks, ig.num_proposals, ig.num_feedbacks, env.algo_locks, fedv]
    else:
      algo = [1 if a.dna_spec is not None else 0, getattr(a, '_num_proposals', 0), getattr(a, '_num_feedbacks', 0), [[sidx[id(s)], tid] for (s, tid) in self.fed_log],
              [], 0, [], 0, 0, 0, 0, 0, fedv]
    threads = []
    for i, w in enumerate(self.ctl.workers):
      s = self.study_of_worker[i]
      threads.append([1 if w.state == 'done' else 0, sidx.get(id(s), 0), len(w.held)])
    trace = [[lab[1], lab[2]] for (t, lab) in self.ctl.trace if lab[0] == 'L']
    nlocks = sum(1 for s in studies if s._lock.owner is not None) + sum(1 for lk in env.module_locks.values() if lk.owner is not None)
    return [[], [estudy(s) for s in studies], trlib.opt(None if reg is None else sidx.get(id(reg))), algo, threads, trace]

  def gnum_of_name(self, gname):
    if isinstance(gname, str) and gname.startswith('g') and gname[1:].isdigit():
      return int(gname[1:])
    for i, w in enumerate(self.ctl.workers):
      if w.thread is not None and str(w.thread.ident) == gname:
        return self.cfg['workers'][i]['group']
    return 999

  def group_guess(self, s, t):
    for gname, lt in s._latest_trial_per_group.items():
      if lt is t:
        return self.gnum_of_name(gname)
    return 999

  def model_case(self):
    cfg = self.cfg
    c = [trlib.opt(cfg['max']), 1 if cfg['algo'] == 'evo' else 0, 1 if cfg['algo'] in ('evo', 'random_fb') else 0, cfg['pop'], 1 if cfg['policy'] else 0, list(cfg['stop'])]
    ws = []
    for w in cfg['workers']:
      ws.append([w['group'], 1 if w['gnone'] else 0, [[UOPS[o[0]]] + ([int(o[1])] if o[0] == 'add' else []) for o in w['script']]])
    sched = [t for (t, lab) in self.ctl.trace if lab[0] == 'L']
    return [c, ws, sched]

# ------------------------------------------------------------------------------------------------
# the direct oracle: the property text on the real objects (no model involved)
def oracle(run):
  """-> list of (signature, what)."""
  pg = _pg()[0]
  cfg, ctl = run.cfg, run.ctl
  hits = []
  def hit(sig, what):
    if not any(h[0] == sig for h in hits):
      hits.append((sig, what))
  if ctl.outcome == 'deadlock':
    hit('C16/liveness/deadlock', 'all unfinished workers are blocked on locks: %s' % [repr(w) for w in ctl.workers if w.state != 'done'])
    return hits
  if ctl.outcome != 'finished':
    return hits
  for (i, ename, msg) in run.errors:
    if ename == 'AttributeError' and ('_lock' in msg or '_population' in msg or '_pending_proposals' in msg or '_init_population' in msg or '_global_state' in msg or '_reproduction' in msg):
      hit('C16/algorithm-setup/backend-init/used-before-setup-finished', 'worker %d crashed with %s: %s (another worker was still inside algorithm.setup)' % (i, ename, msg))
    else:
      hit('C16/worker-crash/%s' % ename, 'worker %d crashed with %s: %s' % (i, ename, msg))
  try:
    res = pg.poll_result(run.name)
  except ValueError:
    res = None
  studies = run.env.studies
  used = []
  for (i, g, tid, s) in run.deliveries:
    if not any(s is u for u in used):
      used.append(s)
  if len(studies) > 1 or any(u is not res for u in used):
    hit('C16/single-study/backend-init/private-study',
        '%d studies were created for one name (simultaneous first callers of the unsynchronised get-or-create); poll_result sees %s of %s trials'
        % (len(studies), len(res.trials) if res is not None else None, sum(len(s._trials) for s in studies)))
  if run.env.algo_locks > 1 or (cfg['algo'] != 'evo' and False):
    hit('C16/algorithm-setup/backend-init/setup-twice', 'algorithm.setup ran %d times (counters and population reset under running workers)' % run.env.algo_locks)
  for s in studies:
    ids = [t.id for t in s._trials]
    n = len(ids)
    if ids != list(range(1, n + 1)):
      hit('C16/ids/create_trial/not-1-to-N', 'trial ids are %s' % ids)
    if cfg['max'] is not None and n > cfg['max']:
      hit('C16/ids/create_trial/more-than-requested', '%d trials created, %d requested' % (n, cfg['max']))
    if s is res and s._is_active and cfg['max'] is not None and any(e == 'stop' for e in run.ended) and n != cfg['max'] and len(studies) == 1:
      hit('C16/ids/create_trial/fewer-than-requested', 'a worker was told the study is full with %d of %d trials' % (n, cfg['max']))
    # delivered to exactly one group
    groups = collections.defaultdict(set)
    for (i, g, tid, s2) in run.deliveries:
      if s2 is s:
        groups[tid].add(g)
    for tid, gs in sorted(groups.items()):
      if len(gs) > 1:
        hit('C16/delivery/next/trial-in-two-groups', 'trial %d was delivered to groups %s' % (tid, sorted(gs)))
    # feedback exactly once
    fed = collections.Counter(tid for (s2, tid) in run.fed_log if s2 is s)
    observable = bool(run.fed_log) or getattr(run.algo, '_num_feedbacks', 0) == 0     # the reporting statement was recognised
    for t in (s._trials if observable else []):
      want = 1 if (t.status == 'COMPLETED' and not t.infeasible) else 0
      if fed[t.id] != want:
        hit('C16/feedback-once/done-or-skip/%s' % ('reported-%d-times' % fed[t.id] if fed[t.id] > 1 else 'not-reported'),
            'trial %d (status %s, infeasible %s) was reported to the algorithm %d times' % (t.id, t.status, t.infeasible, fed[t.id]))
    # the value that was fed back is the trial's final measurement (and the trial's outcome was not rewritten afterwards)
    for (s2, tid, r) in run.fed_vals:
      if s2 is not s: continue
      t = next((x for x in s._trials if x.id == tid), None)
      fin = None if t is None else t.final_measurement
      if t is None or fin is None or fin.reward != r or t.infeasible or t.status != 'COMPLETED':
        hit('C16/feedback-value/done-or-skip/reward-differs',
            'trial %s was reported to the algorithm with reward %r but ends as status %s, infeasible %s, final reward %s'
            % (tid, r, getattr(t, 'status', None), getattr(t, 'infeasible', None), None if fin is None else fin.reward))
    # bookkeeping at quiescence
    comp = sum(1 for t in s._trials if t.status == 'COMPLETED'); pend = sum(1 for t in s._trials if t.status == 'PENDING')
    cnt = dict(s._num_trials_by_status)
    if cnt != {'PENDING': pend, 'COMPLETED': comp}:
      hit('C16/bookkeeping/status-counters', 'counters %s but %d pending and %d completed trials' % (cnt, pend, comp))
    ninf = sum(1 for t in s._trials if t.infeasible)
    if s._num_infeasible != ninf:
      hit('C16/bookkeeping/infeasible-counter', 'infeasible counter %d but %d infeasible trials' % (s._num_infeasible, ninf))
    feas = [t for t in s._trials if t.status == 'COMPLETED' and not t.infeasible and t.final_measurement is not None]
    b = s._best_trial
    if feas:
      mx = max(t.final_measurement.reward for t in feas)
      if b is None or b.infeasible or b.status != 'COMPLETED' or b.final_measurement.reward != mx:
        hit('C16/bookkeeping/best-trial', 'best trial is %s but the maximal reward of a completed feasible trial is %s' % (None if b is None else (b.id, b.final_measurement and b.final_measurement.reward, b.infeasible), mx))
    elif b is not None:
      hit('C16/bookkeeping/best-trial-infeasible', 'best trial %d although no feasible trial completed' % b.id)
    text = str(s)
    if comp and ("'COMPLETED': '%d/%d'" % (comp, n)) not in text.replace('"', "'"):
      hit('C16/bookkeeping/summary-text', 'str(result) does not show %d/%d completed: %s' % (comp, n, text[:120]))
  if run.live:
    g, pend = run.live[0]
    hit('C16/same-group/next/two-pending-trials', 'workers of group %s hold different pending trials %s at the same time' % (g, list(pend)))
  a = run.algo
  total = sum(len(s._trials) for s in studies)
  if getattr(a, '_num_proposals', 0) != total:
    hit('C16/algorithm/proposal-counter', 'algorithm.num_proposals = %s but %d trials exist' % (getattr(a, '_num_proposals', None), total))
  nfeas = sum(1 for s in studies for t in s._trials if t.status == 'COMPLETED' and not t.infeasible)
  if getattr(a, '_num_feedbacks', 0) != nfeas:
    hit('C16/algorithm/feedback-counter', 'algorithm.num_feedbacks = %s but %d feasible trials completed' % (getattr(a, '_num_feedbacks', None), nfeas))
  if cfg['algo'] == 'evo' and hasattr(a, '_population') and len(studies) == 1:
    popids = [id(d) for d in a._population]
    if len(set(popids)) != len(popids):
      hit('C16/feedback-once/evolution/population-duplicate', 'a DNA is twice in the population')
  return hits

# ------------------------------------------------------------------------------------------------
# generators
def gen_cfg(rng, big=False):
  n = rng.choice([2, 2, 3, 3, 4, 5, 6, 8] if big else [2, 2, 2, 3, 3, 4])
  mx = rng.choice([1, 2, 3, 4, 5, 6]) if not big else rng.choice([2, 4, 6, 8, 10])
  algo = rng.choice(['random', 'random_fb', 'evo', 'evo'])
  pop = rng.choice([2, 2, 3])
  policy = rng.random() < 0.3
  stop = sorted(rng.sample(range(1, mx + 1), rng.randint(0, min(2, mx)))) if policy else []
  gmode = rng.choice(['none', 'none', 'same', 'mixed', 'mixed'])
  ngroups = rng.choice([1, 2])
  workers = []
  pool = rng.sample(range(-40, 400), n * (mx + 3))     # all rewards of a configuration are distinct: 'best is maximal' stays sensitive
  for i in range(n):
    if gmode == 'none' or (gmode == 'mixed' and rng.random() < 0.4):
      g, gnone = 100 + i, True
    else:
      g, gnone = (0 if gmode == 'same' else rng.randrange(ngroups)), False
    script = []
    iters = rng.randint(1, mx + 2)
    for k in range(iters):
      script.append(('next',))
      r = rng.random()
      rew = pool.pop()
      if r < 0.45: script += [('add', rew), ('done',)]
      elif r < 0.58: script += [('skip',)]
      elif r < 0.66: script += [('add', rew)]                        # left pending: the same trial comes again
      elif r < 0.74: script += [('add', rew), ('stop',), ('skipif',), ('done',)]
      elif r < 0.80: script += [('done',)]                           # no measurement: ValueError, stays pending
      elif r < 0.86: script += [('add', rew), ('done',), ('done',)]  # double completion
      elif r < 0.91: script += [('add', rew), ('done',), ('add', rew)]  # RaceConditionError
      elif r < 0.95: script += [('add', rew), ('done',), ('skip',)]
      elif r < 0.98: script += [('add', rew), ('done',), ('end',)]
      else: pass
    workers.append(dict(group=g, gnone=gnone, script=script))
  return dict(max=mx, algo=algo, pop=pop, policy=policy, stop=stop, workers=workers)

def gen_strategy(rng, n, est_len, gates):
  """-> (description, factory).  The factory builds a fresh strategy (they are stateful)."""
  _, _, core, _ = _pg()
  r = rng.random()
  seed = rng.randrange(1 << 30)
  if r < 0.30:
    return dict(kind='uniform', seed=seed), lambda: core.random_strategy(random.Random(seed))
  if r < 0.50:
    p = rng.choice([0.05, 0.15, 0.3])
    return dict(kind='sticky', p=p, seed=seed), lambda: core.random_strategy(random.Random(seed), switch_prob=p)
  if r < 0.75:
    d = rng.choice([2, 3, 4])
    return dict(kind='pct', depth=d, seed=seed), lambda: core.pct_strategy(random.Random(seed), n, d, est_len)
  pi = gates[rng.randrange(len(gates))]
  return dict(kind='preempt', after=list(pi), seed=seed), lambda: core.preempt_at_strategy(random.Random(seed), lambda lab: lab[0] == 'L' and (lab[1], lab[2]) == tuple(pi))

def nontrivial(trace, nthreads):
  """at least one switch away from a thread that was in the middle of an entry (its next gate is not the first act of an entry)"""
  last = None
  for k, (t, lab) in enumerate(trace):
    if last is not None and t != last[0]:
      # did the previous thread continue later with a gate that is not pc 0 of an entry?
      for (t2, lab2) in trace[k:]:
        if t2 == last[0]:
          if lab2[0] == 'L' and lab2[2] != 0:
            return True
          break
    last = (t, lab)
  return False

# ------------------------------------------------------------------------------------------------
_counter = [0]
def fresh_name(ctx):
  _counter[0] += 1
  return 'c16_%d_%d_%d' % (ctx.seed, os.getpid(), _counter[0])

def execute(ctx, cfg, lm, env, strat_factory):
  r = Run(cfg, lm, env)
  r.lm, r.env = lm, env
  r.gating = 'acts' if hasattr(lm, 'keymap') else 'raw'     # which gates the recorded decisions refer to (needed to replay them)
  return r.go(strat_factory(), fresh_name(ctx))

def fallback_linemap(env):
  """When the translation is broken there is no line -> act map: gate on every line of the anchored classes (oracle only)."""
  class Any:
    unmapped = []; untraced = {}; gate_text = {}
    def accept_code(self, frame):
      fn = frame.f_code.co_filename
      if not fn.endswith(('tuning/local_backend.py', 'geno/dna_generator.py', 'evolution/base.py')):
        return None
      if fn.endswith(('geno/dna_generator.py', 'evolution/base.py')) and frame.f_locals.get('self') is not env.main_algo:
        return None
      return 'any'
    def gate_of(self, frame, state):
      return ('G', os.path.basename(frame.f_code.co_filename), frame.f_lineno)
    def acquire_label(self, lock, frame):
      return ('G', 'acquire:' + os.path.basename(frame.f_code.co_filename), frame.f_lineno)
  return Any()

# ------------------------------------------------------------------------------------------------
# implementation-only exploration (needs no line -> act map): raw (file, line) gates of the anchored files, the invariant
# oracle, and a systematic SINGLE-PREEMPTION sweep: the victim worker runs alone until it is parked in front of a chosen
# (file, line) gate, then the other workers run (to completion, or a bounded number of steps), then the victim resumes.
def park_strategy(victim, label, occ=1, warmup=0, others_budget=None):
  st = dict(phase='warm', seen=0, warm=0, used=0, last=None, fired=False)
  def choose(ctl, en):
    v = [w for w in en if w.idx == victim]
    others = [w for w in en if w.idx != victim]
    if st['phase'] == 'warm':
      if st['warm'] < warmup and others:
        st['warm'] += 1
        return others[0]
      st['phase'] = 'victim'
    if st['phase'] == 'victim':
      if v and label is not None:
        w = v[0]
        if w.label == label and st['last'] != w.steps:
          st['last'] = w.steps
          st['seen'] += 1
          if st['seen'] == occ:
            st['phase'] = 'others'; st['fired'] = True
        if st['phase'] == 'victim':
          return w
      elif v:
        return v[0]
      else:
        st['phase'] = 'others'
    if st['phase'] == 'others':
      if others and (others_budget is None or st['used'] < others_budget):
        st['used'] += 1
        return others[0]
      st['phase'] = 'rest'
    return v[0] if v else en[0]
  choose.state = st
  return choose

def park_scenarios():
  """Small scenarios whose rewards are all DISTINCT (so that 'best is maximal' is sensitive to a stale read); the victim's
  rewards are lower (asc) or higher (desc) than the others'; different groups / one group / three workers; done/skip mixes."""
  out = []
  def w(group, gnone, ops):
    return dict(group=group, gnone=gnone, script=ops)
  def done_iters(rs):
    ops = []
    for r in rs:
      ops += [('next',), ('add', r), ('done',)]
    return ops
  for algo in ('random_fb', 'evo'):
    for groups in ('different', 'same'):
      for order in ('asc', 'desc'):
        lo, hi = [1, 2, 3], [30, 20, 10]
        a, b = (lo, hi) if order == 'asc' else (hi, lo)
        g0 = (100, True) if groups == 'different' else (0, False)
        g1 = (101, True) if groups == 'different' else (0, False)
        out.append(dict(name='%s/%s/%s' % (algo, groups, order), max=5, algo=algo, pop=2, policy=False, stop=[],
                        workers=[w(g0[0], g0[1], done_iters(a[:2]) + [('next',)]), w(g1[0], g1[1], done_iters(b[:2]) + [('next',)])]))
    # three workers, one shared group, a skip and a double completion in the mix
    out.append(dict(name='%s/mixed3' % algo, max=6, algo=algo, pop=2, policy=False, stop=[],
                    workers=[w(100, True, [('next',), ('add', 4), ('done',), ('next',), ('skip',), ('next',)]),
                             w(0, False, [('next',), ('add', 40), ('done',), ('done',), ('next',), ('add', 25), ('done',)]),
                             w(0, False, [('next',), ('add', 7), ('done',), ('next',), ('add', 50), ('done',)])]))
  return out

def park_plan(ctx, env, lm, scen, victim):
  """-> [(label, occurrence)] for every distinct gate the victim reaches when it runs alone first, local_backend.py first."""
  cfg = {k: v for k, v in scen.items() if k != 'name'}
  base = execute(ctx, cfg, lm, env, lambda: park_strategy(victim, None))
  counts = collections.Counter(lab for (t, lab) in base.ctl.trace if t == victim)
  order = []
  for (t, lab) in base.ctl.trace:
    if t == victim and lab not in order:
      order.append(lab)
  rank = lambda lab: 0 if 'local_backend' in str(lab[1]) else (1 if 'dna_generator' in str(lab[1]) else 2)
  order.sort(key=rank)
  plan = [(lab, 1) for lab in order] + [(lab, 2) for lab in order if counts[lab] >= 2]
  return cfg, plan

def park_sweep(ctx, env, budget_s, sample=None, stop_on_hit=True):
  pg, protocols, core, pg_env = _pg()
  lm = fallback_linemap(env)
  t0 = time.time()
  runs = fired = 0
  gates_seen = set()
  jobs = []
  for scen in park_scenarios():
    for victim in (0, 1):
      if time.time() - t0 > budget_s:
        break
      cfg, plan = park_plan(ctx, env, lm, scen, victim)
      for (lab, occ) in plan:
        gates_seen.add(lab)
        jobs.append((scen['name'], cfg, victim, lab, occ))
      if sample is None:
        # run this scenario's jobs right away (budget driven, most relevant scenarios first)
        while jobs:
          name, cfg, victim, lab, occ = jobs.pop(0)
          if time.time() - t0 > budget_s or (stop_on_hit and ctx.hits):
            jobs = []
            break
          for budget in (None,):
            strat = [None]
            def fac(victim=victim, lab=lab, occ=occ, budget=budget):
              strat[0] = park_strategy(victim, lab, occ, 0, budget)
              return strat[0]
            r = execute(ctx, cfg, lm, env, fac)
            runs += 1
            fired += 1 if strat[0].state['fired'] else 0
            if r.ctl.outcome in ('finished', 'deadlock'):
              record_hits(ctx, r, cfg, dict(kind='park', scenario=name, victim=victim, before=list(lab), occurrence=occ), gating='raw')
    if (stop_on_hit and ctx.hits) or time.time() - t0 > budget_s:
      break
  if sample is not None:
    for (name, cfg, victim, lab, occ) in ctx.rng.sample(jobs, min(sample, len(jobs))):
      if time.time() - t0 > budget_s:
        break
      budget = ctx.rng.choice([None, None, 25, 60])
      strat = [None]
      def fac(victim=victim, lab=lab, occ=occ, budget=budget):
        strat[0] = park_strategy(victim, lab, occ, 0, budget)
        return strat[0]
      r = execute(ctx, cfg, lm, env, fac)
      runs += 1
      fired += 1 if strat[0].state['fired'] else 0
      if r.ctl.outcome in ('finished', 'deadlock'):
        record_hits(ctx, r, cfg, dict(kind='park', scenario=name, victim=victim, before=list(lab), occurrence=occ, others_budget=budget), gating='raw')
  return dict(runs=runs, preemption_fired=fired, distinct_gates=len(gates_seen), scenarios=len(park_scenarios()), seconds=round(time.time() - t0, 1))

def describe_case(cfg, sdesc):
  return dict(threads=len(cfg['workers']), num_examples=cfg['max'], algorithm=cfg['algo'], population=cfg['pop'], policy=cfg['policy'],
              groups=[None if w['gnone'] else w['group'] for w in cfg['workers']], scripts=[' '.join(o[0] + (str(o[1]) if len(o) > 1 else '') for o in w['script']) for w in cfg['workers']],
              strategy=sdesc)

def shrink_schedule(ctx, run, sig, max_runs=16):
  """Shortest prefix of the recorded decisions after which a NON-PREEMPTIVE continuation (current thread while it can move,
  else lowest index) still makes the oracle report `sig`.  -> (prefix, replays used).  Falls back to the full list."""
  core = _pg()[2]
  dec = list(run.ctl.decisions)
  used = [0]
  def fails(prefix):
    used[0] += 1
    r = execute(ctx, run.cfg, run.lm, run.env, lambda: core.replay_strategy(prefix, then=core.nonpreemptive))
    return r.ctl.outcome in ('finished', 'deadlock') and any(s_ == sig for s_, _ in oracle(r))
  if not fails(dec):
    return dec, used[0]
  lo, hi = 0, len(dec)
  while lo < hi and used[0] < max_runs:
    mid = (lo + hi) // 2
    if fails(dec[:mid]):
      hi = mid
    else:
      lo = mid + 1
  return dec[:hi], used[0]

def record_hits(ctx, run, cfg, sdesc, gating=None):
  hs = oracle(run)
  for sig, what in hs:
    new = not any(h['signature'] == sig for h in ctx.hits) and not any(f['signature'] == sig for f in ctx.open_findings())
    dec, info = run.ctl.decisions, None
    if new and len(ctx.hits) < 5:
      dec, used = shrink_schedule(ctx, run, sig)
      info = dict(original_decisions=len(run.ctl.decisions), kept=len(dec), replays_used=used, tail='nonpreemptive')
    ctx.hit(sig, what, dict(cfg=cfg, strategy=sdesc, decisions=dec, outcome=run.ctl.outcome, gating=gating or run.gating, shrunk=info))
  return hs

def run(ctx):
  info = ctx.regen('Gen/SchedProg.v', sched_prog.translate)
  ctx.build()
  pg, protocols, core, pg_env = _pg()
  env = pg_env.install()
  rng = ctx.rng
  if info is None:
    lm = fallback_linemap(env)
    gates = [(0, 0)]
  else:
    lm = pg_env.LineMap(info, REPO, env)
    gates = sorted(lm.gate_text)
    ctx.extra['program'] = dict(acts=sum(len(p) for p in info['progs']), gates=len(gates), entries=info['entries'],
                                translator_assumptions=info['assumptions'], summarised=info['summaries'])
  # something is already broken (translation stopped / instance obligation / a proof): look for a failing schedule right away
  early_sweep = False
  if ctx.is_broken():
    ctx.log('something no longer checks: implementation-only single-preemption sweep (raw line gates, invariant oracle)')
    ctx.extra['park_sweep_full'] = park_sweep(ctx, env, budget_s=ctx.scale(60.0, 900.0), sample=None, stop_on_hit=True)
    ctx.log('sweep: %s' % ctx.extra['park_sweep_full'])
    early_sweep = True
  # corpus: the witnesses of the repaired findings (and anything kept from earlier failures) must hold now
  import glob
  from harness.lib.common import VERIF
  ncorpus = 0
  sweep_cases = []
  for f in sorted(glob.glob(os.path.join(VERIF, 'corpus', 'C16', '*.json'))):
    w = json.load(open(f))
    r = execute(ctx, w['cfg'], lm, env, lambda w=w: core.replay_strategy(w['decisions'], then=core.random_strategy(random.Random(1))))
    ncorpus += 1
    if r.ctl.outcome in ('finished', 'deadlock'):
      record_hits(ctx, r, w['cfg'], dict(kind='corpus', file=os.path.basename(f)))
  ctx.extra['corpus_replayed'] = ncorpus
  # systematic single-preemption sweep: for every gate act, a schedule that switches away right after that act
  # (thorough: every gate; quick: a seeded sample), with two co-workers of one group so that the shared paths are exercised
  if info is not None:
    sweep = list(gates) if ctx.thorough else rng.sample(gates, min(12, len(gates)))
    fired = 0
    for pi in sweep:
      cfg = gen_cfg(rng)
      for w in cfg['workers'][:2]:
        w['group'], w['gnone'] = 0, False
      seed = rng.randrange(1 << 30)
      strat = [None]
      def fac(pi=pi, seed=seed):
        strat[0] = core.preempt_at_strategy(random.Random(seed), lambda lab: lab[0] == 'L' and (lab[1], lab[2]) == tuple(pi))
        return strat[0]
      r = execute(ctx, cfg, lm, env, fac)
      sdesc = dict(kind='preempt-sweep', after=list(pi), seed=seed)
      if strat[0].state['fired']:
        fired += 1
      ctx.hist('strategy', 'preempt-sweep')
      if r.ctl.outcome in ('finished', 'deadlock'):
        record_hits(ctx, r, cfg, sdesc)
        ctx.count((json.dumps(cfg, sort_keys=True), tuple(r.ctl.decisions)), nontrivial=nontrivial(r.ctl.trace, len(cfg['workers'])), kind='preempt-sweep')
        if r.ctl.outcome == 'finished' and not lm.unmapped:
          sweep_cases.append((r.model_case(), r.observed(), describe_case(cfg, sdesc)))
      lm.unmapped = []
    ctx.extra['preempt_sweep'] = dict(gate_acts=len(gates), tried=len(sweep), preemption_fired=fired)
  nsched = ctx.scale(110, 4000) if not (early_sweep and ctx.hits) else ctx.scale(30, 300)
  budget = ctx.scale(55.0, 1000.0)
  t_start = time.time()
  cases, impl_outs, descrs = [], [], []
  est = 400
  nbad_runs = 0
  for k in range(nsched):
    if time.time() - t_start > budget:
      ctx.log('time budget reached after %d schedules' % k)
      break
    cfg = gen_cfg(rng, big=rng.random() < (0.3 if ctx.thorough else 0.1))
    sdesc, fac = gen_strategy(rng, len(cfg['workers']), est, gates)
    r = execute(ctx, cfg, lm, env, fac)
    est = max(50, (est * 3 + len(r.ctl.trace)) // 4)
    d = describe_case(cfg, sdesc)
    ctx.hist('threads', len(cfg['workers'])); ctx.hist('algorithm', cfg['algo']); ctx.hist('strategy', sdesc['kind'])
    ctx.hist('outcome', r.ctl.outcome); ctx.hist('groups', 'shared' if any(not w['gnone'] for w in cfg['workers']) else 'private')
    ctx.hist('trace_len', '%d-%d' % (len(r.ctl.trace) // 100 * 100, len(r.ctl.trace) // 100 * 100 + 99))
    if r.ctl.outcome not in ('finished', 'deadlock'):
      nbad_runs += 1
      ctx.broken.append(dict(kind='scheduler', name=r.ctl.outcome, detail=json.dumps(d)))
      continue
    hs = record_hits(ctx, r, cfg, sdesc)
    sw = sum(1 for a, b in zip(r.ctl.trace, r.ctl.trace[1:]) if a[0] != b[0])
    ctx.hist('context_switches', '%d-%d' % (sw // 50 * 50, sw // 50 * 50 + 49))
    nt = nontrivial(r.ctl.trace, len(cfg['workers']))
    ctx.count((json.dumps(cfg, sort_keys=True), tuple(r.ctl.decisions)), nontrivial=nt,
              sample=dict(d, schedule_length=len(r.ctl.trace), context_switches=sw, trials=[len(s._trials) for s in env.studies]) if nt else None, kind=sdesc['kind'])
    if info is not None and r.ctl.outcome == 'finished':
      if lm.unmapped:
        ctx.broken.append(dict(kind='line-map', name='gate without act', detail=repr(lm.unmapped[:3])))
        lm.unmapped = []
        continue
      cases.append(r.model_case()); impl_outs.append(r.observed()); descrs.append(d)
  for (mc, ob, d) in sweep_cases:
    cases.append(mc); impl_outs.append(ob); descrs.append(d)
  if info is not None:
    bad_cls = [k for k in lm.untraced if k[1] in ('done', 'skip', '_add_measurement', 'next', 'create_trial', '_complete_trial', '_mark_completed', 'propose', 'feedback', 'setup', '_propose', '_feedback', '_setup')]
    ctx.extra['untranslated_functions_seen'] = {'%s:%s' % k: v for k, v in sorted(lm.untraced.items())}
    model_outs = ctx.model_run(cases, vm_sample=ctx.scale(6, 40))
    lookup = {id(c): d for c, d in zip(cases, descrs)}
    bad = ctx.compare('Sched.run_gates on the observed schedule vs the state of the real study/algorithm (and the executed program counters)', cases, impl_outs, model_outs,
                      describe=lambda c: lookup.get(id(c)))
    ctx.traces_validated = len(cases) - len(bad)
    ctx.extra['trace_steps_validated'] = sum(len(c[2]) for c in cases)
  # always on: a small seeded sample of the implementation-only single-preemption sweep (raw (file, line) gates, distinct rewards)
  ctx.extra['park_sweep_sample'] = park_sweep(ctx, env, budget_s=ctx.scale(10.0, 120.0), sample=ctx.scale(14, 300), stop_on_hit=False)
  # when an obligation / the translation / the correspondence is broken and nothing was hit: the full sweep, budgeted
  if ctx.is_broken() and not ctx.hits and not ctx.known_hits and not early_sweep:
    ctx.log('something no longer checks: implementation-only single-preemption sweep (raw line gates, invariant oracle)')
    ctx.extra['park_sweep_full'] = park_sweep(ctx, env, budget_s=ctx.scale(60.0, 900.0), sample=None, stop_on_hit=True)
    ctx.log('sweep: %s' % ctx.extra['park_sweep_full'])
  ctx.extra['schedules_run'] = ctx.evaluations
  ctx.exhaustive = False

def replay(ctx, rp):
  pg, protocols, core, pg_env = _pg()
  env = pg_env.install()
  c = rp['case']
  lm = None
  if c.get('gating') != 'raw':
    try:
      text, info = sched_prog.translate()
      lm = pg_env.LineMap(info, REPO, env)
    except Exception as e:
      print('  (translation broken: %s; replaying with every line as a gate)' % e)
  if lm is None:
    lm = fallback_linemap(env)
  r = execute(ctx, c['cfg'], lm, env, lambda: core.replay_strategy(c['decisions'], then=core.nonpreemptive))
  hs = oracle(r)
  for h in hs:
    print('  still fails:', h)
  return not hs

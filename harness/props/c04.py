"""C04 — value-spec algebra is sound: idempotent apply, compatibility / extension narrow.

Model: coq/Model/Typing.v (spec states, apply, compat, extend).  A spec is exchanged with the model as
the tree documented there; `build` makes the real pyglove object from a tree through the public
constructors, `render` reads the state of a real object back into a tree.
"""
import copy, itertools, json, os, sys
from harness.lib import tr as trlib

META = dict(
    id='C04',
    model_run='PG.Model.Typing.run',
    model_targets=['Model/Typing.vo'],
    technique=('Coq proofs (structural induction on value specs, numeric side conditions by lia) over an executable model of '
               'ValueSpecBase.apply / is_compatible / extend, tied to the code by a differential correspondence on generated spec pairs x boundary values '
               '(exhaustive over flat specs on the parameter grid in the thorough tier) and a direct containment oracle on the real library'),
    design_ref='DESIGN.md §5 C04',
    level_text='',   # filled below
    level_note='',
    rule=('a case is (operation, spec[, spec], value) rendered as a tree; distinct by that tree; non-trivial when the operation is compat/extend, '
          'or an apply whose spec has a range, size, enum, nesting, default or frozen constraint'),
    trusted_base=['extraction: ExtrOcamlBasic only; ocaml/main.ml lexer/printer; cross-checked against vm_compute on a sample',
                  'harness/props/c04.py build/render: a spec object is read back attribute by attribute (class, _is_noneable, _default, _frozen, bounds, sizes, elements, schema fields, candidates)'],
    assumptions=['floats are dyadic rationals k/64 of moderate size (generated that way); strings are short; regular expressions, user transforms, Callable/Type specs, forward references are outside the model'],
)
META['level_text'] = (
    'Theorems over Model/Typing.v for every spec built from Bool/Int/Float/Str/Enum/List/Tuple/Dict/Object/Union/Any with any ranges, sizes, flags and nesting: '
    'apply idempotent and default acceptable (every class incl. Union under the decidable union_plain proviso), compatibility sound for the code as it is under a syntactic avoids hypothesis '
    '(Union receivers under the decidable union_safe proviso), extension narrows / base compatible (children incl. frozen and Enum ones; no Union / Dict schema), schema shared-field corollary; '
    'Dict schema extension when the child declares no new key, schema-level is_compatible soundness, compat reflexivity, frozen base, Union base and Union child with safe dispatch; '
    'refutation witnesses for every dropped hypothesis; see design/C04.md for the exact statements (partial ones are named _partial). '
    'Tie: the model is run against ValueSpec.apply / is_compatible / extend of the working tree on every generated case; '
    'a direct oracle re-checks the containments with the real library on boundary and random values.')
META['level_note'] = (
    'Trusted: Coq kernel; the harness (generators, build/render, canonicalisation); extraction cross-checked against vm_compute. '
    'Modelled, not verified: the Python code itself is related to the model only by the correspondence. '
    '"apply never changes the spec" is definitional in the pure model and is decided by the correspondence (spec == deepcopy before, rendered state equal).')

# ------------------------------------------------------------------------------------------------
# the library under test

def T():
  import pyglove as pg
  return pg.typing

def MISSING():
  import pyglove as pg
  return pg.MISSING_VALUE

class Obj:
  """Plain user classes for Object specs; == is (class, ident) so deep copies stay equal."""
  PATH = None
  def __init__(self, ident=0): self.ident = ident
  def __eq__(self, o): return type(o) is type(self) and o.ident == self.ident
  def __ne__(self, o): return not self.__eq__(o)
  def __hash__(self): return hash((type(self).__name__, self.ident))
  def __repr__(self): return '%s#%d' % (type(self).__name__, self.ident)
class A(Obj): PATH = (0,)
class B(A): PATH = (0, 0)
class C(A): PATH = (0, 1)
class D(B): PATH = (0, 0, 0)
class X(Obj): PATH = (1,)
CLASSES = {c.PATH: c for c in (A, B, C, D, X)}

ERR = {TypeError: 1, ValueError: 2, KeyError: 3}
def err_code(e):
  return ERR.get(type(e), 9)

class Unrenderable(Exception):
  pass

# ---- values ---------------------------------------------------------------------------------------
def render_value(v):
  import pyglove as pg
  if v is None: return [0]
  if isinstance(v, pg.utils.MissingValue): return [1]
  if isinstance(v, bool): return [2, int(v)]
  if isinstance(v, int): return [3, v]
  if isinstance(v, float):
    q = v * 64
    if q != int(q): raise Unrenderable('float %r is not a multiple of 1/64' % v)
    return [4, int(q)]
  if isinstance(v, str): return [5, [ord(c) for c in v]]
  if isinstance(v, list): return [6, [render_value(x) for x in v]]
  if isinstance(v, tuple): return [7, [render_value(x) for x in v]]
  if isinstance(v, dict):
    out = []
    for k, x in v.items():
      if not isinstance(k, str): raise Unrenderable('non-str key %r' % (k,))
      out.append([[ord(c) for c in k], render_value(x)])
    return [8, out]
  if isinstance(v, Obj): return [9, list(type(v).PATH), v.ident]
  raise Unrenderable('value %r' % (v,))

def build_value(t):
  k = t[0]
  if k == 0: return None
  if k == 1: return MISSING()
  if k == 2: return bool(t[1])
  if k == 3: return int(t[1])
  if k == 4: return t[1] / 64.0
  if k == 5: return ''.join(chr(c) for c in t[1])
  if k == 6: return [build_value(x) for x in t[1]]
  if k == 7: return tuple(build_value(x) for x in t[1])
  if k == 8: return {''.join(chr(c) for c in kk): build_value(x) for kk, x in t[1]}
  if k == 9: return CLASSES[tuple(t[1])](t[2])
  raise ValueError(t)

def show_value(t):
  try:
    return repr(build_value(t))
  except Exception:
    return str(t)

# ---- specs ------------------------------------------------------------------------------------------
def _opt(x): return [] if x is None else [x]
def _unopt(t): return t[0] if t else None

def render_mods(s):
  import pyglove as pg
  d = s._default
  return [int(bool(s._is_noneable)), [] if isinstance(d, pg.utils.MissingValue) else [render_value(d)], int(bool(s._frozen))]

def _f64(x):
  if x is None: return None
  q = x * 64
  if q != int(q): raise Unrenderable('bound %r' % x)
  return int(q)

def render(s):
  """State of a real spec object -> model tree."""
  t = T()
  from pyglove.core.typing import key_specs
  c = type(s)
  if c is t.Bool: return [0, render_mods(s)]
  if c is t.Int: return [1, _opt(s.min_value), _opt(s.max_value), render_mods(s)]
  if c is t.Float: return [2, _opt(_f64(s.min_value)), _opt(_f64(s.max_value)), render_mods(s)]
  if c is t.Str:
    if s.regex is not None: raise Unrenderable('regex')
    return [3, render_mods(s)]
  if c is t.Enum: return [4, [render_value(v) for v in s.values], render_mods(s)]
  if c is t.List: return [5, render(s.element.value), s.min_size, _opt(s.max_size), render_mods(s)]
  if c is t.Tuple: return [6, [render(e.value) for e in s.elements], s.min_size, _opt(s.max_size), render_mods(s)]
  if c is t.Dict:
    if s.schema is None:
      sc = []
    else:
      fs = []
      for k, f in s.schema.fields.items():
        if isinstance(k, key_specs.ConstStrKey): kk = [0, [ord(ch) for ch in k.text]]
        elif isinstance(k, key_specs.StrKey) and k.regex is None: kk = [1]
        else: raise Unrenderable('key %r' % k)
        fs.append([kk, render(f.value)])
      sc = [fs]
    return [7, sc, render_mods(s)]
  if c is t.Object: return [8, list(s.cls.PATH), render_mods(s)]
  if c is t.Union: return [9, [render(x) for x in s.candidates], render_mods(s)]
  if c is t.Any: return [10, render_mods(s)]
  raise Unrenderable('spec %r' % s)

def mods_of(tree):
  return tree[-1]

def build(tree):
  """Model tree -> a fresh real spec object, through the public constructors only."""
  t = T()
  from pyglove.core.typing import key_specs
  k = tree[0]
  n, d, fz = mods_of(tree)
  n, fz = bool(n), bool(fz)
  has_d = bool(d)
  dv = build_value(d[0]) if has_d else MISSING()
  kw = dict(is_noneable=n, frozen=fz)
  if k == 0: s = t.Bool(dv, **kw)
  elif k == 1: s = t.Int(dv, _unopt(tree[1]), _unopt(tree[2]), **kw)
  elif k == 2:
    lo, hi = _unopt(tree[1]), _unopt(tree[2])
    s = t.Float(dv, None if lo is None else lo / 64.0, None if hi is None else hi / 64.0, **kw)
  elif k == 3: s = t.Str(dv, **kw)
  elif k == 4:
    vals = [build_value(v) for v in tree[1]]
    s = t.Enum(dv, vals, frozen=fz)
    if bool(s.is_noneable) != n: raise Unrenderable('enum noneable flag')
  elif k == 5: s = t.List(build(tree[1]), dv, min_size=tree[2], max_size=_unopt(tree[3]), **kw)
  elif k == 6:
    es, mn, mx = tree[1], tree[2], _unopt(tree[3])
    if mx is not None and mx == mn:
      if len(es) != mn: raise Unrenderable('fixed tuple with %d elements and size %d' % (len(es), mn))
      if mn == 0: s = t.Tuple(t.Any(), dv, size=0, **kw)
      else: s = t.Tuple([build(e) for e in es], dv, **kw)
    else:
      if len(es) != 1: raise Unrenderable('variable tuple with %d elements' % len(es))
      s = t.Tuple(build(es[0]), dv, min_size=mn, max_size=mx, **kw)
  elif k == 7:
    if not tree[1]:
      s = t.Dict(None, dv, **kw)
    else:
      fields = []
      for kk, fs in tree[1][0]:
        key = ''.join(chr(c) for c in kk[1]) if kk[0] == 0 else key_specs.StrKey()
        fields.append((key, build(fs)))
      s = t.Dict(fields, dv, **kw)
  elif k == 8: s = t.Object(CLASSES[tuple(tree[1])], dv, **kw)
  elif k == 9: s = t.Union([build(c) for c in tree[1]], dv, **kw)
  elif k == 10: s = t.Any(dv, frozen=fz)
  else: raise ValueError(tree)
  return s

KIND = ['Bool', 'Int', 'Float', 'Str', 'Enum', 'List', 'Tuple', 'Dict', 'Object', 'Union', 'Any']
def kind(tree): return KIND[tree[0]]

def show(tree):
  try:
    return build(tree).format(compact=True)
  except Exception as e:
    return 'unbuildable(%s) %s' % (e, trlib.to_line(tree))

# ------------------------------------------------------------------------------------------------
# generators (trees in the model's wire format; canonicalised through build + render)

GRID = [None, 0, 1, 2, 5]
STRS = ['a', 'b', 'x']
def S(x): return [ord(c) for c in x]
def V(v): return render_value(v)

ENUM_SETS = [['a', 'b'], ['a'], ['a', 'b', 'x'], [1, 2], [1], [0, 1, 2, 5], [1, 'a'], [True, False], [1.0, 2.0], [1, 2.5], ['a', None], [1, None],
             [True, 2], [0.5, 1.5],
             # mixed-type candidate lists whose values are == across types (1 == 1.0 == True, 0 == 0.0 == False)
             [1.0, 2], [1, 2.0], [True, 2.0], [1.0, False], [0.0, 1], [0, 1], [False, 1], [True, 0.0], [0.0, 1.0], [True, False, 2],
             [1.0, 2, None], [0, 1.0, 'a'], [1, 2, 'a'], [True, 'a'], [1.0, 'a', None], [2, 1.0, True]]

def canon(tree):
  """tree -> canonical tree of the constructed object, or None when the constructors refuse it."""
  try:
    c = render(build(tree))
    # the canonical tree must rebuild to itself (a Union default can move when re-applied: open finding)
    return c if render(build(c)) == c else None
  except (ValueError, TypeError, KeyError, Unrenderable):
    return None

def gen_ranges(rng, values):
  lo, hi = rng.choice(values), rng.choice(values)
  if lo is not None and hi is not None and lo > hi: lo, hi = hi, lo
  return lo, hi

class SpecGen:
  def __init__(self, rng, ctx=None):
    self.r = rng
    self.ctx = ctx

  def bare(self, depth, kinds=None):
    """A spec tree without default/frozen (mods = noneable only)."""
    r = self.r
    ks = kinds or (['Bool', 'Int', 'Float', 'Str', 'Enum', 'Object', 'Any'] * 2 + (['List', 'Tuple', 'TupleVar', 'Dict', 'Union'] * 3 if depth > 0 else []))
    k = r.choice(ks)
    n = int(r.random() < 0.3)
    m = [n, [], 0]
    if k == 'Bool': return [0, m]
    if k == 'Int':
      lo, hi = gen_ranges(r, GRID); return [1, _opt(lo), _opt(hi), m]
    if k == 'Float':
      lo, hi = gen_ranges(r, [None, 0, 32, 64, 96, 128, 320]); return [2, _opt(lo), _opt(hi), m]
    if k == 'Str': return [3, m]
    if k == 'Enum':
      vals = list(r.choice(ENUM_SETS))
      if n and None not in vals: vals.append(None)
      return [4, [V(v) for v in vals], [int(None in vals), [], 0]]
    if k == 'Object': return [8, list(r.choice(list(CLASSES))), m]
    if k == 'Any': return [10, [1, [], 0]]
    if k == 'List':
      mn = r.choice([0, 0, 1, 2]); mx = r.choice([None, None, 0, 1, 2, 5])
      if mx is not None and mx < mn: mx = mn
      return [5, self.spec(depth - 1), mn, _opt(mx), m]
    if k == 'Tuple':
      return self._fixed([self.spec(depth - 1) for _ in range(r.choice([1, 1, 2, 2, 3]))], m)
    if k == 'TupleVar':
      mn = r.choice([0, 0, 1, 2]); mx = r.choice([None, None, 1, 2, 5])
      if mx is not None and mx <= mn: mx = mn + 1
      return [6, [self.spec(depth - 1)], mn, _opt(mx), m]
    if k == 'Dict':
      if r.random() < 0.15: return [7, [], m]
      keys = r.sample(['a', 'b', 'c', 'x'], r.choice([0, 1, 1, 2, 2, 3]))
      fs = [[[0, S(kk)], self.spec(depth - 1)] for kk in keys]
      if r.random() < 0.3:
        fs.insert(r.randint(0, len(fs)), [[1], self.spec(depth - 1)])
      return [7, [fs], m]
    if k == 'Union':
      cands, seen = [], set()
      for _ in range(r.choice([2, 2, 3])):
        c = self.spec(depth - 1, no_union=r.random() < 0.8)
        key = (c[0], tuple(c[1]) if c[0] == 8 else None)
        if c[0] == 4: key = (4, trlib.to_line(c[1]))
        if key in seen: continue
        seen.add(key); cands.append(c)
      if len(cands) < 2: return self.bare(depth, ['Int', 'Str'])
      nn = int(n or any(mods_of(c)[0] for c in cands))
      return [9, cands, [nn, [], 0]]
    raise ValueError(k)

  def _fixed(self, es, m):
    return [6, es, len(es), [len(es)], m]

  def spec(self, depth, no_union=False, want_default=None):
    """A canonical spec tree with random default / frozen."""
    r = self.r
    for _ in range(20):
      t = self.bare(depth)
      if no_union and t[0] == 9: continue
      t = canon(t)
      if t is None: continue
      p = r.random() if want_default is None else (0.9 if want_default else 0.0)
      if p > 0.55:
        t2 = self.with_default(t, frozen=r.random() < 0.4)
        if t2 is not None: t = t2
      return t
    return [1, [], [], [0, [], 0]]

  def with_default(self, t, frozen=False):
    """Picks a default the spec accepts (through the constructor, so it is the applied value)."""
    cands = [v for v in values_for(t, self.r, limit=12) if v != [1]]
    self.r.shuffle(cands)
    for v in cands[:8]:
      t2 = copy.deepcopy(t)
      t2[-1] = [t[-1][0], [v], int(frozen)]
      c = canon(t2)
      if c is not None: return c
    return None

# ---- candidate values ---------------------------------------------------------------------------------
LEAVES = [[0], [1], V(True), V(False), V(0), V(1), V(2), V(5), V(-1), V(6), V(1.0), V(0.0), V(0.5), V(1.5), V(2.0), V(5.0), V(5.5), V('a'), V('b'), V('z'),
          V([]), V(()), V({}), V(A(1)), V(B(1)), V(X(1))]

def num_variants(z64):
  """All Python numbers equal to z64/64: float always, int when integral, bool when 0 or 1."""
  out = [[4, z64]]
  if z64 % 64 == 0:
    out.append([3, z64 // 64])
    if z64 in (0, 64): out.append([2, z64 // 64])
  return out

def variants(v):
  """Values that Python's == identifies with v (numeric tower), for leaves."""
  if v[0] == 2: return num_variants(64 * v[1])
  if v[0] == 3: return num_variants(64 * v[1])
  if v[0] == 4: return num_variants(v[1])
  return [v]

def values_for(t, rng, limit=40, depth=3):
  """Boundary and typical values for a spec tree (valid and just-invalid ones)."""
  out = []
  def add(v):
    if v not in out: out.append(v)
  k = t[0]
  n, d, fz = mods_of(t)
  add([0]); add([1])
  if d:
    for v in variants(d[0]): add(v)
  if k == 0:
    for v in (V(True), V(False), V(1), V(0)): add(v)
  elif k in (1, 2):
    unit = 64 if k == 1 else 1
    for b in (t[1], t[2]):
      if b:
        for z in (b[0] * unit - 64, b[0] * unit, b[0] * unit + 64, b[0] * unit - 32, b[0] * unit + 32):
          for v in num_variants(z): add(v)
    for v in (V(0), V(1), V(3), V(True), V(1.0), V(2.5), V(-1), V(7)): add(v)
  elif k == 3:
    for v in (V('a'), V('b'), V(''), V(1)): add(v)
  elif k == 4:
    for x in t[1]:
      for v in variants(x): add(v)
    for v in (V('z'), V(7), V(7.0), V(True)): add(v)
  elif k == 5:
    ev = values_for(t[1], rng, 8, depth - 1) if depth > 0 else [V(1)]
    good = [v for v in ev if v != [1]]
    sizes = {0, 1, t[2], max(t[2] - 1, 0)}
    if t[3]: sizes |= {t[3][0], t[3][0] + 1}
    for sz in sorted(sizes):
      if sz <= 7:
        add([6, [rng.choice(good) for _ in range(sz)]])
        add([6, [good[i % len(good)] for i in range(sz)]])
    add([7, []]); add(V(1))
  elif k == 6:
    es, mn, mx = t[1], t[2], _unopt(t[3])
    if mx is not None and mx == mn and len(es) == mn:
      per = [[v for v in values_for(e, rng, 6, depth - 1) if v != [1]] if depth > 0 else [V(1)] for e in es]
      for _ in range(4):
        add([7, [rng.choice(p) for p in per]])
      add([7, [p[0] for p in per]])
      add([7, [p[0] for p in per][:-1]]); add([7, [p[0] for p in per] + [V(1)]])
    elif es:
      ev = [v for v in values_for(es[0], rng, 8, depth - 1) if v != [1]] if depth > 0 else [V(1)]
      sizes = {0, 1, mn, max(mn - 1, 0)}
      if mx is not None: sizes |= {mx, mx + 1}
      for sz in sorted(sizes):
        if sz <= 7:
          add([7, [rng.choice(ev) for _ in range(sz)]])
    add([6, []]); add(V('a'))
  elif k == 7:
    if not t[1]:
      add([8, []]); add([8, [[S('a'), V(1)]]]); add([8, [[S('q'), [0]]]])
    else:
      fs = t[1][0]
      consts = [(f[0][1], f[1]) for f in fs if f[0][0] == 0]
      dyn = [f[1] for f in fs if f[0][0] == 1]
      per = {tuple(kk): (values_for(fsx, rng, 6, depth - 1) if depth > 0 else [V(1)]) for kk, fsx in consts}
      for _ in range(5):
        kv = []
        for kk, fsx in consts:
          if rng.random() < 0.8: kv.append([kk, rng.choice(per[tuple(kk)])])
        if dyn and rng.random() < 0.6:
          dv = values_for(dyn[0], rng, 6, depth - 1) if depth > 0 else [V(1)]
          kv.append([S(rng.choice(['q', 'r'])), rng.choice(dv)])
        rng.shuffle(kv)
        add([8, kv])
      add([8, []])
      add([8, [[kk, [v for v in per[tuple(kk)] if v != [1]][0]] for kk, _ in consts]])
      add([8, [[kk, [v for v in per[tuple(kk)] if v != [1]][-1]] for kk, _ in consts] + [[S('zz'), V(1)]]])
    add(V(1)); add([6, []])
  elif k == 8:
    for c in CLASSES.values(): add(V(c(1)))
    add(V(A(2))); add(V(1))
  elif k == 9:
    for c in t[1]:
      for v in values_for(c, rng, 10, depth - 1) if depth > 0 else [V(1)]: add(v)
  elif k == 10:
    for v in LEAVES[:12]: add(v)
  if len(out) > limit:
    head = out[:4]
    rest = out[4:]
    rng.shuffle(rest)
    out = head + rest[:limit - 4]
  return out

# ------------------------------------------------------------------------------------------------
# running the implementation

def accepts(spec, vtree, partial=False):
  try:
    spec.apply(build_value(vtree), allow_partial=partial)
    return True
  except (TypeError, ValueError, KeyError):
    return False

def acc_py(spec, v):
  try:
    spec.apply(copy.deepcopy(v))
    return True
  except (TypeError, ValueError, KeyError):
    return False

def val_py(spec, v):
  """v is a value of spec: apply returns it unchanged."""
  try:
    out = spec.apply(copy.deepcopy(v))
  except (TypeError, ValueError, KeyError):
    return False
  return safe_value(out) == safe_value(v)

def impl_apply(spec, vtree, partial):
  """-> (outcome tree, returned python value or None)"""
  try:
    out = spec.apply(build_value(vtree), allow_partial=partial)
  except (TypeError, ValueError, KeyError) as e:
    return [1, err_code(e)], None, False
  except Exception as e:    # any other exception class is outside the model: reported as code 9
    return [1, 9], None, False
  try:
    return [0, render_value(out)], out, True
  except Unrenderable:
    return [0, [99]], out, True

def impl_compat(a, b):
  return [int(bool(a.is_compatible(b)))]

def impl_extend(c, b):
  """c is consumed (mutated).  -> (outcome tree, resulting spec or None)"""
  try:
    r = c.extend(b)
  except (TypeError, ValueError, KeyError) as e:
    return [1, err_code(e)], None
  except Exception as e:
    return [1, 9], None
  try:
    return [0, render(r)], r
  except Unrenderable:
    return [0, [99]], r

# ------------------------------------------------------------------------------------------------
# the direct oracle (the property text on the real objects)

def cname(s): return type(s).__name__

def children(x, y, v):
  """Aligned (sub-spec of x, sub-spec of y, component of v) triples, following the structure both specs share."""
  t = T()
  out = []
  if isinstance(x, t.List) and isinstance(y, t.List) and isinstance(v, list):
    out += [(x.element.value, y.element.value, e) for e in v]
  elif isinstance(x, t.Tuple) and isinstance(y, t.Tuple) and isinstance(v, tuple):
    for i, e in enumerate(v):
      xe = x.elements[i].value if x.fixed_length and i < len(x.elements) else (x.elements[0].value if x.elements and not x.fixed_length else None)
      ye = y.elements[i].value if y.fixed_length and i < len(y.elements) else (y.elements[0].value if y.elements and not y.fixed_length else None)
      if xe is not None and ye is not None: out.append((xe, ye, e))
  elif isinstance(x, t.Dict) and isinstance(y, t.Dict) and isinstance(v, dict) and x.schema is not None and y.schema is not None:
    for k, e in v.items():
      fx, fy = x.schema.get_field(k), y.schema.get_field(k)
      if fx is not None and fy is not None and fx.key == fy.key: out.append((fx.value, fy.value, e))
  return out

def localise(x, y, v, rel, into_candidates=True):
  """x rejects v, y accepts v, rel(x, y) holds: the innermost aligned sub-triple with the same shape."""
  t = T()
  if not x.frozen:
    for cx, cy, cv in children(x, y, v):
      if rel(cx, cy) and val_py(cy, cv) and not acc_py(cx, cv):
        return localise(cx, cy, cv, rel, into_candidates)
    if isinstance(x, t.Union) and isinstance(y, t.Union):
      for oc in y.candidates:
        if rel(x, oc) and val_py(oc, v) and not acc_py(x, v):
          return localise(x, oc, v, rel, into_candidates)
    elif isinstance(x, t.Union) and into_candidates:
      # the candidate that vouches for y refuses the value itself
      for c in x.candidates:
        if rel(c, y) and c.is_compatible(y) and not acc_py(c, v):
          return localise(c, y, v, rel, into_candidates)
  return x, y, v

def classify_compat(a, b, v):
  t = T()
  if a.frozen:
    return 'C04/compat-sound/is_compatible/frozen-receiver', 'a frozen spec declares itself compatible with a spec that accepts other values'
  if isinstance(a, t.List) and isinstance(b, t.List) and isinstance(v, list) and len(v) < a.min_size:
    return 'C04/compat-sound/List._is_compatible/min_size-ignored', 'List._is_compatible ignores min_size'
  if isinstance(a, t.Union) and v is None:
    return 'C04/compat-sound/Union.is_compatible/noneable-ignored', 'Union.is_compatible ignores that the other spec accepts None'
  if isinstance(a, t.Union) and not isinstance(b, t.Union) and any(c.is_compatible(b) and acc_py(c, v) for c in a.candidates):
    return ('C04/compat-sound/Union.is_compatible/earlier-candidate-captures-value',
            'Union.is_compatible is satisfied by any compatible candidate, but Union.apply hands the value to the first candidate whose value type matches (bool is an int, Any matches everything), which refuses it')
  if isinstance(a, t.Enum) and b.frozen:
    return 'C04/compat-sound/Enum.is_compatible/frozen-shortcut-ignores-value-type', 'Enum.is_compatible accepts a frozen sender whose value is == a candidate, but values == to it of another numeric type are refused by the Enum type check'
  if isinstance(a, t.Enum) and isinstance(b, t.Enum):
    return 'C04/compat-sound/Enum._is_compatible/subset-ignores-value-type', 'Enum._is_compatible compares candidates with == only; the other Enum accepts numbers of a type this Enum refuses'
  return 'C04/compat-sound/%s<-%s/value-%s' % (cname(a), cname(b), type(v).__name__), '%s declares itself compatible with %s but refuses a value it accepts' % (cname(a), cname(b))

# The property is read over the values of the sender (what its apply returns unchanged).  Inputs the sender
# only accepts by converting / completing / replacing them (MISSING_VALUE, an omitted key filled from its own
# default, a value == its frozen value) and that the receiver refuses are NOT failures of the property; they are
# only counted (evidence histogram 'literal_input_reading').
LITERAL = {'compat': 0, 'extend': 0}

def total(vt):
  """No MISSING_VALUE anywhere inside the rendered value."""
  if vt == [1]: return False
  if vt[0] in (6, 7): return all(total(x) for x in vt[1])
  if vt[0] == 8: return all(total(x) for _, x in vt[1])
  return True

def applied(spec, vtree):
  """-> (accepted?, rendered result or None)"""
  try:
    out = spec.apply(build_value(vtree))
  except (TypeError, ValueError, KeyError):
    return False, None
  return True, safe_value(out)

def check_compat(a, b, values, hit, case):
  """a.is_compatible(b) -> every value of b (what b.apply returns, a fixed point of b) is accepted by a;
  and, read literally, every input b accepts is accepted by a."""
  n = 0
  if not a.is_compatible(b):
    return n
  seen = []
  for vt in values:
    n += 1
    ok, out = applied(b, vt)
    if not ok: continue
    if isinstance(out, list) and out not in seen and total(out):
      seen.append(out)
      if not accepts(a, out):
        x, y, v = localise(a, b, build_value(out), lambda p, q: p.is_compatible(q))
        sig, what = classify_compat(x, y, v)
        hit(sig, '%s: %r.is_compatible(%r) is True, %r is a value of the latter (apply returns it unchanged), refused by the former' % (what, x, y, v),
            dict(case, value=out, local=dict(a=safe_render(x), b=safe_render(y), value=safe_value(v))))
        continue
    if out != vt and not accepts(a, vt):
      LITERAL['compat'] += 1
  return n

def safe_render(s):
  try: return render(s)
  except Exception: return repr(s)
def safe_value(v):
  try: return render_value(v)
  except Exception: return repr(v)

def project(b, v, r=None):
  """v restricted to the fields the base b and the extended spec r share (declared by the same key spec in both schemas)."""
  t = T()
  if isinstance(b, t.Union) or isinstance(r, t.Union):
    # through a Union: the candidate of the extended spec that yields the value and the base candidate of its class
    def flat(u):
      out = []
      for c in (u.candidates if isinstance(u, t.Union) else [u]): out += flat(c) if isinstance(c, t.Union) else [c]
      return out
    rc = next((c for c in flat(r) if val_py(c, v)), None) if r is not None else None
    bc = next((c for c in flat(b) if rc is not None and type(c) is type(rc)), None)
    if rc is None or bc is None: return v
    return project(bc, v, rc)
  if isinstance(b, t.Dict) and isinstance(v, dict) and b.schema is not None:
    rs = r.schema if isinstance(r, t.Dict) else None
    out = {}
    for k, e in v.items():
      f = b.schema.get_field(k) if isinstance(k, str) else None
      if f is None: continue
      fr = rs.get_field(k) if rs is not None else None
      if rs is not None and (fr is None or fr.key != f.key): continue
      out[k] = project(f.value, e, fr.value if fr is not None else None)
    return out
  if isinstance(b, t.List) and isinstance(v, list):
    return [project(b.element.value, e, r.element.value if isinstance(r, t.List) else None) for e in v]
  if isinstance(b, t.Tuple) and isinstance(v, tuple) and b.elements:
    def el(s_, i):
      if not isinstance(s_, t.Tuple) or not s_.elements: return None
      return s_.elements[i if s_.fixed_length and i < len(s_.elements) else 0].value
    return tuple(project(el(b, i), e, el(r, i)) for i, e in enumerate(v))
  return v

def restrict_tree(rt, bt):
  """The extended spec tree rt without the schema fields the base tree bt does not declare (recursively)."""
  rt = copy.deepcopy(rt)
  if rt[0] == 7 and bt[0] == 7 and rt[1] and bt[1]:
    bkeys = {trlib.to_line(f[0]): f[1] for f in bt[1][0]}
    fs = []
    dropped = False
    for kk, fsx in rt[1][0]:
      kl = trlib.to_line(kk)
      if kl in bkeys: fs.append([kk, restrict_tree(fsx, bkeys[kl])])
      else: dropped = True
    rt[1] = [fs]
    n, d, fz = rt[-1]
    if d and d[0][0] == 8:
      keep = {tuple(f[0][1]) for f in fs if f[0][0] == 0}
      has_dyn = any(f[0][0] == 1 for f in fs)
      d = [[8, [[k, x] for k, x in d[0][1] if tuple(k) in keep or has_dyn]]]
      if not fz: d = []
    rt[-1] = [n, d, fz]
  elif rt[0] == 5 and bt[0] == 5:
    rt[1] = restrict_tree(rt[1], bt[1]); rt[-1] = [rt[-1][0], [] if not rt[-1][2] else rt[-1][1], rt[-1][2]]
  elif rt[0] == 6 and bt[0] == 6 and rt[1] and bt[1]:
    bfix = bool(bt[3]) and bt[3][0] == bt[2]
    rt[1] = [restrict_tree(e, bt[1][i] if bfix and i < len(bt[1]) else bt[1][0]) for i, e in enumerate(rt[1])]
    rt[-1] = [rt[-1][0], [] if not rt[-1][2] else rt[-1][1], rt[-1][2]]
  elif rt[0] == 9 and bt[0] == 9:
    def flat(u):
      out = []
      for c in u[1]: out += flat(c) if c[0] == 9 else [c]
      return out
    bc = flat(bt)
    rt[1] = [next((restrict_tree(c, x) for x in bc if x[0] == c[0] and c[0] != 9), c) for c in rt[1]]
  elif rt[0] != 9 and bt[0] == 9:
    for x in bt[1]:
      if x[0] == rt[0]: return restrict_tree(rt, x)
  return rt

def shared_compat(b, c):
  """b.is_compatible(c) on the fields they share: -> None, or the innermost pair that is not compatible."""
  t = T()
  if b.is_compatible(c):
    return None
  try:
    c2 = build(restrict_tree(render(c), render(b)))
  except (Unrenderable, TypeError, ValueError, KeyError):
    return None       # the restriction is not constructible: no claim
  if b.is_compatible(c2):
    return None
  # innermost failing pair, for the signature
  if not b.frozen:
    if isinstance(b, t.List) and isinstance(c2, t.List) and not b.element.value.is_compatible(c2.element.value):
      return shared_compat(b.element.value, c2.element.value) or (b, c2)
    if isinstance(b, t.Tuple) and isinstance(c2, t.Tuple) and b.elements and c2.elements and (
        not b.fixed_length or (c2.fixed_length and len(b.elements) == len(c2.elements))):
      for i, ec in enumerate(c2.elements):
        eb = b.elements[i] if b.fixed_length else b.elements[0]
        if not eb.value.is_compatible(ec.value):
          return shared_compat(eb.value, ec.value) or (b, c2)
    if isinstance(b, t.Dict) and isinstance(c2, t.Dict) and b.schema is not None and c2.schema is not None:
      for k, f in b.schema.fields.items():
        if k in c2.schema.fields and not f.value.is_compatible(c2.schema.fields[k].value):
          return shared_compat(f.value, c2.schema.fields[k].value) or (b, c2)
  return (b, c2)

def classify_extend(kind_, c0, b, r, x=None, y=None, v=None):
  """kind_: narrows | base-compatible | default"""
  t = T()
  op = '%s.extend(%s)' % (cname(c0), cname(b))
  if kind_ == 'narrows':
    if isinstance(y, t.Tuple) and isinstance(x, t.Tuple) and y.fixed_length and len(y.elements) != y.min_size:
      return 'C04/extend-narrows/Tuple._extend/variable-sizes-meet', 'a variable-length Tuple whose sizes meet after extension keeps one element field and accepts 1-tuples'
    def frozen_nested(u):
      """a frozen nested Union candidate, one of whose own candidates accepts the value"""
      for c in u.candidates:
        if isinstance(c, t.Union):
          if c.frozen and any((not isinstance(cc, t.Union)) and acc_py(cc, v) for cc in c.candidates): return True
          if frozen_nested(c): return True
      return False
    if isinstance(x, t.Union) and frozen_nested(x):
      return ('C04/extend-narrows/extend(Union)/candidate-inside-a-frozen-nested-union',
              'Union.get_candidate descends into a nested Union candidate that is frozen and returns one of its candidates; extend checks the frozen flag of that candidate only, so the child extends it although the frozen nested Union lets nothing but its frozen value through')
    if isinstance(x, t.Union) and any(acc_py(c, v) for c in x.candidates):
      return ('C04/extend-narrows/extend(Union)/earlier-candidate-captures-value',
              'a spec extends the matching candidate of a Union base, but Union.apply hands the value to the first candidate whose value type matches (bool is an int, Any matches everything), which refuses it')
    if isinstance(y, t.Dict) and y.frozen:
      return 'C04/extend-narrows/Dict._extend/frozen-default-regenerated', 'Dict._extend replaces the (frozen) default by the schema-generated one'
    return 'C04/extend-narrows/%s.extend(%s)/value-%s' % (cname(y), cname(x), type(v).__name__), 'the extended spec accepts a value the base refuses'
  if kind_ == 'base-compatible':
    if isinstance(y, t.Enum) and not isinstance(x, t.Enum):
      return 'C04/extend-base-compatible/Enum.extend(non-Enum)/base-not-compatible', 'an Enum may extend a non-Enum base, but the base never declares itself compatible with an Enum'
    return 'C04/extend-base-compatible/%s.extend(%s)/not-compatible' % (cname(y), cname(x)), 'the base spec is not compatible with the spec that extended it'
  return 'C04/default-acceptable/%s/stale-default-after-extend' % op, 'after extension the default of the extended spec is no longer acceptable to it'

def check_extend(c0, b, r, values, hit, case):
  """r = c0.extend(b) succeeded: every value of r is accepted by b on the fields they share, b is compatible with r
  on the fields they share, r's default is acceptable to r."""
  import pyglove as pg
  n = 0
  seen = []
  for vt in values:
    n += 1
    ok, out = applied(r, vt)
    if not ok: continue
    if isinstance(out, list) and out not in seen and total(out):
      seen.append(out)
      pv_ = project(b, build_value(out), r)
      if not acc_py(b, pv_):
        x, y, lv = localise(b, r, pv_, lambda p, q: True, into_candidates=False)
        sig, what = classify_extend('narrows', c0, b, r, x, y, lv)
        hit(sig, '%s: %r is a value of the extended %r, base %r refuses it' % (what, lv, y, x), dict(case, value=out))
        continue
    if out != vt and not acc_py(b, project(b, build_value(vt), r)):
      LITERAL['extend'] += 1
  bad = shared_compat(b, r)
  if bad is not None:
    sig, what = classify_extend('base-compatible', c0, b, r, bad[0], bad[1])
    hit(sig, '%s: %r.is_compatible(%r) is False' % (what, bad[0], bad[1]), case)
  if not isinstance(r.default, pg.utils.MissingValue):
    if not default_ok(r):
      sig, what = classify_extend('default', c0, b, r)
      hit(sig, '%s: %r' % (what, r), case)
  return n

def default_ok(s):
  d = s.default
  try:
    out = s.apply(copy.deepcopy(d), allow_partial=True)
  except (TypeError, ValueError, KeyError):
    return False
  return out == d

def idem_ok(spec, v, partial):
  """apply(v) succeeds -> apply(apply(v)) succeeds and equals it.  -> (ok, out, out2 or exception name)"""
  try:
    out = spec.apply(copy.deepcopy(v), allow_partial=partial)
  except (TypeError, ValueError, KeyError):
    return True, None, None
  try:
    out2 = spec.apply(copy.deepcopy(out), allow_partial=partial)
  except (TypeError, ValueError, KeyError) as e:
    return False, out, type(e).__name__
  return (out2 == out and safe_value(out2) == safe_value(out)), out, out2

def localise_apply(spec, v, partial):
  """The innermost (spec, value) on which apply is not idempotent."""
  t = T()
  if not spec.frozen:
    subs = []
    if isinstance(spec, t.List) and isinstance(v, list): subs = [(spec.element.value, e) for e in v]
    elif isinstance(spec, t.Tuple) and isinstance(v, tuple) and spec.elements:
      subs = [(spec.elements[i if spec.fixed_length and i < len(spec.elements) else 0].value, e) for i, e in enumerate(v)]
    elif isinstance(spec, t.Dict) and isinstance(v, dict) and spec.schema is not None:
      subs = [(spec.schema.get_field(k).value, e) for k, e in v.items() if isinstance(k, str) and spec.schema.get_field(k) is not None]
    for cs, cv in subs:
      if not idem_ok(cs, cv, partial)[0]:
        return localise_apply(cs, cv, partial)
  return spec, v

def check_apply(spec, tree, vtree, partial, out, hit, case):
  """apply on an accepted value: the result is accepted again and maps to itself."""
  ok, o1, o2 = idem_ok(spec, build_value(vtree), partial)
  if ok: return
  ls, lv = localise_apply(spec, build_value(vtree), partial)
  ok, o1, o2 = idem_ok(ls, lv, partial)
  t = T()
  if isinstance(ls, t.Union):
    sig = 'C04/apply-idempotent/Union/result-dispatches-to-another-candidate'
    what = 'Union.apply returns what the accepting candidate returns (e.g. its frozen value), and that value is dispatched to a different candidate when applied again'
  else:
    sig = 'C04/apply-idempotent/%s/%s' % (cname(ls), 'result-refused' if isinstance(o2, str) else 'result-moves')
    what = 'apply is not idempotent'
  hit(sig, '%s: %r maps %r to %r and that to %r' % (what, ls, lv, o1, o2), dict(case, local=dict(spec=safe_render(ls), value=safe_value(lv))))

# ------------------------------------------------------------------------------------------------
# pair generation: most pairs are related (one side derived from the other) so that compat / extend succeed often

def _m(t): return t[-1]

class PairGen(SpecGen):
  def mutate(self, t, depth=2):
    r = self.r
    t = copy.deepcopy(t)
    k = t[0]
    ops = ['noneable', 'default', 'freeze', 'nodefault', 'any', 'union']
    if k in (1, 2): ops += ['lo', 'hi', 'lo', 'hi', 'range']
    if k == 4: ops += ['enum-add', 'enum-del', 'enum-other'] * 2
    if k == 5: ops += ['min', 'max', 'child'] * 2
    if k == 6: ops += ['child', 'child', 'tsize', 'tsize', 'tshape', 'tshape']
    if k == 7: ops += ['child', 'child', 'addkey', 'delkey', 'dyn', 'noschema']
    if k == 8: ops += ['cls'] * 3
    if k == 9: ops += ['child', 'child', 'addcand', 'delcand', 'pick']
    ops += ['frozen-of-enum'] if k == 4 else []
    op = r.choice(ops)
    n, d, fz = _m(t)
    if op == 'noneable':
      if k == 4:
        vals = [v for v in t[1] if v != [0]] if n else t[1] + [[0]]
        t[1] = vals; t[-1] = [1 - n, d if d != [[0]] else [], fz if d != [[0]] else 0]
      elif k != 10:
        t[-1] = [1 - n, d if (d != [[0]] or not n) else [], fz if (d != [[0]] or not n) else 0]
    elif op == 'default':
      t2 = self.with_default(t, frozen=bool(fz)); t = t2 or t
    elif op == 'freeze':
      if d: t[-1] = [n, d, 1 - fz]
      else:
        t2 = self.with_default(t, frozen=True); t = t2 or t
    elif op == 'nodefault':
      if not (k == 7 and t[1]): t[-1] = [n, [], 0]
    elif op == 'any': t = [10, [1, [], 0]]
    elif op == 'union':
      o = self.spec(max(depth - 1, 0), no_union=True)
      if o[0] != t[0] and t[0] != 9:
        cs = [t, o] if r.random() < 0.5 else [o, t]
        t = [9, cs, [int(any(_m(c)[0] for c in cs)), [], 0]]
    elif op in ('lo', 'hi', 'range'):
      grid = GRID if k == 1 else [None, 0, 32, 64, 96, 128, 320]
      lo, hi = _unopt(t[1]), _unopt(t[2])
      if op == 'lo': lo = r.choice(grid)
      elif op == 'hi': hi = r.choice(grid)
      else: lo, hi = gen_ranges(r, grid)
      if lo is not None and hi is not None and lo > hi: lo, hi = hi, lo
      t[1], t[2] = _opt(lo), _opt(hi)
    elif op == 'enum-add':
      v = V(r.choice(['a', 'b', 'x', 1, 2, 5, True, 1.0, 2.5]))
      if v not in t[1]: t[1] = t[1] + [v]
    elif op == 'enum-del':
      if len(t[1]) > 1:
        vals = list(t[1]); vals.pop(r.randrange(len(vals))); t[1] = vals
        t[-1] = [int([0] in vals), [], 0]
    elif op == 'enum-other':
      vals = list(r.choice(ENUM_SETS)); t = [4, [V(v) for v in vals], [int(None in vals), [], 0]]
    elif op == 'frozen-of-enum':
      v = r.choice(t[1])
      base = {2: [0], 3: [1, [], []], 4: [2, [], []], 5: [3]}.get(v[0])
      if base is not None:
        vv = r.choice(variants(v))
        base = {2: [0], 3: [1, [], []], 4: [2, [], []], 5: [3]}[vv[0]]
        t = base + [[0, [vv], 1]]
    elif op == 'min': t[2] = r.choice([0, 1, 2])
    elif op == 'max': t[3] = _opt(r.choice([None, 0, 1, 2, 5]))
    elif op == 'tsize':
      t[2] = r.choice([0, 1, 2]); t[3] = _opt(r.choice([None, 1, 2, 5]))
      if t[3] and t[3][0] == t[2]: t[1] = [t[1][0]] * t[2] if t[1] else t[1]
      elif len(t[1]) != 1: t[1] = t[1][:1] or [self.spec(0)]
    elif op == 'tshape':
      if t[3] and t[3][0] == t[2] and t[1]:
        t = [6, [t[1][0]], r.choice([0, 1, 2]), _opt(r.choice([None, 5])), _m(t)]
      elif t[1]:
        sz = r.choice([1, 2, 3]); t = [6, [copy.deepcopy(t[1][0]) for _ in range(sz)], sz, [sz], _m(t)]
    elif op == 'child':
      if k == 5: t[1] = self.mutate(t[1], depth - 1) or t[1]
      elif k == 6 and t[1]:
        i = r.randrange(len(t[1])); t[1][i] = self.mutate(t[1][i], depth - 1) or t[1][i]
      elif k == 7 and t[1] and t[1][0]:
        i = r.randrange(len(t[1][0])); t[1][0][i][1] = self.mutate(t[1][0][i][1], depth - 1) or t[1][0][i][1]
      elif k == 9:
        i = r.randrange(len(t[1])); c = self.mutate(t[1][i], depth - 1)
        if c is not None and c[0] == t[1][i][0]: t[1][i] = c
      if k in (5, 6, 7) and not (k == 7 and t[1]): t[-1] = [n, [], 0]
    elif op == 'addkey':
      if t[1]:
        have = {tuple(f[0][1]) for f in t[1][0] if f[0][0] == 0}
        kk = r.choice(['a', 'b', 'c', 'x', 'y'])
        if tuple(S(kk)) not in have: t[1][0].append([[0, S(kk)], self.spec(max(depth - 1, 0))])
    elif op == 'delkey':
      if t[1] and t[1][0]: t[1][0].pop(r.randrange(len(t[1][0])))
    elif op == 'dyn':
      if t[1]:
        if any(f[0][0] == 1 for f in t[1][0]): t[1][0] = [f for f in t[1][0] if f[0][0] != 1]
        else: t[1][0].append([[1], self.spec(max(depth - 1, 0))])
    elif op == 'noschema':
      t = [7, [], [n, [], 0]]
    elif op == 'cls': t[1] = list(r.choice(list(CLASSES)))
    elif op == 'addcand':
      o = self.spec(max(depth - 1, 0), no_union=True)
      if all(o[0] != c[0] for c in t[1]): t[1].append(o)
    elif op == 'delcand':
      if len(t[1]) > 2: t[1].pop(r.randrange(len(t[1])))
    elif op == 'pick': t = copy.deepcopy(r.choice(t[1]))
    if k in (7,) and t[0] == 7 and t[1] and op in ('addkey', 'delkey', 'dyn', 'child'):
      t[-1] = [_m(t)[0], [], 0]     # let the constructor regenerate the default
    c = canon(t)
    if c is None and _m(t)[1]:
      t[-1] = [_m(t)[0], [] if not (t[0] == 4 and False) else [], 0]; c = canon(t)
    return c

  def pair(self, depth):
    r = self.r
    a = self.spec(depth)
    p = r.random()
    if p < 0.55:
      b = a
      for _ in range(r.choice([1, 1, 2, 3])):
        b2 = self.mutate(b, depth)
        if b2 is not None: b = b2
    elif p < 0.75:
      b = None
      for _ in range(10):
        b = self.spec(depth)
        if b[0] == a[0]: break
    else:
      b = self.spec(depth)
    if r.random() < 0.5: a, b = b, a
    return a, b

def flat_specs():
  """Every flat spec on the parameter grid: Bool/Int/Float/Str/Enum x noneable x {no default, default, frozen default}."""
  out = []
  def with_mods(mk, defaults, enum=False):
    for n in (0, 1):
      base = mk(n)
      if base is None: continue
      cands = [[]] + [[d] for d in defaults]
      for d in cands:
        for fz in ((0, 1) if d else (0,)):
          t = copy.deepcopy(base); t[-1] = [t[-1][0], d, fz]
          c = canon(t)
          if c is not None and c not in out: out.append(c)
  with_mods(lambda n: [0, [n, [], 0]], [V(True)])
  with_mods(lambda n: [3, [n, [], 0]], [V('a')])
  for lo in GRID:
    for hi in GRID:
      if lo is not None and hi is not None and lo > hi: continue
      ds = [V(x) for x in (1, 5) if (lo is None or lo <= x) and (hi is None or x <= hi)][:1] or [V(x) for x in (0, 2) if (lo is None or lo <= x) and (hi is None or x <= hi)][:1]
      with_mods(lambda n: [1, _opt(lo), _opt(hi), [n, [], 0]], ds)
      fds = [V(float(x)) for x in (1, 5, 0, 2) if (lo is None or lo <= x) and (hi is None or x <= hi)][:1]
      with_mods(lambda n: [2, _opt(None if lo is None else 64 * lo), _opt(None if hi is None else 64 * hi), [n, [], 0]], fds)
  for vals in ENUM_SETS:
    def mk(n, vals=vals):
      vs = list(vals)
      if n and None not in vs: vs.append(None)
      if not n and None in vs: return None
      return [4, [V(v) for v in vs], [int(None in vs), [], 0]]
    with_mods(mk, [V(vals[0])])
  return out

# ------------------------------------------------------------------------------------------------
# quirk flags: one per open finding, set from the behaviour of the working tree on the finding's witness

QUIRKS = [
    ('q_list_min', dict(op='compat', a=[5, [1, [], [], [0, [], 0]], 2, [], [0, [], 0]], b=[5, [1, [], [], [0, [], 0]], 0, [], [0, [], 0]], value=[6, []])),
    ('q_frozen_recv', dict(op='compat', a=[1, [], [], [0, [[3, 1]], 1]], b=[1, [], [], [0, [], 0]], value=[3, 2])),
    ('q_enum_shortcut', dict(op='compat', a=[4, [[3, 1], [3, 2]], [0, [], 0]], b=[2, [], [], [0, [[4, 64]], 1]], value=[4, 64])),
    ('q_enum_subset', dict(op='compat', a=[4, [[3, 0], [3, 1], [3, 2]], [0, [], 0]], b=[4, [[4, 64], [4, 128]], [0, [], 0]], value=[4, 64])),
    ('q_enum_base', dict(op='extend', c=[4, [[3, 1], [3, 2]], [0, [], 0]], b=[1, [], [], [0, [], 0]])),
]

_I = [1, [], [], [0, [], 0]]          # Int()
_S = [3, [0, [], 0]]                  # Str()
def _enum(*vals): return [4, [V(v) for v in vals], [int(None in vals), [], 0]]
# minimised pairs kept from earlier failures (tried in both directions, compat and extend)
CORPUS_PAIRS = [
    (QUIRKS[0][1]['a'], QUIRKS[0][1]['b']),                                   # List min_size vs compat
    (QUIRKS[1][1]['a'], QUIRKS[1][1]['b']),                                   # frozen receiver
    ([6, [_I], 0, [2], [0, [], 0]], [6, [_I], 2, [], [0, [], 0]]),            # variable tuples whose sizes meet after extension
    ([9, [_I, _S], [0, [], 0]], [9, [_I, _S], [1, [], 0]]),                   # Union(is_noneable=True) vs Union
    ([1, [], [], [0, [V(5)], 0]], [1, [], [3], [0, [], 0]]),                  # default 5, base max 3
    ([1, [], [], [0, [V(5)], 1]], [1, [], [3], [0, [], 0]]),                  # frozen 5, base max 3
    ([7, [[[[0, S('x')], _I]]], [0, [[8, [[S('x'), V(5)]]]], 1]], [7, [[[[0, S('x')], _I]]], [0, [], 0]]),   # frozen dict default vs Dict._extend
    ([7, [[[[0, S('x')], _I]]], [1, [[0]], 0]], [7, [[[[0, S('x')], _I]]], [1, [], 0]]),                     # noneable dict (default None) vs Dict._extend
    (_enum(1, 2), _I),                                                         # Enum child of an Int base
    (_enum(1, 2), [2, [], [], [0, [V(1.0)], 1]]),                              # Enum vs frozen Float 1.0
    (_enum(True, False), [1, [], [], [0, [V(1)], 1]]),                         # bool Enum vs frozen Int 1
    (_enum(0, 1, 2), _enum(1.0, 2.0)),                                         # int Enum vs float Enum
    ([9, [[1, [5], [5], [0, [], 0]], [0, [0, [], 0]]], [0, [], 0]], [0, [0, [], 0]]),   # Union([Int(5..5), Bool]) vs Bool
    ([7, [[[[0, S('x')], _I]]], [0, [], 0]], [7, [[[[0, S('x')], [1, [], [], [0, [V(1)], 0]]]]], [0, [], 0]]),  # required x vs defaulted x
    ([5, _I, 0, [], [0, [], 0]], [5, [1, [], [], [0, [V(1)], 1]], 0, [], [0, [], 0]]),                          # List(Int) vs List(frozen Int)
    ([10, [1, [], 0]], [9, [[9, [_S, [10, [1, [], 0]]], [1, [[3, 6]], 1]], [6, [_I], 1, [], [0, [], 0]]], [1, [], 0]]),     # Any child, base Union with a frozen nested Union holding Any()
]

CORPUS_APPLY = [
    dict(spec=[9, [[4, [[3, 1], [5, [97]]], [0, [[2, 1]], 1]], [0, [0, [[2, 0]], 1]]], [0, [], 0]], value=[4, 64]),   # Union idempotence
]

def oracle_case(case, hit):
  """Evaluates the property on one stored case (used for witnesses, replays and the corpus)."""
  op = case['op']
  if op == 'compat':
    a, b = build(case['a']), build(case['b'])
    vals = [case['value']] if 'value' in case else values_for(case['a'], _R(), 30) + values_for(case['b'], _R(), 30)
    check_compat(a, b, vals, hit, dict(op=op, a=case['a'], b=case['b']))
  elif op == 'extend':
    c0, b = build(case['c']), build(case['b'])
    out, r = impl_extend(build(case['c']), build(case['b']))
    if r is not None:
      vals = ([case['value']] if 'value' in case else []) + values_for(case['c'], _R(), 30) + values_for(case['b'], _R(), 30)
      check_extend(c0, b, r, vals, hit, dict(op=op, c=case['c'], b=case['b']))
  elif op == 'form':
    t = T()
    def remake(tree):
      """the constructor form named in the case, for the child side"""
      f = case.get('form', '')
      if tree[0] == 6 and 'element' in case:
        return dict(tuple_forms(case['element'], case['n']))[f]()
      if tree[0] == 7 and f.startswith('Dict') and tree[1]:
        fs = tree[1][0]; keys = [''.join(chr(c) for c in kf[0][1]) for kf in fs]
        return dict(dict_forms(fs[0][1], keys))[f]()
      return build(tree)
    vals = ([case['value']] if 'value' in case else [])
    if 'c' in case:
      child, base = remake(case['c']), build(case['b'])
      vals = vals + values_for(case['c'], _R(), 40) + values_for(case['b'], _R(), 40)
      out, r = impl_extend(child, base)
      if r is not None:
        check_extend(remake(case['c']), build(case['b']), r, vals, hit, {k: v for k, v in case.items() if k != 'value'})
    else:
      a_is_child = case['a'][0] == case['b'][0] and 'element' in case and case['a'][1] and all(e == case['a'][1][0] for e in case['a'][1])
      a = remake(case['a']) if a_is_child else build(case['a'])
      b = build(case['b']) if a_is_child else remake(case['b'])
      vals = vals + values_for(case['a'], _R(), 40) + values_for(case['b'], _R(), 40)
      check_compat(a, b, vals, hit, {k: v for k, v in case.items() if k != 'value'})
  elif op == 'sequence':
    child, base = build(case['c']), build(case['b'])
    vals = values_for(case['c'], _R(), 30) + values_for(case['b'], _R(), 30) + ([case['value']] if 'value' in case else [])
    for vt in vals[:4]: impl_apply(child, vt, False)
    out, r = impl_extend(child, base)
    if r is not None:
      check_extend(build(case['c']), base, r, vals, hit, dict(op=op, steps=case.get('steps'), c=case['c'], b=case['b']))
  elif op == 'apply':
    s = build(case['spec'])
    before = copy.deepcopy(s)
    eq0 = (s == before)
    out_tree, out, ok = impl_apply(s, case['value'], bool(case.get('partial', 0)))
    if ok: check_apply(s, case['spec'], case['value'], bool(case.get('partial', 0)), out, hit, case)
    if (s == before) != eq0 or safe_render(s) != case['spec']:
      hit('C04/spec-unchanged/%s/apply' % kind(case['spec']), 'apply changed the spec', case)
  elif op == 'default':
    s = build(case['spec'])
    if not default_ok(s):
      hit('C04/default-acceptable/%s/constructed' % kind(case['spec']), 'the default of %r is not acceptable to it' % s, case)

def _R():
  import random
  return random.Random(12345)

def probe_quirks(ctx):
  flags = []
  for name, w in QUIRKS:
    got = []
    oracle_case(w, lambda sig, what, case: got.append((sig, what, case)))
    flags.append(1 if got else 0)
    for sig, what, case in got:
      ctx.hit(sig, what, case)
  return flags


# ------------------------------------------------------------------------------------------------
# systematic bound sweeps (every child bound x every base bound, 0 as often as any other value) and
# operation sequences on the same spec objects (apply-before-extend, extend-then-apply, ...)

SIZE_MIN = [0, 1, 2, 5]              # min_size None is 0
SIZE_MAX = [None, 0, 1, 2, 5]
NUM_BOUNDS = [None, -2, -1, 0, 1, 2, 5]

def _m0(n=0): return [n, [], 0]
def size_specs():
  return [(mn, mx) for mn in SIZE_MIN for mx in SIZE_MAX if mx is None or mx >= mn]

def _seq_tree(kind_, mn, mx, elem):
  """List / variable (or fixed when min == max) Tuple tree with the given bounds."""
  if kind_ == 'list': return [5, elem, mn, _opt(mx), _m0()]
  if mx is not None and mx == mn: return [6, [copy.deepcopy(elem) for _ in range(mn)], mn, [mn], _m0()]
  return [6, [elem], mn, _opt(mx), _m0()]

def _seq_value(kind_, k, x=None):
  x = x if x is not None else V(1)
  return [6 if kind_ == 'list' else 7, [x] * k]

def bound_wrappers():
  """(name, make(mn, mx) -> tree, values(k) -> value tree of inner length k)"""
  INT = [1, [], [], _m0()]
  return [
      ('List', lambda mn, mx: _seq_tree('list', mn, mx, INT), lambda k: _seq_value('list', k)),
      ('Dict.field:List', lambda mn, mx: [7, [[[[0, S('a')], _seq_tree('list', mn, mx, INT)]]], _m0()],
       lambda k: [8, [[S('a'), _seq_value('list', k)]]]),
      ('List(List)', lambda mn, mx: [5, _seq_tree('list', mn, mx, INT), 0, [], _m0()],
       lambda k: [6, [_seq_value('list', k), _seq_value('list', k)]]),
      ('Tuple', lambda mn, mx: _seq_tree('tuple', mn, mx, INT), lambda k: _seq_value('tuple', k)),
      ('List(Tuple)', lambda mn, mx: [5, _seq_tree('tuple', mn, mx, INT), 0, [], _m0()],
       lambda k: [6, [_seq_value('tuple', k)]]),
  ]

def with_first_default(t, vals):
  """t with the first of vals it accepts as default (so the object has been applied once when constructed)."""
  for v in vals:
    t2 = copy.deepcopy(t); t2[-1] = [t2[-1][0], [v], 0]
    c = canon(t2)
    if c is not None: return c
  return None

def bound_sweep_pairs(rng, thorough):
  """-> list of (label, child tree, base tree, candidate values)"""
  out = []
  specs = size_specs()
  for name, make, val in bound_wrappers():
    vals = [val(k) for k in range(7)]
    trees = {}
    for mn, mx in specs:
      c = canon(make(mn, mx))
      if c is not None: trees[(mn, mx)] = c
    for cb, ct in trees.items():
      for bb, bt in trees.items():
        out.append(('%s child=%s base=%s' % (name, cb, bb), ct, bt, vals))
        # the child constructed with a default: it has been applied before it extends
        if thorough or rng.random() < 0.5:
          cd = with_first_default(ct, vals)
          if cd is not None: out.append(('%s child=%s+default base=%s' % (name, cb, bb), cd, bt, vals))
  # Enum candidate lists: every ordered pair of sets (typed / mixed-type, ==-equal values of different types), flat and
  # nested; the candidate values are type-exact (1, 1.0 and True are three values)
  def enum_tree(vals): return [4, [V(x) for x in vals], [int(None in vals), [], 0]]
  num_probe = []
  for z in (0, 64, 128, 160, 320):
    num_probe += num_variants(z)
  leaf_vals = num_probe + [V('a'), V('b'), V('x'), [0]]
  STR = [3, _m0()]
  enum_wrappers = [
      ('Enum', lambda e: e, lambda x: x, 1.0),
      ('List(Enum)', lambda e: [5, e, 0, [], _m0()], lambda x: [6, [x]], 0.25),
      ('Dict.field:Enum', lambda e: [7, [[[[0, S('a')], e]]], _m0()], lambda x: [8, [[S('a'), x]]], 0.2),
      ('Tuple([Enum])', lambda e: [6, [e], 1, [1], _m0()], lambda x: [7, [x]], 0.2),
      ('Union([Enum, List])', lambda e: [9, [e, [5, [3, _m0()], 0, [], _m0()]], [e[-1][0], [], 0]], lambda x: x, 0.2),
  ]
  for name, wrap, wval, frac in enum_wrappers:
    vals = [wval(x) for x in leaf_vals]
    trees = []
    for vs_ in ENUM_SETS:
      c = canon(wrap(enum_tree(vs_)))
      if c is not None: trees.append(c)
    for ct in trees:
      for bt in trees:
        if not thorough and rng.random() > frac: continue
        out.append(('%s pair' % name, ct, bt, vals))
  # numeric ranges incl. 0 and negative bounds
  for k, unit in ((1, 1), (2, 64)):
    rs = [(lo, hi) for lo in NUM_BOUNDS for hi in NUM_BOUNDS if lo is None or hi is None or lo <= hi]
    trees = {}
    for lo, hi in rs:
      c = canon([k, _opt(None if lo is None else lo * unit), _opt(None if hi is None else hi * unit), _m0()])
      if c is not None: trees[(lo, hi)] = c
    nums = [-3, -2, -1, 0, 1, 2, 3, 5, 6]
    vals = [V(x) for x in nums] + [V(float(x)) for x in nums] + [V(True), V(False), V(0.5), V(-0.5)]
    for cb, ct in trees.items():
      for bb, bt in trees.items():
        if not thorough and k == 2 and rng.random() < 0.5: continue
        out.append(('%s child=%s base=%s' % (KIND[k], cb, bb), ct, bt, vals))
        if cb[0] != cb[1] and (thorough or rng.random() < 0.25):
          cd = with_first_default(ct, vals)
          if cd is not None: out.append(('%s child=%s+default base=%s' % (KIND[k], cb, bb), cd, bt, vals))
  return out

def observables(s):
  """Everything a caller can read off a spec object besides apply: the printed form and the size/bound properties."""
  t = T()
  o = [s.format(compact=True), bool(s.is_noneable), bool(s.frozen)]
  if isinstance(s, t.List): o += [s.min_size, s.max_size, s.element.key.min_value, s.element.key.max_value]
  if isinstance(s, t.Tuple): o += [s.min_size, s.max_size, s.fixed_length, len(s.elements), len(s)]
  if isinstance(s, (t.Int, t.Float)): o += [s.min_value, s.max_value]
  return o

def state_check(ctx, obj, cur, after, label):
  """The long-lived object must be indistinguishable from a fresh object built from the state the model predicts."""
  try:
    fresh = build(cur)
    a, b = observables(obj), observables(fresh)
    r = safe_render(obj)
  except Exception as e:
    return
  if a != b or r != cur:
    ctx.hist('spec_state', 'differs after ' + after)
    if not any(x.get('name') == 'spec object state vs model state' for x in ctx.broken):
      ctx.broken.append(dict(kind='correspondence', name='spec object state vs model state', count=1,
                             detail=dict(case=label, after=after, object=a, expected=b, rendered=trlib.to_line(r) if isinstance(r, list) else r,
                                         model_state=trlib.to_line(cur))))
      ctx.log('STATE %s: after %s the spec object reads %s, a fresh object in the model\'s state reads %s' % (label, after, a, b))

def frozen_partial(tree):
  """some spec inside is frozen to a value that contains MISSING_VALUE.  extend compares such values with ==, and the
  typed MissingValue(spec) objects inside them compare by their spec: that identity is outside the model (one PMissing)."""
  n, d, fz = _m(tree)
  if fz and d and not total(d[0]): return True
  k = tree[0]
  if k == 5: return frozen_partial(tree[1])
  if k in (6, 9): return any(frozen_partial(e) for e in tree[1])
  if k == 7 and tree[1]: return any(frozen_partial(f[1]) for f in tree[1][0])
  return False

def outside_model_extend(ctx, ct, bt):
  if frozen_partial(ct) and frozen_partial(bt):
    ctx.hist('outside_model', 'extend of two specs frozen to values containing MISSING_VALUE (typed MissingValue identity)')
    return True
  return False

def run_sequence(ctx, label, ct, bt, vals, flags, add_case, hit, rng):
  """apply-before-extend, is_compatible before/after, extend, apply-after, extend again - all on the same objects;
  every step is also a model case on the state the model predicts."""
  if outside_model_extend(ctx, ct, bt): return 0
  child, base = build(ct), build(bt)
  cur = ct
  n = 0
  def d(op, **kw): return dict(kw, op=op, sequence=label)
  pre = vals if len(vals) <= 7 else rng.sample(vals, 7)
  for vt in pre[:4]:                                   # apply before extend
    out, o, ok = impl_apply(child, vt, False)
    add_case([flags, 0, 0, cur, vt], out, d('apply', spec=cur, value=vt, partial=0), 'seq-apply'); n += 1
  state_check(ctx, child, cur, 'apply', label)
  add_case([flags, 1, cur, bt], impl_compat(child, base), d('compat', a=cur, b=bt), 'seq-compat')
  add_case([flags, 1, bt, cur], impl_compat(base, child), d('compat', a=bt, b=cur), 'seq-compat')
  out, r = impl_extend(child, base)                    # extend the object that has been applied
  add_case([flags, 2, cur, bt], out, d('extend', c=cur, b=bt), 'seq-extend'); n += 3
  if r is None or out[1] == [99]:
    return n                                           # a refused extension may leave the child half-updated: stop here
  cur = out[1]
  state_check(ctx, r, cur, 'extend', label)
  for vt in vals:                                      # apply after extend, on the same object
    o2, o, ok = impl_apply(r, vt, False)
    add_case([flags, 0, 0, cur, vt], o2, d('apply', spec=cur, value=vt, partial=0), 'seq-apply'); n += 1
  check_extend(build(ct), base, r, vals, hit, dict(op='sequence', steps='apply,extend,apply', c=ct, b=bt))
  state_check(ctx, r, cur, 'apply after extend', label)
  add_case([flags, 1, bt, cur], impl_compat(base, r), d('compat', a=bt, b=cur), 'seq-compat')
  add_case([flags, 1, cur, bt], impl_compat(r, base), d('compat', a=cur, b=bt), 'seq-compat')
  out2, r2 = impl_extend(r, base)                      # extending again by the same base
  add_case([flags, 2, cur, bt], out2, d('extend', c=cur, b=bt), 'seq-extend'); n += 3
  if r2 is not None and out2[1] != [99]:
    state_check(ctx, r2, out2[1], 'second extend', label)
  state_check(ctx, base, bt, 'being extended / compared (base)', label)
  return n

# ------------------------------------------------------------------------------------------------
# constructor forms and shared sub-spec objects.  The tree model has no sharing: Tuple(spec, size=N) makes N element
# fields that hold ONE value-spec object, a Dict may be given the same spec object for two keys.  Sharing is
# unobservable for apply / is_compatible, but extend mutates the shared object once per position.  So every form
# goes (a) through the normal path as its unshared twin (model + code + oracle) and (b) as the real shared object
# through the containment oracle, apply / is_compatible against the model, and a comparison with the twin.

def _I(lo=None, hi=None, n=0, d=None): return [1, _opt(lo), _opt(hi), [n, [V(d)] if d is not None else [], 0]]
POSITION_CONSTRAINTS = [
    ('Int()', lambda: _I()), ('Int(min=0)', lambda: _I(0, None)), ('Int(max=5)', lambda: _I(None, 5)),
    ('Int(1..2)', lambda: _I(1, 2)), ('Int().noneable()', lambda: _I(n=1)), ('Enum([1,2])', lambda: _enum(1, 2)),
    ('Float(max=2)', lambda: [2, [], [128], _m0()]), ('Object(B)', lambda: [8, [0, 0], _m0()]),
]
ELEMENT_SPECS = [
    ('Int()', lambda: _I()), ('Int(0..5)', lambda: _I(0, 5)), ('Int().noneable()', lambda: _I(n=1)), ('Int(default=1)', lambda: _I(d=1)),
    ('Enum([1,2,5])', lambda: _enum(1, 2, 5)), ('Float()', lambda: [2, [], [], _m0()]), ('Object(D)', lambda: [8, [0, 0, 0], _m0()]),
    ('Int().freeze(1)', lambda: [1, [], [], [0, [V(1)], 1]]),
]
POSITION_VALUES = [V(-1), V(0), V(1), V(2), V(5), V(6), V(10), [0], V(1.0), V(2.5), V('a'), V(D(1)), V(B(1)), V(A(1))]

def tuple_forms(et, n):
  """(form name, constructor -> real Tuple spec with n elements of element tree et)"""
  t = T()
  def shared_list():
    x = build(et); return t.Tuple([x] * n)
  return [
      ('Tuple([e1..eN])', lambda: t.Tuple([build(et) for _ in range(n)])),
      ('Tuple(e, size=N)', lambda: t.Tuple(build(et), size=n)),
      ('Tuple(e, min_size=N, max_size=N)', lambda: t.Tuple(build(et), min_size=n, max_size=n)),
      ('Tuple([x]*N) shared object', shared_list),
  ]

def dict_forms(et, keys):
  t = T()
  def shared():
    x = build(et); return t.Dict([(k, x) for k in keys])
  return [
      ('Dict([(k, spec)...])', lambda: t.Dict([(k, build(et)) for k in keys])),
      ('Dict({k: spec})', lambda: t.Dict({k: build(et) for k in keys})),
      ('Dict fields sharing one spec object', shared),
  ]

def form_sweep(ctx, flags, add_case, hit, rng):
  """child constructor form x base per-position constraints, through the oracle on the real (possibly shared) objects."""
  import time
  t = T()
  nforms = ndiff = skipped = 0
  twin_pairs = []
  full = ctx.thorough
  t_end = time.time() + (600 if full else 30)      # wall-clock budget; skipped work is reported
  for n in (2, 3):
    base_combos = list(itertools.product(range(len(POSITION_CONSTRAINTS)), repeat=n))
    if n == 3 and not full: base_combos = rng.sample(base_combos, 16)
    for ename, emk in ELEMENT_SPECS:
      et = emk()
      vals = [[7, list(c)] for c in itertools.product(POSITION_VALUES, repeat=n)] if n == 2 else \
             [[7, [rng.choice(POSITION_VALUES) for _ in range(n)]] for _ in range(60 if full else 30)] + [[7, [V(1)] * n], [7, [V(10)] * n]]
      if n == 2 and not full: vals = rng.sample(vals, 36) + [[7, [V(1), V(10)]], [7, [V(10), V(1)]], [7, [V(1), [0]]], [7, [[0], V(1)]]]
      bases = []
      for combo in base_combos:
        if not full and n == 2 and rng.random() < 0.35: continue
        bases.append(('Tuple([%s])' % ', '.join(POSITION_CONSTRAINTS[i][0] for i in combo),
                      [6, [POSITION_CONSTRAINTS[i][1]() for i in combo], n, [n], _m0()]))
      # variable-length bases
      for cname_, cmk in POSITION_CONSTRAINTS[:6]:
        bases.append(('Tuple(%s, min_size=1)' % cname_, [6, [cmk()], 1, [], _m0()]))
        bases.append(('Tuple(%s, max_size=%d)' % (cname_, n), [6, [cmk()], 0, [n], _m0()]))
      for fname, fmk in tuple_forms(et, n):
        ctx.hist('constructor_forms', fname)
        for bname, bt in bases:
          if time.time() > t_end: skipped += 1; continue
          bt = canon(bt)
          if bt is None: continue
          try:
            child0 = fmk()
          except (TypeError, ValueError, KeyError):
            continue
          ct = safe_render(child0)
          if not isinstance(ct, list): continue
          nforms += 1
          label = '%s of %s extends %s' % (fname, ename, bname)
          twin_pairs.append((label, ct, bt, vals))
          base = build(bt)
          # (b) the real object: is_compatible / apply agree with the model (sharing is unobservable there)
          add_case([flags, 1, ct, bt], impl_compat(child0, base), dict(op='compat', a=ct, b=bt, form=fname), 'form-compat')
          add_case([flags, 1, bt, ct], impl_compat(base, child0), dict(op='compat', a=bt, b=ct, form=fname), 'form-compat')
          for vt in vals[:6]:
            o, _, _ = impl_apply(child0, vt, False)
            add_case([flags, 0, 0, ct, vt], o, dict(op='apply', spec=ct, value=vt, partial=0, form=fname), 'form-apply')
          check_compat(child0, base, vals, hit, dict(op='form', form=fname, element=et, n=n, a=ct, b=bt))
          check_compat(base, child0, vals, hit, dict(op='form', form=fname, element=et, n=n, a=bt, b=ct))
          # extend on the real object, oracle on the real result
          out, r = impl_extend(child0, base)
          twin_out, twin_r = impl_extend(build(ct), build(bt))
          if out != twin_out:
            ndiff += 1
            ctx.hist('shared_objects', 'extend result differs from the unshared twin (%s)' % fname)
          if r is not None:
            check_extend(fmk(), build(bt), r, vals, hit, dict(op='form', form=fname, element=et, n=n, c=ct, b=bt))
  # Dict forms: two or three keys, one element spec, base with per-key constraints
  keys = ['a', 'b']
  for ename, emk in ELEMENT_SPECS:
    et = emk()
    dvals = [[8, [[S('a'), x], [S('b'), y]]] for x in POSITION_VALUES for y in POSITION_VALUES]
    if not full: dvals = rng.sample(dvals, 36) + [[8, [[S('a'), V(1)], [S('b'), V(10)]]], [8, [[S('a'), V(10)], [S('b'), V(1)]]]]
    for fname, fmk in dict_forms(et, keys):
      ctx.hist('constructor_forms', fname)
      for i, j in itertools.product(range(len(POSITION_CONSTRAINTS)), repeat=2):
        if not full and rng.random() < 0.4: continue
        bt = canon([7, [[[[0, S('a')], POSITION_CONSTRAINTS[i][1]()], [[0, S('b')], POSITION_CONSTRAINTS[j][1]()]]], _m0()])
        if bt is None: continue
        try:
          child0 = fmk()
        except (TypeError, ValueError, KeyError):
          continue
        ct = safe_render(child0)
        if not isinstance(ct, list): continue
        nforms += 1
        bname = 'Dict(a: %s, b: %s)' % (POSITION_CONSTRAINTS[i][0], POSITION_CONSTRAINTS[j][0])
        twin_pairs.append(('%s of %s extends %s' % (fname, ename, bname), ct, bt, dvals))
        base = build(bt)
        add_case([flags, 1, ct, bt], impl_compat(child0, base), dict(op='compat', a=ct, b=bt, form=fname), 'form-compat')
        check_compat(child0, base, dvals, hit, dict(op='form', form=fname, a=ct, b=bt))
        out, r = impl_extend(child0, base)
        twin_out, twin_r = impl_extend(build(ct), build(bt))
        if out != twin_out:
          ndiff += 1
          ctx.hist('shared_objects', 'extend result differs from the unshared twin (%s)' % fname)
        if r is not None:
          check_extend(fmk(), build(bt), r, dvals, hit, dict(op='form', form=fname, c=ct, b=bt))
  # List(spec, size=N) and the other size spellings render to the same state: one model case each
  for n in (0, 1, 2):
    for mk in (lambda: t.List(t.Int(), size=n), lambda: t.List(t.Int(), min_size=n, max_size=n)):
      ct = safe_render(mk())
      for k in range(4):
        o, _, _ = impl_apply(mk(), _seq_value('list', k), False)
        add_case([flags, 0, 0, ct, _seq_value('list', k)], o, dict(op='apply', spec=ct, value=_seq_value('list', k), partial=0), 'form-apply')
  ctx.extra['constructor_forms'] = dict(instances=nforms, skipped_for_time=skipped, extend_results_differing_from_unshared_twin=ndiff,
      what='Tuple([e..]) / Tuple(e, size=N) / Tuple(e, min_size=N, max_size=N) / Tuple([x]*N) with one shared object, N in {2,3}; '
           'Dict from a list / from a dict / with one spec object under two keys; List(size=N); child element specs x base per-position constraints '
           '(range, noneable, Enum, Float, class) at every position; oracle on the real (shared) objects, model on the unshared twins')
  return twin_pairs

# ------------------------------------------------------------------------------------------------
def nontrivial_spec(t):
  k = t[0]
  n, d, fz = _m(t)
  if d or fz: return True
  if k in (1, 2): return bool(t[1] or t[2])
  return k in (4, 5, 6, 7, 8, 9)

def run(ctx):
  ctx.build()
  rng = ctx.rng
  LITERAL['compat'] = LITERAL['extend'] = 0
  flags = probe_quirks(ctx)
  ctx.extra['quirk_flags'] = {n: bool(f) for (n, _), f in zip(QUIRKS, flags)}
  gen = PairGen(rng, ctx)
  cases, impl_outs, descr = [], [], []
  hit = ctx.hit
  def add_case(tree, out, d, kind_, nontrivial=True):
    cases.append(tree); impl_outs.append(out); descr.append(d)
    ctx.count(trlib.to_line(tree), nontrivial=nontrivial, kind=kind_,
              sample=d if (nontrivial and len(ctx.samples) < 6 and rng.random() < 0.02) else None)

  # ---- spec pool -------------------------------------------------------------------------------
  flats = flat_specs()
  ctx.extra['flat_specs_on_grid'] = len(flats)
  nspec = ctx.scale(450, 2500)
  pool = [gen.spec(rng.choice([0, 1, 1, 2, 2, 3])) for _ in range(nspec)]
  pool += rng.sample(flats, ctx.scale(60, len(flats))) if not ctx.thorough else flats
  napply = 0
  hyp_specs = []
  pool = [w['spec'] for w in CORPUS_APPLY] + pool
  for t in pool:
    ctx.hist('spec_kind', kind(t)); ctx.hist('spec_mods', 'noneable=%d default=%d frozen=%d' % (_m(t)[0], int(bool(_m(t)[1])), _m(t)[2]))
    s = build(t)
    hyp_specs.append(t)
    before = copy.deepcopy(s)
    eq0 = (s == before)      # Union.__eq__ is not reflexive on copies for some candidate lists; compare with this
    if not eq0: ctx.hist('spec_eq_copy', 'spec != deepcopy(spec) before any apply')
    vals = [w['value'] for w in CORPUS_APPLY if w['spec'] == t] + values_for(t, rng, ctx.scale(24, 40))
    for vt in vals:
      for partial in ((0, 1) if rng.random() < 0.25 else (0,)):
        out_tree, out, ok = impl_apply(s, vt, bool(partial))
        d = dict(op='apply', spec=t, value=vt, partial=partial, spec_text=show(t), value_text=show_value(vt))
        add_case([flags, 0, partial, t, vt], out_tree, d, 'apply', nontrivial_spec(t))
        ctx.hist('apply_outcome', 'ok' if ok else {1: 'TypeError', 2: 'ValueError', 3: 'KeyError'}.get(out_tree[1], 'other'))
        napply += 1
        if ok:
          check_apply(s, t, vt, bool(partial), out, hit, d)
        if (s == before) != eq0 or (napply % 7 == 0 and safe_render(s) != t):
          hit('C04/spec-unchanged/%s/apply' % kind(t), 'apply(%s) changed the spec %s' % (show_value(vt), show(t)), d)
          s = build(t); before = copy.deepcopy(s)
    if safe_render(s) != t:
      hit('C04/spec-unchanged/%s/apply' % kind(t), 'after applying values the spec state differs: %s' % show(t), dict(op='apply', spec=t))
    if _m(t)[1] and not default_ok(s):
      hit('C04/default-acceptable/%s/constructed' % kind(t), 'the default of %s is not acceptable to it' % show(t), dict(op='default', spec=t))

  # ---- pairs --------------------------------------------------------------------------------------
  pairs = [(canon(a), canon(b)) for a, b in CORPUS_PAIRS]
  assert all(a is not None and b is not None for a, b in pairs), 'corpus pair not constructible'
  for _ in range(ctx.scale(1400, 12000)):
    pairs.append(gen.pair(rng.choice([0, 1, 1, 2, 2, 3])))
  if ctx.thorough:
    sweep = [(a, b) for a in flats for b in flats]
    ctx.extra['flat_sweep'] = dict(exhaustive=True, specs=len(flats), pairs=len(sweep), what='all ordered pairs of flat specs on the grid: compat, extend, and the containment oracle on the boundary values of both')
  else:
    sweep = [(rng.choice(flats), rng.choice(flats)) for _ in range(250)]
    fl2 = [f for f in flats]
    for _ in range(250):      # related flat pairs: same kind
      a = rng.choice(fl2); same = [f for f in fl2 if f[0] == a[0]]
      sweep.append((a, rng.choice(same)))
  noracle = 0
  bsweep = bound_sweep_pairs(rng, ctx.thorough)
  ctx.extra['bound_sweep'] = dict(pairs=len(bsweep), what='every child bound x every base bound: sizes min in {0,1,2,5} x max in {None,0,1,2,5} for '
                                  'List, List in a Dict field, List of List, Tuple, List of Tuple (values of every length 0..6); Int/Float ranges with bounds in '
                                  '{None,-2,-1,0,1,2,5}; children with and without a default', exhaustive_on_grid=bool(ctx.thorough))
  form_twins = form_sweep(ctx, flags, add_case, hit, rng)
  bsweep = bsweep + form_twins
  extra_vals = {}
  for label, ct, bt, vs_ in bsweep:
    extra_vals[(trlib.to_line(ct), trlib.to_line(bt))] = vs_
    ctx.hist('bound_sweep', label.split(' ')[0])
  for (at, bt), src in [(p, 'random') for p in pairs] + [(p, 'flat') for p in sweep] + [((ct, bt), 'bounds') for _, ct, bt, _ in bsweep]:
    a, b = build(at), build(bt)
    hyp_specs.append(at); hyp_specs.append(bt)
    vals = extra_vals.get((trlib.to_line(at), trlib.to_line(bt))) if src == 'bounds' else None
    for (xt, yt, x, y) in ((at, bt, a, b), (bt, at, b, a)) if src == 'random' or (src == 'flat' and not ctx.thorough) else ((at, bt, a, b),):
      out = impl_compat(x, y)
      d = dict(op='compat', a=xt, b=yt, a_text=show(xt), b_text=show(yt))
      add_case([flags, 1, xt, yt], out, d, 'compat')
      ctx.hist('compat', '%s<-%s %s' % (kind(xt), kind(yt), bool(out[0])) if src == 'random' else '%s %s' % (src, bool(out[0])))
      if out[0]:
        if vals is None: vals = values_for(at, rng, 30) + values_for(bt, rng, 30)
        noracle += check_compat(x, y, vals, hit, dict(op='compat', a=xt, b=yt))
      if outside_model_extend(ctx, xt, yt): continue
      out, r = impl_extend(build(xt), build(yt))
      d = dict(op='extend', c=xt, b=yt, c_text=show(xt), b_text=show(yt))
      add_case([flags, 2, xt, yt], out, d, 'extend')
      ctx.hist('extend', ('%s.extend(%s) ' % (kind(xt), kind(yt)) if src == 'random' else src + ' ') + ('ok' if r is not None else {1: 'TypeError', 2: 'ValueError', 3: 'KeyError'}.get(out[1], 'other')))
      if r is not None:
        if out[1] != [99]: hyp_specs.append(out[1])
        if vals is None: vals = values_for(at, rng, 30) + values_for(bt, rng, 30)
        rv = vals
        if out[1] != [99] and out[1] != xt:
          rv = vals + values_for(out[1], rng, 20)
        noracle += check_extend(build(xt), build(yt), r, rv, hit, dict(op='extend', c=xt, b=yt))
  # ---- operation sequences on the same spec objects ------------------------------------------------------
  nseq = nsteps = 0
  seq_src = [(l, c, b, v) for l, c, b, v in bsweep if ' extends ' not in l]
  for at, bt in pairs[:ctx.scale(500, 3000)]:
    seq_src.append(('random', at, bt, values_for(at, rng, 10) + values_for(bt, rng, 10)))
    seq_src.append(('random', bt, at, values_for(at, rng, 10) + values_for(bt, rng, 10)))
  for label, ct, bt, vs_ in seq_src:
    nsteps += run_sequence(ctx, label, ct, bt, vs_, flags, add_case, hit, rng)
    nseq += 1
  ctx.extra['op_sequences'] = dict(sequences=nseq, steps=nsteps,
                                   what='on the same objects: apply x4, is_compatible both ways, extend, observables vs a fresh object in the model state, '
                                        'apply on the result, containment oracle on the long-lived result, is_compatible again, extend again')
  ctx.extra['oracle_value_checks'] = noracle
  ctx.hist('literal_input_reading', 'compat: sender converts/completes an input the receiver refuses (not a failure)', LITERAL['compat'])
  ctx.hist('literal_input_reading', 'extend: extension converts/completes an input the base refuses (not a failure)', LITERAL['extend'])
  ctx.extra['apply_cases'] = napply

  # ---- theorem hypotheses on the states the library produced (constructed specs and extension results) --------
  seen_h = set()
  nh = 0
  for t in hyp_specs:
    key = trlib.to_line(t)
    if key in seen_h: continue
    seen_h.add(key)
    cases.append([flags, 3, t]); impl_outs.append([1, 1, 1, 1]); descr.append(dict(op='hypotheses', spec=t, spec_text=show(t)))
    # which theorem fragments the spec lies in: answered by the model alone (no implementation side), reported as coverage
    cases.append([flags, 4, t]); impl_outs.append('FRAGMENTS'); descr.append(dict(op='fragments', spec=t))
    nh += 1
  ctx.traces_validated = nh
  ctx.extra['theorem_hypotheses_checked_on_specs'] = nh

  # ---- model ----------------------------------------------------------------------------------------
  model_outs = ctx.model_run(cases)
  frag_names = ['no_union', 'union_plain (idempotence theorem)', 'union_safe (compat theorem, receiver)', 'no_schema', 'no_frozen', 'avoids (current code)']
  for i, o in enumerate(impl_outs):
    if o == 'FRAGMENTS':
      mo = model_outs[i]
      impl_outs[i] = mo
      if isinstance(mo, list) and len(mo) == len(frag_names):
        for nme, bit in zip(frag_names, mo): ctx.hist('theorem_fragment_coverage', '%s=%s' % (nme, bool(bit)))
        if cases[i][2][0] == 9 or '(9 ' in trlib.to_line(cases[i][2]):
          ctx.hist('union_specs', 'union_plain=%s union_safe=%s' % (bool(mo[1]), bool(mo[2])))
  lookup = {id(c): d for c, d in zip(cases, descr)}
  bad = ctx.compare('Typing.run vs ValueSpec.apply / is_compatible / extend', cases, impl_outs, model_outs, describe=lambda c: lookup.get(id(c)))
  ctx.extra['disagreeing_ops'] = sorted({descr[i]['op'] for i in bad})[:5]
  ctx.exhaustive = False

  # ---- targeted search when something is broken and the oracle has found nothing yet ------------------
  if ctx.is_broken() and not ctx.hits:
    kinds = {cases[i][2][0] if cases[i][1] != 0 else cases[i][3][0] for i in bad} or set(range(11))
    tried = 0
    for _ in range(20000):
      if tried >= 1500 or ctx.hits: break
      at, bt = gen.pair(rng.choice([1, 2, 3]))
      if at[0] not in kinds and bt[0] not in kinds: continue
      tried += 1
      for xt, yt in ((at, bt), (bt, at)):
        oracle_case(dict(op='compat', a=xt, b=yt), hit)
        oracle_case(dict(op='extend', c=xt, b=yt), hit)
    for i in bad[:200]:
      d = descr[i]
      oracle_case({k: v for k, v in d.items() if not k.endswith('_text')}, hit)
    ctx.extra['targeted_search_pairs'] = tried

def replay(ctx, rp):
  got = []
  case = rp['case']
  oracle_case(case, lambda sig, what, c: got.append((sig, what)))
  for g in got[:5]:
    print('  still fails:', g)
  return not got

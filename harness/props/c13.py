"""C13 — hyper values: decode and encode are mutually inverse and side-effect free."""
import itertools, json
from harness.lib import tr as trlib
from harness.props import geno_gen as G
from harness.translators import hyper_defs

META = dict(
    id='C13',
    model_run='PG.Model.HyperRun.run',
    runner_name='Hyper',
    model_targets=['Model/Geno.vo', 'Model/GenoRun.vo', 'Model/Hyper.vo', 'Model/HyperRun.vo'],
    instance_obligations=['generated_agree (Proofs/HyperGenInstance.v: Float._decode / Float.encode / try_encode / the index test of Choices._decode / the constraint checks of Choices.encode as regenerated '
                          'into Gen/HyperDefs.v from the current source equal what Model/Hyper.v computes; the translator also pins the AST of the 19 functions the model was transcribed from)'],
    technique=('Coq proofs over an executable model of pyglove.core.hyper object templates (scan for placeholders under a `where` filter, decode on structured '
               'decisions and on concrete DNA trees, encode by structural merge + first matching candidate) built on the Geno model of C11 '
               '+ differential correspondence against the library on a systematic placeholder x context x filter sweep and on random nested templates '
               '+ a direct oracle evaluating the property text on the real objects'),
    design_ref='DESIGN.md §5 C13',
    level_text='(filled in below)',
    level_note='(filled in below)',
    rule=('a case is (operation, where filter, template[, DNA | corrupted DNA tree | value]); distinct by its full wire text; non-trivial when the template has a '
          'conditional choice (a choice below a candidate), a multi-choice (k >= 2), a filter that rejects some placeholder, or the input is corrupted'),
    trusted_base=['translator harness/translators/hyper_defs.py (fail-closed ast reader; pins the functions the model was transcribed from)', 'extraction: ExtrOcamlBasic only; ocaml/main.ml lexer/printer; cross-checked against vm_compute on a sample',
                  'harness/props/c13.py builds the real pg.hyper objects and the wire form from one Python description of each template; '
                  'the DNA specification of the library is carried through harness/props/geno_gen.py'],
    assumptions=['user code of CustomHyper subclasses (custom_decode / custom_encode) is a pair of Section variables; the theorems state what they assume of it '
                 '(decoded values are concrete, custom_encode inverts custom_decode and fails with ValueError on anything else); the two subclasses used by the check satisfy it (proved)',
                 'literal values of the DNA specification (display strings made by utils.format) are not modelled',
                 'bool DNA values, NaN / non-dyadic floats, tuples and non-str dict keys are outside the model; derived values (pg.hyper.ValueReference) are not modelled',
                 'a `where` filter is a function of the placeholder itself (kind, name, hints, candidates), not of its position'],
)

META['level_text'] = (
    'Theorems (every template nesting oneof / manyof in all four distinct x sorted modes / floatv / custom placeholders in dicts, lists, objects and in the candidates of '
    'other placeholders, every `where` filter, every DNA valid for the template\'s specification): see coq/Properties/C13.v — what the code computes on the concrete DNA of a valid '
    'decision is the structured decoder (slot assignment, re-rooting of conditional child DNA, distinct/sorted checks); decoding a valid DNA succeeds (only user code of a custom hyper can fail), leaves no accepted '
    'placeholder, gives a value of the template\'s shape, and encoding it returns the same DNA when the candidates of every choice are distinguishable (with a _partial / _refuted pair for the behaviour before the repair 08a7b16, whose quirk flag the model keeps and sets by witness replay); '
    'what encode accepts is decodable; two valid DNAs never decode to equal values and iterating a finite template yields exactly the valid DNAs, as many as space_size (with C11); '
    'a value decoded from a placeholder tree bound to a value spec is accepted by that spec (fragment, on C04\'s Typing model). Tie: the model is run against the library on a systematic placeholder x context x filter sweep, on '
    'random nested templates (every DNA of spaces up to 200, 50 random beyond), on corrupted DNA trees and perturbed values; the direct oracle evaluates the property text on the real objects.')
META['level_note'] = (
    'Tie: a fail-closed translator regenerates Float._decode / Float.encode, the exception classes try_encode swallows, the index test of Choices._decode and the constraint checks of Choices.encode from the current source on every run (proved equal to the model: generated_agree) and pins the AST of the 19 functions the model was transcribed from. Partial: "never modify the template" and "decoding twice gives equal values" are definitionally true of a pure Gallina function and are NOT claimed as theorems; they are decided by the '
    'oracle only (pg.to_json and a structural snapshot of the template before/after every decode / encode / iter / materialize; two decodes compared with pg.eq; decoded values share no node with the template; HISTORY on one template object: decode, the caller modifies the result at every reachable node, decode again and another DNA — compared with a fresh template, node-disjoint from earlier results, encoded back; sequences of DNAs on templates with pg.hyper.reference; a partially decoded value is run through the whole check again as a search space of its own (second stage); hyper primitives updated in place with rebind before use). '
    'Runtime aliasing is not expressible in the model. Trusted: Coq kernel; extraction cross-checked with vm_compute; the harness. Modelled, not verified: the Python code itself (tied by the correspondence); '
    'user code of CustomHyper subclasses is a Section variable with stated hypotheses. Statements only partly proved are named *_partial in coq/Properties/C13.v and listed in design/C13.md.')

# ------------------------------------------------------------------------------------------------
# Python mirror of Model/Hyper.v [tmpl] (JSON-able):
#   ['L', leaf]  ['D', [[k, t], ...]]  ['l', [t, ...]]  ['O', cls, [[k, t], ...]]
#   ['1', [cand, ...], name, hints]  ['M', k, [cand, ...], dist, srt, name, hints]  ['F', lo, hi, name, hints]  ['X', ck, name, hints]
# where: ['none'] (where=None) ['all'] ['kind', o, m, f, c] ['ncands', n] ['name', s] ['hints', z] ['not', w] ['or', a, b]
CLASSES = [('HA', ['x', 'y']), ('HB', ['p']), ('HC', ['u', 'v', 'w']), ('HD', []),
           # classes with typed fields (placeholders are validated against the field's value spec when they are bound)
           ('TI', ['i', 's', 'f', 'e']), ('TL', ['l', 'd']),
           # classes related by inheritance: HF(HE) has the same fields, HG(HE) adds a defaulted field, HH(HF) is a grandchild.
           # pg.eq / == distinguish the classes, encode must too (an exact class comparison, not isinstance)
           ('HE', ['x', 'y']), ('HF', ['x', 'y']), ('HG', ['x', 'y', 'z']), ('HH', ['x', 'y'])]
TYPED = (4, 5)
FAMILY = (6, 7, 8, 9)
# the bound grid of binding-time validation: one class per value spec; fields: the spec itself, a List of it, a Dict with one field of it
FGRID = [(mn, mx) for mn in (None, -1.0, 0.0, 0, 1.0) for mx in (None, 0.0, 0, 2.0)
         if (mn is None or mx is None or mn <= mx) and not (type(mn) is int and type(mx) is int) and not (type(mn) is int and mx == 0.0) and not (type(mx) is int and mn == 0.0)]
IGRID = [(mn, mx) for mn in (None, -1, 0, 1) for mx in (None, 0, 2) if mn is None or mx is None or mn <= mx]
SGRID = [(mn, mx) for mn in (0, 1, 2) for mx in (None, 0, 2, 3) if mx is None or mn <= mx]        # List size bounds
GRID_BASE = len(CLASSES)
CLASSES += [('GF%d' % i, ['v', 'l', 'd']) for i in range(len(FGRID))] + [('GI%d' % i, ['v', 'l', 'd']) for i in range(len(IGRID))] + \
           [('GS%d' % i, ['l']) for i in range(len(SGRID))]
GRID = tuple(range(GRID_BASE, len(CLASSES)))
TYPED = TYPED + GRID
PARENT = {7: 6, 8: 6, 9: 7}
UNTYPED = (0, 1, 2, 3, 6, 7, 8, 9)
def field_specs(pg):
  T = pg.typing
  out = {'TI': dict(i=T.Int(min_value=0, max_value=9), s=T.Str(), f=T.Float(min_value=0.0, max_value=4.0), e=T.Enum(1, [1, 2, 3])),
         'TL': dict(l=T.List(T.Int(), min_size=2, max_size=3), d=T.Dict([('k', T.Int())]))}
  for i, (mn, mx) in enumerate(FGRID):
    mk = lambda: T.Float(min_value=mn, max_value=mx)
    out['GF%d' % i] = dict(v=mk(), l=T.List(mk()), d=T.Dict([('k', mk())]))
  for i, (mn, mx) in enumerate(IGRID):
    mk = lambda: T.Int(min_value=mn, max_value=mx)
    out['GI%d' % i] = dict(v=mk(), l=T.List(mk()), d=T.Dict([('k', mk())]))
  for i, (mn, mx) in enumerate(SGRID):
    out['GS%d' % i] = dict(l=T.List(T.Int(), min_size=mn, max_size=mx))
  return out
_PY = {}

def py():
  """The real classes (created once per process, after pyglove is importable)."""
  if _PY:
    return _PY
  import pyglove as pg
  _PY['pg'] = pg
  cls = []
  specs = field_specs(pg)
  for ci, (name, fields) in enumerate(CLASSES):
    if ci in PARENT:
      own = [(f, pg.typing.Any(default=0)) for f in fields if f not in CLASSES[PARENT[ci]][1]]
      cls.append(pg.members(own)(type(name, (cls[PARENT[ci]],), {})))
    else:
      cls.append(pg.members([(f, specs.get(name, {}).get(f, pg.typing.Any())) for f in fields])(type(name, (pg.Object,), {})))
  _PY['classes'] = cls
  class CodePoints(pg.hyper.CustomHyper):
    def custom_decode(self, dna):
      return [ord(c) for c in dna.value]
    def custom_encode(self, value):
      if not isinstance(value, list) or not all(type(x) is int and 0 <= x < 1114112 for x in value):
        raise ValueError('CodePoints cannot encode %r' % (value,))
      return pg.DNA(''.join(chr(x) for x in value))
  class Word(pg.hyper.CustomHyper):
    def custom_decode(self, dna):
      return dna.value
    def custom_encode(self, value):
      if not isinstance(value, str):
        raise ValueError('Word cannot encode %r' % (value,))
      return pg.DNA(value)
  _PY['customs'] = [CodePoints, Word]
  return _PY

def to_pg(t):
  P = py(); pg = P['pg']
  k = t[0]
  if k == 'L': return t[1]
  if k == 'D': return pg.Dict({key: to_pg(x) for key, x in t[1]})
  if k == 'l': return pg.List([to_pg(x) for x in t[1]])
  if k == 'O': return P['classes'][t[1]](**{key: to_pg(x) for key, x in t[2]})
  if k == '1': return pg.oneof([to_pg(c) for c in t[1]], name=t[2], hints=t[3])
  if k == 'M': return pg.manyof(t[1], [to_pg(c) for c in t[2]], distinct=t[3], sorted=t[4], name=t[5], hints=t[6])
  if k == 'F': return pg.floatv(float(t[1]), float(t[2]), name=t[3], hints=t[4])
  if k == 'X': return P['customs'][t[1]](name=t[2], hints=t[3])
  raise ValueError(t)

class Unrepresentable(Exception):
  pass

def from_pg(v):
  """Canonical description of a real value (a decoded value, or the template itself for the before/after comparison)."""
  P = py(); pg = P['pg']
  if v is None or isinstance(v, (bool, int, float, str)):
    return ['L', v]
  if isinstance(v, pg.hyper.OneOf):
    return ['1', [from_pg(c) for c in v.candidates], v.name, v.hints]
  if isinstance(v, pg.hyper.ManyOf):
    return ['M', v.num_choices, [from_pg(c) for c in v.candidates], v.choices_distinct, v.choices_sorted, v.name, v.hints]
  if isinstance(v, pg.hyper.Float):
    return ['F', v.min_value, v.max_value, v.name, v.hints]
  for i, c in enumerate(P['customs']):
    if type(v) is c:
      return ['X', i, v.name, v.hints]
  if isinstance(v, dict):
    items = list(v.sym_items()) if isinstance(v, pg.Dict) else list(v.items())
    return ['D', [[k, from_pg(x)] for k, x in items]]
  if isinstance(v, list):
    return ['l', [from_pg(x) for x in v]]
  for i, c in enumerate(P['classes']):
    if type(v) is c:
      return ['O', i, [[k, from_pg(x)] for k, x in v.sym_items()]]
  raise Unrepresentable('%s: %r' % (type(v).__name__, v))

def where_fn(w):
  """The real `where` callable of a descriptor (None for ['none'])."""
  P = py(); pg = P['pg']
  k = w[0]
  if k == 'none': return None
  if k == 'all': return lambda x: True
  if k == 'kind':
    _, o, m, f, c = w
    def fn(x):
      if isinstance(x, pg.hyper.OneOf): return bool(o)
      if isinstance(x, pg.hyper.ManyOf): return bool(m)
      if isinstance(x, pg.hyper.Float): return bool(f)
      if isinstance(x, pg.hyper.CustomHyper): return bool(c)
      return False
    return fn
  if k == 'ncands': return lambda x: isinstance(x, pg.hyper.Choices) and len(x.candidates) == w[1]
  if k == 'name': return lambda x: x.name == w[1]
  if k == 'hints': return lambda x: x.hints is not None and x.hints == w[1]
  if k == 'not':
    f = where_fn(w[1]); return lambda x: not f(x)
  if k == 'or':
    f, g = where_fn(w[1]), where_fn(w[2]); return lambda x: f(x) or g(x)
  raise ValueError(w)

def weval(w, t):
  """The filter on the description (the harness' own reading of the predicate; `none` accepts everything)."""
  k = w[0]
  if k in ('none', 'all'): return True
  if k == 'kind': return bool(w[1 + '1MFX'.index(t[0])])
  if k == 'ncands': return t[0] in '1M' and len(t[1] if t[0] == '1' else t[2]) == w[1]
  if k == 'name': return attrs(t)[0] == w[1]
  if k == 'hints': return attrs(t)[1] is not None and attrs(t)[1] == w[1]
  if k == 'not': return not weval(w[1], t)
  if k == 'or': return weval(w[1], t) or weval(w[2], t)
  raise ValueError(w)

def attrs(t):
  return {'1': lambda: (t[2], t[3]), 'M': lambda: (t[5], t[6]), 'F': lambda: (t[3], t[4]), 'X': lambda: (t[2], t[3])}[t[0]]()

def cands_of(t):
  return t[1] if t[0] == '1' else t[2]

def is_hyper(t):
  return t[0] in '1MFX'

def kids(t):
  """(key, child) pairs the scan walks, for any node."""
  k = t[0]
  if k == 'D': return [(key, x) for key, x in t[1]]
  if k == 'O': return [(key, x) for key, x in t[2]]
  if k == 'l': return list(enumerate(t[1]))
  if k in '1M': return list(enumerate(cands_of(t)))
  return []

# ------------------------------------------------------------------------------------------------
# wire format (coq/Model/HyperRun.v)
def s_tr(s): return [ord(c) for c in s]

def leaf_tr(x):
  if x is None: return [0]
  if isinstance(x, bool): return [1, int(x)]
  if isinstance(x, int): return [2, x]
  if isinstance(x, float): return [3, G.f64(x)]
  return [4, s_tr(x)]

def attrs_tr(name, hints):
  return [[] if name is None else [s_tr(name)], [] if hints is None else [hints]]

def t_tr(t):
  k = t[0]
  if k == 'L': return [0, leaf_tr(t[1])]
  if k == 'D': return [1] + [[s_tr(key), t_tr(x)] for key, x in t[1]]
  if k == 'l': return [2] + [t_tr(x) for x in t[1]]
  if k == 'O': return [3, t[1]] + [[s_tr(key), t_tr(x)] for key, x in t[2]]
  if k == '1': return [4, attrs_tr(t[2], t[3])] + [t_tr(c) for c in t[1]]
  if k == 'M': return [5, t[1], int(t[3]), int(t[4]), attrs_tr(t[5], t[6])] + [t_tr(c) for c in t[2]]
  if k == 'F': return [6, G.f64(t[1]), G.f64(t[2]), attrs_tr(t[3], t[4])]
  if k == 'X': return [7, t[1], attrs_tr(t[2], t[3])]
  raise ValueError(t)

def w_tr(w):
  k = w[0]
  if k in ('none', 'all'): return [0]
  if k == 'kind': return [1] + [int(b) for b in w[1:]]
  if k == 'ncands': return [2, w[1]]
  if k == 'name': return [3, s_tr(w[1])]
  if k == 'hints': return [4, w[1]]
  if k == 'not': return [5, w_tr(w[1])]
  if k == 'or': return [6, w_tr(w[1]), w_tr(w[2])]
  raise ValueError(w)

ERR = {'ValueError': 1, 'TypeError': 2, 'KeyError': 3, 'IndexError': 4}
def err_tr(e):
  return [1, ERR.get(type(e).__name__, 9)]

def spec_of_pg(sp):
  """geno.Space of the library -> the description of geno_gen (literal values dropped)."""
  from pyglove.core import geno
  def space(s): return ('S', [point(e) for e in s.elements])
  def point(e):
    loc = tuple(e.location.keys)
    if isinstance(e, geno.Choices):
      return ('C', e.num_choices, [space(c) for c in e.candidates], bool(e.distinct), bool(e.sorted), loc, e.name, ())
    if isinstance(e, geno.Float):
      return ('F', e.min_value, e.max_value, loc, e.name)
    return ('X', loc, e.name)
  return space(sp)

# ------------------------------------------------------------------------------------------------
# the oracle's own reading of the property text, on descriptions (independent of the library and of the model)
def py_eq(a, b):
  """Python == on leaves."""
  if a is None or b is None: return a is None and b is None
  if isinstance(a, str) or isinstance(b, str): return isinstance(a, str) and isinstance(b, str) and a == b
  return a == b

def left_hypers(v):
  """Every placeholder node of a value, at any depth (including below the candidates of another placeholder)."""
  out = [v] if is_hyper(v) else []
  for _, c in kids(v): out += left_hypers(c)
  return out

def active_points(w, t):
  """Number of decision points the template's own scan must find (accepted placeholders not below another accepted one)."""
  if is_hyper(t) and weval(w, t): return 1
  return sum(active_points(w, c) for _, c in kids(t))

def shape_ok(w, t, v):
  """v has the shape template t prescribes: every accepted placeholder replaced by a decoded candidate, everything else unchanged."""
  if is_hyper(t) and weval(w, t):
    if t[0] == '1': return any(shape_ok(w, c, v) for c in t[1])
    if t[0] == 'M': return v[0] == 'l' and len(v[1]) == t[1] and all(any(shape_ok(w, c, x) for c in t[2]) for x in v[1])
    if t[0] == 'F': return v[0] == 'L' and type(v[1]) is float and t[1] <= v[1] <= t[2]
    if t[1] == 0: return v[0] == 'l' and all(x[0] == 'L' and type(x[1]) is int for x in v[1])
    return v[0] == 'L' and type(v[1]) is str
  if t[0] != v[0]: return False
  if t[0] == 'L': return type(t[1]) is type(v[1]) and t[1] == v[1]
  if t[0] == 'D': return [k for k, _ in t[1]] == [k for k, _ in v[1]] and all(shape_ok(w, a, b) for (_, a), (_, b) in zip(t[1], v[1]))
  if t[0] == 'l': return len(t[1]) == len(v[1]) and all(shape_ok(w, a, b) for a, b in zip(t[1], v[1]))
  if t[0] == 'O': return t[1] == v[1] and [k for k, _ in t[2]] == [k for k, _ in v[2]] and all(shape_ok(w, a, b) for (_, a), (_, b) in zip(t[2], v[2]))
  if t[0] == '1': return t[2:] == v[2:] and len(t[1]) == len(v[1]) and all(shape_ok(w, a, b) for a, b in zip(t[1], v[1]))
  if t[0] == 'M': return t[1] == v[1] and t[3:] == v[3:] and len(t[2]) == len(v[2]) and all(shape_ok(w, a, b) for a, b in zip(t[2], v[2]))
  return t == v

def may_equal(w, a, b):
  """Over-approximation of: some decoded value of candidate template a equals (==) some decoded value of b."""
  aa, ab = is_hyper(a) and weval(w, a), is_hyper(b) and weval(w, b)
  if aa and a[0] == '1': return any(may_equal(w, c, b) for c in a[1])
  if ab and b[0] == '1': return any(may_equal(w, a, c) for c in b[1])
  if ab and not aa: return may_equal(w, b, a)
  if aa:
    if a[0] == 'M':
      if ab and b[0] == 'M': return a[1] == b[1] and any(may_equal(w, x, y) for x in a[2] for y in b[2])
      if ab and b[0] == 'X': return b[1] == 0
      if ab: return False
      if b[0] != 'l' or len(b[1]) != a[1]: return False
      opts = [[i for i, c in enumerate(a[2]) if may_equal(w, c, x)] for x in b[1]]
      return any((not a[3] or len(set(ix)) == len(ix)) and (not a[4] or list(ix) == sorted(ix)) for ix in itertools.product(*opts))
    if a[0] == 'F':
      if ab and b[0] == 'F': return max(a[1], b[1]) <= min(a[2], b[2])
      if ab: return may_equal(w, b, a) if b[0] == 'M' else False
      return b[0] == 'L' and isinstance(b[1], (bool, int, float)) and a[1] <= b[1] <= a[2]
    # custom
    if ab and b[0] == 'X': return a[1] == b[1]
    if ab: return may_equal(w, b, a) if b[0] == 'M' else False
    if a[1] == 0: return b[0] == 'l' and all(is_hyper(x) or (x[0] == 'L' and isinstance(x[1], (bool, int, float))) for x in b[1])
    return b[0] == 'L' and isinstance(b[1], str)
  if a[0] != b[0]: return False
  if a[0] == 'L': return py_eq(a[1], b[1])
  if a[0] == 'D':
    db = dict((k, x) for k, x in b[1])
    return len(a[1]) == len(b[1]) and all(k in db and may_equal(w, x, db[k]) for k, x in a[1])
  if a[0] == 'l': return len(a[1]) == len(b[1]) and all(may_equal(w, x, y) for x, y in zip(a[1], b[1]))
  if a[0] == 'O': return a[1] == b[1] and all(may_equal(w, x, y) for (_, x), (_, y) in zip(a[2], b[2]))
  if a[0] == '1': return a[2:] == b[2:] and len(a[1]) == len(b[1]) and all(may_equal(w, x, y) for x, y in zip(a[1], b[1]))
  if a[0] == 'M': return a[1] == b[1] and a[3:] == b[3:] and len(a[2]) == len(b[2]) and all(may_equal(w, x, y) for x, y in zip(a[2], b[2]))
  return a == b

def distinguishable(w, t):
  """No two candidates of one accepted choice can decode to equal values (decided conservatively by may_equal)."""
  if is_hyper(t) and t[0] in '1M' and weval(w, t):
    cs = cands_of(t)
    if any(may_equal(w, cs[i], cs[j]) for i in range(len(cs)) for j in range(i + 1, len(cs))): return False
  return all(distinguishable(w, c) for _, c in kids(t))

def has_conditional(w, t, below=False):
  if is_hyper(t) and weval(w, t):
    if below: return True
    return any(has_conditional(w, c, True) for _, c in kids(t))
  return any(has_conditional(w, c, below) for _, c in kids(t))

def kinds_key(w, t):
  ks = set()
  def walk(t, below):
    if is_hyper(t):
      acc = weval(w, t)
      lab = {'1': 'oneof', 'F': 'float', 'X': 'custom%d' % t[1] if t[0] == 'X' else ''}.get(t[0]) or ('manyof-k1' if t[1] == 1 else 'manyof%s%s' % ('D' if t[3] else '', 'S' if t[4] else ''))
      ks.add(('' if acc else 'filtered-') + lab + ('@cond' if below and acc else ''))
      for _, c in kids(t): walk(c, below or acc)
    else:
      for _, c in kids(t): walk(c, below)
  walk(t, False)
  return '+'.join(sorted(ks)) or 'constant'

def describe(t):
  k = t[0]
  if k == 'L': return repr(t[1])
  if k == 'D': return '{' + ', '.join('%s: %s' % (key, describe(x)) for key, x in t[1]) + '}'
  if k == 'l': return '[' + ', '.join(describe(x) for x in t[1]) + ']'
  if k == 'O': return '%s(%s)' % (CLASSES[t[1]][0], ', '.join('%s=%s' % (key, describe(x)) for key, x in t[2]))
  a = attrs(t); sfx = ''.join([', name=%r' % a[0] if a[0] else '', ', hints=%r' % a[1] if a[1] is not None else ''])
  if k == '1': return 'oneof([%s]%s)' % (', '.join(describe(c) for c in t[1]), sfx)
  if k == 'M': return 'manyof(%d, [%s]%s%s%s)' % (t[1], ', '.join(describe(c) for c in t[2]), '' if t[3] else ', distinct=False', ', sorted=True' if t[4] else '', sfx)
  if k == 'F': return 'floatv(%s, %s%s)' % (t[1], t[2], sfx)
  return '%s(%s)' % (['CodePoints', 'Word'][t[1]], sfx[2:])

def describe_w(w):
  return {'none': 'where=None', 'all': 'where=lambda x: True'}.get(w[0]) or 'where=%s' % json.dumps(w)

# ------------------------------------------------------------------------------------------------
# generators
LEAVES = [None, True, False, 0, 1, 2, 3, -1, 7, 0.5, 1.0, 2.5, -0.25, 'a', 'b', 'xy', '']
KEYS = ['a', 'b', 'c', 'x', 'y', 'k.d', 'e[0]']     # the last two need escaping in a path string: rebind of the decoded parts goes through path strings

def strip_names(t):
  if t[0] == '1': return ['1', [strip_names(c) for c in t[1]], None, t[3]]
  if t[0] == 'M': return ['M', t[1], [strip_names(c) for c in t[2]], t[3], t[4], None, t[6]]
  if t[0] == 'F': return ['F', t[1], t[2], None, t[4]]
  if t[0] == 'X': return ['X', t[1], None, t[3]]
  if t[0] == 'D': return ['D', [[k, strip_names(x)] for k, x in t[1]]]
  if t[0] == 'l': return ['l', [strip_names(x) for x in t[1]]]
  if t[0] == 'O': return ['O', t[1], [[k, strip_names(x)] for k, x in t[2]]]
  return t

class TGen:
  """Random nested templates: placeholders inside dicts, lists, objects and inside the candidates of other placeholders."""
  def __init__(self, rng, hyper_budget, p_collide=0.15):
    self.r, self.budget, self.n, self.p_collide = rng, hyper_budget, 0, p_collide
  def name(self):
    if self.r.random() < 0.6: return None
    self.n += 1; return 'n%d' % self.n
  def hints(self):
    return self.r.choice([None, None, 1, 2, 3])
  def leaf(self):
    return ['L', self.r.choice(LEAVES)]
  def value(self, d, p_h=0.45):
    """A template node; d = remaining nesting depth."""
    r = self.r
    x = r.random()
    if d <= 0: return self.leaf()
    if x < p_h and self.budget > 0: return self.hyper(d)
    x = r.random()
    if x < 0.34: return self.leaf()
    if x < 0.56: return ['D', [[k, self.value(d - 1, p_h)] for k in r.sample(KEYS, r.choice([0, 1, 2, 2, 3]))]]
    if x < 0.78: return ['l', [self.value(d - 1, p_h) for _ in range(r.choice([0, 1, 2, 2, 3]))]]
    ci = r.choice(UNTYPED)
    return ['O', ci, [[f, self.value(d - 1, p_h)] for f in CLASSES[ci][1]]]
  def family_cands(self, n, d):
    """Candidates that are objects of classes related by inheritance, in any order, with equal or different field values,
    constant or with a nested placeholder."""
    r = self.r
    same = r.random() < 0.6
    nested = d > 1 and self.budget > 0 and r.random() < 0.4
    def field():
      if nested:
        return ['1', [['L', 1], ['L', 2]], None, None]
      return self.leaf()
    fx, fy = field(), self.leaf()
    out = []
    for ci in (r.sample(FAMILY, min(n, len(FAMILY))) + [r.choice(FAMILY) for _ in range(max(0, n - len(FAMILY)))]):
      x, y = (json.loads(json.dumps(fx)), fy) if same else (field(), self.leaf())
      kvs = [['x', x], ['y', y]] + ([['z', r.choice([['L', 0], ['L', 0], self.leaf()])]] if 'z' in CLASSES[ci][1] else [])
      out.append(['O', ci, kvs])
    if nested: self.budget -= 1
    return out
  def cands(self, n, d):
    r = self.r
    if n >= 2 and r.random() < 0.12:
      return self.family_cands(n, d)
    out = []
    used = []
    for _ in range(n):
      if r.random() < self.p_collide and out:
        c = strip_names(json.loads(json.dumps(r.choice(out))))     # a duplicate candidate: not distinguishable (decision point names must stay unique)
      elif r.random() < 0.5 or d <= 1:
        pool = [l for l in LEAVES if not any(py_eq(l, u) for u in used)] if r.random() > self.p_collide else LEAVES
        l = r.choice(pool or LEAVES); used.append(l); c = ['L', l]
      else:
        c = self.value(d - 1, 0.5)
      out.append(c)
    return out
  def hyper(self, d):
    r = self.r
    self.budget -= 1
    x = r.random()
    if x < 0.38:
      return ['1', self.cands(r.choice([1, 2, 2, 3, 3, 4]), d), self.name(), self.hints()]
    if x < 0.76:
      n = r.choice([1, 2, 3, 3, 4])
      k = r.choice([1, 2, 2, 3])
      dist, srt = r.choice([(True, False), (True, True), (False, True), (False, False)])
      if dist and k > n: k = n
      return ['M', k, self.cands(n, d), dist, srt, self.name(), self.hints()]
    if x < 0.88:
      lo = r.randint(-64, 64) / 64.0
      return ['F', lo, lo + r.randint(0, 128) / 64.0, self.name(), self.hints()]
    return ['X', r.randrange(2), self.name(), self.hints()]

def random_where(rng, t):
  hs = left_hypers(t)
  r = rng.random()
  if r < 0.3 or not hs: return rng.choice([['none'], ['none'], ['all']])
  h = rng.choice(hs)
  opts = [['kind', int(h[0] == '1'), int(h[0] == 'M'), int(h[0] == 'F'), int(h[0] == 'X')],
          ['not', ['kind', int(h[0] == '1'), int(h[0] == 'M'), int(h[0] == 'F'), int(h[0] == 'X')]],
          ['kind'] + [rng.randrange(2) for _ in range(4)]]
  if h[0] in '1M': opts += [['ncands', len(cands_of(h))], ['not', ['ncands', len(cands_of(h))]]]
  a = attrs(h)
  if a[0] is not None: opts += [['name', a[0]], ['not', ['name', a[0]]]]
  if a[1] is not None: opts += [['hints', a[1]], ['not', ['hints', a[1]]], ['or', ['hints', a[1]], ['kind', 0, 0, 1, 1]]]
  return rng.choice(opts)

# ---- systematic sweep: every placeholder kind x every container context x every filter relation ----------------
def sweep_placeholders():
  """(label, description); every one carries hints=5 so that a filter can single it out."""
  cond = [['1', [['L', 1], ['L', 2]], None, None], ['L', 'a'], ['D', [['k', ['1', [['L', 'p'], ['L', 'q']], None, None]]]]]
  out = [('oneof', ['1', [['L', 1], ['L', 2], ['L', 3]], None, 5]),
         ('oneof-cond', ['1', cond, None, 5]),
         ('oneof-containers', ['1', [['D', [['a', ['L', 1]]]], ['l', [['L', 1], ['L', 2]]], ['O', 1, [['p', ['L', 0]]]], ['L', None]], None, 5]),
         ('manyof-k1', ['M', 1, [['L', 1], ['L', 2]], True, False, None, 5]),
         ('permutation', ['M', 3, [['L', 'a'], ['L', 'b'], ['L', 'c']], True, False, None, 5]),
         ('float', ['F', 0.0, 1.0, None, 5]), ('custom0', ['X', 0, None, 5]), ('custom1', ['X', 1, None, 5])]
  obj = lambda ci, x=8, z=0: ['O', ci, [['x', x if isinstance(x, list) else ['L', x]], ['y', ['L', 'k']]] + ([['z', ['L', z]]] if ci == 8 else [])]
  inner = lambda: ['1', [['L', 1], ['L', 2]], None, None]
  out += [('oneof-base-derived', ['1', [obj(6), obj(7)], None, 5]), ('oneof-derived-base', ['1', [obj(7), obj(6)], None, 5]),
          ('oneof-base-derived-extra-field', ['1', [obj(6), obj(8), obj(8, z=1)], None, 5]),
          ('oneof-family-nested', ['1', [obj(6, inner()), obj(9, inner()), obj(7, inner())], None, 5]),
          ('oneof-family-different-values', ['1', [obj(6, 1), obj(7, 2), obj(9, 3)], None, 5])]
  for dist in (True, False):
    for srt in (True, False):
      m = ('D' if dist else '') + ('S' if srt else '')
      out.append(('manyof' + m + '-family', ['M', 2, [obj(6), obj(7), obj(9, inner())], dist, srt, None, 5]))
  for dist in (True, False):
    for srt in (True, False):
      m = ('D' if dist else '') + ('S' if srt else '')
      out.append(('manyof' + m, ['M', 2, [['L', 1], ['L', 2], ['L', 3]], dist, srt, None, 5]))
      out.append(('manyof' + m + '-cond', ['M', 2, [['1', [['L', 1], ['L', 2]], None, None], ['L', 5], ['l', [['1', [['L', 'a'], ['L', 'b']], None, None]]]], dist, srt, None, 5]))
      out.append(('manyof' + m + '-float', ['M', 2, [['F', 0.0, 1.0, None, None], ['L', 'z'], ['X', 1, None, None]], dist, srt, None, 5]))
  return out

def sweep_contexts():
  """(label, hole -> template).  Other placeholders in a context carry hints=6 (siblings) or hints=9 (an enclosing filtered-out choice)."""
  sib = lambda: ['1', [['L', 'u'], ['L', 'v']], None, 6]
  return [
      ('root', lambda h: h),
      ('dict', lambda h: ['D', [['a', h]]]),
      ('dict-between-siblings', lambda h: ['D', [['a', sib()], ['b', h], ['c', ['F', 0.0, 0.5, None, 6]]]]),
      ('list', lambda h: ['l', [['L', 0], h]]),
      ('list-of-list', lambda h: ['l', [['l', [h, ['L', 's']]], sib()]]),
      ('object', lambda h: ['O', 0, [['x', h], ['y', ['L', 1]]]]),
      ('object-in-dict-in-list', lambda h: ['l', [['D', [['x', ['O', 1, [['p', h]]]]]]]]),
      ('candidate-of-oneof', lambda h: ['D', [['a', ['1', [['L', 'none'], h, ['D', [['k', h]]]], None, 6]]]]),
      ('candidate-of-manyof', lambda h: ['M', 2, [['L', 'none'], h, ['l', [h]]], False, False, None, 6]),
      ('below-filtered-oneof', lambda h: ['D', [['a', ['1', [h, ['L', 0]], None, 9]], ['b', sib()]]]),
      ('below-filtered-manyof', lambda h: ['l', [['M', 2, [['L', 0], ['D', [['k', h]]], ['L', 1]], True, True, None, 9]]]),
      ('twice', lambda h: ['D', [['a', h], ['b', ['l', [h]]]]]),
  ]

SWEEP_WHERES = [
    ('no-filter', ['none']),
    ('accept-all', ['all']),
    ('only-the-placeholder', ['hints', 5]),                         # siblings and enclosing ones are filtered out
    ('all-but-the-placeholder', ['not', ['or', ['hints', 5], ['hints', 9]]]),
    ('all-but-enclosing', ['not', ['hints', 9]]),                   # the enclosing choice is filtered out, everything below it accepted
    ('nested-only', ['not', ['or', ['hints', 5], ['or', ['hints', 6], ['hints', 9]]]]),   # only what is nested INSIDE the placeholder's candidates
]

# ---- typed fields: placeholders bound to value specs ------------------------------------------------------------
L_ = lambda x: ['L', x]
def typed_sweep():
  """(label, template, may_refuse): placeholders in fields with value specs.  may_refuse: the library may (must, once the
  size check exists) refuse to bind the placeholder; a refusal is then not a generator bug."""
  out = []
  TI = lambda i=L_(1), s=L_('a'), f=L_(0.5), e=L_(1): ['O', 4, [['i', i], ['s', s], ['f', f], ['e', e]]]
  TL = lambda l=['l', [L_(1), L_(2)]], d=['D', [['k', L_(1)]]]: ['O', 5, [['l', l], ['d', d]]]
  one = lambda cs, hints=None: ['1', cs, None, hints]
  for k in (1, 2, 3, 4):
    for dist in (True, False):
      for srt in (True, False):
        m = ('D' if dist else '') + ('S' if srt else '')
        out.append(('manyof%s-k%d-in-List(min2,max3)' % (m, k), TL(l=['M', k, [L_(1), L_(2), L_(3), L_(4)], dist, srt, None, 5]), k in (1, 4)))
  out += [
      ('oneof-in-Int', TI(i=one([L_(0), L_(5), L_(9)])), False),
      ('nested-oneof-in-Int', TI(i=one([L_(0), one([L_(3), L_(4)]), L_(9)])), False),
      ('oneof-in-Str+Word', TI(s=one([L_('p'), L_('q'), ['X', 1, None, None]])), False),
      ('floatv-in-Float', TI(f=['F', 0.5, 2.0, None, None]), False),
      ('oneof-floatv-in-Float', TI(f=one([['F', 0.5, 1.0, None, None], L_(3.5)])), False),
      ('oneof-in-Enum', TI(e=one([L_(3), L_(2)])), False),
      ('all-fields', TI(i=one([L_(1), L_(2)]), s=one([L_('x'), L_('y')]), f=['F', 0.0, 4.0, None, None], e=one([L_(1), L_(2), L_(3)])), False),
      ('oneof-of-lists-in-List', TL(l=one([['l', [L_(1), L_(2)]], ['l', [L_(3), L_(4), L_(5)]]])), False),
      ('oneof-of-manyof-in-List', TL(l=one([['M', 2, [L_(1), L_(2), L_(3)], True, True, None, None], ['l', [L_(7), L_(8), L_(9)]]])), False),
      ('list-with-oneof-in-List', TL(l=['l', [one([L_(1), L_(2)]), L_(3)]]), False),
      ('list-with-nested-oneof-in-List', TL(l=['l', [one([L_(1), one([L_(4), L_(5)])]), L_(3), one([L_(6), L_(7)])]]), False),
      ('oneof-in-Dict-field', TL(d=['D', [['k', one([L_(1), L_(2)])]]]), False),
      ('oneof-of-dicts-in-Dict', TL(d=one([['D', [['k', L_(1)]]], ['D', [['k', one([L_(5), L_(6)])]]]])), False),
      ('typed-object-as-candidate', ['D', [['a', one([TI(i=one([L_(1), L_(2)])), L_(None)])]]], False),
      ('typed-object-in-manyof', ['M', 2, [TL(l=['M', 2, [L_(1), L_(2), L_(3)], True, False, None, None]), L_('z'), TI()], True, False, None, None], False),
      # non-conforming on purpose: must be refused when bound, or at least never produce a value the spec rejects
      ('floatv-out-of-Float-range', TI(f=['F', 0.5, 8.0, None, None]), True),
      ('oneof-out-of-Int-range', TI(i=one([L_(1), L_(12)])), True),
      ('oneof-out-of-Enum', TI(e=one([L_(1), L_(7)])), True),
      ('manyof-of-strs-in-List(Int)', TL(l=['M', 2, [L_('a'), L_('b'), L_('c')], True, False, None, None]), True),
  ]
  return out

def grid_sweep():
  """(label, template, refuse_expected): binding-time validation of every placeholder kind against value specs over the bound grid
  {None, negative, 0, 0.0, positive} x {min, max} x placeholder range below / crossing / touching / inside / above x position
  (field, oneof candidate, manyof candidate in a List field, typed Dict field, typed List element).  Refusal is expected exactly
  when the placeholder can produce a value outside the spec."""
  out = []
  one = lambda cs: ['1', cs, None, None]
  def positions(ci, h, other):
    dflt = {'v': other, 'l': ['l', []], 'd': ['D', [['k', other]]]}
    obj = lambda **kw: ['O', ci, [[f, kw.get(f, dflt[f])] for f in ('v', 'l', 'd')]]
    return [('field', obj(v=h)), ('oneof-candidate', obj(v=one([other, h]))), ('manyof-candidate', obj(l=['M', 2, [h, other], False, False, None, None])),
            ('dict-field', obj(d=['D', [['k', h]]])), ('list-element', obj(l=['l', [other, h]]))]
  for i, (mn, mx) in enumerate(FGRID):
    a = -3.0 if mn is None else float(mn); b = 3.0 if mx is None else float(mx)
    inside = (a + b) / 2 if mn is not None or mx is not None else 0.5
    inside = min(max(inside, a), b)
    ranges = [('below-min', a - 2.0, a - 1.0), ('crossing-min', a - 1.0, min(a + 0.5, b)), ('touching-min', a, min(a + 0.5, b)), ('inside', max(a, inside - 0.25), min(b, inside + 0.25)),
              ('touching-max', max(b - 0.5, a), b), ('crossing-max', max(b - 0.5, a), b + 1.0), ('above-max', b + 1.0, b + 2.0), ('the-whole-range', a, b)]
    for rl, lo, hi in ranges:
      bad = (mn is not None and lo < mn) or (mx is not None and hi > mx)
      for pl, t in positions(GRID_BASE + i, ['F', lo, hi, None, None], L_(inside)):
        out.append(('Float(min=%r,max=%r)/floatv-%s/%s' % (mn, mx, rl, pl), t, bad))
  for i, (mn, mx) in enumerate(IGRID):
    a = -3 if mn is None else mn; b = 3 if mx is None else mx
    inside = min(max((a + b) // 2, a), b)
    sets = [('below-min', [a - 1, inside]), ('touching-min', [a, inside]), ('inside', [inside]), ('touching-max', [inside, b]), ('above-max', [inside, b + 1]), ('both-ends', [a, b])]
    for sl, vals in sets:
      vals = sorted(set(vals))
      bad = any((mn is not None and x < mn) or (mx is not None and x > mx) for x in vals)
      h = one([L_(x) for x in vals]) if len(vals) > 1 else one([L_(vals[0]), one([L_(vals[0])])])
      for pl, t in positions(GRID_BASE + len(FGRID) + i, h, L_(inside)):
        out.append(('Int(min=%r,max=%r)/oneof-%s/%s' % (mn, mx, sl, pl), t, bad))
  for i, (mn, mx) in enumerate(SGRID):
    ci = GRID_BASE + len(FGRID) + len(IGRID) + i
    for k in (1, 2, 3, 4):
      for dist, srt in ((True, False), (False, True)):
        bad = k < mn or (mx is not None and k > mx)
        out.append(('List(min_size=%r,max_size=%r)/manyof-k%d%s' % (mn, mx, k, 'D' if dist else 'S'), ['O', ci, [['l', ['M', k, [L_(1), L_(2), L_(3), L_(4)], dist, srt, None, None]]]], bad))
  return out

def random_typed(rng):
  """A random template around the typed classes; conforming placeholders only, except manyof sizes (1..4 against [2, 3])."""
  one = lambda cs: ['1', cs, None, rng.choice([None, 1, 2])]
  def ints(n, lo, hi):
    return [L_(x) for x in rng.sample(range(lo, hi + 1), n)]
  def ifield():
    r = rng.random()
    if r < 0.3: return L_(rng.randint(0, 9))
    if r < 0.7: return one(ints(rng.randint(1, 3), 0, 9))
    cs = ints(3, 0, 9)
    return one([cs[0], one(cs[1:])])
  def lfield():
    r = rng.random()
    if r < 0.2: return ['l', ints(rng.choice([2, 3]), 0, 9)]
    if r < 0.8:
      n = rng.randint(2, 4); k = rng.randint(1, 4); dist = rng.random() < 0.5
      if dist and k > n: k = n
      return ['M', k, [x if rng.random() < 0.8 else one(ints(2, 10, 20)) for x in ints(n, 0, 9)], dist, rng.random() < 0.5, None, None]
    return one([['l', ints(2, 0, 4)], ['l', ints(3, 5, 9)]])
  ti = lambda: ['O', 4, [['i', ifield()], ['s', rng.choice([L_('a'), one([L_('x'), L_('y')]), ['X', 1, None, None]])],
                         ['f', rng.choice([L_(1.5), ['F', rng.choice([0.0, 0.5]), rng.choice([1.0, 4.0]), None, None], one([L_(0.25), L_(2.5)])])],
                         ['e', rng.choice([L_(2), one([L_(1), L_(3)])])]]]
  tl = lambda: ['O', 5, [['l', lfield()], ['d', rng.choice([['D', [['k', ifield()]]], one([['D', [['k', L_(1)]]], ['D', [['k', L_(2)]]]])])]]]
  r = rng.random()
  if r < 0.35: t = ti()
  elif r < 0.7: t = tl()
  elif r < 0.85: t = ['D', [['a', ti()], ['b', ['l', [tl()]]]]]
  else: t = one([ti(), tl(), L_(0)])
  may_refuse = any(h[0] == 'M' and not (2 <= h[1] <= 3) for h in left_hypers(t))
  return t, may_refuse

# ---- every ordered pair of candidate kinds under one choice (first-match encoding depends on the ORDER of the candidates) ------
def pair_pool():
  one = lambda cs: ['1', cs, None, None]
  return [('int1', L_(1)), ('float1', L_(1.0)), ('true', L_(True)), ('int2', L_(2)), ('str', L_('a')), ('none', L_(None)),
          ('list', ['l', [L_(1)]]), ('list2', ['l', [L_(1), L_(2)]]), ('empty-list', ['l', []]),
          ('dict', ['D', [['a', L_(1)]]]), ('empty-dict', ['D', []]),
          ('dict2', ['D', [['a', L_(1)], ['b', L_(2)]]]), ('dict2-reordered', ['D', [['b', L_(2)], ['a', L_(1)]]]),
          ('object', ['O', 0, [['x', L_(1)], ['y', L_(2)]]]), ('object-other-class', ['O', 1, [['p', L_(1)]]]),
          ('base', ['O', 6, [['x', L_(1)], ['y', L_(2)]]]), ('derived', ['O', 7, [['x', L_(1)], ['y', L_(2)]]]),
          ('derived-extra-field', ['O', 8, [['x', L_(1)], ['y', L_(2)], ['z', L_(0)]]]), ('grandchild', ['O', 9, [['x', L_(1)], ['y', L_(2)]]]),
          ('oneof', one([L_(1), L_(3)])), ('manyof', ['M', 2, [L_(1), L_(2)], True, False, None, None]),
          ('floatv', ['F', 0.0, 2.0, None, None]), ('custom-codepoints', ['X', 0, None, None]), ('custom-word', ['X', 1, None, None]),
          ('list-with-oneof', ['l', [one([L_(1), L_(2)])]]), ('dict-with-oneof', ['D', [['a', one([L_(1), L_(2)])]]]),
          ('base-with-oneof', ['O', 6, [['x', one([L_(1), L_(2)])], ['y', L_(2)]]]), ('derived-with-oneof', ['O', 7, [['x', one([L_(1), L_(2)])], ['y', L_(2)]]])]

def pair_sweep():
  """(label, template): oneof([a, b]) and manyof(2, [a, b], distinct=False) for every ordered pair of candidate kinds."""
  out = []
  pool = pair_pool()
  for (la, a), (lb, b) in itertools.product(pool, pool):
    a, b = json.loads(json.dumps(a)), json.loads(json.dumps(b))
    out.append(('%s,%s/oneof' % (la, lb), ['D', [['v', ['1', [a, b], None, None]]]]))
    out.append(('%s,%s/manyof' % (la, lb), ['M', 2, [a, b], False, False, None, None]))
  return out

def sweep_templates():
  out = []
  for (pl, p), (cl, c), (wl, w) in itertools.product(sweep_placeholders(), sweep_contexts(), SWEEP_WHERES):
    if wl == 'all-but-enclosing' and not cl.startswith('below-filtered'): continue
    if cl.startswith('below-filtered') and wl in ('no-filter', 'accept-all'): continue    # then the enclosing choice is simply accepted: same as candidate-of-*
    if wl == 'nested-only' and not ('cond' in pl or 'float' in pl or 'nested' in pl or 'family' in pl): continue
    out.append(('%s/%s/%s' % (pl, cl, wl), json.loads(json.dumps(c(p))), w))
  return out

# ------------------------------------------------------------------------------------------------
# implementation driver + direct oracle (one template per job; runs in a worker process)
class Rec:
  def __init__(self): self.events = []; self.cases = []; self.impl = []; self.descr = []; self.oracle = 0
  def count(self, key, nontrivial=True, sample=None, kind=None): self.events.append(('count', key, nontrivial, sample, kind))
  def hist(self, name, key, n=1): self.events.append(('hist', name, key, n))
  def hit(self, sig, what, case): self.events.append(('hit', sig, what, case))
  def add(self, case, out, d): self.cases.append(case); self.impl.append(out); self.descr.append(d)

def attempt(fn):
  try:
    return True, fn()
  except Exception as e:   # pylint: disable=broad-except
    return False, e

def res_value(ok, x):
  """res(value) of the wire format from the outcome of a library call returning a value."""
  if not ok: return err_tr(x)
  try:
    return [0, t_tr(from_pg(x))]
  except Unrepresentable:
    return [1, 8]

def res_dna(ok, x):
  return [0, G.tree_tr(G.dna_to_tree(x))] if ok else err_tr(x)

def snapshot(hv):
  pg = py()['pg']
  ok, js = attempt(lambda: pg.to_json_str(hv))
  return json.dumps(from_pg(hv)), (js if ok else 'to_json raises %s' % type(js).__name__)

def sym_nodes(v, acc):
  """ids of the mutable (symbolic container) nodes of a real value."""
  pg = py()['pg']
  if isinstance(v, pg.Symbolic):
    acc[id(v)] = v
    for _, c in v.sym_items(): sym_nodes(c, acc)
  elif isinstance(v, (list, dict)):
    acc[id(v)] = v
    for c in (v.values() if isinstance(v, dict) else v): sym_nodes(c, acc)
  return acc

def check_specs(v):
  """(class.field, error) of the first typed field of a real value whose content its value spec rejects, or None."""
  pg = py()['pg']
  if isinstance(v, pg.Object) and not isinstance(v, pg.hyper.HyperPrimitive):
    for key, field in v.__class__.__schema__.fields.items():
      x = v.sym_getattr(str(key))
      if not isinstance(x, pg.hyper.HyperPrimitive):
        okf, e = attempt(lambda: field.value.apply(pg.clone(x, deep=True) if isinstance(x, pg.Symbolic) else x))
        if not okf: return ('%s.%s' % (type(v).__name__, key), '%s: %s' % (type(e).__name__, str(e)[:120]))
  if isinstance(v, pg.Symbolic):
    for _, c in v.sym_items():
      r = check_specs(c)
      if r: return r
  elif isinstance(v, (list, dict)):
    for c in (v.values() if isinstance(v, dict) else v):
      r = check_specs(c)
      if r: return r
  return None

def canon(v):
  """Hashable key of a description modulo Python == (numbers by value, dicts by key set)."""
  k = v[0]
  if k == 'L':
    x = v[1]
    return ('n', float(x)) if isinstance(x, (bool, int, float)) else ('s', x)
  if k == 'D': return ('D', tuple(sorted((key, canon(x)) for key, x in v[1])))
  if k == 'l': return ('l', tuple(canon(x) for x in v[1]))
  if k == 'O': return ('O', v[1], tuple((key, canon(x)) for key, x in v[2]))
  if k == '1': return ('1', tuple(canon(c) for c in v[1]), v[2], v[3])
  if k == 'M': return ('M', v[1], tuple(canon(c) for c in v[2]), v[3], v[4], v[5], v[6])
  return tuple(v)

def has_node(t, pred):
  return pred(t) or any(has_node(c, pred) for _, c in kids(t))

def feature(w, t):
  """Coarse discriminator of a template for signatures."""
  def filtered_below(t, below):
    if is_hyper(t):
      acc = weval(w, t)
      if below and not acc: return True
      return any(filtered_below(c, below or acc) for _, c in kids(t))
    return any(filtered_below(c, below) for _, c in kids(t))
  if filtered_below(t, False): return 'filtered-placeholder-below-accepted-choice'
  if any(not weval(w, h) for h in left_hypers(t)): return 'with-filter'
  if any(h[0] == 'M' and h[1] > 1 for h in left_hypers(t)): return 'multi-choice'
  if has_conditional(w, t): return 'conditional'
  return 'flat'

def perturbations(rng, vd, limit):
  """One-step perturbations of a decoded value (for the encode correspondence): list of (kind, description)."""
  out = []
  paths = []
  def walk(v, path):
    paths.append(path)
    for i, (_, c) in enumerate(kids(v)): walk(c, path + (i,))
  walk(vd, ())
  def get(v, path):
    for i in path: v = kids(v)[i][1]
    return v
  def put(v, path, new):
    if not path: return new
    v = list(v)
    slot = {'D': 1, 'l': 1, 'O': 2, '1': 1, 'M': 2}[v[0]]
    items = list(v[slot])
    if v[0] in 'DO': items[path[0]] = [items[path[0]][0], put(items[path[0]][1], path[1:], new)]
    else: items[path[0]] = put(items[path[0]], path[1:], new)
    v[slot] = items
    return v
  for p in paths:
    node = get(vd, p)
    k = node[0]
    if k == 'L':
      x = node[1]
      alts = [('leaf->other', 'zz' if x != 'zz' else 'yy'), ('leaf->none', None), ('leaf->list', None)]
      if isinstance(x, bool): alts.append(('bool->int', int(x)))
      elif isinstance(x, int): alts += [('int->float', float(x)), ('int+1', x + 1)]
      elif isinstance(x, float): alts += [('float+4', x + 4.0), ('float->int', int(x)), ('float+1/64', x + 1 / 64.0)]
      for kind, nv in alts:
        out.append((kind, put(vd, p, ['l', []] if kind == 'leaf->list' else ['L', nv])))
    elif k == 'D':
      out.append(('dict->empty-dict', put(vd, p, ['D', []])))
      out.append(('dict->list', put(vd, p, ['l', [x for _, x in node[1]]])))
      out.append(('dict+key', put(vd, p, ['D', node[1] + [['zz', ['L', 0]]]])))
      if node[1]:
        out.append(('dict-key', put(vd, p, ['D', node[1][1:]])))
        out.append(('dict-reversed', put(vd, p, ['D', node[1][::-1]])))
    elif k == 'l':
      out.append(('list->empty-dict', put(vd, p, ['D', []])))
      out.append(('list->dict', put(vd, p, ['D', [['a', ['L', 0]]]])))
      out.append(('list+item', put(vd, p, ['l', node[1] + [['L', 0]]])))
      if node[1]:
        out.append(('list-item', put(vd, p, ['l', node[1][1:]])))
        out.append(('list-reversed', put(vd, p, ['l', node[1][::-1]])))
        out.append(('list-dup-first', put(vd, p, ['l', [node[1][0]] * len(node[1])])))
    elif k == 'O':
      other = (node[1] + 1) % 4
      out.append(('object->other-class', put(vd, p, ['O', other, [[f, ['L', 0]] for f in CLASSES[other][1]]])))
      if node[1] in FAMILY:       # the same fields under a base / derived / sibling class: == says different, encode must too
        have = dict((k, x) for k, x in node[2])
        for rel in FAMILY:
          if rel != node[1]:
            out.append(('object->related-class', put(vd, p, ['O', rel, [[f, have.get(f, ['L', 0])] for f in CLASSES[rel][1]]])))
      out.append(('object->dict', put(vd, p, ['D', node[2]])))
    else:
      out.append(('hyper->leaf', put(vd, p, ['L', 0])))
      if k in '1M':
        cs = cands_of(node)
        out.append(('hyper-candidates-reversed', put(vd, p, node[:1] + [cs[::-1]] + node[2:] if k == '1' else node[:2] + [cs[::-1]] + node[3:])))
  if len(out) > limit: out = rng.sample(out, limit)
  return out

def mutate_everywhere(v):
  """Changes a decoded value at every reachable mutable node (what a caller may do with a value it was handed): a leaf re-bound,
  a key added, an item appended.  Returns the number of changes made.  Placeholders left by a filter are not entered."""
  pg = py()['pg']
  nodes = []
  def walk(x):
    if isinstance(x, pg.hyper.HyperPrimitive): return
    if isinstance(x, pg.Symbolic) or isinstance(x, (list, dict)):
      kids_ = list(x.sym_items()) if isinstance(x, pg.Symbolic) else (list(x.items()) if isinstance(x, dict) else list(enumerate(x)))
      for _, c in kids_: walk(c)
      nodes.append((x, kids_))
  walk(v)
  n = 0
  for x, kids_ in nodes:
    leaf_keys = [k for k, c in kids_ if not isinstance(c, (pg.Symbolic, list, dict))]
    def change():
      if isinstance(x, pg.Object):
        if not leaf_keys: return 0
        x.rebind({str(leaf_keys[0]): 'MUTATED'}); return 1
      if isinstance(x, dict):
        x['mutated'] = 'MUTATED'
        if leaf_keys: x[leaf_keys[0]] = 'MUTATED'
        return 1
      x.append('MUTATED')
      if leaf_keys: x[leaf_keys[0]] = 'MUTATED'
      return 1
    ok, r = attempt(change)
    if ok: n += r
  return n

def permute_keys(v, rng=None):
  """The same value with the items of every dict (not of objects: their field order is the class's) in another order:
  reversed, or shuffled when a generator is given."""
  if v[0] in 'FX': return v
  if is_hyper(v):
    cs = [permute_keys(c, rng) for c in cands_of(v)]
    return [v[0], cs] + v[2:] if v[0] == '1' else v[:2] + [cs] + v[3:]
  if v[0] == 'D':
    items = [[k, permute_keys(x, rng)] for k, x in v[1]]
    if rng is None: items = items[::-1]
    else: rng.shuffle(items)
    return ['D', items]
  if v[0] == 'l': return ['l', [permute_keys(x, rng) for x in v[1]]]
  if v[0] == 'O': return ['O', v[1], [[k, permute_keys(x, rng)] for k, x in v[2]]]
  return v

def to_plain(v):
  """The real value with plain Python dicts / lists where the description has dicts / lists above any object or placeholder."""
  if v[0] == 'D': return {k: to_plain(x) for k, x in v[1]}
  if v[0] == 'l': return [to_plain(x) for x in v[1]]
  return to_pg(v)

def ends_sdna(s, sd, pick):
  """sd with every float decision replaced by the lower (pick=1) or upper (pick=2) end of its range."""
  out = []
  for p, x in zip(s[1], sd):
    if p[0] == 'F': out.append(('f', p[pick]))
    elif p[0] == 'C': out.append(('c', [(c, ends_sdna(p[2][c], sub, pick)) for c, sub in x[1]]))
    else: out.append(x)
  return out

def desc_paths(t, keys=()):
  """(key tuple, node) of every node of a description; the keys are those of the real object (candidates of a placeholder under 'candidates')."""
  out = [(keys, t)]
  if t[0] in '1M':
    for i, c in enumerate(cands_of(t)): out += desc_paths(c, keys + ('candidates', i))
  else:
    for k, c in kids(t): out += desc_paths(c, keys + (k,))
  return out

def desc_put(t, keys, new):
  if not keys: return new
  t = list(t)
  if t[0] in '1M':
    slot = 1 if t[0] == '1' else 2
    assert keys[0] == 'candidates'
    cs = list(t[slot]); cs[keys[1]] = desc_put(cs[keys[1]], keys[2:], new); t[slot] = cs
    return t
  slot = 2 if t[0] == 'O' else 1
  items = list(t[slot])
  if t[0] == 'l': items[keys[0]] = desc_put(items[keys[0]], keys[1:], new)
  else: items = [[k, desc_put(x, keys[1:], new) if k == keys[0] else x] for k, x in items]
  t[slot] = items
  return t

def rebind_variant(rng, t):
  """(t0, ops, kind): a template t0 that differs from t in one place below a hyper primitive, and the in-place update
  (path keys, description of the new value | ('attr', value)) that turns the real object of t0 into t.  None when t has no such place."""
  hs = [(ks, n) for ks, n in desc_paths(t) if is_hyper(n)]
  rng.shuffle(hs)
  for ks, h in hs:
    opts = []
    if h[0] in '1M':
      cs = cands_of(h)
      for i, c in enumerate(cs):
        opts.append(('candidate', ks + ('candidates', i), c, ['L', 'OLD'] if c != ['L', 'OLD'] else ['L', 'OLD2']))
        for k, x in kids(c) if not is_hyper(c) else []:
          opts.append(('nested-field-of-candidate', ks + ('candidates', i, k), x, ['L', 'OLD'] if x != ['L', 'OLD'] else ['L', 'OLD2']))
      opts.append(('hints', ks + ('hints',), ('attr', attrs(h)[1]), ('attr', 77)))
    if h[0] == 'F':
      opts.append(('float-bound', ks + ('min_value',), ('attr', h[1]), ('attr', h[1] - 1.0)))
      opts.append(('hints', ks + ('hints',), ('attr', h[4]), ('attr', 77)))
    if opts:
      kind, path, new, old = rng.choice(opts)
      if old[0] == 'attr':
        h0 = list(h)
        if path[-1] == 'hints': h0[{'1': 3, 'M': 6, 'F': 4, 'X': 3}[h[0]]] = old[1]
        else: h0[1] = old[1]
        t0 = desc_put(t, ks, h0)
      else:
        t0 = desc_put(t, path, old)
      return t0, [[list(path), list(new) if new[0] != 'attr' else ['attr', new[1]]]], kind
  return None

def build_rebound(t0, ops):
  """The real object of t0, then updated in place."""
  pg = py()['pg']
  hv = to_pg(t0)
  for path, new in ops:
    val = new[1] if new[0] == 'attr' else to_pg(new)
    hv.rebind({pg.KeyPath(list(path)).path: val})
  return hv

def process_template(job, prebuilt=None):
  import random as pyrandom
  ti, label, t, w, seed, qtr, P = job[:7]
  prep = job[7] if len(job) > 7 else None
  rec = Rec()
  pg = py()['pg']
  rng = pyrandom.Random(seed)
  wtr, ttr = w_tr(w), t_tr(t)
  td, wd = describe(t), describe_w(w)
  case0 = dict(template=t, where=w)
  feat = feature(w, t)
  kk = kinds_key(w, t)
  nontriv = has_conditional(w, t) or any(h[0] == 'M' and h[1] > 1 and weval(w, h) for h in left_hypers(t)) or any(not weval(w, h) for h in left_hypers(t))
  origin = label.split(':')[0]
  import time
  if time.time() > P['deadline']:      # wall-clock guard of the tier: the template is reported as skipped, never silently
    rec.hist('skipped_for_time_budget', 'template:' + origin); return rec
  rec.hist('template_origin', origin); rec.hist('template_placeholder_kinds', kk); rec.hist('template_feature', feat)
  rec.hist('where_kind', w[0] if w[0] != 'not' else 'not-' + w[1][0])
  if label.endswith('!'):           # the placeholder can produce a value outside the value spec it is bound to: binding must refuse it
    okb, hv = attempt(lambda: to_pg(t))
    if not okb:
      rec.hist('binding_refused', 'grid: refused as expected'); return rec
    rec.hit('C13/binding/accepted-out-of-range/%s' % label.split(':')[1].split('/')[0].split('(')[0],
            'the placeholder in %s can produce a value its field\'s value spec rejects (%s), yet binding it was accepted' % (td, label), dict(case0, op='construct'))
  elif label.endswith('?'):         # typed template that is non-conforming on purpose: the library may refuse to bind the placeholder
    okb, hv = attempt(lambda: to_pg(t))
    if not okb:
      rec.hist('binding_refused', '%s: %s' % (label.split(':')[1][:40] if origin == 'typed' else origin, type(hv).__name__)); return rec
    rec.hist('binding_refused', 'accepted: %s' % (label.split(':')[1][:40] if origin == 'typed' else origin))
  elif prebuilt is not None:
    hv = prebuilt
  elif prep is not None:            # a hyper primitive updated in place before anything else is done with it
    case0 = dict(case0, prep=prep)
    okb, hv = attempt(lambda: build_rebound(prep[0], prep[1]))
    if not okb:
      rec.hit('C13/history/rebind-raises/%s/%s' % (type(hv).__name__, prep[2]), 'updating %s in place at %r raises %s: %s' % (describe(prep[0]), prep[1][0][0], type(hv).__name__, str(hv)[:160]), dict(case0, op='rebind'))
      return rec
    okd, got = attempt(lambda: from_pg(hv))
    if not okd or got != t:
      rec.hit('C13/history/rebind-result/%s' % prep[2], 'updating %s in place at %r gives %s, expected %s' % (describe(prep[0]), prep[1][0][0], describe(got) if okd else '?', td), dict(case0, op='rebind'))
      return rec
    rec.hist('rebound_in_place', prep[2])
  else:
    okb, hv = attempt(lambda: to_pg(t))
    if not okb:                     # every generated template is a legal hyper value: a refusal is an outcome of the implementation, with the case as witness
      rec.hit('C13/construction-raises/%s/%s' % (type(hv).__name__, feat), 'building the hyper value %s raises %s: %s' % (td, type(hv).__name__, str(hv)[:200]), dict(case0, op='construct'))
      return rec
  fn = where_fn(w)
  snap0 = snapshot(hv)
  def unchanged(op, extra=None):
    rec.oracle += 1
    s = snapshot(hv)
    if s != snap0:
      rec.hit('C13/template-modified/%s/%s' % (op, feat), '%s modified the template %s (%s): before %s, after %s' % (op, td, wd, snap0[0][:300], s[0][:300]), dict(case0, op=op, **(extra or {})))
      return False
    return True
  ok, tm = attempt(lambda: pg.template(hv, where=fn))
  if not ok:
    rec.hit('C13/template-raises/%s/%s' % (type(tm).__name__, feat), 'pg.template raises %s: %s on %s (%s)' % (type(tm).__name__, str(tm)[:200], td, wd), dict(case0, op='template'))
    return rec
  ok, sp = attempt(lambda: tm.dna_spec())
  if not ok:
    rec.add([0, wtr, ttr], err_tr(sp), dict(op='dna_spec', template=td, where=wd))
    rec.hit('C13/dna_spec-raises/%s/%s' % (type(sp).__name__, feat), 'dna_spec raises %s: %s on %s (%s)' % (type(sp).__name__, str(sp)[:200], td, wd), dict(case0, op='dna_spec'))
    return rec
  s = spec_of_pg(sp)
  rec.add([0, wtr, ttr], [G.spec_tr(s)], dict(op='dna_spec', template=td, where=wd))
  rec.count(('spec', trlib.to_line(wtr), trlib.to_line(ttr)), nontrivial=nontriv, kind='dna_spec')
  rec.oracle += 1
  if len(s[1]) != active_points(w, t):
    rec.hit('C13/scan/decision-points/%s' % feat, 'the template %s (%s) has %d decision points, the scan must find %d' % (td, wd, len(s[1]), active_points(w, t)), dict(case0, op='dna_spec'))
  # what the model does not carry of the specification: hints and literal values of every top-level decision point
  import numbers
  okh, bad_dp = attempt(lambda: next((str(path) for (path, prim), el in zip(tm.hyper_primitives, sp.elements)
                                      if el.hints != prim.hints or el.name != prim.name or
                                      (hasattr(prim, 'candidates') and (len(el.literal_values) != len(prim.candidates) or
                                       any(isinstance(c, numbers.Number) and l != c for c, l in zip(prim.candidates, el.literal_values))))), None))
  rec.oracle += 1
  if not okh or bad_dp is not None:
    rec.hit('C13/dna_spec/hints-or-literals/%s' % feat, 'the decision point at %r does not carry the hints / name / literal values of its placeholder; template %s (%s)' % (bad_dp if okh else bad_dp, td, wd), dict(case0, op='dna_spec'))
  fin = G.is_finite(s)
  size = G.size(s) if fin else None
  dist = distinguishable(w, t)
  rec.hist('distinguishable', dist); rec.hist('space', 'infinite' if not fin else 'size<=%d' % (1 if size <= 1 else 4 if size <= 4 else 16 if size <= 16 else 64 if size <= 64 else 200 if size <= 200 else 10 ** 9))
  exhaustive = fin and size <= P['limit']
  if exhaustive:
    sds = G.all_valid(s)
  else:
    sds, seen = [], set()
    nrand = P['nrand'] if origin != 'grid' else 6
    for _ in range(nrand * 3):
      sd = G.random_sdna(rng, s)
      key = repr(sd)
      if key not in seen:
        seen.add(key); sds.append(sd)
      if len(sds) >= nrand: break
  # the ends of every float range (valid DNAs at the boundary of the specification)
  if not fin and sds:
    for pick in (1, 2):
      sd = ends_sdna(s, sds[0], pick)
      if repr(sd) not in {repr(x) for x in sds}: sds.append(sd)
  hv_nodes = sym_nodes(hv, {})
  decoded = []
  cwork = set(rng.sample(range(len(sds)), min(P['ncwork'], len(sds))))
  pwork = set(rng.sample(range(len(sds)), min(P['npwork'], len(sds))))
  for di, sd in enumerate(sds):
    if di >= 4 and time.time() > P['deadline']:
      rec.hist('skipped_for_time_budget', 'dnas-of-a-started-template:' + origin, len(sds) - di); exhaustive = False; break
    dna = G.build_dna(sd)
    sdtr = G.sdna_tr(sd)
    dcase = dict(case0, op='decode/encode', sdna=sd)
    ok1, v = attempt(lambda: tm.decode(dna))
    r1 = res_value(ok1, v)
    enc_out = []
    rec.oracle += 1
    vd = None
    if not ok1:
      cause = 'bound-value-spec-rejects-decoded-value' if has_node(t, lambda n: n[0] == 'O' and n[1] in TYPED) and not isinstance(v, (KeyError, IndexError)) and 'DNA' not in str(v)[:40] else feat
      rec.hit('C13/decode-raises/%s/%s' % (type(v).__name__, cause), 'decode of the valid DNA %s raises %s: %s; template %s (%s)' % (dna, type(v).__name__, str(v)[:200], td, wd), dcase)
    elif r1 == [1, 8]:
      rec.hit('C13/decode-shape/unrepresentable/%s' % feat, 'decode of %s returns a value outside the template language: %r; template %s (%s)' % (dna, v, td, wd), dcase)
    else:
      vd = from_pg(v)
      decoded.append(vd)
      # no placeholder left, except the filtered-out ones
      lh = left_hypers(vd)
      bad = [h for h in lh if weval(w, h)]
      if bad:
        rec.hit('C13/placeholder-left/%s/%s' % (bad[0][0], feat), 'decode of %s leaves the placeholder %s in %s; template %s (%s)' % (dna, describe(bad[0]), describe(vd), td, wd), dcase)
      if bool(pg.is_deterministic(v)) != (not lh):
        rec.hit('C13/placeholder-left/is_deterministic/%s' % feat, 'pg.is_deterministic(%s) = %s' % (describe(vd), pg.is_deterministic(v)), dcase)
      if not shape_ok(w, t, vd):
        rec.hit('C13/decode-shape/%s' % feat, 'decode of %s gives %s which does not have the shape of the template %s (%s)' % (dna, describe(vd), td, wd), dcase)
      # decoding twice gives equal values
      ok2, v2 = attempt(lambda: tm.decode(dna))
      if not ok2 or not pg.eq(v, v2) or from_pg(v2) != vd:
        rec.hit('C13/decode-twice/%s' % feat, 'decoding %s twice gives %s and then %s' % (dna, describe(vd), describe(from_pg(v2)) if ok2 else type(v2).__name__), dcase)
      elif set(sym_nodes(v, {})) & set(sym_nodes(v2, {})):
        rec.hit('C13/history/results-share-nodes/%s' % ('root' if v is v2 else 'inner'), 'two decodes of %s on the same template object return values that share a mutable node: changing one changes the other; template %s (%s)' % (dna, td, wd), dcase)
      unchanged('decode', dict(sdna=sd))
      # every typed field of the decoded value is accepted by its value spec
      bad_field = check_specs(v)
      if bad_field:
        rec.hit('C13/respects-spec/%s' % bad_field[0], 'decode of %s puts a value into field %s that its value spec rejects: %s; template %s (%s)' % (dna, bad_field[0], bad_field[1], td, wd), dcase)
      # the result does not share mutable nodes with the template
      shared = [n for i, n in sym_nodes(v, {}).items() if i in hv_nodes]
      if shared:
        rec.hit('C13/result-aliases-template/%s' % ('root' if shared[0] is v else 'inner'), 'decode of %s returns an object that is part of the template itself (%r): mutating the result changes the search space; template %s (%s)' % (dna, shared[0], td, wd), dcase)
      # encode
      ok3, d3 = attempt(lambda: tm.encode(v))
      enc_out = [res_dna(ok3, d3)]
      unchanged('encode', dict(sdna=sd))
      if dist:
        rec.oracle += 1
        if not ok3:
          cause = 'list-vs-empty-dict' if (type(d3).__name__ == 'TypeError' and has_node(vd, lambda n: n == ['D', []]) and has_node(t, lambda n: n[0] == 'l')) else feat
          rec.hit('C13/encode-decode/raises-%s/%s' % (type(d3).__name__, cause), 'encode(decode(%s)) raises %s: %s although the candidates are distinguishable; value %s; template %s (%s)' % (dna, type(d3).__name__, str(d3)[:160], describe(vd), td, wd), dcase)
        elif G.freeze(G.dna_to_tree(d3)) != G.freeze(G.dna_to_tree(dna)):
          okv, _ = attempt(lambda: sp.validate(d3))
          rec.hit('C13/encode-decode/%s/%s' % ('returns-other-dna' if okv else 'returns-invalid-dna', feat), 'encode(decode(%s)) = %s although the candidates are distinguishable; value %s; template %s (%s)' % (dna, d3, describe(vd), td, wd), dcase)
      # an equal value with another dict key order is the same value: it must encode to the same DNA
      # (as pg.Dict and as plain dict / list containers; nested dicts permuted too)
      if any(n[0] == 'D' and len(n[1]) > 1 for _, n in desc_paths(vd) if not is_hyper(n)):
        perm = permute_keys(vd, rng if di % 2 else None)
        if perm != vd:
          rec.oracle += 1
          for how, build in (('pg.Dict', lambda: to_pg(perm)), ('plain-dict', lambda: to_plain(perm))):
            okp, vp = attempt(build)
            if not okp: rec.hist('permuted_unconstructible', type(vp).__name__); continue
            okq_, dq = attempt(lambda: tm.encode(vp))
            if how == 'pg.Dict':
              rec.add([3, qtr, wtr, ttr, t_tr(perm)], [res_dna(okq_, dq)], dict(op='encode-permuted-keys', template=td, where=wd, value=describe(perm)))
              rec.count(('encp', trlib.to_line(wtr), trlib.to_line(ttr), trlib.to_line(t_tr(perm))), nontrivial=True, kind='encode-permuted-keys')
            if dist and (not okq_ or G.freeze(G.dna_to_tree(dq)) != G.freeze(G.dna_to_tree(dna))):
              rec.hit('C13/encode-decode/permuted-dict-keys/%s' % how, 'the value %s (%s) equals decode(%s) = %s up to dict key order, but encodes to %s; template %s (%s)' % (
                  describe(perm), how, dna, describe(vd), dq if okq_ else '%s: %s' % (type(dq).__name__, str(dq)[:100]), td, wd), dcase)
          unchanged('encode-permuted-keys', dict(sdna=sd))
      if di < 2:
        okm, vm = attempt(lambda: pg.materialize(hv, dna, where=fn))
        rec.oracle += 1
        if not okm or not pg.eq(vm, v) or from_pg(vm) != vd:
          rec.hit('C13/materialize-differs/%s' % feat, 'pg.materialize(%s) differs from template.decode' % dna, dcase)
        unchanged('materialize', dict(sdna=sd))
      # SECOND STAGE: a partially decoded value (placeholders left by the filter) is a search space of its own — it must behave
      # exactly like a freshly written equal value: same specification, decode / encode / iteration on the remaining space
      run_stage2 = False
      if P.get('stage', 1) == 1 and left_hypers(vd) and di in ((0, len(sds) - 1) if (P.get('thorough') or origin == 'corpus') else (0,)) and time.time() < P['deadline']:
        rec.oracle += 1
        oks2, sp2 = attempt(lambda: spec_of_pg(pg.dna_spec(v)))
        okf2, spf = attempt(lambda: spec_of_pg(pg.dna_spec(to_pg(vd))))
        scase = dict(dcase, op='second-stage')
        if not okf2:
          # the library refuses the freshly written equal value as a search space (a multi-choice that picks a NAMED nested
          # placeholder twice leaves two separate decision points with one name): the decoded value must be refused alike
          rec.hist('second_stage_not_a_search_space', '%s (fresh equal value refused)' % type(spf).__name__)
          if oks2:
            rec.hit('C13/second-stage/accepted-where-fresh-equal-value-is-refused/%s' % feat, 'decode of %s leaves %s; pg.dna_spec refuses an equal freshly written value (%s: %s) but accepts the decoded one; template %s (%s)' % (
                dna, describe(vd), type(spf).__name__, str(spf)[:100], td, wd), scase)
        elif not oks2 or sp2 != spf:
          rec.hit('C13/second-stage/spec-differs-from-fresh-equal-value/%s' % feat, 'decode of %s leaves %s; pg.dna_spec of that value is %s, of an equal freshly written value %s; template %s (%s)' % (
              dna, describe(vd), G.describe(sp2) if oks2 else '%s: %s' % (type(sp2).__name__, str(sp2)[:100]), G.describe(spf), td, wd), scase)
        P2 = dict(P, stage=2, limit=16, nrand=4, ncwork=0, npwork=0, nsample=0)
        run_stage2 = okf2
      if run_stage2:
        # a root-level manyof decodes to a plain Python list: as a search space of its own it is written as a pg.List
        v_space = pg.List(v) if isinstance(v, list) and not isinstance(v, pg.List) else v
        ok2s, rec2 = attempt(lambda: process_template((ti, 'second-stage:' + label.rstrip('?!'), vd, ['none'], seed + di, qtr, P2), prebuilt=v_space))
        if not ok2s:
          rec.hit('C13/second-stage/raises-%s/%s' % (type(rec2).__name__, feat), 'using the decoded value %s as a search space raises %s: %s' % (describe(vd), type(rec2).__name__, str(rec2)[:160]), scase)
        else:
          for ev in rec2.events:
            if ev[0] == 'hit':
              rec.hit('C13/second-stage/' + ev[1].split('/', 1)[1], 'second stage on the value decoded from %s (%s), DNA %s: %s' % (td, wd, dna, ev[2]), dict(scase, second_stage_case=ev[3]))
            else:
              rec.events.append(ev)
          rec.cases += rec2.cases; rec.impl += rec2.impl; rec.descr += rec2.descr; rec.oracle += rec2.oracle
    rec.add([1, qtr, wtr, ttr, sdtr], [1, r1, r1, enc_out], dict(op='decode/encode', template=td, where=wd, dna=str(dna)))
    rec.count(('dec', trlib.to_line(wtr), trlib.to_line(ttr), trlib.to_line(sdtr)), nontrivial=nontriv, kind='decode+encode',
              sample=dict(op='decode/encode', template=td, where=wd, dna=str(dna), value=describe(vd) if vd else None, distinguishable=dist) if nontriv and (ti + di) % 41 == 0 else None)
    # corrupted DNA trees: outcome of decode only (outside the property's quantifier; the correspondence still has to hold)
    if di in cwork:
      for kind, raw in G.corruptions(rng, s, sd, limit=P['ncorr']):
        okc, dn = attempt(lambda: G.tree_to_dna(raw))
        if not okc:
          rec.hist('corruption_unconstructible', type(dn).__name__); continue
        actual = G.dna_to_tree(dn)
        okd, vc = attempt(lambda: tm.decode(dn))
        rec.add([2, wtr, ttr, G.tree_tr(actual)], [res_value(okd, vc)], dict(op='decode-corrupted', template=td, where=wd, kind=kind, tree=repr(actual)))
        rec.count(('cdec', trlib.to_line(wtr), trlib.to_line(ttr), repr(actual)), nontrivial=True, kind='decode-corrupted')
        rec.hist('corrupted_decode_outcome', 'value' if okd else type(vc).__name__); rec.hist('corruption_kinds', kind)
      unchanged('decode-corrupted', dict(sdna=sd))
    # perturbed values: outcome of encode only
    if di in pwork and vd is not None:
      for kind, pv in perturbations(rng, vd, P['npert']):
        okb, real = attempt(lambda: to_pg(pv))
        if not okb:
          rec.hist('perturbation_unconstructible', type(real).__name__); continue
        pv = from_pg(real)          # what was actually built (a typed field may have converted an int to a float)
        oke, de = attempt(lambda: tm.encode(real))
        rec.add([3, qtr, wtr, ttr, t_tr(pv)], [res_dna(oke, de)], dict(op='encode-perturbed', template=td, where=wd, kind=kind, value=describe(pv)))
        rec.count(('enc', trlib.to_line(wtr), trlib.to_line(ttr), trlib.to_line(t_tr(pv))), nontrivial=True, kind='encode-perturbed')
        rec.hist('perturbed_encode_outcome', 'dna' if oke else type(de).__name__); rec.hist('perturbation_kinds', kind)
      unchanged('encode-perturbed', dict(sdna=sd))
  # HISTORY on the same template object: decode d1, change the result everywhere a caller can, decode d1 again and d2: the later
  # results must be what a fresh template gives, share no node with the earlier ones, and still encode to their DNA
  if sds and time.time() < P['deadline']:
    pairs_ = [(0, len(sds) - 1)] + ([(len(sds) // 2, 0)] if len(sds) > 2 else [])
    for i1, i2 in pairs_:
      d1, d2 = G.build_dna(sds[i1]), G.build_dna(sds[i2])
      hcase = dict(case0, op='history', sdna=sds[i1], sdna2=sds[i2])
      okA, vA = attempt(lambda: tm.decode(d1))
      if not okA: continue
      okd, descA = attempt(lambda: from_pg(vA))
      if not okd: continue
      nodesA = sym_nodes(vA, {})
      nmut = mutate_everywhere(vA)
      rec.oracle += 1
      rec.hist('history_mutations_per_value', min(nmut, 5))
      okB, vB = attempt(lambda: tm.decode(d1)); okC, vC = attempt(lambda: tm.decode(d2))
      okF, fresh = attempt(lambda: pg.template(hv, where=fn))
      okFB, fB = attempt(lambda: fresh.decode(d1)); okFC, fC = attempt(lambda: fresh.decode(d2))
      if not (okB and okC and okF and okFB and okFC):
        bad = [x for o, x in ((okB, vB), (okC, vC), (okF, fresh), (okFB, fB), (okFC, fC)) if not o][0]
        rec.hit('C13/history/raises-%s/%s' % (type(bad).__name__, feat), 'after a decoded value of %s was modified by the caller, decoding on the same or on a fresh template raises %s: %s; template %s (%s)' % (d1, type(bad).__name__, str(bad)[:120], td, wd), hcase)
        continue
      oks, ds = attempt(lambda: (from_pg(vB), from_pg(fB), from_pg(vC), from_pg(fC)))
      if not oks or ds[0] != descA or ds[1] != descA or ds[2] != ds[3] or not pg.eq(vB, fB) or not pg.eq(vC, fC):
        rec.hit('C13/history/decode-after-mutation-differs/%s' % feat, 'decode(%s), then the caller modifies that value, then decode(%s) / decode(%s) on the SAME template object: got %s / %s, a fresh template gives %s / %s; template %s (%s)' % (
            d1, d1, d2, describe(ds[0]) if oks else '?', describe(ds[2]) if oks else '?', describe(ds[1]) if oks else '?', describe(ds[3]) if oks else '?', td, wd), hcase)
      nodesB, nodesC = sym_nodes(vB, {}), sym_nodes(vC, {})
      if (set(nodesA) & set(nodesB)) or (set(nodesC) & (set(nodesA) | set(nodesB))) or ((set(nodesB) | set(nodesC)) & set(hv_nodes)):
        rec.hit('C13/history/results-share-nodes/successive', 'successive decode results on the same template object share a mutable node; template %s (%s)' % (td, wd), hcase)
      if dist and oks and ds[0] == descA:
        okE, dE = attempt(lambda: tm.encode(vB))
        if not okE or G.freeze(G.dna_to_tree(dE)) != G.freeze(G.dna_to_tree(d1)):
          rec.hit('C13/history/encode/%s' % feat, 'after the history, encode(decode(%s)) = %s; template %s (%s)' % (d1, dE if okE else type(dE).__name__, td, wd), hcase)
    unchanged('history')
  # iteration
  if exhaustive and len(s[1]) > 0:
    oki, L = attempt(lambda: list(pg.iter(hv, where=fn)))
    rec.oracle += 1
    icase = dict(case0, op='iter')
    if not oki:
      rec.add([4, wtr, ttr, P['limit'] + 5], err_tr(L), dict(op='iter', template=td, where=wd))
      rec.hit('C13/iter-raises/%s/%s' % (type(L).__name__, feat), 'pg.iter raises %s: %s on %s (%s)' % (type(L).__name__, str(L)[:200], td, wd), icase)
    else:
      rec.add([4, wtr, ttr, P['limit'] + 5], [[sp.space_size], [res_value(True, x) for x in L]], dict(op='iter', template=td, where=wd))
      rec.count(('iter', trlib.to_line(wtr), trlib.to_line(ttr)), nontrivial=nontriv, kind='iter')
      if len(L) != size or sp.space_size != size:
        rec.hit('C13/iter-count/%s' % feat, 'pg.iter yields %d values, space_size = %s, %d DNAs are valid; template %s (%s)' % (len(L), sp.space_size, size, td, wd), icase)
      elif dist:
        keys = {}
        for i, x in enumerate(L):
          keys.setdefault(canon(from_pg(x)), []).append(i)
        dup = [ix for ix in keys.values() if len(ix) > 1]
        if dup:
          rec.hit('C13/iter-duplicates/%s' % feat, 'pg.iter yields equal values at positions %s although the candidates are distinguishable; template %s (%s)' % (dup[0], td, wd), icase)
        elif len(L) >= 2:
          i, j = rng.sample(range(len(L)), 2)
          if pg.eq(L[i], L[j]):
            rec.hit('C13/iter-duplicates/%s' % feat, 'pg.eq holds between values %d and %d of pg.iter' % (i, j), icase)
      unchanged('iter')
  # random sampling (pg.random_sample = pg.iter with geno.Random): the proposed DNA must be valid for the template's specification
  # and the yielded value must be its decoding; on finite spaces the pair goes through the model as well
  has_custom = '"X"' in json.dumps(s)
  if len(s[1]) > 0 and not has_custom and time.time() < P['deadline']:
    okr, R = attempt(lambda: list(pg.iter(hv, P['nsample'], pg.geno.Random(seed=ti), where=fn, force_feedback=True)))
    rec.oracle += 1
    rcase = dict(case0, op='random_sample', seed=ti)
    if not okr:
      rec.hit('C13/random-sample-raises/%s/%s' % (type(R).__name__, feat), 'pg.iter(..., geno.Random(seed=%d)) raises %s: %s on %s (%s)' % (ti, type(R).__name__, str(R)[:160], td, wd), rcase)
    else:
      oks, R2 = attempt(lambda: list(pg.random_sample(hv, P['nsample'], where=fn, seed=ti)))
      if not oks or len(R2) != len(R) or any(not pg.eq(a, b[0]) for a, b in zip(R2, R)):
        rec.hit('C13/random-sample/differs-from-iter/%s' % feat, 'pg.random_sample(seed=%d) differs from pg.iter with geno.Random(seed=%d) on %s (%s)' % (ti, ti, td, wd), rcase)
      for v, fb in R:
        tree = G.dna_to_tree(fb.dna)
        sd = G.parse_tree(s, tree) if fin else None
        okv, _ = attempt(lambda: sp.validate(fb.dna))
        okx, vx = attempt(lambda: from_pg(v))
        if not okv or (fin and sd is None):
          rec.hit('C13/random-sample/invalid-dna/%s' % feat, 'random sampling proposed %s, not a valid DNA of the template %s (%s)' % (fb.dna, td, wd), rcase)
        elif not okx or not shape_ok(w, t, vx) or any(weval(w, h) for h in left_hypers(vx)):
          rec.hit('C13/random-sample/value/%s' % feat, 'random sampling yields %r for %s: not a decoding of the template %s (%s)' % (v, fb.dna, td, wd), rcase)
        elif fin:
          oke, de = attempt(lambda: tm.encode(v))
          r1 = res_value(True, v)
          rec.add([1, qtr, wtr, ttr, G.sdna_tr(sd)], [1, r1, r1, [res_dna(oke, de)]], dict(op='random_sample', template=td, where=wd, dna=str(fb.dna)))
          rec.count(('rand', trlib.to_line(wtr), trlib.to_line(ttr), trlib.to_line(G.sdna_tr(sd))), nontrivial=nontriv, kind='random_sample')
      unchanged('random_sample')
  return rec

# ------------------------------------------------------------------------------------------------
# witnesses of the findings (all fixed; they stay in the corpus, and the list-vs-empty-dict one sets the model's quirk flag by replay)
CORPUS = [
    # encode ignored the distinct / sorted constraints of a multi-choice (fixed)
    ('corpus:manyof-encode-unchecked', ['1', [['M', 2, [['L', 1], ['L', 2]], True, False, None, None], ['l', [['L', 1], ['L', 1]]]], None, None], ['none']),
    ('corpus:manyof-encode-unsorted', ['1', [['M', 2, [['L', 1], ['L', 2], ['L', 3]], True, True, None, None], ['l', [['L', 3], ['L', 1]]]], None, None], ['none']),
    # encode dropped the filter below an accepted choice (fixed)
    ('corpus:encode-drops-where', ['D', [['x', ['1', [['1', [['L', 1], ['L', 2]], None, None], ['L', 3], ['L', 4]], None, None]]]], ['ncands', 3]),
    # a list candidate before an empty dict candidate (fixed; its replay sets the quirk flag of the model)
    ('corpus:list-vs-empty-dict', ['1', [['l', [['1', [['L', 1], ['L', 2]], None, None]]], ['D', []]], None, None], ['none']),
    ('corpus:list-vs-dict', ['1', [['l', [['L', 1]]], ['D', [['a', ['L', 1]]]]], None, None], ['none']),
    # object_template_test.py / docstring examples
    ('corpus:docstring', None, ['none']),
    # encode followed the INPUT's key order (fixed)
    ('corpus:encode-key-order', ['D', [['a', ['1', [['L', 1], ['L', 2]], None, None]], ['b', ['1', [['L', 1], ['L', 2], ['L', 3]], None, None]], ['c', ['D', [['y', ['1', [['L', 'p'], ['L', 'q']], None, None]], ['x', ['F', 0.0, 1.0, None, None]]]]]]], ['none']),
    # a multi-choice picking a NAMED nested placeholder twice: the partially decoded value holds two separate decision points with
    # one name, which the library refuses as a search space (like an equal freshly written value) — second stage must expect that
    ('corpus:named-placeholder-picked-twice', ['M', 2, [['1', [['F', 0.578125, 1.671875, 'n1', None], ['L', 1], ['l', [['L', 'xy'], ['L', False], ['L', 'xy']]], ['L', 0.5]], None, 2], ['L', 0.5], ['L', 'b']], False, False, None, None], ['ncands', 3]),
    ('corpus:named-oneof-picked-three-times', ['M', 3, [['L', -0.25], ['L', ''], ['1', [['L', True], ['L', 'b']], 'n1', 1]], False, True, 'n2', None], ['ncands', 3]),
    ('corpus:constant', ['D', [['a', ['L', 0]]]], ['none']),
    ('corpus:root-leaf', ['L', 1], ['none']),
]

def _docstring_template():
  L = lambda x: ['L', x]
  one = lambda cs: ['1', cs, None, None]
  many = lambda k, cs, dist, srt: ['M', k, cs, dist, srt, None, None]
  e = one([['D', [['f', one([L(True), L(False)])]]],
           ['D', [['g', many(2, [['O', 3, []], ['O', 1, [['p', L(1)]]], L('D')], False, False)],
                  ['h', many(2, [L(0), L(1), L(2)], False, True)]]]])
  return ['O', 2, [['u', L(0)], ['v', one([L('foo'), L('bar')])],
                   ['w', ['D', [['c', many(2, [L(i) for i in range(1, 7)], True, False)], ['d', ['F', 0.125, 0.5, None, None]], ['e', e]]]]]]
CORPUS = [(l, t if t is not None else _docstring_template(), w) for l, t, w in CORPUS]

def detect_quirks():
  """Replays the witness of the open finding: encode of an empty dict against a template whose first candidate is a list."""
  pg = py()['pg']
  t = pg.template(pg.oneof([[pg.oneof([1, 2])], {}]))
  ok, r = attempt(lambda: t.encode(t.decode(pg.DNA(1))))
  return dict(list_dict=(not ok and type(r).__name__ == 'TypeError'))

def evolvable_oracle(ctx):
  """pg.evolve placeholders (a CustomHyper whose DNA is the JSON text of the value): oracle only, no model run."""
  pg = py()['pg']
  def mk(kind):
    e = lambda: pg.evolve(pg.List([1, 2]), lambda k, v, p: 0)
    if kind == 'dict': return pg.Dict(a=e(), b=pg.oneof([1, 2]))
    if kind == 'list': return pg.List([pg.oneof(['u', 'v']), e()])
    if kind == 'candidate': return pg.oneof(['x', pg.Dict(k=e()), 7])
    if kind == 'manyof': return pg.manyof(2, ['y', pg.oneof([1, 2]), e()], distinct=False)   # the evolvable last: it encodes any value
    return e()
  texts = [pg.to_json_str(pg.List(l)) for l in ([], [1], [3, 4, 5])]
  def dnas(kind):
    D = pg.DNA
    if kind == 'dict': return [(D([t, i]), lambda t=t, i=i: {'a': json.loads(t), 'b': [1, 2][i]}) for t in texts for i in (0, 1)]
    if kind == 'list': return [(D([i, t]), lambda t=t, i=i: ['uv'[i], json.loads(t)]) for t in texts for i in (0, 1)]
    if kind == 'candidate': return [(D(0), lambda: 'x'), (D(2), lambda: 7)] + [(D(1, [D(t)]), lambda t=t: {'k': json.loads(t)}) for t in texts]
    if kind == 'manyof': return [(D(None, [D(2, [D(t)]), D(0)]), lambda t=t: [json.loads(t), 'y']) for t in texts] + [(D(None, [D(1, [D(1)]), D(2, [D(texts[1])])]), lambda: [2, [1]])]
    return [(D(t), lambda t=t: json.loads(t)) for t in texts]
  n = 0
  for kind in ('root', 'dict', 'list', 'candidate', 'manyof'):
    hv = mk(kind)
    before = pg.format(hv, compact=True)
    ok, tm = attempt(lambda: pg.template(hv))
    if not ok:
      ctx.hit('C13/template-raises/%s/evolvable' % type(tm).__name__, 'pg.template raises on a template with pg.evolve (%s)' % kind, dict(op='evolvable', kind=kind)); continue
    for dna, expect in dnas(kind):
      n += 1
      case = dict(op='evolvable', kind=kind, dna=str(dna))
      ok1, v = attempt(lambda: tm.decode(dna))
      if not ok1:
        ctx.hit('C13/decode-raises/%s/evolvable' % type(v).__name__, 'decode of %s raises %s: %s (pg.evolve in %s)' % (dna, type(v).__name__, str(v)[:150], kind), case); continue
      plain = pg.to_json(v) if isinstance(v, pg.Symbolic) else v
      if not pg.is_deterministic(v) or plain != expect():
        ctx.hit('C13/decode-shape/evolvable', 'decode of %s gives %r, expected %r (pg.evolve in %s)' % (dna, v, expect(), kind), case)
      ok2, v2 = attempt(lambda: tm.decode(dna))
      if not ok2 or not pg.eq(v, v2):
        ctx.hit('C13/decode-twice/evolvable', 'decoding %s twice gives different values (pg.evolve in %s)' % (dna, kind), case)
      ok3, d3 = attempt(lambda: tm.encode(v))
      if not ok3 or G.freeze(G.dna_to_tree(d3)) != G.freeze(G.dna_to_tree(dna)):
        ctx.hit('C13/encode-decode/evolvable', 'encode(decode(%s)) = %s (pg.evolve in %s)' % (dna, d3 if ok3 else type(d3).__name__, kind), case)
      if pg.format(hv, compact=True) != before:
        ctx.hit('C13/template-modified/evolvable', 'decode / encode modified a template with pg.evolve (%s)' % kind, case)
      ctx.count(('evolvable', kind, str(dna)), nontrivial=True, kind='evolvable(oracle only)')
  ctx.extra['evolvable_oracle_cases'] = n

def reference_oracle(ctx):
  """Templates with pg.hyper.reference (derived values, hyper/derived.py) inside placeholder-free candidates: the value of the
  reference depends on ANOTHER decision, so the order of library-side evaluation matters.  Sequences of DNAs on ONE template object,
  every result modified by the caller after it was recorded; each result must equal the hand-computed value and what a fresh
  template gives.  Oracle only (derived values are not in the model)."""
  pg = py()['pg']
  ref = pg.hyper.reference
  A = py()['classes'][0]
  specs = [
      ('dict-candidate', lambda: pg.Dict(q=pg.oneof([1, 2]), a=pg.oneof([pg.Dict(x=ref('q')), 0])),
       lambda d: {'q': [1, 2][d[0]], 'a': {'x': [1, 2][d[0]]} if d[1] == 0 else 0}, [(0, 0), (1, 0), (0, 1), (1, 1)]),
      ('list-candidate', lambda: pg.Dict(q=pg.oneof(['u', 'v']), a=pg.oneof([7, pg.List([ref('q'), 1])])),
       lambda d: {'q': 'uv'[d[0]], 'a': 7 if d[1] == 0 else ['uv'[d[0]], 1]}, [(0, 1), (1, 1), (0, 0), (1, 0)]),
      ('object-candidate', lambda: pg.Dict(q=pg.oneof([1, 2]), a=pg.manyof(2, [A(x=ref('q'), y=0), 5, pg.Dict(k=ref('q'))], distinct=False)),
       None, [(0, (0, 0)), (1, (0, 2)), (0, (2, 1)), (1, (1, 1)), (1, (0, 0))]),
      ('top-level-field', lambda: pg.Dict(q=pg.oneof([1, 2, 3]), r=ref('q'), s=pg.Dict(t=ref('q'))),
       lambda d: {'q': d[0] + 1, 'r': d[0] + 1, 's': {'t': d[0] + 1}}, [(0,), (2,), (1,)]),
  ]
  def to_dna(d):
    D = pg.DNA
    return D(None, [D(None, [D(c) for c in x]) if isinstance(x, tuple) else D(x) for x in d])
  n = 0
  for kind, mk, expect, ds in specs:
    hv = mk()
    before = pg.format(hv, compact=True)
    ok, tm = attempt(lambda: pg.template(hv))
    if not ok:
      ctx.hit('C13/template-raises/%s/reference' % type(tm).__name__, 'pg.template raises on a template with pg.hyper.reference (%s): %s' % (kind, str(tm)[:150]), dict(op='reference', kind=kind)); continue
    seq = ds + ds[::-1] + [ds[0], ds[0]]
    earlier = {}
    for step, d in enumerate(seq):
      n += 1
      dna = to_dna(d)
      case = dict(op='reference', kind=kind, sequence=[list(map(str, x)) for x in seq[:step + 1]])
      ok1, v = attempt(lambda: tm.decode(dna))
      okf, vf = attempt(lambda: pg.template(mk()).decode(dna))
      if not ok1 or not okf:
        bad = v if not ok1 else vf
        ctx.hit('C13/decode-raises/%s/reference' % type(bad).__name__, 'decode of %s raises %s: %s (pg.hyper.reference in %s, step %d of the sequence)' % (dna, type(bad).__name__, str(bad)[:150], kind, step), case); break
      plain, plainf = pg.to_json(v), pg.to_json(vf)
      if plain != plainf or not pg.eq(v, vf) or (expect is not None and plain != expect(d)):
        ctx.hit('C13/history/decode-after-mutation-differs/reference', 'step %d of %s on ONE template object (%s): decode(%s) = %s, a fresh template gives %s%s' % (
            step, [str(to_dna(x)) for x in seq[:step + 1]], kind, dna, plain, plainf, '' if expect is None else ', expected %s' % expect(d)), case); break
      shared = [k for k, nodes in earlier.items() if set(nodes) & set(sym_nodes(v, {}))]
      if shared:
        ctx.hit('C13/history/results-share-nodes/reference', 'decode(%s) at step %d shares a mutable node with the result of step %s (%s)' % (dna, step, shared[0], kind), case); break
      ok3, d3 = attempt(lambda: tm.encode(v))
      if not ok3 or G.freeze(G.dna_to_tree(d3)) != G.freeze(G.dna_to_tree(dna)):
        ctx.hit('C13/history/encode/reference', 'encode(decode(%s)) = %s at step %d (%s)' % (dna, d3 if ok3 else '%s: %s' % (type(d3).__name__, str(d3)[:100]), step, kind), case); break
      earlier[step] = sym_nodes(v, {})
      mutate_everywhere(v)
      if pg.format(hv, compact=True) != before:
        ctx.hit('C13/template-modified/reference', 'the history modified a template with pg.hyper.reference (%s)' % kind, case); break
      ctx.count(('reference', kind, step), nontrivial=True, kind='reference(oracle only)')
  ctx.extra['reference_oracle_cases'] = n

def run_jobs(jobs, nproc):
  import multiprocessing as mp
  if nproc <= 1 or len(jobs) < 8:
    return [process_template(j) for j in jobs]
  with mp.get_context('fork').Pool(nproc) as pool:
    return pool.map(process_template, jobs, chunksize=max(1, len(jobs) // (nproc * 8)))

GENERATED = {'Gen/HyperDefs.v': hyper_defs.translate}

def run(ctx):
  import os
  info = ctx.regen('Gen/HyperDefs.v', hyper_defs.translate)
  if info is not None: ctx.extra['transcription_source_fingerprints'] = info['fingerprints']
  ctx.build()
  rng = ctx.rng
  py()
  q = detect_quirks()
  qtr = [int(q['list_dict'])]
  ctx.extra['quirk_flags_from_witness_replay'] = q
  import time
  P = dict(limit=ctx.scale(200, 200), nrand=ctx.scale(50, 50), ncwork=ctx.scale(1, 3), ncorr=ctx.scale(6, 20), npwork=ctx.scale(1, 3), npert=ctx.scale(6, 20), nsample=ctx.scale(2, 6), thorough=ctx.thorough)
  ctx.extra['per_template_parameters'] = dict(P)
  budget = int(os.environ.get('C13_IMPL_BUDGET', ctx.scale(55, 1200)))
  P['deadline'] = time.time() + budget
  ctx.extra['implementation_wall_budget_s'] = budget
  sweep = sweep_templates()
  ctx.extra['sweep'] = dict(what='every placeholder kind (oneof, oneof with conditional candidates, manyof in all four distinct x sorted modes plain / conditional / with float+custom candidates, '
                                 'manyof k=1, permutation, floatv, two custom hypers) x every container context (root, dict, between siblings, list, nested lists, object field, object in dict in list, '
                                 'candidate of oneof, candidate of manyof, below a filtered-out oneof / manyof, twice) x filter relation (none, accept-all, only it, all but it, all but the enclosing one, nested only)',
                            templates=len(sweep))
  if not ctx.thorough:      # stratified: every placeholder kind in PER_KIND random (context, filter) combinations
    by_kind = {}
    for item in sweep: by_kind.setdefault(item[0].split('/')[0], []).append(item)
    sweep = [x for kind in sorted(by_kind) for x in rng.sample(by_kind[kind], min(6, len(by_kind[kind])))]
  ctx.extra['sweep']['run_in_this_tier'] = len(sweep)
  templates = [(l, t, w) for l, t, w in CORPUS] + [('sweep:' + l, t, w) for l, t, w in sweep]
  pairs = pair_sweep()
  ctx.extra['pair_sweep'] = dict(what='oneof([a, b]) and manyof(2, [a, b], distinct=False) for every ORDERED pair of %d candidate kinds (leaves equal under ==, lists, dicts in both key orders, '
                                      'empty containers, objects of unrelated and of inheritance-related classes, nested oneof / manyof / floatv / customs, containers and objects with a placeholder inside)' % len(pair_pool()),
                                 templates=len(pairs))
  if not ctx.thorough and not os.environ.get('C13_ALLPAIRS'):
    pairs = [pairs[i] for i in sorted(rng.sample(range(len(pairs)), 120))]
  ctx.extra['pair_sweep']['run_in_this_tier'] = len(pairs)
  templates += [('pairs:' + l, t, ['none']) for l, t in pairs]
  tsweep = typed_sweep()
  ctx.extra['typed_sweep'] = dict(what='placeholders bound to value specs (Int range, Str, Float range, Enum, List(Int, min 2, max 3), Dict schema): manyof k = 1..4 in all four modes, '
                                       'oneof / nested oneof / floatv / custom / lists / dicts / typed objects as candidates, and non-conforming placeholders that must be refused', templates=len(tsweep))
  for l, t, mr in tsweep:
    for w in (['none'], ['kind', 1, 0, 1, 1]):
      templates.append(('typed:%s%s' % (l, '?' if mr else ''), t, w))
  grid = grid_sweep()
  ctx.extra['bound_grid_sweep'] = dict(what='binding-time validation over the bound grid: Float / Int specs with min, max in {None, negative, 0, 0.0, positive}, List size bounds; floatv ranges / oneof value sets below, crossing, '
                                            'touching, inside, above each bound; positions: field, oneof candidate, manyof candidate in a List field, typed Dict field, typed List element; refusal expected exactly when the placeholder can leave the spec',
                                       templates=len(grid))
  if not ctx.thorough and not os.environ.get('C13_ALLGRID'):      # always: every spec with a bound equal to zero, placeholder directly in the field; plus a seeded sample of the rest
    zero = [g for g in grid if ('=0,' in g[0] or '=0)' in g[0] or '=0.0' in g[0]) and g[0].endswith('/field')]
    rest = [g for g in grid if g not in zero]
    grid = zero + [rest[i] for i in sorted(rng.sample(range(len(rest)), 90))]
  ctx.extra['bound_grid_sweep']['run_in_this_tier'] = len(grid)
  templates += [('grid:%s%s' % (l, '!' if bad else ''), t, ['none']) for l, t, bad in grid]
  for i in range(ctx.scale(60, 1500)):
    t, mr = random_typed(rng)
    templates.append(('typed-random:%d%s' % (i, '?' if mr else ''), t, random_where(rng, t) if rng.random() < 0.4 else ['none']))
  for i in range(ctx.scale(180, 6000)):
    g = TGen(rng, hyper_budget=rng.choice([1, 2, 2, 3, 3, 4, 5]), p_collide=rng.choice([0.0, 0.0, 0.1, 0.3]))
    t = g.value(rng.choice([1, 2, 2, 3, 3]), p_h=0.6)
    if not left_hypers(t) and rng.random() < 0.8:
      t = g.hyper(rng.choice([1, 2, 3]))
    templates.append(('random:%d' % i, t, random_where(rng, t)))
  if os.environ.get('C13_MAXTEMPLATES'):
    templates = templates[::max(1, len(templates) // int(os.environ['C13_MAXTEMPLATES']))]
  # hyper primitives updated IN PLACE (one candidate, a nested field of a candidate, hints, a float bound) before anything is done
  # with them: the updated object must behave like a freshly built equal one — the whole check runs on it, model included
  rebound = [('rebound:oneof-candidate', ['1', [['L', 5], ['L', 2]], None, None], ['none'], (['1', [['L', 1], ['L', 2]], None, None], [[['candidates', 0], ['L', 5]]], 'candidate'))]
  pool = [(l, t, w) for l, t, w in templates if l.split(':')[0] in ('sweep', 'random', 'pairs') and left_hypers(t)]
  for l, t, w in [pool[i] for i in sorted(rng.sample(range(len(pool)), min(len(pool), ctx.scale(80, 3000))))]:
    var = rebind_variant(rng, t)
    if var is not None:
      rebound.append(('rebound:' + l.replace(':', '-'), t, w, var))
  ctx.extra['rebound_in_place'] = dict(what='templates whose real object is built differing in one place below a hyper primitive (a candidate, a nested field of a candidate, hints, a float bound) and then updated in place '
                                            'with rebind before dna_spec / decode / encode / iter / history are run on it', templates=len(rebound))
  jobs = [(ti, l, t, w, rng.getrandbits(48), qtr, P) for ti, (l, t, w) in enumerate(templates)]
  jobs += [(len(jobs) + i, l, t, w, rng.getrandbits(48), qtr, P, prep) for i, (l, t, w, prep) in enumerate(rebound)]
  # under a wall budget the tail is what gets skipped: the purely random templates go last
  jobs.sort(key=lambda j: 1 if j[1].split(':')[0] in ('random', 'typed-random') else 0)
  nproc = int(os.environ.get('VERIF_JOBS', str(min(12, os.cpu_count() or 2))))
  recs = run_jobs(jobs, nproc)
  ctx.log('implementation ran on %d templates (%d worker processes)%s' % (len(jobs), nproc, '; wall budget exhausted: the rest is reported under skipped_for_time_budget' if time.time() > P['deadline'] else ''))
  cases, impl, descr = [], [], []
  noracle = 0
  for rec in recs:
    for ev in rec.events:
      if ev[0] == 'count': ctx.count(ev[1], nontrivial=ev[2], sample=ev[3], kind=ev[4])
      elif ev[0] == 'hist': ctx.hist(ev[1], ev[2], ev[3])
      else: ctx.hit(ev[1], ev[2], ev[3])
    cases += rec.cases; impl += rec.impl; descr += rec.descr
    noracle += rec.oracle
  evolvable_oracle(ctx)
  reference_oracle(ctx)
  ctx.extra['oracle_evaluations'] = noracle + ctx.extra.get('evolvable_oracle_cases', 0) + ctx.extra.get('reference_oracle_cases', 0)
  model = ctx.model_run(cases)
  lookup = {id(c): d for c, d in zip(cases, descr)}
  ctx.compare('HyperRun.run vs pg.template(...).dna_spec / decode / encode / pg.iter', cases, impl, model, describe=lambda c: lookup.get(id(c)))
  ctx.exhaustive = False
  # something no longer checks (translation, proof, correspondence) and the oracle has no failing input yet: targeted search over
  # the parts of the systematic sweeps this tier did not run (oracle only), within a second wall budget
  if ctx.is_broken() and not ctx.hits:
    done = {l for l, _, _ in templates}
    more = [('sweep:' + l, t, w) for l, t, w in sweep_templates() if 'sweep:' + l not in done] + [('pairs:' + l, t, ['none']) for l, t in pair_sweep() if 'pairs:' + l not in done]
    rng.shuffle(more)
    P2 = dict(P, deadline=time.time() + int(os.environ.get('C13_SEARCH_BUDGET', ctx.scale(35, 600))), ncwork=0, npwork=0)
    recs2 = run_jobs([(10 ** 6 + i, l, t, w, rng.getrandbits(48), qtr, P2) for i, (l, t, w) in enumerate(more)], nproc)
    nh = 0
    for rec in recs2:
      for ev in rec.events:
        if ev[0] == 'hit': ctx.hit(ev[1], ev[2], ev[3]); nh += 1
    ctx.extra['targeted_search'] = dict(templates=len(more), hits=nh)
    ctx.log('targeted search over %d more templates: %d hits' % (len(more), nh))

def replay(ctx, rp):
  c = rp['case']
  py()
  q = detect_quirks()
  import time
  P = dict(limit=200, nrand=50, ncwork=0, ncorr=0, npwork=0, npert=0, nsample=3, deadline=time.time() + 600)
  job = (0, 'replay', c['template'], c['where'], 1, [int(q['list_dict'])], P) + ((tuple(c['prep']),) if c.get('prep') else ())
  rec = process_template(job)
  hits = [ev for ev in rec.events if ev[0] == 'hit']
  known = {f['signature'] for f in ctx.open_findings()} if rp.get('ignore_known') else set()
  hits = [h for h in hits if h[1] not in known]
  for h in hits[:5]:
    print('  still fails:', h[1], '-', h[2][:300])
  return not hits

"""C12 — DNA views are lossless and stay aligned with the specification."""
import copy, random as pyrandom, re
from harness.lib import tr as trlib
from harness.props import geno_gen as G
from harness.props.c11 import mode_key, has_multi, verdict, detect_quirks as c11_quirks, run_jobs_with

META = dict(
    id='C12',
    model_run='PG.Model.GenoRun.run',
    runner_name='Geno',
    model_targets=['Model/Geno.vo', 'Model/GenoViews.vo', 'Model/GenoRun.vo'],
    technique=('Coq proofs over the executable Geno model extended with the exported views (flat / nested numbers, compact and verbose JSON values and the '
               'constructor\'s parser, to_dict / from_dict under every key, value and multi-choice style, decision ids, lookups, the specification bound to every node) '
               '+ differential correspondence against pyglove.core.geno on generated specifications with names and literal values + a direct round-trip / alignment oracle, '
               'also along chains of library operations (iteration, random generation, parsing, cloning, mutation, recombination)'),
    design_ref='DESIGN.md §5 C12',
    level_text='(filled in below)',
    level_note='(filled in below)',
    rule=('a case is (operation, specification, DNA or view[, view parameters]); distinct by its full wire text; non-trivial when the specification has a '
          'multi-choice, a conditional sub-space, a name or literal values'),
    trusted_base=['extraction: ExtrOcamlBasic only; ocaml/main.ml lexer/printer; cross-checked against vm_compute on a sample',
                  'harness/props/geno_gen.py builds the real pg.geno objects and the wire form from one Python description of each spec',
                  'canonicalisation of dictionary views: id paths are mapped to their key lists through the specification\'s own decision points; "i/n" and "i/n (literal)" strings are parsed back to (i, n, literal)'],
    assumptions=['formatting of ids as strings (KeyPath.path) and of "i/n (literal)" strings is not modelled: the model keeps them structured and the harness parses the library\'s strings',
                 'literal values are generated pairwise distinct per decision point and never look like "i/n" (otherwise the literal view is not injective, as documented for candidate_index)',
                 'bool DNA values and children under a custom decision point are outside the model (see C11)'],
)
META['level_text'] = (
    'Theorems: from_numbers(to_numbers d) = d, the compact JSON value parses back to the same DNA, the nested-number view parses back (after the repair of the chain rendering), '
    'the dictionary view reconstructs the DNA (proved for id keys with subchoice / both keys with and without inactive decisions and for dna_spec keys, every non-DNA value type, under view_ok; parent keys and name_or_id keys are decided by the correspondence and the oracle), '
    'DNA.__getitem__ by id / decision point returns the node at that decision point\'s position and None when inactive (proved), to_dict for every style is a fold over the decision nodes (proved), '
    'and every producer returns an aligned DNA (each node bound to the decision point of its position), whose views equal those of the DNA rebuilt from its numbers. '
    'Tie: the model is run against the library on generated specifications x valid DNAs x all 45 view-parameter combinations (plus inactive decisions), on corrupted views, and '
    'the direct oracle checks every round trip and the alignment of every DNA the library hands out along chains iter -> clone -> mutate -> recombine '
    '(querying the inputs is part of the chain; every lookup on a produced DNA is compared with the DNA rebuilt from its numbers and must return that DNA\'s own nodes). '
    'The id structure the lookup / dictionary theorems assume is checked on every real specification: each id is the path from the root, ids are unique when the paths are, '
    'each extends its parent choice\'s id, and they are the same after deep clone, JSON round trip, dna_spec of the equivalent hyper value and after nesting the finished specification under a new choice / multi-choice.')
META['level_note'] = (
    'Trusted: Coq kernel; extraction cross-checked with vm_compute; the harness including the canonicalisation of dictionary keys and choice strings. '
    'Modelled, not verified: the Python code (tied by the correspondence); string formatting of ids; JSON text encoding (the model stops at the JSON value: lists, tuples, scalars); '
    'metadata/userdata carried by clone are not part of this property. Partly proved statements are named *_partial in coq/Properties/C12.v and listed in design/C12.md.')

KTS = ['id', 'name_or_id', 'dna_spec']
VTS = ['value', 'dna', 'choice', 'literal', 'choice_and_literal']
MCS = ['subchoice', 'parent', 'both']
RE_C = re.compile(r'^(\d+)/(\d+)$')
RE_CL = re.compile(r'^(\d+)/(\d+) \((.*)\)$', re.S)

# ------------------------------------------------------------------------------------------------
# the specification's nodes by address (mirror of the addressing of Geno.bind / GenoViews.dps)
class SpecIndex:
  def __init__(self, s, pg):
    self.s, self.pg = s, pg
    self.addr = {}        # id(spec object) -> address tuple
    self.obj = {}         # address -> spec object
    self.kind = {}        # address -> point description (the Python tuple) for decision points
    self.walk_space(s, pg, ())
    self.idmap = {}       # id path string -> key list (wire form)
    self.names = set()
    for dp in pg.decision_points:
      self.idmap[dp.id.path] = self.id_tr(dp.id)
      if dp.is_categorical and dp.is_subchoice:
        self.idmap[dp.parent_spec.id.path] = self.id_tr(dp.parent_spec.id)
      if dp.name is not None: self.names.add(dp.name)
  def reg(self, obj, a, p=None):
    self.addr[id(obj)] = a; self.obj[a] = obj
    if p is not None: self.kind[a] = p
  def walk_space(self, s, pg, a):
    self.reg(pg, a)
    for i, (p, e) in enumerate(zip(s[1], pg.elements)):
      self.walk_point(p, e, a + (i,))
  def walk_point(self, p, e, a):
    self.reg(e, a, p)
    if p[0] != 'C': return
    if p[1] == 1:
      for j, (c, cs) in enumerate(zip(p[2], e.candidates)): self.walk_space(c, cs, a + (j,))
    else:
      for i in range(p[1]):
        sub = e.subchoice(i)
        self.reg(sub, a + (i,), p)
        for j, (c, cs) in enumerate(zip(p[2], sub.candidates)): self.walk_space(c, cs, a + (i, j))
  @staticmethod
  def id_tr(kp):
    from pyglove.core.geno.base import ConditionalKey
    out = []
    for k in kp.keys:
      if isinstance(k, ConditionalKey): out.append([2, k.index, k.num_choices])
      elif isinstance(k, int): out.append([1, k])
      else: out.append([0, [ord(c) for c in str(k)]])
    return out
  def key_tr(self, k, kt):
    if kt == 'dna_spec' or not isinstance(k, str):
      return [2] + list(self.addr[id(k)])
    if kt == 'name_or_id' and k in self.names:
      return [1, [ord(c) for c in k]]
    return [0] + self.idmap[k]
  def point_of_key(self, k):
    """The description of the decision point (or multi-choice) a dictionary key refers to."""
    if not isinstance(k, str):
      return self.kind.get(self.addr[id(k)])
    for dp in self.pg.decision_points:
      if dp.name == k or dp.id.path == k: return self.kind[self.addr[id(dp)]]
      if dp.is_categorical and dp.is_subchoice and dp.parent_spec.id.path == k: return self.kind[self.addr[id(dp)]]
    return None

def oval(v):
  """Value encoding for oracle-only comparisons (floats drawn by the library's own operators need not be dyadic)."""
  return ['f', repr(v)] if isinstance(v, float) else G.val_tr(v)

def bound_tree(d, ix, val=G.val_tr):
  sp = d.spec
  return [val(d.value), [] if sp is None else [list(ix.addr.get(id(sp), (99,)))]] + [bound_tree(c, ix, val) for c in d.children]

def expected_bound(s, sd, val=G.val_tr):
  """The spec address of every node by its POSITION (independent of the library): mirror of normalize."""
  class _G:
    val_tr = staticmethod(val)
  G = _G
  def space_node(s, sd, a):
    if len(s[1]) == 1: return point_node(s[1][0], sd[0], a + (0,))
    return [G.val_tr(None), [list(a)]] + [point_node(p, x, a + (i,)) for i, (p, x) in enumerate(zip(s[1], sd))]
  def kids_of(cand, sub, a):
    if len(cand[1]) == 1:
      n = point_node(cand[1][0], sub[0], a + (0,))
      return n[2:] if cand[1][0][0] == 'C' and cand[1][0][1] > 1 else [n]
    return [point_node(p, x, a + (i,)) for i, (p, x) in enumerate(zip(cand[1], sub))]
  def single(p, c, sub, a):
    return [G.val_tr(c), [list(a)]] + kids_of(p[2][c], sub, a + (c,))
  def point_node(p, x, a):
    if p[0] != 'C': return [G.val_tr(x[1]), [list(a)]]
    if p[1] == 1: return single(p, x[1][0][0], x[1][0][1], a)
    return [G.val_tr(None), [list(a)]] + [single(p, c, sub, a + (i,)) for i, (c, sub) in enumerate(x[1])]
  return space_node(s, sd, ())

def decisions_at(s, sd):
  """address of every single decision point -> the concrete sub-tree deciding it (None when inactive);
  multi-choice parents -> list of the trees of their sub-choices. Independent of the library."""
  out = {}
  def space(s, sd, a, active):
    for i, p in enumerate(s[1]):
      point(p, sd[i] if active else None, a + (i,), active)
  def single(p, cs, a, active):
    out[a] = G.mk(cs[0], [G.normalize(cs[1])]) if active else None
    for j, cand in enumerate(p[2]):
      on = active and cs[0] == j
      space(cand, cs[1] if on else None, a + (j,), on)
  def point(p, x, a, active):
    if p[0] != 'C':
      out[a] = (x[1], []) if active else None; return
    if p[1] == 1:
      single(p, x[1][0] if active else None, a, active)
    else:
      for i in range(p[1]):
        single(p, x[1][i] if active else None, a + (i,), active)
      out[('multi',) + a] = [out[a + (i,)] for i in range(p[1])] if active else None
  space(s, sd, (), True)
  return out

# ------------------------------------------------------------------------------------------------
# canonical wire form of views
def nest_tr(x):
  if isinstance(x, tuple): return [2] + [nest_tr(e) for e in x]
  if isinstance(x, list): return [1] + [nest_tr(e) for e in x]
  return [0, G.val_tr(x)]

def json_to_nested(j):
  """pg.to_json encodes a tuple as ['__tuple__', ...]."""
  if isinstance(j, list):
    if j and j[0] == '__tuple__': return tuple(json_to_nested(e) for e in j[1:])
    return [json_to_nested(e) for e in j]
  return j

def lit_of_text(p, text):
  for l in p[7]:
    if str(l) == text: return l
  return None

def leaf_tr(x, p, vt):
  from pyglove.core.geno import DNA
  if x is None: return [0]
  if isinstance(x, DNA): return [2, G.tree_tr(G.dna_to_tree(x))]
  if p is None or p[0] != 'C' or vt in ('value', 'dna'):
    return [1, G.val_tr(x)]
  if isinstance(x, str):
    m = RE_CL.match(x)
    if m:
      l = lit_of_text(p, m.group(3))
      return [4, int(m.group(1)), int(m.group(2)), G.lit_tr(l) if l is not None else [0, [ord(c) for c in '?' + m.group(3)]]]
    m = RE_C.match(x)
    if m: return [3, int(m.group(1)), int(m.group(2))]
  return [5, G.lit_tr(x)]

def dict_tr(dct, ix, kt, vt):
  out = []
  for k, v in dct.items():
    p = ix.point_of_key(k)
    val = [1] + [leaf_tr(e, p, vt) for e in v] if isinstance(v, list) else [0, leaf_tr(v, p, vt)]
    out.append([ix.key_tr(k, kt), val])
  return out

def view_ok(s, kt, vt):
  """The dictionary view is injective: literal values pairwise distinct where they are used as the value."""
  ok = True
  def walk(s):
    nonlocal ok
    for p in s[1]:
      if p[0] == 'C':
        if vt == 'literal' and len(set(p[7])) != len(p[7]): ok = False
        for c in p[2]: walk(c)
  walk(s)
  return ok

class Rec:
  def __init__(self): self.events = []; self.cases = []; self.impl = []; self.descr = []; self.oracle = 0
  def count(self, key, nontrivial=True, sample=None, kind=None): self.events.append(('count', key, nontrivial, sample, kind))
  def hist(self, name, key, n=1): self.events.append(('hist', name, key, n))
  def hit(self, sig, what, case): self.events.append(('hit', sig, what, case))
  def add(self, case, out, d): self.cases.append(case); self.impl.append(out); self.descr.append(d)

def spec_features(s):
  f = set()
  def walk(s, depth):
    for p in s[1]:
      if p[0] == 'C':
        if p[1] > 1: f.add('multi')
        if p[6]: f.add('named')
        if p[7]: f.add('lits:' + type(p[7][0]).__name__)
        if any(c[1] for c in p[2]): f.add('conditional')
        for c in p[2]: walk(c, depth + 1)
      else:
        f.add('float' if p[0] == 'F' else 'custom')
        if p[-1]: f.add('named')
  walk(s, 0)
  return f

def nested_is_lossy():
  """Witness replay of the nested-numbers finding (chain of three single choices)."""
  from pyglove.core import geno
  return geno.DNA((1, 2, 1)).to_numbers(flatten=False) != (1, 2, 1)

def process_spec(job):
  si, s, origin, seed, Q, P = job
  forced = None
  light = False
  medium = False
  if isinstance(origin, tuple):          # (origin, [(label, sdna), ...]): a systematic family with its own DNAs
    origin, forced = origin
    light = origin == 'nesting-chain-family'      # serialisation family: few dictionary combinations per DNA
    medium = origin == 'mixed-nesting-family'     # id family: the id-keyed combinations, a few others, all lookups
  from pyglove.core import geno
  import pyglove as pgl
  DNA = geno.DNA
  import time
  rng = pyrandom.Random(seed)
  ctx = Rec()
  if time.time() > P['deadline']:
    ctx.hist('skipped_for_time_budget', origin); return ctx
  add = ctx.add
  qtr = [int(Q['float_bind_kids'])]
  str_ = G.spec_tr(s)
  pg = G.to_pg(s)
  ix = SpecIndex(s, pg)
  sdesc = G.describe(s)
  feats = spec_features(s)
  nontriv = bool(feats - {'float', 'custom'})
  for f in feats or {'plain'}: ctx.hist('spec_features', f)
  ctx.hist('spec_origin', origin); ctx.hist('spec_points', G.count_points(s))
  _ids = [dp.id.path for dp in pg.decision_points]
  ctx.hist('hypothesis:ids_unique (C12_dict_roundtrip_partial)', len(set(_ids)) == len(_ids))
  ctx.hist('hypothesis:literals_distinct', view_ok(s, 'id', 'literal'))
  casej = lambda **kw: dict(spec=s, **kw)
  # (17) decision points, their ids and names
  infos = []
  for dp in pg.decision_points:
    infos.append([list(ix.addr[id(dp)]), ix.id_tr(dp.id), trlib.opt(dp.name), [dp.subchoice_index] if dp.is_categorical and dp.is_subchoice else []])
  add([17, str_], [infos], dict(op='decision_points', spec=sdesc))
  ctx.count(('dps', trlib.to_line(str_)), nontrivial=nontriv, kind='decision_points')
  ctx.hist('id_structure_checked', 'ok' if oracle_ids(ctx, s, pg, ix, sdesc) else 'FAILS')
  fin = G.is_finite(s)
  work = [G.random_sdna(rng, s) for _ in range(P['ndna'])]
  if fin and G.size(s) <= 40:
    allv = G.all_valid(s)
    work = [allv[0], allv[-1]] + work[:max(0, P['ndna'] - 2)] if not P['all_small'] else allv
  combos = [(kt, vt, mc) for kt in KTS for vt in VTS for mc in MCS]
  if forced is not None:
    work = [sd for _, sd in forced]
    for lbl, _ in forced: ctx.hist(origin + '_dnas', lbl.split('/')[0])
  for wi, sd in enumerate(work):
    sdt = G.sdna_tr(sd)
    tree = G.normalize(sd)
    d = G.build_dna(sd)
    try:
      d.use_spec(pg)
      dstr = str(d)
      nums = d.to_numbers(); nested = d.to_numbers(flatten=False)
      compact = d.to_json(type_info=False)
      jv = d.to_json(compact=False)
      verbose = [G.val_tr(jv['value'])] + [nest_tr(json_to_nested(c['value'])) for c in jv.get('children', [])]
    except Exception as e:   # pylint: disable=broad-except
      ctx.hit('C12/view-raises/%s' % type(e).__name__, 'binding or rendering the valid DNA %r of %s raises %s: %s' % (tree, sdesc, type(e).__name__, str(e)[:100]),
              dict(spec=s, sdna=sd, clause='view-raises'))
      add([10, int(Q['nested_lossy']), str_, sdt], [-2], dict(op='views', spec=sdesc, dna=repr(tree)))
      continue
    # ---- (10) numbers, nested, compact, verbose ------------------------------------------------
    add([10, int(Q['nested_lossy']), str_, sdt], [[G.val_tr(v) for v in nums], nest_tr(nested), nest_tr(compact), verbose], dict(op='views', spec=sdesc, dna=dstr))
    ctx.count(('views', trlib.to_line(str_), trlib.to_line(sdt)), nontrivial=nontriv, kind='numbers/nested/json',
              sample=dict(op='views', spec=sdesc, dna=dstr, numbers=repr(nums), nested=repr(nested), compact=repr(compact)) if nontriv and (si + wi) % 23 == 0 else None)
    # ---- (16) alignment of the bound DNA; (11) from_numbers; (12),(18) parsers --------------------
    add([16, qtr, str_, G.tree_tr(tree)], [[bound_tree(d, ix)]], dict(op='use_spec', spec=sdesc, dna=dstr))
    ctx.count(('bind', trlib.to_line(str_), trlib.to_line(sdt)), nontrivial=nontriv, kind='use_spec')
    for label, lst in [('numbers', nums)] + [(k, l) for k, l in number_corruptions(rng, nums)][:(0 if light else 1 if forced is not None else P['ncorr'])]:
      try:
        r = DNA.from_numbers(list(lst), pg); out = [[bound_tree(r, ix)]]
      except Exception as e:
        r = None; out = [[]]; ctx.hist('from_numbers_error', type(e).__name__)
      add([11, qtr, str_, [G.val_tr(v) for v in lst]], out, dict(op='from_numbers', spec=sdesc, numbers=repr(lst), kind=label))
      ctx.count(('from_numbers', trlib.to_line(str_), repr(lst)), nontrivial=True, kind='from_numbers:' + ('valid' if label == 'numbers' else 'corrupted'))
    for label, val in [('nested', nested), ('compact', compact)] + nest_corruptions(rng, compact)[:(0 if light else 1 if forced is not None else P['ncorr'])]:
      try:
        r = DNA(val); out = [[G.tree_tr(G.dna_to_tree(r))]]
      except Exception as e:
        out = [[]]; ctx.hist('parse_error', type(e).__name__)
      add([12, nest_tr(val)], out, dict(op='DNA(nested)', value=repr(val), kind=label))
      ctx.count(('parse', repr(val)), nontrivial=True, kind='parse:' + label.split(':')[0])
    try:
      r = pgl.from_json(copy.deepcopy(jv)); out = [[G.tree_tr(G.dna_to_tree(r))]]
    except Exception as e:
      out = [[]]
    add([18] + [verbose[0], verbose[1:]], out, dict(op='from_json(verbose)', spec=sdesc, dna=dstr))
    ctx.count(('verbose', dstr), nontrivial=nontriv, kind='json-verbose')
    # ---- (13) to_dict under every parameter combination, (14) from_dict of the result -------------
    if medium:
      sel = [('id', 'value', 'subchoice'), ('id', 'dna', 'parent'), ('id', 'choice', 'both'), ('name_or_id', 'literal', 'subchoice'), ('dna_spec', 'value', 'both')][:P['nmix']]
      sel += [c for c in rng.sample(combos, P['nmix'] - 2) if c not in sel]
    else: sel = rng.sample(combos, 2) if light else (combos if wi < P['ndict'] else rng.sample(combos, P['nfam'] if forced is not None else 4))
    for kt, vt, mc in sel:
      kti, vti, mci = KTS.index(kt), VTS.index(vt), MCS.index(mc)
      for inactive in ([False, True] if (kti + vti + mci + wi) % 3 == 0 else [False]):
        try:
          dct = d.to_dict(kt, vt, mc, include_inactive_decisions=inactive)
          dtr = dict_tr(dct, ix, kt, vt)
        except Exception as e:   # pylint: disable=broad-except
          ctx.hit('C12/to_dict-raises/%s/%s/%s' % (kt, vt, mc), 'to_dict(%s, %s, %s) of %s raises %s: %s' % (kt, vt, mc, dstr, type(e).__name__, str(e)[:100]),
                  dict(spec=s, sdna=sd, clause='to_dict-raises'))
          add([13, qtr, str_, sdt, kti, vti, mci, int(inactive)], [-2], dict(op='to_dict', spec=sdesc, dna=dstr, params=(kt, vt, mc, inactive)))
          continue
        add([13, qtr, str_, sdt, kti, vti, mci, int(inactive)], [[dtr]], dict(op='to_dict', spec=sdesc, dna=dstr, params=(kt, vt, mc, inactive), result=repr(dct)[:300]))
        ctx.count(('to_dict', trlib.to_line(str_), trlib.to_line(sdt), kt, vt, mc, inactive), nontrivial=nontriv, kind='to_dict',
                  sample=dict(op='to_dict', spec=sdesc, dna=dstr, key_type=kt, value_type=vt, multi_choice_key=mc, result=repr(dct)[:200]) if nontriv and (si + wi + kti * 7 + vti) % 211 == 0 else None)
        ctx.hist('to_dict_params', '%s/%s/%s' % (kt, vt, mc))
        if vt == 'dna' or inactive: continue          # DNA-valued dictionaries: the round trip is checked by the oracle below; they cannot be re-encoded after from_dict consumed them
        ial = vt == 'literal'
        variants = [('view', dct)] + (dict_corruptions(rng, dct)[:2] if wi < 1 and (kti + vti + mci) % 2 == 0 else [])
        for label, dv in variants:
          dv2 = {k: (list(v) if isinstance(v, list) else v) for k, v in dv.items()}
          dtr2 = dict_tr(dv2, ix, kt, vt)
          try:
            r = DNA.from_dict(dv2, pg, use_ints_as_literals=ial); out = [[bound_tree(r, ix)]]
          except Exception as e:
            r = None; out = [[]]; ctx.hist('from_dict_error', type(e).__name__)
          add([14, qtr, str_, dtr2, int(ial)], out, dict(op='from_dict', spec=sdesc, params=(kt, vt, mc), dict=repr(dv)[:300], kind=label, dna=dstr))
          ctx.count(('from_dict', trlib.to_line(str_), trlib.to_line(dtr2), ial), nontrivial=True, kind='from_dict:' + label.split(':')[0])
    # ---- (15) lookups ------------------------------------------------------------------------------
    if light:
      oracle_views(ctx, s, pg, ix, sd, d, sdesc, rng, P, full=False, light=True); ctx.oracle += 1
      continue
    try:
      byid = d._decision_by_id   # pylint: disable=protected-access
      named = d.named_decisions
    except Exception as e:   # pylint: disable=broad-except
      ctx.hit('C12/lookup/tables-raise', 'building the lookup tables of %s raises %s: %s' % (dstr, type(e).__name__, str(e)[:100]), dict(spec=s, sdna=sd, clause='lookup'))
      byid, named = {}, {}
    add([15, qtr, str_, sdt], [dict_tr(byid, ix, 'id', 'dna'),
                               [[[ord(c) for c in k], ([1] + [leaf_tr(e, None, 'dna') for e in v]) if isinstance(v, list) else [0, leaf_tr(v, None, 'dna')]] for k, v in named.items()]],
        dict(op='lookups', spec=sdesc, dna=dstr))
    ctx.count(('lookups', trlib.to_line(str_), trlib.to_line(sdt)), nontrivial=nontriv, kind='lookups')
    # ---- the direct oracle -----------------------------------------------------------------------------
    oracle_views(ctx, s, pg, ix, sd, d, sdesc, rng, P, full=((wi < P['ndict'] or forced is not None) and not light and not medium), light=light); ctx.oracle += 1
  # ---- chains of producers ------------------------------------------------------------------------------
  for ci in range(0 if forced is not None else P['nchains']):
    try:
      oracle_chain(ctx, s, pg, ix, sdesc, pyrandom.Random(seed + ci), fin)
    except Exception as e:   # pylint: disable=broad-except
      ctx.hit('C12/producer-raises/%s' % type(e).__name__, 'a producer chain on %s raises %s: %s' % (sdesc, type(e).__name__, str(e)[:120]), dict(spec=s, clause='alignment', how='chain'))
    ctx.oracle += 1
  return ctx

def process_spec_safe(job):
  """An exception escaping the per-spec driver is itself a failing input (the spec is replayable), never a crash of the check."""
  try:
    return process_spec(job)
  except Exception as e:   # pylint: disable=broad-except
    import traceback
    rec = Rec()
    rec.hit('C12/unexpected-exception/%s' % type(e).__name__,
            'the library raised %s: %s on %s (%s)' % (type(e).__name__, str(e)[:150], G.describe(job[1]), traceback.format_exc().strip().split('\n')[-3].strip()[:120]),
            dict(spec=job[1], clause='alignment', how='driver'))
    return rec

def number_corruptions(rng, nums):
  out = []
  if nums:
    out.append(('drop-last', nums[:-1])); out.append(('extra', nums + [0]))
    i = rng.randrange(len(nums))
    v = nums[i]
    if isinstance(v, int):
      for nv in (v + 1, -1, 7, float(v), 'a'):
        out.append(('replace', nums[:i] + [nv] + nums[i + 1:]))
    elif isinstance(v, float):
      for nv in (v + 4.0, 1, 'a'):
        out.append(('replace', nums[:i] + [nv] + nums[i + 1:]))
    else:
      out.append(('replace', nums[:i] + [1] + nums[i + 1:]))
    if len(nums) >= 2:
      out.append(('swap', [nums[1], nums[0]] + nums[2:]))
  else:
    out.append(('extra', [0]))
  rng.shuffle(out)
  return out

def nest_corruptions(rng, val):
  """Structural variations of a compact value (tuple <-> list, extra nesting, short tuples)."""
  out = []
  if isinstance(val, tuple):
    out.append(('variant:tuple->list', list(val)))
    out.append(('variant:short-tuple', val[:1]))
    out.append(('variant:nested-tuple', (val[0], val[1:]) if len(val) > 2 else (val[0], (val[1], 0))))
    out.append(('variant:tuple-none', (val[0], None)))
    out.append(('variant:str-head', ('a',) + val[1:]))
  elif isinstance(val, list):
    out.append(('variant:wrap-list', [val]))
    out.append(('variant:list->tuple', tuple(val)))
    if val: out.append(('variant:head', (0, val)))
  else:
    out.append(('variant:wrap-scalar', [val])); out.append(('variant:pair', (0, val)))
  rng.shuffle(out)
  return out

def dict_corruptions(rng, dct):
  out = []
  keys = list(dct.keys())
  if keys:
    k = rng.choice(keys)
    d2 = dict(dct); del d2[k]; out.append(('corrupt:drop-key', d2))
    v = dct[k]
    d3 = dict(dct)
    if isinstance(v, list): d3[k] = v[:-1]
    elif isinstance(v, int): d3[k] = v + 5
    elif isinstance(v, str): d3[k] = '9/9'
    else: d3[k] = None
    out.append(('corrupt:bad-value', d3))
  return out

# ------------------------------------------------------------------------------------------------
def same(a, b):
  try:
    eq = a == b
  except Exception:   # pylint: disable=broad-except
    eq = False          # DNA.__eq__ raises ValueError on trees of different shape: certainly not equal
  return eq and G.freeze(G.dna_to_tree(a)) == G.freeze(G.dna_to_tree(b))

def alignment_problem(d, s, sd, ix):
  """None when every node is bound to the decision point of its position."""
  got = bound_tree(d, ix, oval)
  exp = expected_bound(s, sd, oval)
  return None if got == exp else (got, exp)

def oracle_views(ctx, s, pg, ix, sd, d, sdesc, rng, P, full=True, light=False):
  from pyglove.core import geno
  import pyglove as pgl
  DNA = geno.DNA
  mk = mode_key(s)
  tree = G.normalize(sd)
  def fail(clause, disc, what, **kw):
    ctx.hit('C12/%s/%s' % (clause, disc), '%s (spec %s, DNA %s)' % (what, sdesc, d), dict(spec=s, sdna=sd, clause=clause, **kw))
  def attempt(clause, disc, fn):
    try:
      r = fn()
    except Exception as e:   # pylint: disable=broad-except
      fail(clause, disc, 'reconstruction raises %s: %s' % (type(e).__name__, str(e)[:120])); return None
    if not same(r, d):
      fail(clause, disc, 'reconstruction gives %s' % r)
    return r
  attempt('numbers-roundtrip', 'from_numbers', lambda: DNA.from_numbers(d.to_numbers(), pg))
  depth3 = 'conditional-chain>=3' if max_chain(tree) >= 3 else 'other'
  attempt('nested-roundtrip', depth3, lambda: DNA(d.to_numbers(flatten=False), spec=pg))
  attempt('json-roundtrip', 'compact', lambda: pgl.from_json(pgl.to_json(d)))
  attempt('json-roundtrip', 'verbose', lambda: pgl.from_json(d.to_json(compact=False)))
  attempt('json-roundtrip', 'compact-value', lambda: DNA(d.to_json(type_info=False)))
  attempt('json-roundtrip', 'json-str', lambda: pgl.from_json_str(pgl.to_json_str(d)))
  attempt('json-roundtrip', 'json-str-verbose', lambda: pgl.from_json_str(pgl.to_json_str(d, compact=False)))
  # the printed form DNA(<compact value>) reads back through the constructor
  attempt('text-roundtrip', 'repr', lambda: DNA(eval(repr(d)[3:], {})))
  attempt('text-roundtrip', 'str', lambda: DNA(eval(str(d)[3:], {})))
  # the DNA that comes back, re-bound to the specification, is the original in every respect
  def rebound_same():
    r = pgl.from_json_str(pgl.to_json_str(d)).use_spec(pg)
    if r.to_numbers() != d.to_numbers() or repr(r.to_dict()) != repr(d.to_dict()) or repr(r.to_dict('name_or_id', 'literal', 'both')) != repr(d.to_dict('name_or_id', 'literal', 'both')):
      raise ValueError('numbers or dictionary views of the re-bound DNA differ: %r vs %r' % (r.to_numbers(), d.to_numbers()))
    for dp in (pg.decision_points if light else []):
      a, b2 = r[dp], d[dp]
      if (a is None) != (b2 is None) or (a is not None and G.freeze(G.dna_to_tree(a)) != G.freeze(G.dna_to_tree(b2))):
        raise ValueError('lookup of %s differs on the re-bound DNA' % dp.id.path)
    if alignment_problem(r, s, sd, ix): raise ValueError('the re-bound DNA is not aligned')
    return r
  attempt('json-roundtrip', 'rebound', rebound_same)
  allc = [(kt, vt, mc) for kt in KTS for vt in VTS for mc in MCS]
  for kt, vt, mc in (allc if full else rng.sample(allc, 3 if light else 6)):
    if True:
      if True:
        if not view_ok(s, kt, vt): ctx.hist('view_ok', False); continue
        ctx.hist('view_ok', True)
        disc = '%s/%s/%s/%s' % (kt, vt, mc, dict_disc(s))
        attempt('dict-roundtrip', disc, lambda: DNA.from_dict(dict(d.to_dict(kt, vt, mc)), pg, use_ints_as_literals=(vt == 'literal')))
        if full and vt == 'value' and kt == 'name_or_id':
          try:
            rebuilt = DNA.from_numbers(d.to_numbers(), pg)
            if repr(d.to_dict(kt, vt, mc)) != repr(rebuilt.to_dict(kt, vt, mc)):
              fail('views-differ-from-rebuilt', disc, 'to_dict(%s, %s, %s) = %r but the DNA rebuilt from the numbers gives %r' % (kt, vt, mc, d.to_dict(kt, vt, mc), rebuilt.to_dict(kt, vt, mc)))
          except Exception as e:   # pylint: disable=broad-except
            fail('views-differ-from-rebuilt', disc + '/raises', 'rebuilding from numbers raises %s' % type(e).__name__)
  if light:
    pb = alignment_problem(d, s, sd, ix)
    if pb: fail('alignment', 'use_spec', 'nodes are bound to %r, their positions are %r' % pb)
    return
  # lookups: by decision point, by id; by name when the name identifies one decision
  exp = decisions_at(s, sd)
  names = {}
  for dp in pg.decision_points:
    a = ix.addr[id(dp)]
    want = exp[a]
    for how, key in (('decision-point', dp), ('id', dp.id), ('id-string', dp.id.path)):
      try:
        got = d[key]
      except Exception as e:   # pylint: disable=broad-except
        fail('lookup', how + '/raises', 'd[%s] raises %s' % (dp.id.path, type(e).__name__)); continue
      gt = None if got is None else (G.dna_to_tree(got) if isinstance(got, DNA) else 'list')
      if (gt is None) != (want is None) or (want is not None and (gt == 'list' or G.freeze(gt) != G.freeze(want))):
        fail('lookup', how + '/wrong-decision', 'd[%s] = %r but the decision made there is %r' % (dp.id.path, got, want))
    if dp.name: names.setdefault(dp.name, []).append(a)
    if dp.is_categorical and dp.is_subchoice and dp.subchoice_index == 0:
      par = dp.parent_spec
      wantl = exp[('multi',) + a[:-1]]
      try:
        got = d[par]
        gl = None if got is None else [None if x is None else G.freeze(G.dna_to_tree(x)) for x in got]
        wl = None if wantl is None else [None if x is None else G.freeze(x) for x in wantl]
        if gl != wl and not (wl is None and gl is not None and all(x is None for x in gl)):
          fail('lookup', 'multi-choice/wrong-decision', 'd[multi-choice %s] = %r, decisions made: %r' % (par.id.path, got, wantl))
      except Exception as e:   # pylint: disable=broad-except
        fail('lookup', 'multi-choice/raises', 'd[multi-choice %s] raises %s' % (par.id.path, type(e).__name__))
  for nm, addrs in names.items():
    if len(addrs) == 1:
      want = exp[addrs[0]]
      try:
        got = d[nm]
        gt = None if got is None else (G.dna_to_tree(got) if isinstance(got, DNA) else 'list')
        if (gt is None) != (want is None) or (want is not None and (gt == 'list' or G.freeze(gt) != G.freeze(want))):
          fail('lookup', 'name/wrong-decision', 'd[%r] = %r but the decision made there is %r' % (nm, got, want))
      except Exception as e:   # pylint: disable=broad-except
        fail('lookup', 'name/raises', 'd[%r] raises %s' % (nm, type(e).__name__))
  # alignment of this DNA and of its clones
  for how, x in (('use_spec', d), ('clone-deep', d.clone(deep=True)), ('clone', d.clone())):
    pb = alignment_problem(x, s, sd, ix)
    if pb: fail('alignment', how, '%s: nodes are bound to %r, their positions are %r' % (how, pb[0], pb[1]))

def chain_depth(t):
  if t[0] is None or len(t[1]) != 1: return 1 if t[0] is not None else 0
  return 1 + chain_depth(t[1][0])

def max_chain(t):
  return max([chain_depth(t)] + [max_chain(c) for c in t[1]])

def dict_disc(s):
  f = spec_features(s)
  return '+'.join(sorted(x for x in f if x in ('multi', 'named', 'conditional') or x.startswith('lits'))) or 'plain'

# ------------------------------------------------------------------------------------------------
# id structure of the real specification (the model's C12_lookup / dict theorems assume it; here it is CHECKED)
def id_keys(kp):
  from pyglove.core.geno.base import ConditionalKey
  return tuple(('cond', k.index, k.num_choices) if isinstance(k, ConditionalKey) else k for k in kp.keys)

def expected_ids(s):
  """address -> keys of the id, from the description alone: an id is the path from the root (locations, subchoice indices,
  [=candidate/n] for the candidate spaces passed).  Also address -> address of the enclosing choice (or subchoice)."""
  ids, parent = {}, {}
  def space(sp, prefix, a, owner):
    ids[a] = prefix
    for i, pt in enumerate(sp[1]): point(pt, prefix, a + (i,), owner)
  def point(pt, prefix, a, owner):
    loc = pt[5] if pt[0] == 'C' else pt[3] if pt[0] == 'F' else pt[1]
    pid = prefix + tuple(loc)
    ids[a] = pid; parent[a] = owner
    if pt[0] != 'C': return
    n = len(pt[2])
    if pt[1] == 1:
      for j, c in enumerate(pt[2]): space(c, pid + (('cond', j, n),), a + (j,), a)
    else:
      for i in range(pt[1]):
        ids[a + (i,)] = pid + (i,); parent[a + (i,)] = owner
        for j, c in enumerate(pt[2]): space(c, pid + (i, ('cond', j, n)), a + (i, j), a + (i,))
  space(s, (), (), None)
  return ids, parent

def to_hyper(s):
  """The hyper value whose dna_spec is this specification (None when the description has no such value: custom points,
  locations other than one attribute name, repeated attribute names)."""
  import pyglove as pgl
  class NA(Exception): pass
  def space(sp, top=False):
    if not sp[1]: return None if not top else pgl.Dict()
    out = {}
    for pt in sp[1]:
      loc = pt[5] if pt[0] == 'C' else pt[3] if pt[0] == 'F' else pt[1]
      if len(loc) != 1 or not isinstance(loc[0], str) or not loc[0].isidentifier() or loc[0] in out: raise NA()
      out[loc[0]] = point(pt)
    return pgl.Dict(out)
  def point(pt):
    if pt[0] == 'X': raise NA()
    if pt[0] == 'F': return pgl.floatv(float(pt[1]), float(pt[2]), name=pt[4])
    cands = []
    for j, c in enumerate(pt[2]):
      v = space(c)
      cands.append('const%d' % j if v is None else v)
    if pt[1] == 1: return pgl.oneof(cands, name=pt[6])
    return pgl.manyof(pt[1], cands, distinct=pt[3], sorted=pt[4], name=pt[6])
  try:
    return space(s, top=True)
  except NA:
    return None

def id_listing(pg):
  """Every id a specification hands out, in a fixed order: decision points (with subchoices), multi-choices, candidate spaces."""
  out = []
  def space(sp):
    out.append(('space', id_keys(sp.id)))
    for e in sp.elements:
      out.append(('point', id_keys(e.id)))
      if e.is_categorical:
        subs = [e.subchoice(i) for i in range(e.num_choices)] if e.num_choices > 1 else [e]
        for sub in subs:
          if sub is not e: out.append(('subchoice', id_keys(sub.id)))
          for c in sub.candidates: space(c)
  space(pg)
  out.append(('decision_points', tuple(id_keys(dp.id) for dp in pg.decision_points)))
  return out

def oracle_ids(ctx, s, pg, ix, sdesc):
  """The id of every node of the real specification is its path from the root; ids are unique when the paths are; every id
  extends the id of the choice it is conditioned on; and the ids are the same however the specification was obtained
  (deep clone, JSON round trip, dna_spec of the equivalent hyper value, nested afterwards under a new choice)."""
  from pyglove.core import geno
  import pyglove as pgl
  case = dict(spec=s, clause='ids')
  exp, parent = expected_ids(s)
  ctx.oracle += 1
  def fmt(keys): return '.'.join('[=%d/%d]' % k[1:] if isinstance(k, tuple) else str(k) for k in keys)
  def compare(tag, spec2, ix2, prefix=()):
    for a, want in exp.items():
      got = id_keys(ix2.obj[a].id)
      if got != prefix + want:
        node = 'space' if a not in ix2.kind else 'point'
        ctx.hit('C12/id-structure/%s/%s-id-is-not-its-path' % (tag, node),
                '%s: the %s at address %s has id %r but its path from the root is %r (spec %s)' % (tag, node, list(a), fmt(got), fmt(prefix + want), sdesc), case)
        return False
    return True
  if not compare('as-built', pg, ix): return False
  # the decision point list: same nodes as the walk, ids unique when the paths are, each under its parent choice
  dps = list(pg.decision_points)
  paths = [dp.id.path for dp in dps]
  want_unique = len(set(exp[ix.addr[id(dp)]] for dp in dps)) == len(dps)
  if want_unique and len(set(paths)) != len(paths):
    dup = sorted(x for x in set(paths) if paths.count(x) > 1)
    ctx.hit('C12/id-structure/ids-not-unique', 'decision point ids repeat: %r (spec %s)' % (dup[:3], sdesc), case); return False
  for dp in dps:
    a = ix.addr[id(dp)]
    pa = parent[a]
    pc = dp.parent_choice
    if (pa is None) != (pc is None) or (pa is not None and pc is not ix.obj[pa]):
      ctx.hit('C12/id-structure/parent-choice', 'the decision point %s at %s reports parent choice %s, expected the one at %s (spec %s)' % (dp.id.path, list(a), pc and pc.id.path, pa and list(pa), sdesc), case)
      return False
    if pc is not None:
      pk, k = id_keys(pc.id), id_keys(dp.id)
      if k[:len(pk)] != pk or len(k) <= len(pk) or not (isinstance(k[len(pk)], tuple)):
        ctx.hit('C12/id-structure/id-does-not-extend-parent', 'id %r is not the id of its parent choice %r followed by a candidate key (spec %s)' % (dp.id.path, pc.id.path, sdesc), case)
        return False
    if dp.is_categorical and dp.is_subchoice:
      if id_keys(dp.id) != id_keys(dp.parent_spec.id) + (dp.subchoice_index,):
        ctx.hit('C12/id-structure/subchoice-id', 'subchoice id %r is not %r + [%d] (spec %s)' % (dp.id.path, dp.parent_spec.id.path, dp.subchoice_index, sdesc), case); return False
  # other ways of obtaining the same specification
  base = id_listing(pg)
  variants = [('deep-clone', lambda: pg.clone(deep=True)), ('json-round-trip', lambda: pgl.from_json(pg.to_json())),
              ('json-str-round-trip', lambda: pgl.from_json_str(pg.to_json_str()))]
  hv = to_hyper(s)
  if hv is not None: variants.append(('dna_spec-of-hyper-value', lambda: pgl.dna_spec(hv)))
  ctx.hist('id_structure_variants', 'with-hyper-value' if hv is not None else 'without-hyper-value')
  for tag, make in variants:
    try:
      other = make()
      lst = id_listing(other)
    except Exception as e:   # pylint: disable=broad-except
      ctx.hit('C12/id-structure/%s/raises' % tag, '%s of the specification raises %s: %s (spec %s)' % (tag, type(e).__name__, str(e)[:120], sdesc), case); return False
    if lst != base:
      bad = next((x, y) for x, y in zip(lst + [None], base + [None]) if x != y)
      ctx.hit('C12/id-structure/%s/ids-differ' % tag, 'after %s the ids differ: %r instead of %r (spec %s)' % (tag, bad[0], bad[1], sdesc), case); return False
  # nested afterwards: the finished specification becomes candidate 1 of a new choice 'w' (every id gains the prefix w[=1/2]),
  # and that one a candidate of a multi-choice 'v' (prefix v[i][=0/2].w[=1/2]): a path change pushed through a finished tree
  try:
    inner = pg.clone(deep=True)
    outer = geno.Space([geno.Choices(1, [geno.Space([]), inner], location='w')])
    ix2 = SpecIndex(s, inner)
    if not compare('nested-under-new-choice', inner, ix2, ('w', ('cond', 1, 2))): return False
    outer2 = geno.Space([geno.Choices(2, [outer, geno.Space([])], distinct=False, location='v')])
    sub1 = outer2.elements[0].subchoice(1)
    inner1 = sub1.candidates[0].elements[0].candidates[1]
    if not compare('nested-under-new-multi-choice', inner1, SpecIndex(s, inner1), ('v', 1, ('cond', 0, 2), 'w', ('cond', 1, 2))): return False
    allp = [dp.id.path for dp in outer2.decision_points]
    if want_unique and len(set(allp)) != len(allp):
      ctx.hit('C12/id-structure/nested-under-new-multi-choice/ids-not-unique', 'decision point ids repeat after nesting under v / w (spec %s)' % sdesc, case); return False
  except Exception as e:   # pylint: disable=broad-except
    ctx.hit('C12/id-structure/nesting/raises', 'nesting the finished specification under a new choice raises %s: %s (spec %s)' % (type(e).__name__, str(e)[:120], sdesc), case); return False
  return True

def run_all_lookups(d, pg):
  """Every lookup API of a DNA (also primes its lazily built tables).  Returns {query: raw result}; an exception is a result."""
  out = {}
  def q(key, fn):
    try:
      out[key] = fn()
    except Exception as e:   # pylint: disable=broad-except
      out[key] = ('raises', type(e).__name__)
  seen_parents = set()
  for dp in pg.decision_points:
    path = dp.id.path
    q(('decision-point', path), lambda: d[dp])
    q(('id-keypath', path), lambda: d[dp.id])
    q(('id-string', path), lambda: d[path])
    q(('get', path), lambda: d.get(path))
    if dp.name: q(('name', dp.name), lambda: d[dp.name]); q(('get-name', dp.name), lambda: d.get(dp.name))
    if dp.is_categorical and dp.is_subchoice and id(dp.parent_spec) not in seen_parents:
      seen_parents.add(id(dp.parent_spec)); par = dp.parent_spec
      q(('multi-choice', par.id.path), lambda: d[par]); q(('multi-choice-id', par.id.path), lambda: d[par.id.path])
  q(('named_decisions',), lambda: dict(d.named_decisions))
  q(('decision_ids',), lambda: [str(x) for x in d.decision_ids])
  q(('get-missing',), lambda: d.get('no such decision', 'dflt'))
  nodes = []
  def walk(n):
    nodes.append(n)
    for c in n.children: walk(c)
  walk(d)
  q(('is_subchoice',), lambda: [n.is_subchoice for n in nodes])
  q(('is_multi_choice_container',), lambda: [n.is_multi_choice_container for n in nodes])
  q(('literal_value',), lambda: repr(d.literal_value))
  return out, nodes

def canon_lookup(v):
  from pyglove.core.geno import DNA
  if isinstance(v, DNA): return ('dna', G.freeze(G.dna_to_tree(v)))
  if isinstance(v, list): return ('list', tuple(canon_lookup(x) for x in v))
  if isinstance(v, dict): return ('dict', tuple((k, canon_lookup(x)) for k, x in v.items()))
  if isinstance(v, tuple): return v
  return ('val', repr(v))

def foreign_nodes(v, own_ids):
  """DNA nodes in a lookup result that are not nodes of the DNA that was asked."""
  from pyglove.core.geno import DNA
  if isinstance(v, DNA): return [] if id(v) in own_ids else [v]
  if isinstance(v, list): return [x for e in v for x in foreign_nodes(e, own_ids)]
  if isinstance(v, dict): return [x for e in v.values() for x in foreign_nodes(e, own_ids)]
  return []

def check_lookups(ctx, s, pg, sdesc, d, how, history):
  """Every lookup on a DNA handed out by the library equals the same lookup on the DNA rebuilt from its numbers, and the
  nodes it returns are nodes of that DNA's own tree."""
  from pyglove.core.geno import DNA
  case = dict(spec=s, clause='alignment', how=how, history=history)
  got, nodes = run_all_lookups(d, pg)
  own = {id(n) for n in nodes}
  try:
    rebuilt = DNA.from_numbers(d.to_numbers(), pg)
  except Exception as e:   # pylint: disable=broad-except
    ctx.hit('C12/views-differ-from-rebuilt/%s/raises' % how, 'after %s, rebuilding %s from its numbers raises %s' % (how, d, e), case); return False
  exp, _ = run_all_lookups(rebuilt, pg)
  for key in got:
    if canon_lookup(got[key]) != canon_lookup(exp[key]):
      ctx.hit('C12/lookup-after-producer/%s/%s' % (how, key[0]),
              'after %s (history %s) the lookup %r on %s gives %r but on the DNA rebuilt from its numbers %r (spec %s)' % (how, history, key, d, got[key], exp[key], sdesc), case)
      return False
    alien = foreign_nodes(got[key], own)
    if alien:
      ctx.hit('C12/lookup-returns-foreign-node/%s/%s' % (how, key[0]),
              'after %s (history %s) the lookup %r on %s returns the node %s which is not a node of that DNA (spec %s)' % (how, history, key, d, alien[0], sdesc), case)
      return False
  return True

def check_aligned(ctx, s, pg, ix, sdesc, d, how, history):
  """A DNA handed out by the library: every node bound to the decision point of its position, and views equal
  to those of the DNA rebuilt from its numbers."""
  from pyglove.core import geno
  DNA = geno.DNA
  tree = G.dna_to_tree(d)
  sd = G.parse_tree(s, tree)
  case = dict(spec=s, clause='alignment', how=how, history=history)
  if sd is None:
    ctx.hit('C12/producer-invalid/%s' % how, '%s returned %s which is not a valid DNA of %s (history %s)' % (how, d, sdesc, history), case); return False
  pb = alignment_problem(d, s, sd, ix)
  if pb:
    ctx.hit('C12/alignment/%s' % how, 'after %s the nodes of %s are bound to %r but their positions are %r (spec %s, history %s)' % (how, d, pb[0], pb[1], sdesc, history), case)
    return False
  try:
    rebuilt = DNA.from_numbers(d.to_numbers(), pg)
    for kw in (dict(), dict(value_type='literal'), dict(key_type='name_or_id', multi_choice_key='parent'), dict(value_type='choice_and_literal', multi_choice_key='both')):
      if repr(d.to_dict(**kw)) != repr(rebuilt.to_dict(**kw)):
        ctx.hit('C12/views-differ-from-rebuilt/%s' % how, 'after %s, %s.to_dict(%s) = %r but the DNA rebuilt from its numbers gives %r' % (how, d, kw, d.to_dict(**kw), rebuilt.to_dict(**kw)), case)
        return False
  except Exception as e:   # pylint: disable=broad-except
    ctx.hit('C12/views-differ-from-rebuilt/%s/raises' % how, 'after %s, rebuilding %s from its numbers raises %s' % (how, d, e), case); return False
  return True

def oracle_chain(ctx, s, pg, ix, sdesc, rng, fin):
  """iter / random -> clone -> mutate -> recombine ..., checking every DNA handed out."""
  from pyglove.core import geno
  from pyglove.ext.evolution import mutators, recombinators
  DNA = geno.DNA
  has_custom = 'custom' in mode_key(s)
  pool = []
  hist = []
  def take(d, how):
    hist.append(how)
    ctx.hist('chain_steps', how)
    if check_aligned(ctx, s, pg, ix, sdesc, d, how, list(hist)) and check_lookups(ctx, s, pg, sdesc, d, how, list(hist)): pool.append(d)
  def pick():
    """An input of the next producing step; querying it first is part of the case (it builds the lazily cached lookup tables)."""
    d = rng.choice(pool)
    if rng.random() < 0.6:
      run_all_lookups(d, pg); hist.append('query'); ctx.hist('chain_steps', 'query-before-step')
    return d
  if fin:
    it = pg.iter_dna()
    for _ in range(rng.randint(1, 3)):
      try: take(next(it), 'iter_dna')
      except StopIteration: break
    if pool: 
      nd = pool[-1].next_dna()
      if nd is not None: take(nd, 'next_dna')
  if not has_custom:
    for _ in range(2): take(pg.random_dna(pyrandom.Random(rng.getrandbits(30))), 'random_dna')
    take(pg.first_dna(), 'first_dna')
  else:
    for _ in range(2): take(DNA.from_numbers(G.build_dna(G.random_sdna(rng, s)).to_numbers(), pg), 'from_numbers')
  if not pool: return
  take(DNA(pick().to_json(type_info=False), spec=pg), 'parse+use_spec')
  take(DNA.from_dict(pick().to_dict(), pg), 'from_dict')
  take(pick().clone(deep=True), 'clone')
  for step in range(rng.randint(2, 4)):
    r = rng.random()
    try:
      if r < 0.3 and not has_custom:
        take(mutators.Uniform(seed=rng.getrandbits(20)).mutate(pick()), 'mutators.Uniform')
      elif r < 0.55:
        take(mutators.Swap(seed=rng.getrandbits(20)).mutate(pick()), 'mutators.Swap')
      elif r < 0.7:
        take(pick().clone(deep=rng.random() < 0.5), 'clone')
      else:
        cls, name = rng.choice([(lambda sd_: recombinators.Uniform(seed=sd_), 'recombinators.Uniform'),
                                (lambda sd_: recombinators.Sample(seed=sd_), 'recombinators.Sample'),
                                (lambda sd_: recombinators.KPoint(1, seed=sd_), 'recombinators.KPoint')])
        a, b = pick(), pick()
        kids = cls(rng.getrandbits(20)).recombine([a, b], global_state=geno.AttributeDict(), step=0) if False else _recombine(cls(rng.getrandbits(20)), [a, b])
        for k in kids: take(k, name)
    except NotImplementedError:
      ctx.hist('chain_steps', 'not-implemented')
    except Exception as e:   # pylint: disable=broad-except
      ctx.hist('chain_operator_error', '%s:%s' % (hist[-1] if hist else '', type(e).__name__))

def _recombine(op, parents):
  from pyglove.core import geno
  try:
    return op.recombine(parents, global_state=geno.AttributeDict(), step=0)
  except TypeError:
    return op.recombine(parents)

# ------------------------------------------------------------------------------------------------
def decorate(rng, s, ctr):
  """Adds names and literal values to a spec from the small scope."""
  def sp(s): return ('S', [pt(p) for p in s[1]])
  def pt(p):
    if p[0] != 'C': return p
    _, k, cands, dist, srt, loc, name, lits = p
    n = len(cands)
    if rng.random() < 0.4:
      ctr[0] += 1; name = 'n%d' % ctr[0]
    r = rng.random()
    if r < 0.35: lits = tuple('v%d' % j for j in range(n))
    elif r < 0.5: lits = tuple(10 + j for j in range(n))
    elif r < 0.6: lits = tuple(j + 0.5 for j in range(n))
    return ('C', k, [sp(c) for c in cands], dist, srt, loc, name, lits)
  return sp(s)

def run(ctx):
  ctx.build()
  import os
  rng = ctx.rng
  Q = dict(c11_quirks(ctx))
  Q['nested_lossy'] = nested_is_lossy()
  ctx.extra['quirk_flags_from_witness_replay'] = Q
  import time
  P = dict(ndna=ctx.scale(2, 6), ndict=ctx.scale(1, 2), ncorr=ctx.scale(3, 6), nchains=ctx.scale(1, 3), all_small=ctx.thorough, nfam=ctx.scale(9, 45), nmix=ctx.scale(3, 5),
           deadline=time.time() + ctx.scale(85, 1100))
  ctx.extra['per_spec_parameters'] = {k: v for k, v in P.items() if k != 'deadline'}
  small = G.small_specs()
  small2 = [s for s in small if G.count_points(s) <= 2]
  small3 = [s for s in small if G.count_points(s) == 3]
  ctr = [0]
  n2, n3, nr = ctx.scale(8, 400), ctx.scale(6, 500), ctx.scale(10, 600)
  chosen = [decorate(rng, small2[i], ctr) for i in sorted(rng.sample(range(len(small2)), n2))] + \
           [decorate(rng, small3[i], ctr) for i in sorted(rng.sample(range(len(small3)), n3))]
  rand_specs = []
  for i in range(nr):
    rand_specs.append(G.random_spec(rng, budget=rng.choice([3, 4, 5, 6]), d=rng.choice([2, 3, 3, 4]), allow_inf=rng.random() < 0.5,
                                    names=True, lits=True, max_cands=rng.choice([2, 3, 4]), max_k=3, _ctr=ctr))
  from harness.props.c11 import FIXED_SPECS
  # systematic: every kind of decision point x named/unnamed inside a candidate of a manyof in all four modes, active once / twice
  family = G.shared_point_family(ks=(2, 3) if ctx.thorough else (2,))
  if not ctx.thorough:   # quick: without the variants that also name the outer multi-choice
    family = [(l, sp, [x for x in ds if x[0] != 'twice-different-rev']) for l, sp, ds in family
              if 'outer-named' not in l and not (l.split('/')[1] == 'choice+lits' and l.endswith('unnamed'))]
  ctx.extra['shared_point_family'] = dict(specs=len(family), dnas=sum(len(d) for _, _, d in family),
      what='choice / choice+literals / float / custom x named/unnamed (x outer named) inside candidate 1 of manyof(k, 3 candidates) in all four distinct x sorted modes; '
           'DNAs pick that candidate once, twice with equal and twice with different sub-values; every one of the 45 view combinations is round-tripped by the oracle')
  # systematic: chains oneof -> oneof -> ... of depth 1..4 ending in every kind of sub-space, every branch chosen; all serialisations
  chains = G.nesting_chain_family(max_depth=4 if ctx.thorough else 3)
  if not ctx.thorough:    # quick: the sibling variant only for the deepest chains
    chains = [c for c in chains if '+sibling' not in c[0] or (c[0].startswith('depth2') and '/first' in c[0])]
  ctx.extra['nesting_chain_family'] = dict(specs=len(chains), dnas=sum(len(d) for _, _, d in chains),
      what='oneof -> oneof -> ... (depth 1..%d, continuing candidate first / last, alone or next to a sibling point) ending in leaf / float / custom / Space with 2 or 3 points / manyof k=2,3 / manyof with nested choices; '
           'every branch chosen; compact, verbose, json_str, nested numbers and printed form are round-tripped and the re-bound DNA compared (equality, numbers, views, lookups, alignment)' % (4 if ctx.thorough else 3))
  # systematic: two branches with identical inner locations, every sequence of oneof / manyof levels, ending in a decision point
  mixed = G.mixed_nesting_family(max_depth=4 if ctx.thorough else 3, kinds='OMN' if ctx.thorough else 'OM')
  if not ctx.thorough:
    # quick: depth 1 as siblings; depth 2 with the float terminal in all three arrangements; depth 3 as siblings with the float
    # terminal, and with the other terminals for the alternating sequences; non-distinct multi-choice levels at depth <= 2 as siblings
    def keep(label):
      dp, seq, term, arr = label.split('/')
      if dp == 'depth1': return arr == 'siblings'
      if dp == 'depth2': return term == 'float'
      return arr == 'siblings' and (term == 'float' or seq in ('OMO', 'MOM'))
    mixed = [m for m in mixed if keep(m[0])]
    mixed += [m for m in G.mixed_nesting_family(max_depth=2, kinds='OMN', terminals=('float',), arrangements=('siblings',)) if 'N' in m[0].split('/')[1]]
    mixed.sort(key=lambda m: -len(m[0].split('/')[1]))      # deepest first: a wall-clock cut on a slow machine drops the shallow ones
  else:
    # thorough: depth <= 2 complete; depth 3 complete as siblings, float terminal in the other arrangements; depth 4 over oneof / manyof as siblings, float terminal
    def keep(label):
      dp, seq, term, arr = label.split('/')
      if dp in ('depth1', 'depth2'): return True
      if dp == 'depth3': return arr == 'siblings' or term == 'float'
      return arr == 'siblings' and term == 'float' and 'N' not in seq
    mixed = [m for m in mixed if keep(m[0])]
  ctx.extra['mixed_nesting_family'] = dict(specs=len(mixed), dnas=sum(len(d) for _, _, d in mixed),
      what='two branches with identical inner locations (sibling points a1/a2, two candidates of a oneof, two subchoices of a non-distinct manyof); a branch is every sequence of '
           'oneof / manyof(2) / non-distinct manyof(2) levels up to the depth of the tier ending in float / choice / custom; DNAs with both branches active (different decisions) and with one stopped; '
           'id structure checked on the real spec and all view / dict / lookup round trips run')
  tail = [(s, 'small+names/literals') for s in chosen] + [(s, 'random') for s in rand_specs]
  rng.shuffle(tail)      # a wall-clock cut on a busy machine then hits both groups proportionally
  specs = [(s, 'fixed') for s in FIXED_SPECS + FIXED_C12] + [(s, ('shared-point-family', dnas)) for _, s, dnas in family] + \
          [(s, ('nesting-chain-family', dnas)) for _, s, dnas in chains] + [(s, ('mixed-nesting-family', dnas)) for _, s, dnas in mixed] + tail
  if os.environ.get('C12_MAXSPECS'):
    specs = specs[::max(1, len(specs) // int(os.environ['C12_MAXSPECS']))]
  jobs = [(si, s, origin, rng.getrandbits(48), Q, P) for si, (s, origin) in enumerate(specs)]
  nproc = int(os.environ.get('VERIF_JOBS', str(min(12, os.cpu_count() or 2))))
  recs = run_jobs_with(process_spec_safe, jobs, nproc)
  ctx.log('implementation ran on %d specifications (%d worker processes)' % (len(specs), nproc))
  cases, impl, descr = [], [], []
  ocount = 0
  for r in recs:
    cases += r.cases; impl += r.impl; descr += r.descr; ocount += r.oracle
    for ev in r.events:
      if ev[0] == 'count': ctx.count(ev[1], nontrivial=ev[2], sample=ev[3], kind=ev[4])
      elif ev[0] == 'hist': ctx.hist(ev[1], ev[2], ev[3])
      else: ctx.hit(ev[1], ev[2], ev[3])
  ctx.log('%d cases over %d specifications; running the model' % (len(cases), len(specs)))
  outs = ctx.model_run(cases)
  look = {id(c): d for c, d in zip(cases, descr)}
  bad = ctx.compare('Geno.run (views) vs pyglove.core.geno', cases, impl, outs, describe=lambda c: look.get(id(c)))
  if os.environ.get('GENO_DEBUG'):
    import json
    with open(os.environ['GENO_DEBUG'], 'w') as f:
      for i in bad:
        f.write(json.dumps(dict(descr=descr[i], case=trlib.to_line(cases[i]), impl=trlib.to_line(impl[i]), model=None if outs[i] is None else trlib.to_line(outs[i])), default=str) + '\n')
  ctx.extra['oracle_evaluations'] = ocount
  ctx.exhaustive = False

FIXED_C12 = [
    # a chain of three single choices (nested numbers), a named multi-choice with literals, a named choice inside a multi-choice
    ('S', [('C', 1, [('S', []), ('S', [('C', 1, [('S', []), ('S', []), ('S', [('C', 1, [('S', [])] * 3, True, False, ('z',), None, ())])], True, False, ('y',), None, ())])], True, False, ('x',), None, ())]),
    ('S', [('C', 1, [('S', []), ('S', [('C', 2, [('S', []), ('S', []), ('S', [('F', 0.0, 1.0, ('f',), None)])], True, False, ('m',), 'mm', ('a', 'b', 'c'))])], True, False, ('x',), None, ()),
           ('X', ('c',), None)]),
    ('S', [('C', 2, [('S', []), ('S', [('C', 1, [('S', [])] * 2, True, False, ('q',), 'qq', ())]), ('S', [])], False, False, ('m',), 'mm', ()), ('F', 0.0, 1.0, ('f',), 'ff')]),
    ('S', [('C', 3, [('S', [])] * 3, True, False, ('p',), None, ('a', 'b', 'c'))]),
    ('S', [('C', 2, [('S', [])] * 3, True, True, ('a',), None, (10, 11, 12)), ('C', 1, [('S', [])] * 2, True, False, ('b',), 'nb', (0.5, 1.5))]),
]

def _spec_from_json(j):
  if j[0] == 'S': return ('S', [_spec_from_json(p) for p in j[1]])
  if j[0] == 'C': return ('C', j[1], [_spec_from_json(c) for c in j[2]], j[3], j[4], tuple(j[5]), j[6], tuple(j[7]))
  if j[0] == 'F': return ('F', j[1], j[2], tuple(j[3]), j[4])
  return ('X', tuple(j[1]), j[2])

def _sdna_from_json(j):
  out = []
  for p in j:
    if p[0] == 'c': out.append(('c', [(c, _sdna_from_json(sub)) for c, sub in p[1]]))
    else: out.append((p[0], p[1]))
  return out

def replay(ctx, rp):
  c = rp['case']
  s = _spec_from_json(c['spec'])
  pg = G.to_pg(s)
  ix = SpecIndex(s, pg)
  p = Rec()
  oracle_ids(p, s, pg, ix, G.describe(s))
  if c.get('clause') == 'ids':
    pass
  elif 'sdna' in c:
    sd = _sdna_from_json(c['sdna'])
    d = G.build_dna(sd).use_spec(pg)
    oracle_views(p, s, pg, ix, sd, d, G.describe(s), pyrandom.Random(0), {})
  else:
    for seed in range(40):
      oracle_chain(p, s, pg, ix, G.describe(s), pyrandom.Random(seed), G.is_finite(s))
  hits = [e for e in p.events if e[0] == 'hit']
  for h in hits[:5]:
    print('  still fails:', h[1], h[2][:300])
  return not hits
